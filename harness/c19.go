package main

import (
	"bufio"
	"encoding/json"
	"fmt"
	"os"

	"github.com/go-openapi/spec"
)

// apply c19: for every input line {"doc": <swagger document>} emit what the implementation makes of it:
// its re-encoding after a decode, and the encoding of its full expansion (in memory, no loader).
func applyC19(in, out string) error {
	f, err := os.Open(in)
	if err != nil {
		return err
	}
	defer f.Close()
	o, err := os.Create(out)
	if err != nil {
		return err
	}
	defer o.Close()
	w := bufio.NewWriterSize(o, 1<<20)
	defer w.Flush()
	sc := bufio.NewScanner(f)
	sc.Buffer(make([]byte, 1<<20), 1<<26)
	for sc.Scan() {
		var c struct {
			Doc   json.RawMessage `json:"doc"`
			Spell bool            `json:"spell"` // decode another text of the same value: strings and member names written with escapes
		}
		if err := json.Unmarshal(sc.Bytes(), &c); err != nil {
			return err
		}
		if c.Spell {
			c.Doc = respellJSON(c.Doc)
		}
		res := orderedMap{}
		func() {
			defer func() {
				if r := recover(); r != nil {
					res = append(res, kv{"panic", fmt.Sprint(r)})
				}
			}()
			var sw spec.Swagger
			if err := json.Unmarshal(c.Doc, &sw); err != nil {
				res = append(res, kv{"rt_err", err.Error()})
				return
			}
			b, err := json.Marshal(sw)
			if err != nil {
				// the document decoded: that its value does not encode is not "the document does not decode"
				res = append(res, kv{"encode_err", err.Error()})
				return
			}
			res = append(res, kv{"roundtrip", json.RawMessage(b)})
			var sw2 spec.Swagger
			_ = json.Unmarshal(c.Doc, &sw2)
			loader := func(u string) (json.RawMessage, error) { return nil, fmt.Errorf("no external document: %s", u) }
			if err := spec.ExpandSpec(&sw2, &spec.ExpandOptions{RelativeBase: "file:///c19/root.json", PathLoader: loader}); err != nil {
				res = append(res, kv{"ex_err", err.Error()})
				return
			}
			b2, err := json.Marshal(sw2)
			if err != nil {
				res = append(res, kv{"encode_err", "after a successful expansion: " + err.Error()})
				return
			}
			res = append(res, kv{"expanded", json.RawMessage(b2)})
		}()
		b, _ := json.Marshal(res)
		w.Write(b)
		w.WriteByte('\n')
	}
	return sc.Err()
}

func init() { appliers["c19"] = applyC19 }
