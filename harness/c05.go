package main

import (
	"bufio"
	"encoding/json"
	"fmt"
	"os"

	"github.com/go-openapi/spec"
)

// apply resolve: re-run one recorded resolve / resolve_ref case on the implementation.
func applyResolve(in, out string) error {
	f, err := os.Open(in)
	if err != nil {
		return err
	}
	defer f.Close()
	o, err := os.Create(out)
	if err != nil {
		return err
	}
	defer o.Close()
	w := bufio.NewWriter(o)
	defer w.Flush()
	sc := bufio.NewScanner(f)
	sc.Buffer(make([]byte, 1<<20), 1<<26)
	for sc.Scan() {
		var c map[string]interface{}
		if err := json.Unmarshal(sc.Bytes(), &c); err != nil {
			return err
		}
		docs := map[string]json.RawMessage{}
		if dm, ok := c["docs"].(map[string]interface{}); ok {
			for k, v := range dm {
				b, _ := json.Marshal(v)
				docs[k] = b
			}
		}
		missing := map[string]bool{}
		if ms, ok := c["missing"].([]interface{}); ok {
			for _, m := range ms {
				missing[fmt.Sprint(m)] = true
			}
		}
		root, _ := c["root"].(string)
		ref, _ := c["ref"].(string)
		kind, _ := c["kind"].(string)
		mode, _ := c["root_mode"].(string)
		op, _ := c["op"].(string)
		loader := func(u string) (json.RawMessage, error) {
			if d, ok := docs[u]; ok && !missing[u] {
				return d, nil
			}
			return nil, fmt.Errorf("no such document: %s", u)
		}
		goOut := orderedMap{}
		func() {
			defer func() {
				if r := recover(); r != nil {
					goOut = orderedMap{{"err", true}, {"panic", fmt.Sprint(r)}}
				}
			}()
			var rootVal interface{}
			switch mode {
			case "typed":
				sw := new(spec.Swagger)
				if err := json.Unmarshal(docs[root], sw); err == nil {
					rootVal = sw
				}
			case "generic":
				var g interface{}
				if err := json.Unmarshal(docs[root], &g); err == nil {
					rootVal = g
				}
			}
			r, err := spec.NewRef(ref)
			if err != nil {
				goOut = orderedMap{{"err", true}}
				return
			}
			opts := &spec.ExpandOptions{RelativeBase: root, PathLoader: loader}
			var res interface{}
			if op == "resolve_ref" {
				res, err = spec.ResolveRef(rootVal, &r)
			} else {
				switch kind {
				case "Schema":
					res, err = spec.ResolveRefWithBase(rootVal, &r, opts)
				case "Parameter":
					res, err = spec.ResolveParameterWithBase(rootVal, r, opts)
				case "Response":
					res, err = spec.ResolveResponseWithBase(rootVal, r, opts)
				case "PathItem":
					res, err = spec.ResolvePathItemWithBase(rootVal, r, opts)
				case "Items":
					res, err = spec.ResolveItemsWithBase(rootVal, r, opts)
				default:
					err = fmt.Errorf("unknown kind %s", kind)
				}
			}
			if err != nil {
				goOut = orderedMap{{"err", true}}
				return
			}
			b, merr := json.Marshal(res)
			if merr != nil {
				goOut = orderedMap{{"err", true}}
				return
			}
			goOut = orderedMap{{"err", false}, {"out", json.RawMessage(b)}}
		}()
		c["go"] = goOut
		b, _ := json.Marshal(c)
		w.Write(b)
		w.WriteByte('\n')
	}
	return sc.Err()
}

func init() { appliers["resolve"] = applyResolve }
