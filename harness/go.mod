module verif/harness

go 1.20

require (
	github.com/go-openapi/jsonpointer v0.21.1
	github.com/go-openapi/jsonreference v0.21.0
	github.com/go-openapi/spec v0.0.0
	github.com/go-openapi/swag v0.23.1
)

require (
	github.com/josharian/intern v1.0.0 // indirect
	github.com/mailru/easyjson v0.9.0 // indirect
	gopkg.in/yaml.v3 v3.0.1 // indirect
)

replace github.com/go-openapi/spec => /repo
