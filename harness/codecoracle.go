package main

import (
	"bytes"
	"encoding/base64"
	"encoding/json"
	"fmt"
	"hash/fnv"
	"reflect"
	"sort"
	"strconv"
	"strings"
	"time"

	"github.com/go-openapi/spec"
)

// ---------------------------------------------------------------------------------------------
// replayable inputs

type nestSpec struct {
	Open  string `json:"open"`
	Core  string `json:"core"`
	Close string `json:"close"`
	N     int    `json:"n"`
}

// codecInput designates the bytes given to the decoder of Kind: a JSON document, raw bytes, a
// deeply nested text described by its period, or a value made by the builder API from a seed.
type codecInput struct {
	Kind    string          `json:"kind"`
	Doc     json.RawMessage `json:"doc,omitempty"`
	Raw     string          `json:"raw_b64,omitempty"`
	Nest    *nestSpec       `json:"nest,omitempty"`
	Builder *uint64         `json:"builder_seed,omitempty"`
	MadeFor string          `json:"made_for,omitempty"`
	NF      bool            `json:"nf,omitempty"` // generated as a normal-form document (C01's domain)
}

func (in codecInput) data() []byte {
	switch {
	case in.Nest != nil:
		return []byte(strings.Repeat(in.Nest.Open, in.Nest.N) + in.Nest.Core + strings.Repeat(in.Nest.Close, in.Nest.N))
	case in.Raw != "":
		b, _ := base64.StdEncoding.DecodeString(in.Raw)
		return b
	}
	return in.Doc
}

type cfinding struct {
	shape, what        string
	observed, expected interface{}
}

// tally accumulates an oracle's result: at most 3 failures per shape, distinct inputs by hash.
type tally struct {
	prop string
	res  *oracleResult
	seen map[uint64]bool
}

func newTally(prop string) *tally {
	return &tally{prop: prop, res: &oracleResult{Stats: map[string]int{}}, seen: map[uint64]bool{}}
}

func (t *tally) eval(in codecInput, nt bool, fs []cfinding) {
	t.res.Evaluations++
	h := fnv.New64a()
	h.Write([]byte(in.Kind))
	h.Write([]byte{0})
	if in.Builder != nil {
		fmt.Fprintf(h, "seed %d", *in.Builder)
	} else {
		h.Write(in.data())
	}
	if k := h.Sum64(); nt && !t.seen[k] {
		t.seen[k] = true
		t.res.Distinct++
	}
	done := map[string]bool{}
	for _, f := range fs {
		if done[f.shape] {
			continue
		}
		done[f.shape] = true
		t.res.Stats["fail:"+f.shape]++
		if t.res.Stats["fail:"+f.shape] <= 3 {
			t.res.Failures = append(t.res.Failures, failure{Property: t.prop, What: f.what, Shape: f.shape, Input: in, Observed: f.observed, Expected: f.expected})
		}
	}
}

func (t *tally) replay(in codecInput, fs []cfinding) *oracleResult {
	t.eval(in, true, fs)
	return t.res
}

func badReplay(prop string, err error) *oracleResult {
	return &oracleResult{Stats: map[string]int{}, Evaluations: 1, Failures: []failure{{Property: prop, What: "bad replay input: " + err.Error()}}}
}

func docInput(d cdoc) codecInput {
	return codecInput{Kind: d.kind, Doc: json.RawMessage(d.doc.bytes()), NF: d.nf && d.phase != 3}
}

func clip(b []byte) string {
	if len(b) > 600 {
		return string(b[:600]) + "…"
	}
	return string(b)
}

// guarded runs f with a watchdog; it reports whether f came back in time.
func guarded(f func()) bool {
	done := make(chan struct{})
	go func() {
		defer close(done)
		f()
	}()
	t := time.NewTimer(20 * time.Second)
	defer t.Stop()
	select {
	case <-done:
		return true
	case <-t.C:
		return false
	}
}

// ---------------------------------------------------------------------------------------------
// comparison of JSON values

type jdiff struct {
	path    []string
	what    string // missing (from the output), extra (in the output), value
	in, out interface{}
}

func allDiffs(a, b interface{}, path []string, out *[]jdiff) {
	if len(*out) >= 20 {
		return
	}
	cp := func() []string { return append([]string{}, path...) }
	switch x := a.(type) {
	case map[string]interface{}:
		y, ok := b.(map[string]interface{})
		if !ok {
			*out = append(*out, jdiff{cp(), "value", a, b})
			return
		}
		keys := map[string]bool{}
		for k := range x {
			keys[k] = true
		}
		for k := range y {
			keys[k] = true
		}
		var ks []string
		for k := range keys {
			ks = append(ks, k)
		}
		sort.Strings(ks)
		for _, k := range ks {
			xv, inA := x[k]
			yv, inB := y[k]
			switch {
			case !inB:
				*out = append(*out, jdiff{append(cp(), k), "missing", xv, nil})
			case !inA:
				*out = append(*out, jdiff{append(cp(), k), "extra", nil, yv})
			default:
				allDiffs(xv, yv, append(path, k), out)
			}
		}
	case []interface{}:
		y, ok := b.([]interface{})
		if !ok || len(x) != len(y) {
			*out = append(*out, jdiff{cp(), "value", a, b})
			return
		}
		for i := range x {
			allDiffs(x[i], y[i], path, out) // indices are not part of a path
		}
	default:
		if !reflect.DeepEqual(a, b) {
			*out = append(*out, jdiff{cp(), "value", a, b})
		}
	}
}

func needsEscape(s string) bool {
	for i := 0; i < len(s); i++ {
		if s[i] == '"' || s[i] == '\\' || s[i] < 0x20 {
			return true
		}
	}
	return false
}

// propertyNameNeedingEscape finds a key of a properties / patternProperties object that cannot be
// written between quotes as it is.
func propertyNameNeedingEscape(j *jv, isProps bool) bool {
	switch j.t {
	case 'a':
		for _, x := range j.a {
			if propertyNameNeedingEscape(x, false) {
				return true
			}
		}
	case 'o':
		for _, m := range j.m {
			if isProps && needsEscape(m.k) {
				return true
			}
			if propertyNameNeedingEscape(m.v, !isProps && (m.k == "properties" || m.k == "patternProperties")) {
				return true
			}
		}
	}
	return false
}

// upperExtInResponses finds an X- member (upper case) in a responses object: the only place where
// the prefix of a vendor extension is matched with its case.
func upperExtInResponses(j *jv, isResponses bool) bool {
	switch j.t {
	case 'a':
		for _, x := range j.a {
			if upperExtInResponses(x, false) {
				return true
			}
		}
	case 'o':
		for _, m := range j.m {
			if isResponses && strings.HasPrefix(m.k, "X-") || upperExtInResponses(m.v, !isResponses && m.k == "responses") {
				return true
			}
		}
	}
	return false
}

// shapePath drops everything input-specific from a member path: keys of name-keyed maps become *.
func shapePath(path []string) string {
	if len(path) == 0 {
		return "<root>"
	}
	out := make([]string, len(path))
	for i, s := range path {
		l := strings.ToLower(s)
		switch {
		case kwLower[l][s]:
			out[i] = s
		case strings.HasPrefix(l, "x-"):
			out[i] = "x-*"
		case strings.HasPrefix(s, "/"):
			out[i] = "/*"
		case s != "" && strings.Trim(s, "0123456789") == "":
			out[i] = "<code>"
		default:
			out[i] = "*"
		}
	}
	if len(out) > 2 { // recursive positions (items/items/…) would give one shape per depth
		return "…/" + strings.Join(out[len(out)-2:], "/")
	}
	return strings.Join(out, "/")
}

func jsonEqual(a, b []byte) (bool, string) {
	var x, y interface{}
	if json.Unmarshal(a, &x) != nil || json.Unmarshal(b, &y) != nil {
		return false, "<unparsable>"
	}
	var ds []jdiff
	allDiffs(x, y, nil, &ds)
	if len(ds) == 0 {
		return true, ""
	}
	return false, shapePath(ds[0].path)
}

// ---------------------------------------------------------------------------------------------
// C01: decode then encode gives back the document (as a JSON value)

func classifyC01(kind string, d jdiff, escNames bool) string {
	last := ""
	if len(d.path) > 0 {
		last = d.path[len(d.path)-1]
	}
	underHeader := kind == "Header" && len(d.path) == 1 || len(d.path) >= 3 && d.path[len(d.path)-3] == "headers"
	emptyArr := func(v interface{}) bool { a, ok := v.([]interface{}); return ok && len(a) == 0 }
	switch {
	case last == "$schema":
		return "schema-url-fragment"
	case d.what == "missing" && strings.HasPrefix(strings.ToLower(last), "x-") && underHeader:
		return "header-extensions-dropped"
	case d.what == "missing" && last == "headers":
		return "response-ref-headers-dropped"
	case d.what == "missing" && d.in == "":
		return "required-empty-string-dropped"
	case emptyArr(d.in) && d.out == nil && (last == "items" || kind == "SchemaOrArray" && len(d.path) == 0):
		return "items-empty-array"
	}
	for i, s := range d.path {
		if needsEscape(s) {
			return "property-name-escape"
		}
		// the name as re-read from an unescaped splice (\u0041 comes back as A)
		inProps := i > 0 && (d.path[i-1] == "properties" || d.path[i-1] == "patternProperties") || i == 0 && kind == "SchemaProperties"
		if escNames && inProps && i == len(d.path)-1 && d.what == "extra" {
			return "property-name-escape"
		}
	}
	return "roundtrip:" + kind + ":" + shapePath(d.path)
}

func checkC01(in codecInput) []cfinding {
	doc := in.data()
	v, err, pan := safeDecode(in.Kind, doc)
	if pan != "" {
		return []cfinding{{shape: "panic", what: "decoding panics: " + pan}}
	}
	if err != nil {
		shape := "decode-error:" + in.Kind
		if t, e := parseJV(doc); e == nil && upperExtInResponses(t, in.Kind == "Responses") {
			shape = "responses-uppercase-extension"
		}
		return []cfinding{{shape: shape, what: "a normal-form document is refused: " + err.Error()}}
	}
	out, err, pan := safeEncode(v)
	if pan != "" {
		return []cfinding{{shape: "panic", what: "encoding panics: " + pan}}
	}
	if err != nil {
		shape := "encode-error:" + in.Kind
		if t, e := parseJV(doc); e == nil && propertyNameNeedingEscape(t, in.Kind == "SchemaProperties") {
			shape = "property-name-escape"
		}
		return []cfinding{{shape: shape, what: "the decoded value does not encode: " + err.Error()}}
	}
	var a, b interface{}
	if err := json.Unmarshal(doc, &a); err != nil {
		return nil
	}
	if err := json.Unmarshal(out, &b); err != nil {
		return []cfinding{{shape: "encode-error:" + in.Kind, what: "output is not JSON", observed: clip(out)}}
	}
	var ds []jdiff
	allDiffs(a, b, nil, &ds)
	var fs []cfinding
	// the decoders are functions of the JSON VALUE (that is what the model takes): the same value written with string escapes
	// in every member name and string decodes to the same thing
	if v2, err2, pan2 := safeDecode(in.Kind, respellJSON(doc)); pan2 != "" || err2 != nil {
		fs = append(fs, cfinding{shape: "text-spelling-sensitive", what: fmt.Sprintf("the same document written with string escapes is refused: %v %s", err2, pan2), observed: clip(respellJSON(doc))})
	} else if out2, err2, pan2 := safeEncode(v2); pan2 != "" || err2 != nil || !bytes.Equal(out2, out) {
		fs = append(fs, cfinding{shape: "text-spelling-sensitive", what: "the same document written with string escapes decodes to a different value", observed: clip(out2), expected: clip(out)})
	}
	esc := false
	if t, e := parseJV(doc); len(ds) > 0 && e == nil {
		esc = propertyNameNeedingEscape(t, in.Kind == "SchemaProperties")
	}
	for _, d := range ds {
		fs = append(fs, cfinding{shape: classifyC01(in.Kind, d, esc),
			what:     fmt.Sprintf("round trip differs at /%s (%s)", strings.Join(d.path, "/"), d.what),
			observed: orderedMap{{"at_path", d.out}, {"output", clip(out)}}, expected: d.in})
	}
	return fs
}

func docStats(res *oracleResult, d cdoc) {
	res.Stats["kind:"+d.kind]++
	res.Stats[fmt.Sprintf("phase%d", d.phase)]++
}

func oracleC01(r *rng, n int, tier string) *oracleResult {
	t := newTally("C01")
	for _, d := range codecDocs(r, n, tier) {
		if !d.nf {
			continue
		}
		docStats(t.res, d)
		in := docInput(d)
		t.eval(in, d.doc.nonTrivial(), checkC01(in))
	}
	t.res.Samples = []interface{}{
		codecInput{Kind: "Schema", Doc: json.RawMessage(`{"type":"object","properties":{"a b":{"type":"string","maxLength":0,"x-order":1}},"x-foo":[null,{}]}`)},
		codecInput{Kind: "Header", Doc: json.RawMessage(`{"type":"string","x-foo":1}`)},
		codecInput{Kind: "Responses", Doc: json.RawMessage(`{"default":{"description":"d"},"404":{"$ref":"#/responses/r"},"x-a":0}`)},
	}
	return dedupFailures(t.res)
}

func replayCodec(prop string, check func(codecInput) []cfinding) func(json.RawMessage) *oracleResult {
	return func(input json.RawMessage) *oracleResult {
		var in codecInput
		if err := json.Unmarshal(input, &in); err != nil {
			return badReplay(prop, err)
		}
		if _, ok := kindTypes[in.Kind]; !ok {
			return badReplay(prop, fmt.Errorf("unknown kind %q", in.Kind))
		}
		return newTally(prop).replay(in, check(in))
	}
}

// ---------------------------------------------------------------------------------------------
// C06: the output is well formed, free of repeated names, and a function of the value

func duplicateMember(j *jv) string {
	switch j.t {
	case 'a':
		for _, x := range j.a {
			if d := duplicateMember(x); d != "" {
				return d
			}
		}
	case 'o':
		seen := map[string]bool{}
		for _, m := range j.m {
			if seen[m.k] {
				return m.k
			}
			seen[m.k] = true
			if d := duplicateMember(m.v); d != "" {
				return d
			}
		}
	}
	return ""
}

// propertyOrder checks every properties / patternProperties object of an output: members with an
// integer x-order first, by non-decreasing x-order; then the others by increasing name.
func propertyOrder(j *jv, isProps bool) string {
	switch j.t {
	case 'a':
		for _, x := range j.a {
			if v := propertyOrder(x, false); v != "" {
				return v
			}
		}
	case 'o':
		if isProps {
			unordered, prevName, prevXO, hasXO := false, "", 0, false
			for _, m := range j.m {
				xo, ok := xorderInt(m.v)
				switch {
				case ok && unordered:
					return fmt.Sprintf("%q carries x-order but follows a property without one", m.k)
				case ok && hasXO && xo < prevXO:
					return fmt.Sprintf("%q has x-order %d after %d", m.k, xo, prevXO)
				case ok:
					prevXO, hasXO = xo, true
				case unordered && m.k <= prevName:
					return fmt.Sprintf("%q follows %q", m.k, prevName)
				default:
					unordered, prevName = true, m.k
				}
			}
		}
		for _, m := range j.m {
			if v := propertyOrder(m.v, !isProps && (m.k == "properties" || m.k == "patternProperties")); v != "" {
				return v
			}
		}
	}
	return ""
}

// wellFormed are the checks on one output of the encoder for a value of the given kind.
func wellFormed(kind string, out []byte) []cfinding {
	var fs []cfinding
	tree, err := parseJV(out)
	if err != nil {
		return []cfinding{{shape: "reencode-unparsable", what: "output is not JSON: " + err.Error(), observed: clip(out)}}
	}
	if d := duplicateMember(tree); d != "" {
		fs = append(fs, cfinding{shape: "duplicate-member", what: fmt.Sprintf("member %q is written twice in one object", d), observed: clip(out)})
	}
	if _, err, pan := safeDecode(kind, out); err != nil || pan != "" {
		fs = append(fs, cfinding{shape: "reencode-unparsable", what: fmt.Sprintf("output does not decode back: %v %s", err, pan), observed: clip(out)})
	}
	if v := propertyOrder(tree, kind == "SchemaProperties"); v != "" {
		fs = append(fs, cfinding{shape: "property-order", what: "properties are not ordered by (x-order, name): " + v, observed: clip(out)})
	}
	return fs
}

const c06Repeats = 20

func checkC06(in codecInput) []cfinding {
	if in.Builder != nil {
		return checkC06Builder(in)
	}
	doc := in.data()
	var first []byte
	var lastDecoded interface{}
	for i := 0; i < c06Repeats; i++ {
		v, err, pan := safeDecode(in.Kind, doc) // decoded anew each time: maps are rebuilt
		lastDecoded = v
		if pan != "" {
			return []cfinding{{shape: "panic", what: "decoding panics: " + pan}}
		}
		if err != nil {
			return nil
		}
		out, err, pan := safeEncode(v)
		if pan != "" {
			return []cfinding{{shape: "panic", what: "encoding panics: " + pan}}
		}
		if err != nil {
			out = []byte("encode error: " + err.Error())
			if i == 0 {
				return []cfinding{{shape: "encode-error", what: "a decoded value does not encode (the hand-written encoder produced text that encoding/json rejects): " + err.Error()}}
			}
		}
		if i == 0 {
			first = out
		} else if !bytes.Equal(out, first) {
			return append(wellFormed(in.Kind, first), cfinding{shape: "nondeterministic-order", what: fmt.Sprintf("encoding %d of the same value differs from the first", i+1),
				observed: clip(out), expected: clip(first)})
		}
	}
	fs := wellFormed(in.Kind, first)
	if !in.NF && len(fs) == 0 {
		// any decoded value at all: what the emitted text is read back as is compared with the value that was encoded
		if v2, err, pan := safeDecode(in.Kind, first); err == nil && pan == "" {
			if d := heldDiff(reflect.ValueOf(lastDecoded), reflect.ValueOf(v2), ""); d != "" {
				fs = append(fs, cfinding{shape: "held-value-differs:" + heldShape(d), what: "the text emitted for a decoded document is read back as a value that differs from the one encoded, at " + d, observed: clip(first)})
			}
		}
	}
	if in.NF {
		// "it never emits text that parses to something other than what the model holds": for a normal-form document the text
		// just emitted, decoded and encoded again, is the same text
		if v2, err, pan := safeDecode(in.Kind, first); err == nil && pan == "" {
			if d := heldDiff(reflect.ValueOf(lastDecoded), reflect.ValueOf(v2), ""); d != "" {
				fs = append(fs, cfinding{shape: "held-value-differs", what: "the text emitted for a decoded normal-form document is read back as a value that differs from the one encoded, at " + d, observed: clip(first)})
			}
			if second, err, pan := safeEncode(v2); err == nil && pan == "" {
				if eq, at := jsonEqual(first, second); !eq {
					fs = append(fs, cfinding{shape: "reparse-differs", what: "the encoding of a decoded normal-form document decodes to a value that encodes differently, at " + at, observed: clip(second), expected: clip(first)})
				}
			}
		}
	}
	return fs
}

func checkC06Builder(in codecInput) []cfinding {
	var first []byte
	for i := 0; i < c06Repeats; i++ {
		b := buildValue(newRng(*in.Builder), in.Kind)
		out, err, pan := safeEncode(b.v)
		if pan != "" {
			return []cfinding{{shape: "panic", what: "encoding a builder-made value panics: " + pan, observed: viewOf(b.v)}}
		}
		if err != nil {
			return nil // the statement is about encodings that succeed
		}
		if i == 0 {
			first = out
		} else if !bytes.Equal(out, first) {
			return []cfinding{{shape: "nondeterministic-order", what: "two encodings of the same builder-made value differ", observed: clip(out), expected: clip(first)}}
		}
	}
	fs := wellFormed(in.Kind, first)
	v2, err, pan := safeDecode(in.Kind, first)
	if err != nil || pan != "" {
		return fs // already reported by wellFormed
	}
	second, err, pan := safeEncode(v2)
	switch {
	case pan != "":
		fs = append(fs, cfinding{shape: "panic", what: "encoding panics: " + pan})
	case err != nil:
		fs = append(fs, cfinding{shape: "builder-reparse", what: "the encoding of a builder-made value decodes to a value that does not encode: " + err.Error(), observed: clip(first)})
	default:
		if eq, at := jsonEqual(first, second); !eq {
			fs = append(fs, cfinding{shape: "builder-reparse", what: "encode, decode, encode changes the document at " + at, observed: clip(second), expected: clip(first)})
		}
	}
	return fs
}

// xorderDocs are property maps of 2 to 8 entries whose x-order values come from the tie-prone set.
func xorderDocs(r *rng, n int, f func(cdoc)) {
	for i := 0; i < n; i++ {
		props := jObj()
		g := newDocGen(r, 0)
		g.escNames = false
		for _, name := range g.mapNames(2+r.intn(7), 0) {
			s := jObj()
			if r.chance(1, 2) {
				s.m = append(s.m, jmem{"type", jStr(r.pick(jsonTypes))})
			}
			if xo := r.pick(xorderValues); xo != "" {
				s.m = append(s.m, jmem{"x-order", mustJV(xo)})
			} else if r.chance(1, 3) {
				// other spellings of the key (the encoder orders by the lower-case key only): whatever they hold, the order of the
				// output must not depend on the order in which a map is walked
				s.m = append(s.m, jmem{"X-Order", jNum(strconv.Itoa(r.intn(10)))}, jmem{"x-ORDER", jNum(strconv.Itoa(r.intn(10)))})
			}
			props.m = append(props.m, jmem{name, s})
		}
		d := cdoc{kind: "SchemaProperties", doc: props, nf: true, phase: 2, tags: []string{"x-order"}}
		if i%2 == 1 {
			d.kind, d.doc = "Schema", jObj(mem("type", jStr("object")), mem(r.pick([]string{"properties", "patternProperties"}), props))
		}
		f(d)
	}
}

func oracleC06(r *rng, n int, tier string) *oracleResult {
	t := newTally("C06")
	run := func(d cdoc) {
		docStats(t.res, d)
		in := docInput(d)
		t.eval(in, d.doc.nonTrivial(), checkC06(in))
	}
	docs := codecDocs(r, n, tier)
	xr := r.fork(6)
	xorderDocs(xr, 100+n/4, func(d cdoc) { // first: they are the small witnesses
		t.res.Stats["xorder-map"]++
		run(d)
	})
	for _, d := range docs {
		if d.phase <= 2 || isRefSpelling(d) { // also every odd spelling of a reference: its text goes through the encoder too
			run(d)
		}
	}
	br := r.fork(4)
	for i := 0; i < n; i++ {
		kind, seed := builderKinds[i%len(builderKinds)], br.next()
		t.res.Stats["builder:"+kind]++
		in := codecInput{Kind: kind, Builder: &seed}
		t.eval(in, true, checkC06(in))
	}
	seed := uint64(7)
	t.res.Samples = []interface{}{
		codecInput{Kind: "SchemaProperties", Doc: json.RawMessage(`{"b":{"x-order":1},"a":{"x-order":1},"c":{},"é":{"x-order":"0"}}`)},
		codecInput{Kind: "Operation", Builder: &seed},
	}
	return dedupFailures(t.res)
}

// ---------------------------------------------------------------------------------------------
// C07: decoding is total; decode-then-encode is idempotent

// casefoldClash tells whether some object has a member whose name is a keyword up to letter case
// only, or two members equal up to letter case (encoding/json then matches fields loosely).
func casefoldClash(j *jv) bool {
	switch j.t {
	case 'a':
		for _, x := range j.a {
			if casefoldClash(x) {
				return true
			}
		}
	case 'o':
		seen := map[string]string{}
		for _, m := range j.m {
			l := strings.ToLower(m.k)
			if ex, ok := kwLower[l]; ok && !ex[m.k] {
				return true
			}
			if prev, ok := seen[l]; ok && prev != m.k {
				return true
			}
			seen[l] = m.k
			if casefoldClash(m.v) {
				return true
			}
		}
	}
	return false
}

func checkC07(in codecInput) []cfinding {
	var fs []cfinding
	if !guarded(func() { fs = checkC07Inner(in) }) {
		return []cfinding{{shape: "hang", what: "no answer within 20 s"}}
	}
	return fs
}

func checkC07Inner(in codecInput) []cfinding {
	data := in.data()
	v, err, pan := safeDecode(in.Kind, data)
	if pan != "" {
		return []cfinding{{shape: "panic", what: "decoding panics: " + pan}}
	}
	if err != nil {
		return nil
	}
	once, err, pan := safeEncode(v)
	if pan != "" {
		return []cfinding{{shape: "panic", what: "encoding a decoded value panics: " + pan}}
	}
	if err != nil || in.Doc == nil {
		return nil // an error is an answer; raw bytes are run for totality only
	}
	if tree, err := parseJV(data); err != nil || casefoldClash(tree) {
		return nil
	}
	fail := func(at, what string, obs interface{}) []cfinding {
		return []cfinding{{shape: "not-idempotent:" + in.Kind + ":" + at, what: what, observed: obs, expected: clip(once)}}
	}
	v2, err, pan := safeDecode(in.Kind, once)
	if pan != "" {
		return []cfinding{{shape: "panic", what: "decoding the normalised document panics: " + pan}}
	}
	if err != nil {
		return fail("<redecode-error>", "the normalised document is refused: "+err.Error(), nil)
	}
	twice, err, pan := safeEncode(v2)
	if pan != "" {
		return []cfinding{{shape: "panic", what: "encoding panics: " + pan}}
	}
	if err != nil {
		return fail("<reencode-error>", "normalising a second time fails: "+err.Error(), nil)
	}
	if !bytes.Equal(once, twice) {
		eq, at := jsonEqual(once, twice)
		if eq {
			at = "<order>"
			if t1, e1 := parseJV(once); e1 == nil {
				if t2, e2 := parseJV(twice); e2 == nil && bytes.Equal(t1.bytes(), t2.bytes()) {
					at = "<spelling>" // same members in the same order, written differently
				}
			}
		}
		return fail(at, "normalising twice differs from normalising once", clip(twice))
	}
	return nil
}

// rawStream feeds texts that are mostly not JSON: truncations, bit flips, invalid UTF-8, deep nesting.
func rawStream(r *rng, docs []cdoc, n int, f func(in codecInput)) {
	raw := func(kind string, b []byte) { f(codecInput{Kind: kind, Raw: base64.StdEncoding.EncodeToString(b)}) }
	for i := 0; i < n && len(docs) > 0; i++ {
		d := docs[r.intn(len(docs))]
		b := append([]byte{}, d.doc.bytes()...)
		if len(b) < 2 {
			continue
		}
		switch i % 5 {
		case 0:
			b = b[:r.intn(len(b))]
		case 1:
			b[r.intn(len(b))] ^= 1 << uint(r.intn(8))
		case 2:
			at := r.intn(len(b))
			b = append(b[:at:at], append([]byte(r.pick([]string{"\xff", "\xc0\x80", "\xed\xa0\x80", "\\ud800", "\x00", "\\u12", "\xf8\x88\x80\x80\x80"})), b[at:]...)...)
		case 3:
			at := r.intn(len(b))
			b = append(b[:at:at], append([]byte(r.pick([]string{"1e400", "-", "01", "1.", "\"", "{", "]", ",", "nul", "9999999999999999999999999999"})), b[at:]...)...)
		case 4:
			b = append(b, b...)
		}
		raw(d.kind, b)
		if i%3 == 0 {
			raw(kindNames[r.intn(len(kindNames))], b)
		}
	}
	nests := []nestSpec{{"[", "1", "]", 20000}, {`{"allOf":[`, `{}`, `]}`, 20000}, {`{"a":`, `1`, `}`, 20000}, {`{"items":`, `{}`, `}`, 20000},
		{`{"properties":{"a":`, `{}`, `}}`, 9000}, {`[`, ``, ``, 20000}, {`{"not":`, `{}`, `}`, 4000}, {`{"schema":{"items":[`, `{}`, `]}}`, 3000},
		// moderately deep (far below the depth at which encoding/json gives up): work that doubles with every level shows here
		{`{"type":"array","items":`, `{"type":"string"}`, `}`, 48}, {`{"items":`, `{}`, `}`, 64}, {`{"schema":{"items":`, `{}`, `}}`, 40},
		{`{"additionalProperties":`, `{}`, `}`, 48}, {`{"headers":{"h":{"type":"array","items":`, `{"type":"string"}`, `}}}`, 36}}
	for _, k := range kindNames {
		for i := range nests {
			ns := nests[i]
			f(codecInput{Kind: k, Nest: &ns})
		}
	}
}

func oracleC07(r *rng, n int, tier string) *oracleResult {
	t := newTally("C07")
	docs := codecDocs(r, n, tier)
	for _, d := range docs { // first every document to the kind it was made for
		docStats(t.res, d)
		in := docInput(d)
		t.eval(in, d.doc.nonTrivial(), checkC07(in))
	}
	for i, d := range docs {
		// then to every other kind: all single-keyword documents and mutants, a third of the rest
		if d.phase != 3 && !(d.phase == 1 && len(d.tags) > 1 && d.tags[1] != "pair") && i%3 != 0 {
			continue
		}
		raw := json.RawMessage(d.doc.bytes())
		for _, k := range kindNames {
			if k != d.kind {
				t.res.Stats["foreign-kind"]++
				in := codecInput{Kind: k, Doc: raw, MadeFor: d.kind}
				t.eval(in, d.doc.nonTrivial(), checkC07(in))
			}
		}
	}
	rawStream(r.fork(7), docs, 2*n, func(in codecInput) {
		t.res.Stats["raw"]++
		t.eval(in, true, checkC07(in))
	})
	t.res.Samples = []interface{}{
		codecInput{Kind: "Schema", Doc: json.RawMessage(`{"type":["string"],"items":[],"maxLength":1.5,"$ref":"%zz","properties":null}`)},
		codecInput{Kind: "Parameter", Doc: json.RawMessage(`{"name":1}`), MadeFor: "Tag"},
		codecInput{Kind: "Swagger", Nest: &nestSpec{`{"allOf":[`, `{}`, `]}`, 20000}},
	}
	return dedupFailures(t.res)
}

func init() {
	oracles["C01"], replays["C01"] = oracleC01, replayCodec("C01", checkC01)
	oracles["C06"], replays["C06"] = oracleC06, replayCodec("C06", checkC06)
	oracles["C07"], replays["C07"] = oracleC07, replayCodec("C07", checkC07)
}

// respellJSON writes the first character of every string of a JSON text (member names included) as a \u escape: another
// text of the same JSON value.
func respellJSON(b []byte) []byte {
	out := make([]byte, 0, len(b)+len(b)/4)
	for i := 0; i < len(b); {
		if b[i] != '"' {
			out = append(out, b[i])
			i++
			continue
		}
		out = append(out, '"')
		i++
		first := true
		for i < len(b) && b[i] != '"' {
			switch {
			case b[i] == '\\' && i+1 < len(b):
				out = append(out, b[i], b[i+1])
				i += 2
			case first && b[i] >= 0x20 && b[i] < 0x80:
				out = append(out, fmt.Sprintf("\\u%04x", b[i])...)
				i++
			default:
				out = append(out, b[i])
				i++
			}
			first = false
		}
		out = append(out, '"')
		i++
	}
	return out
}

// heldDiff compares two model values the way a caller sees them, tolerating only the difference between an absent container
// and an empty one (and an absent pointer and a pointer to nothing at all): the first path at which they differ, or "".
func heldDiff(a, b reflect.Value, path string) string {
	if a.IsValid() != b.IsValid() {
		if (a.IsValid() && emptyish(a)) || (b.IsValid() && emptyish(b)) {
			return ""
		}
		return path
	}
	if !a.IsValid() {
		return ""
	}
	if a.Type() != b.Type() {
		return path + " (type)"
	}
	if a.Type() == reflect.TypeOf(spec.Ref{}) {
		ra, rb := a.Interface().(spec.Ref), b.Interface().(spec.Ref)
		if ra.String() != rb.String() || (ra.GetURL() != nil) != (rb.GetURL() != nil) {
			return path + " (reference)"
		}
		return ""
	}
	switch a.Kind() {
	case reflect.Ptr, reflect.Interface:
		if a.IsNil() || b.IsNil() {
			if a.IsNil() && b.IsNil() {
				return ""
			}
			if (a.IsNil() && emptyish(b.Elem())) || (b.IsNil() && emptyish(a.Elem())) {
				return ""
			}
			return path
		}
		return heldDiff(a.Elem(), b.Elem(), path)
	case reflect.Map:
		if a.Len() != b.Len() {
			return path + " (members)"
		}
		for _, k := range a.MapKeys() {
			bv := b.MapIndex(k)
			if !bv.IsValid() {
				return path + "/" + fmt.Sprint(k.Interface())
			}
			if d := heldDiff(a.MapIndex(k), bv, path+"/"+fmt.Sprint(k.Interface())); d != "" {
				return d
			}
		}
		return ""
	case reflect.Slice, reflect.Array:
		if a.Len() != b.Len() {
			return path + " (length)"
		}
		for i := 0; i < a.Len(); i++ {
			if d := heldDiff(a.Index(i), b.Index(i), fmt.Sprintf("%s/%d", path, i)); d != "" {
				return d
			}
		}
		return ""
	case reflect.Struct:
		for i := 0; i < a.NumField(); i++ {
			f := a.Type().Field(i)
			if f.PkgPath != "" {
				continue
			}
			if d := heldDiff(a.Field(i), b.Field(i), path+"."+f.Name); d != "" {
				return d
			}
		}
		return ""
	default:
		if !reflect.DeepEqual(a.Interface(), b.Interface()) {
			return path
		}
		return ""
	}
}

func emptyish(v reflect.Value) bool {
	if !v.IsValid() {
		return true
	}
	if v.Type() == reflect.TypeOf(spec.Ref{}) {
		r := v.Interface().(spec.Ref)
		return r.String() == "" && r.GetURL() == nil
	}
	switch v.Kind() {
	case reflect.Ptr, reflect.Interface:
		return v.IsNil() || emptyish(v.Elem())
	case reflect.Map, reflect.Slice:
		return v.Len() == 0
	case reflect.Struct:
		for i := 0; i < v.NumField(); i++ {
			if v.Type().Field(i).PkgPath != "" {
				continue
			}
			if !emptyish(v.Field(i)) {
				return false
			}
		}
		return true
	default:
		return v.IsZero()
	}
}

// heldShape: the field a difference sits at, without the names and indices on the way
func heldShape(d string) string {
	i := strings.LastIndex(d, ".")
	if i < 0 {
		return d
	}
	return d[i+1:]
}
