package main

import (
	"encoding/json"
	"fmt"
	"reflect"
	"sort"
	"strconv"

	"github.com/go-openapi/jsonreference"
	"github.com/go-openapi/spec"
)

var (
	specRefType = reflect.TypeOf(spec.Ref{})
	jsonRefType = reflect.TypeOf(jsonreference.Ref{})
)

// goView is the "Go view" of a value of the spec package: a JSON-able rendering that exposes
// exactly what Go holds, so that nil and empty are distinguishable.
//
//	bool -> bool, string kinds -> string, ints/floats -> number
//	pointer, slice, map, interface: nil -> null
//	interface{} (non nil)   -> the JSON encoding of the dynamic value (free-form payload)
//	map                     -> object, keys in byte order of their text (integer keys in decimal)
//	struct                  -> object keyed by Go field name, every field, declaration order
//	spec.Ref / jsonreference.Ref -> null for the zero value (no URL), else its String()
//
// It never panics: a failure is rendered as {"view_error": "..."}.
func goView(v reflect.Value) (out interface{}) {
	defer func() {
		if r := recover(); r != nil {
			out = orderedMap{{"view_error", fmt.Sprint(r)}}
		}
	}()
	return goView1(v)
}

func viewOf(x interface{}) interface{} {
	v := reflect.ValueOf(x)
	for v.IsValid() && v.Kind() == reflect.Ptr && !v.IsNil() {
		v = v.Elem()
	}
	if !v.IsValid() {
		return nil
	}
	return goView(v)
}

func goView1(v reflect.Value) interface{} {
	if !v.IsValid() {
		return nil
	}
	switch v.Type() {
	case specRefType:
		r := v.Interface().(spec.Ref)
		if r.GetURL() == nil {
			return nil
		}
		return r.String()
	case jsonRefType:
		r := v.Interface().(jsonreference.Ref)
		if r.GetURL() == nil {
			return nil
		}
		return r.String()
	}
	switch v.Kind() {
	case reflect.Bool:
		return v.Bool()
	case reflect.String:
		return v.String()
	case reflect.Int, reflect.Int8, reflect.Int16, reflect.Int32, reflect.Int64:
		return v.Int()
	case reflect.Uint, reflect.Uint8, reflect.Uint16, reflect.Uint32, reflect.Uint64:
		return v.Uint()
	case reflect.Float32, reflect.Float64:
		return floatView(v.Float())
	case reflect.Ptr:
		if v.IsNil() {
			return nil
		}
		return goView1(v.Elem())
	case reflect.Interface:
		if v.IsNil() {
			return nil
		}
		b, err := json.Marshal(v.Elem().Interface())
		if err != nil {
			return orderedMap{{"view_error", "payload: " + err.Error()}}
		}
		return json.RawMessage(b)
	case reflect.Slice, reflect.Array:
		if v.Kind() == reflect.Slice && v.IsNil() {
			return nil
		}
		out := make([]interface{}, v.Len())
		for i := range out {
			out[i] = goView1(v.Index(i))
		}
		return out
	case reflect.Map:
		if v.IsNil() {
			return nil
		}
		type ent struct {
			k string
			v reflect.Value
		}
		ents := make([]ent, 0, v.Len())
		it := v.MapRange()
		for it.Next() {
			ents = append(ents, ent{mapKeyText(it.Key()), it.Value()})
		}
		sort.Slice(ents, func(i, j int) bool { return ents[i].k < ents[j].k })
		m := orderedMap{}
		for _, e := range ents {
			m = append(m, kv{e.k, goView1(e.v)})
		}
		return m
	case reflect.Struct:
		m := orderedMap{}
		t := v.Type()
		for i := 0; i < t.NumField(); i++ {
			f := t.Field(i)
			if f.PkgPath != "" && !f.Anonymous { // unexported: nothing the package's API can observe
				continue
			}
			m = append(m, kv{f.Name, goView1(v.Field(i))})
		}
		return m
	}
	return orderedMap{{"view_error", "unsupported kind " + v.Kind().String()}}
}

func mapKeyText(k reflect.Value) string {
	switch k.Kind() {
	case reflect.String:
		return k.String()
	case reflect.Int, reflect.Int8, reflect.Int16, reflect.Int32, reflect.Int64:
		return strconv.FormatInt(k.Int(), 10)
	case reflect.Uint, reflect.Uint8, reflect.Uint16, reflect.Uint32, reflect.Uint64:
		return strconv.FormatUint(k.Uint(), 10)
	}
	return fmt.Sprint(k.Interface())
}

// floatView keeps a float a JSON number whenever JSON can write it.
func floatView(f float64) interface{} {
	b, err := json.Marshal(f)
	if err != nil {
		return orderedMap{{"view_error", err.Error()}}
	}
	return json.RawMessage(b)
}
