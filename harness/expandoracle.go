package main

// Property oracles of the expander / resolver cluster, checked directly on the implementation:
// C02 C03 C04 C08 C09 C10 C18 C16 C17 and C11e2e.  Each check takes a self-contained input (documents,
// root location, options, faults, ...) so that a recorded failure can be replayed.

import (
	"bytes"
	"encoding/json"
	"fmt"
	"net/url"
	"os"
	"path"
	"sort"
	"strconv"
	"strings"
	"sync"
	"sync/atomic"
	"time"

	"github.com/go-openapi/jsonpointer"
	"github.com/go-openapi/spec"
)

// ---------------------------------------------------------------------------------------------
// inputs, findings, bookkeeping

type exInput struct {
	Docs     map[string]json.RawMessage `json:"docs"`
	Root     string                     `json:"root"`
	Missing  []string                   `json:"missing,omitempty"`
	Broken   []exBroken                 `json:"broken,omitempty"`
	Opts     *exOpts                    `json:"opts,omitempty"`
	Spelling string                     `json:"spelling,omitempty"`
	Op       string                     `json:"op,omitempty"`
	Element  json.RawMessage            `json:"element,omitempty"`
	Entry    string                     `json:"entry,omitempty"`
	Pointer  string                     `json:"pointer,omitempty"` // the root position the element was taken from
	Tags     []string                   `json:"tags,omitempty"`
	g        *exGraph
}

func (in *exInput) graph() *exGraph {
	if in.g == nil {
		in.g = &exGraph{Docs: in.Docs, Root: in.Root, Missing: in.Missing, Broken: in.Broken}
		in.g.analyse()
	}
	return in.g
}

func exInputOf(g *exGraph) *exInput {
	g.analyse()
	return &exInput{Docs: g.Docs, Root: g.Root, Missing: g.Missing, Broken: g.Broken, Tags: g.Tags, g: g}
}

func (in *exInput) withGraph(g *exGraph) *exInput {
	c := *in
	g.analyse()
	c.Docs, c.Root, c.Missing, c.Broken, c.Tags, c.g = g.Docs, g.Root, g.Missing, g.Broken, g.Tags, g
	return &c
}

func (in *exInput) opts() exOpts {
	if in.Opts == nil {
		return exOpts{}
	}
	return *in.Opts
}

type exFinding struct {
	Shape string
	What  string
	Obs   interface{}
	Exp   interface{}
}

type exTally struct {
	prop string
	res  *oracleResult
	seen map[string]bool
}

func newExTally(prop string) *exTally {
	exQuiet()
	return &exTally{prop: prop, res: &oracleResult{Stats: map[string]int{}}, seen: map[string]bool{}}
}

func (t *exTally) graph(g *exGraph) {
	g.analyse()
	k := g.key()
	if !t.seen[k] {
		t.seen[k] = true
		if len(g.Refs) > 0 {
			t.res.Distinct++
		}
		for _, tag := range g.Tags {
			if strings.HasPrefix(tag, "docs:") || strings.HasPrefix(tag, "kind:") || strings.HasPrefix(tag, "ref:") || tag == "cyclic" || tag == "acyclic" ||
				tag == "id" || tag == "chain2" || tag == "imported-circular" || tag == "prefix-sibling" || tag == "xdoc-cycle" || tag == "bounded" {
				t.res.Stats[tag]++
			}
		}
		for _, b := range g.Broken {
			t.res.Stats["fault:"+strings.SplitN(b.Fault, ":", 2)[0]]++
		}
		if len(g.Missing) > 0 {
			t.res.Stats["fault:missing-doc"]++
		}
		if len(t.res.Samples) < 2 && len(g.Docs) >= 2 && len(exJSON(g.Docs)) < 4000 {
			t.res.Samples = append(t.res.Samples, exInputOf(g))
		}
	}
}

// eval records the findings of one evaluation; the first failure of a shape is shrunk when a shrinker is given.
func (t *exTally) eval(in interface{}, fs []exFinding, shrink func(exFinding) (interface{}, *exFinding)) {
	t.res.Evaluations++
	for _, f := range fs {
		if strings.HasPrefix(f.Shape, "stat:") { // not a failure: a remark on what the evaluation covered
			t.res.Stats[strings.TrimPrefix(f.Shape, "stat:")]++
			continue
		}
		t.res.Stats["fail:"+f.Shape]++
		if t.res.Stats["fail:"+f.Shape] > 3 {
			continue
		}
		input := in
		if shrink != nil && t.res.Stats["fail:"+f.Shape] == 1 {
			if si, sf := shrink(f); sf != nil {
				input, f = si, *sf
				if t.res.Stats["fail:"+f.Shape] == 0 {
					t.res.Stats["fail:"+f.Shape] = 1
				}
			}
		}
		t.res.Failures = append(t.res.Failures, failure{Property: t.prop, What: f.What, Shape: f.Shape, Input: input, Observed: f.Obs, Expected: f.Exp})
	}
}

func (t *exTally) done() *oracleResult { return dedupFailures(t.res) }

func exReplay(prop string, check func(*exInput) []exFinding) func(json.RawMessage) *oracleResult {
	return func(raw json.RawMessage) *oracleResult {
		t := newExTally(prop)
		in := &exInput{}
		if err := json.Unmarshal(raw, in); err != nil || in.Docs == nil {
			t.res.Failures = append(t.res.Failures, failure{Property: prop, What: "bad replay input"})
			return t.res
		}
		var fs []exFinding
		for k := 0; k < 8; k++ { // the outcome may depend on Go's map iteration order
			in.g = nil
			fs = nil
			for _, f := range check(in) {
				if !strings.HasPrefix(f.Shape, "stat:") {
					fs = append(fs, f)
				}
			}
			if len(fs) > 0 {
				break
			}
		}
		t.eval(in, fs, nil)
		return t.res
	}
}

func exDecode(raw json.RawMessage) interface{} {
	var v interface{}
	json.Unmarshal(raw, &v)
	return v
}

func exView(v interface{}) interface{} { return exClip(exJSON(v), 1500) }

// qualified shape: a failure on a graph that contains the ingredients of a known defect carries its name
func exShape(base string, g *exGraph, abs bool, at ...string) string {
	info := g.analyse()
	if len(at) > 0 {
		// only what the failing position can reach counts
		info = exAnalyseAt(g.store(), g.Root, at...)
	}
	ks := info.knownShape()
	if ks == "" && len(at) > 0 {
		// the failing position itself is clear of the known defects, but another part of the (shrunk) graph is not: the expander
		// shares the set of references found circular and the document cache across the whole run, and the sections are visited in
		// map order, so a known defect elsewhere can surface here on some runs; the shape says so
		if w := g.analyse().knownShape(); w != "" {
			ks = "via:" + w
		}
	}
	if ks == "" && exLayoutPrefixSibling(g) {
		// an element handed to a single-element entry point may reach documents the (shrunk) root no longer refers to: the
		// layout alone - one document's location continuing another's as a string - is what finding F9 needs
		ks = "via:prefix-sibling-doc"
	}
	if g.hasTag("id") {
		ks = "id" // an `id` registers a pseudo document for the whole run
	}
	if strings.HasSuffix(ks, "response-imported-circular") && abs {
		ks = "" // that defect needs the relative rendering of circular references
	}
	if ks == "" {
		return base
	}
	return base + ":" + ks
}

// exLayoutPrefixSibling: two documents of the graph on one host such that the path of one is a string prefix of the other's.
func exLayoutPrefixSibling(g *exGraph) bool {
	docs := g.docList()
	for _, a := range docs {
		ua, err := url.Parse(a)
		if err != nil {
			continue
		}
		for _, b := range docs {
			ub, err := url.Parse(b)
			if a == b || err != nil || ua.Scheme != ub.Scheme || ua.Host != ub.Host {
				continue
			}
			if strings.HasPrefix(ub.Path, ua.Path) {
				return true
			}
		}
	}
	return false
}

// ---------------------------------------------------------------------------------------------
// shrinking: drop documents, entries of the shared sections and sub-schemas while the failure persists

func exEditDoc(g *exGraph, u string, edit func(doc map[string]interface{}) bool) *exGraph {
	var doc map[string]interface{}
	if json.Unmarshal(g.Docs[u], &doc) != nil || !edit(doc) {
		return nil
	}
	c := g.clone()
	b, _ := json.Marshal(doc)
	c.Docs[u] = b
	return c
}

func exShrinkGraph(g *exGraph, fails func(*exGraph) bool) *exGraph {
	deadline := time.Now().Add(20 * time.Second)
	budget := 250
	cur := g
	try := func(c *exGraph) bool {
		if c == nil || budget <= 0 || time.Now().After(deadline) {
			return false
		}
		budget--
		if exDebug {
			fmt.Fprintf(os.Stderr, "shrink: budget %d docs %d size %d\n", budget, len(c.Docs), len(c.key()))
		}
		if fails(c) {
			cur = c
			return true
		}
		return false
	}
	for progress := true; progress && budget > 0; {
		progress = false
		for _, u := range cur.docList() {
			if u == cur.Root {
				continue
			}
			c := cur.clone()
			delete(c.Docs, u)
			if try(c) {
				progress = true
			}
		}
		for _, u := range cur.docList() {
			var doc map[string]interface{}
			if json.Unmarshal(cur.Docs[u], &doc) != nil {
				continue
			}
			for _, sec := range []string{"paths", "responses", "parameters", "definitions"} {
				mm, _ := doc[sec].(map[string]interface{})
				for _, k := range exSortedKeys(mm) {
					sec, k := sec, k
					if try(exEditDoc(cur, u, func(d map[string]interface{}) bool {
						m, ok := d[sec].(map[string]interface{})
						if !ok {
							return false
						}
						if _, ok := m[k]; !ok {
							return false
						}
						delete(m, k)
						if len(m) == 0 && sec != "paths" {
							delete(d, sec)
						}
						return true
					})) {
						progress = true
					}
				}
			}
		}
		if len(cur.Broken) > 0 {
			continue // the recorded fault positions must stay valid
		}
		// members of elements: sub-schemas, operations, inline parameters and responses
		for _, u := range cur.docList() {
			var doc map[string]interface{}
			if json.Unmarshal(cur.Docs[u], &doc) != nil {
				continue
			}
			type spot struct{ path, kid []string }
			var spots []spot
			kind := exSwagger
			if _, sw := doc["swagger"]; !sw {
				kind = exSchema
			}
			var rec func(kind string, v interface{}, p []string)
			rec = func(kind string, v interface{}, p []string) {
				m, ok := v.(map[string]interface{})
				if !ok {
					return
				}
				if _, isRef := exRefOf(kind, m); isRef {
					return
				}
				for _, k := range exKids(kind, m) {
					if kind != exSwagger {
						spots = append(spots, spot{append([]string{}, p...), k.Path})
					}
					rec(k.Kind, k.V, append(append([]string{}, p...), k.Path...))
				}
			}
			rec(kind, doc, nil)
			for i := len(spots) - 1; i >= 0; i-- { // deepest last in discovery order: go backwards so that array indices stay valid
				sp := spots[i]
				if try(exEditDoc(cur, u, func(d map[string]interface{}) bool {
					v, ok := exAt(d, sp.path)
					if !ok {
						return false
					}
					m, ok := v.(map[string]interface{})
					if !ok {
						return false
					}
					if len(sp.kid) == 1 {
						if _, ok := m[sp.kid[0]]; !ok {
							return false
						}
						delete(m, sp.kid[0])
						return true
					}
					switch c := m[sp.kid[0]].(type) {
					case map[string]interface{}:
						if _, ok := c[sp.kid[1]]; !ok {
							return false
						}
						delete(c, sp.kid[1])
						if len(c) == 0 {
							delete(m, sp.kid[0])
						}
						return true
					case []interface{}:
						i, _ := strconv.Atoi(sp.kid[1])
						if i != len(c)-1 { // only the last element, so that pointers into the array stay valid
							return false
						}
						if len(c) == 1 {
							delete(m, sp.kid[0])
						} else {
							m[sp.kid[0]] = c[:i]
						}
						return true
					}
					return false
				})) {
					progress = true
				}
			}
		}
	}
	cur.analyse()
	return cur
}

// exShrinker: shrink the graph of an input while `check` still reports a finding of the same family
// (the part of the shape before the first ':').
func exShrinker(in *exInput, check func(*exInput) []exFinding) func(exFinding) (interface{}, *exFinding) {
	return func(f exFinding) (interface{}, *exFinding) {
		family := strings.SplitN(f.Shape, ":", 2)[0]
		if family == "timeout" {
			return nil, nil // every attempt would cost a time-out
		}
		var last *exFinding
		hit := func(c *exInput) bool {
			for k := 0; k < 2; k++ { // map iteration order varies from run to run
				for _, x := range check(c) {
					if strings.SplitN(x.Shape, ":", 2)[0] == family {
						x := x
						last = &x
						return true
					}
				}
			}
			return false
		}
		var best *exFinding
		// stay inside the domain of the property: no reference becomes unresolvable by shrinking
		unresolvable := func(g *exGraph) int {
			n := 0
			for _, x := range g.analyse().Nodes {
				if !x.Exists {
					n++
				}
			}
			return n
		}
		limit := unresolvable(in.graph())
		g := exShrinkGraph(in.graph(), func(c *exGraph) bool {
			if unresolvable(c) > limit {
				return false
			}
			if hit(in.withGraph(c)) {
				best = last
				return true
			}
			return false
		})
		if best == nil {
			return nil, nil
		}
		return in.withGraph(g), best
	}
}

// ---------------------------------------------------------------------------------------------
// helpers shared by the checks

func exExpand(g *exGraph, o exOpts) *exOutcome { return exRun(g.call("expand_spec", o)) }

// exCompareElements compares, position by position, the unfoldings of two root documents in their stores.
func exCompareElements(sa exStore, a interface{}, sb exStore, b interface{}, root string, depth int) (ptr, kind string, ua, ub interface{}) {
	for _, k := range exRootElements(a) {
		bv, ok := exAt(b, k.Path)
		if !ok {
			return exPtr(k.Path), k.Kind, sa.unfold(root, k.V, k.Kind, depth), "(position missing)"
		}
		x, y := sa.unfold(root, k.V, k.Kind, depth), sb.unfold(root, bv, k.Kind, depth)
		if exJSON(x) != exJSON(y) {
			return exPtr(k.Path), k.Kind, x, y
		}
	}
	if na, nb := len(exRootElements(a)), len(exRootElements(b)); na != nb {
		return "", "positions", na, nb
	}
	return "", "", nil, nil
}

// ---------------------------------------------------------------------------------------------
// C02: expansion preserves the meaning of every element

const exDepth = 6

var exDebug = os.Getenv("VERIF_EX_DEBUG") != ""

func checkC02(in *exInput) []exFinding {
	g := in.graph()
	o := in.opts()
	o.Skip, o.Cont = false, false
	res := exExpand(g, o)
	if !res.ok() {
		return []exFinding{{Shape: "stat:expansion-not-successful"}} // the property is about successful expansions
	}
	s := g.store()
	out := exDecode(res.Out)
	ptr, kind, want, got := exCompareElements(s, s[g.Root], s.with(g.Root, out), out, g.Root, exDepth)
	if kind == "" {
		return nil
	}
	shape := exShape("meaning:"+kind, g, o.Abs, ptr)
	if i := strings.Index(shape[len("meaning:"):], ":"); i >= 0 {
		shape = shape[len("meaning:")+i+1:] // the name of the known defect alone
	}
	return []exFinding{{Shape: shape, What: fmt.Sprintf("expansion changes the meaning of %s (abs=%v)", ptr, o.Abs), Obs: exView(got), Exp: exView(want)}}
}

func exGraphOracle(prop string, ids, withFaults bool, variants func(r *rng, g *exGraph) []*exInput, check func(*exInput) []exFinding, repeat int) func(r *rng, n int, tier string) *oracleResult {
	return func(r *rng, n int, tier string) *oracleResult {
		t := newExTally(prop)
		graphs := exGraphs(r.fork(1), n, tier, ids)
		rf := r.fork(3)
		rep := repeat
		if tier == "thorough" {
			rep = repeat * 3
		}
		for gi, g := range graphs {
			if withFaults && gi%3 != 0 {
				if f, _ := exInjectFault(rf, g); f != nil {
					g = f
				}
			}
			t.graph(g)
			for _, in := range variants(rf, g) {
				for k := 0; k < rep; k++ {
					in := in
					t.eval(in, check(in), exShrinker(in, check))
				}
			}
		}
		return t.done()
	}
}

func exAbsVariants(r *rng, g *exGraph) []*exInput {
	a, b, c := exInputOf(g), exInputOf(g), exInputOf(g)
	a.Opts, b.Opts = &exOpts{Abs: false}, &exOpts{Abs: true}
	// once more for a root that was not decoded but built: the same document in another in-memory representation
	c.Opts = &exOpts{Abs: r.chance(1, 2), Built: true}
	return []*exInput{a, b, c}
}

// exC18Variants: both renderings, a built root, and the same graph with a broken reference (a pointer that leads nowhere, an
// ill-typed target...): what is fetched, and how often, is the cache's business whether or not the expansion succeeds.
func exC18Variants(r *rng, g *exGraph) []*exInput {
	out := exAbsVariants(r, g)
	for tries := 0; tries < 3; tries++ {
		if f, kind := exInjectFault(r, g); f != nil && kind != "missing-doc" && kind != "empty-union" {
			in := exInputOf(f)
			in.Opts = &exOpts{}
			return append(out, in)
		}
	}
	return out
}

// ---------------------------------------------------------------------------------------------
// C03: only resolvable cycle cut-points remain; acyclic specifications end `$ref`-free and deterministic

func checkC03(in *exInput) []exFinding {
	g := in.graph()
	o := in.opts()
	o.Skip, o.Cont = false, false
	res := exExpand(g, o)
	if !res.ok() {
		return nil
	}
	info := g.analyse()
	s := g.store()
	out := exDecode(res.Out)
	var fs []exFinding
	for _, h := range exRemainingRefs(g.Root, out) {
		t, ok := exCanonRef(g.Root, h.Ref)
		where := fmt.Sprintf("`$ref` %q left at %s", h.Ref, h.ptr())
		top := exPtr(h.Path[:2])
		n := info.Nodes[t.String()]
		v, found := s.lookup(t)
		_, isObj := v.(map[string]interface{})
		switch {
		case !ok || !found || !isObj:
			fs = append(fs, exFinding{Shape: exShape("ref-unresolvable", g, o.Abs, top), What: where + " does not resolve from the root location", Obs: t.String()})
			continue
		case info.Acyclic:
			fs = append(fs, exFinding{Shape: exShape("ref-left-acyclic", g, o.Abs, top), What: where + " although the reference graph is acyclic", Obs: t.String()})
			continue
		case n == nil || !n.OnCycle:
			fs = append(fs, exFinding{Shape: exShape("ref-not-on-cycle", g, o.Abs, top), What: where + " designates a node that is on no reference cycle of the input", Obs: t.String()})
			continue
		}
		docPart := strings.SplitN(h.Ref, "#", 2)[0]
		if o.Abs && docPart != t.Doc {
			fs = append(fs, exFinding{Shape: exShape("ref-rendering", g, o.Abs, top), What: where + " is not an absolute canonical URL (AbsoluteCircularRef)", Obs: h.Ref, Exp: t.String()})
		}
		if ru, e1 := url.Parse(g.Root); !o.Abs && e1 == nil && t.Doc != g.Root {
			if hu, e2 := url.Parse(h.Ref); e2 == nil && hu.Scheme != "" && strings.EqualFold(hu.Scheme, ru.Scheme) && hu.Host == ru.Host &&
				strings.HasPrefix(hu.Path, path.Dir(ru.Path)+"/") {
				// (a document outside the root's folder is written with its absolute path, scheme and host: the library's stated rule)
				shape := exShape("ref-rendering", g, o.Abs, top)
				if hu.Fragment == "" && shape == "ref-rendering" {
					shape = "ref-rendering:absolute-whole-document" // what the library writes for `"$ref": "#"` (finding F26)
				}
				fs = append(fs, exFinding{Shape: shape, What: where + " is an absolute URL although AbsoluteCircularRef is off and the document lies below the folder of the root", Obs: h.Ref})
			}
		}
		if !o.Abs && t.Doc == g.Root && !strings.HasPrefix(h.Ref, "#") {
			fs = append(fs, exFinding{Shape: exShape("ref-rendering", g, o.Abs, top), What: where + " points into the root document but is not fragment-only", Obs: h.Ref, Exp: "#" + t.Ptr})
		}
	}
	if info.Acyclic {
		res2 := exExpand(g, o)
		if res2.ok() && !bytes.Equal(res.Out, res2.Out) {
			fs = append(fs, exFinding{Shape: exShape("nondeterministic", g, o.Abs), What: "two expansions of an acyclic specification differ", Obs: exClip(string(res2.Out), 1500), Exp: exClip(string(res.Out), 1500)})
		}
	}
	return exFirstPerShape(fs)
}

func exFirstPerShape(fs []exFinding) []exFinding {
	seen := map[string]bool{}
	var out []exFinding
	for _, f := range fs {
		if !seen[f.Shape] {
			seen[f.Shape] = true
			out = append(out, f)
		}
	}
	return out
}

// ---------------------------------------------------------------------------------------------
// C04: every entry point returns, without panic, under every option combination

func exC04Calls(g *exGraph) []*exCall {
	var cs []*exCall
	for _, skip := range []bool{false, true} {
		for _, cont := range []bool{false, true} {
			cs = append(cs, g.call("expand_spec", exOpts{Skip: skip, Cont: cont, Abs: skip != cont}))
		}
	}
	for _, ec := range exElementCases(g) {
		if ec.Form != "ref" {
			continue
		}
		for _, entry := range exEntries {
			if !exEntryApplies(ec.Op, entry) {
				continue
			}
			if ec.Op == "expand_schema" && entry == "base_path" {
				for _, skip := range []bool{false, true} {
					for _, cont := range []bool{false, true} {
						c := g.call(ec.Op, exOpts{Skip: skip, Cont: cont})
						c.Element, c.Entry = ec.Element, entry
						cs = append(cs, c)
					}
				}
				continue
			}
			c := g.call(ec.Op, exOpts{})
			c.Element, c.Entry = ec.Element, entry
			cs = append(cs, c)
		}
	}
	return cs
}

func exCallLabel(c *exCall) string {
	s := c.Op
	if c.Entry != "" {
		s += "/" + c.Entry
	}
	return fmt.Sprintf("%s skip=%v cont=%v", s, c.Opts.Skip, c.Opts.Cont)
}

func checkC04(in *exInput) []exFinding {
	g := in.graph()
	tag := "acyclic"
	switch {
	case g.hasTag("id:reldir"):
		tag = "id-reldir"
	case g.hasTag("id"):
		tag = "id"
	case len(g.Broken) > 0 || len(g.Missing) > 0:
		tag = "fault"
	case !g.Acyclic:
		tag = "cyclic"
	}
	var fs []exFinding
	for _, c := range exC04Calls(g) {
		res := exRun(c)
		if res.Timeout {
			fs = append(fs, exFinding{Shape: "timeout:" + tag, What: exCallLabel(c) + " does not return within " + exTimeout.String(), Obs: c.Element})
			break // the other calls on this graph would time out as well
		}
		if res.Panic != "" {
			shape := "panic"
			if strings.Contains(res.Panic, "called using nil") {
				shape = "panic:absent-member" // a pointer designating an optional member that is not there
			}
			fs = append(fs, exFinding{Shape: shape, What: exCallLabel(c) + " panics", Obs: res.Panic})
		}
	}
	return exFirstPerShape(fs)
}

// ---------------------------------------------------------------------------------------------
// C08: no silent failure

// exMustFail: does the traversal from the root's elements meet an unresolvable reference?
func exMustFail(info *exInfo, followSchemas bool) (bool, string) {
	return exMustFailBut(info, followSchemas, false)
}

// exMustFailBut: the same, optionally without passing through the holders that designate their own document as a whole
// (`"$ref": "#"` and `"$ref": ""`).
func exMustFailBut(info *exInfo, followSchemas, skipSelf bool) (bool, string) {
	seen := map[string]bool{}
	var visit func(k string) (bool, string)
	visit = func(k string) (bool, string) {
		if seen[k] {
			return false, ""
		}
		seen[k] = true
		n := info.Nodes[k]
		if n == nil || !n.Exists {
			return true, k
		}
		for i, h := range n.Holders {
			if h.Kind == exSchema && !followSchemas {
				continue
			}
			if skipSelf && exLibRef(h.Ref) == "" {
				continue
			}
			if b, w := visit(n.Out[i]); b {
				return true, w
			}
		}
		return false, ""
	}
	for _, st := range info.Starts {
		if b, w := visit(st); b {
			return true, w
		}
	}
	return false, ""
}

// exPointerThroughRef: does the pointer of key ("url#/ptr") pass through an object that carries a `$ref`?
func exPointerThroughRef(s exStore, key string) bool {
	i := strings.Index(key, "#")
	if i < 0 {
		return false
	}
	var cur interface{} = s[key[:i]]
	for _, t := range exPtrTokens(key[i+1:]) {
		m, ok := cur.(map[string]interface{})
		if ok {
			if _, isRef := m["$ref"].(string); isRef {
				return true
			}
			cur, ok = m[t]
			if !ok {
				return false
			}
			continue
		}
		l, ok := cur.([]interface{})
		if !ok {
			return false
		}
		n, err := strconv.Atoi(t)
		if err != nil || n < 0 || n >= len(l) {
			return false
		}
		cur = l[n]
	}
	return false
}

func exLibRef(s string) string {
	r, err := spec.NewRef(s)
	if err != nil {
		return s
	}
	return r.String()
}

func checkC08(in *exInput) []exFinding {
	g := in.graph()
	info := g.analyse()
	s := g.store()
	var fs []exFinding
	// strict mode
	for _, skip := range []bool{false, true} {
		must, witness := exMustFail(info, !skip)
		res := exExpand(g, exOpts{Skip: skip})
		if res.Timeout || res.Panic != "" {
			continue
		}
		if must && !res.Err {
			shape := exShape("silent-failure", g, false)
			if exPointerThroughRef(s, witness) {
				// the pointer passes THROUGH a `$ref` holder: nothing is there in the document, but ExpandSpec works on the root
				// in place and may already have replaced that holder by its target when the reference is resolved (finding F24)
				shape = "silent-failure:pointer-through-ref"
			} else if m2, _ := exMustFailBut(info, !skip, true); !m2 {
				// the unresolvable reference is reachable only through a `"$ref": "#"` (the whole of the current document), which
				// the library never follows (finding F26)
				shape = "silent-failure:behind-self-ref"
			}
			fs = append(fs, exFinding{Shape: shape, What: fmt.Sprintf("skip=%v: no error although %s has to be followed and cannot be resolved", skip, witness)})
		}
		if !must && res.Err {
			fs = append(fs, exFinding{Shape: exShape("spurious-error", g, false), What: fmt.Sprintf("skip=%v: error although every reference that has to be followed is resolvable", skip), Obs: res.ErrText})
		}
	}
	// continue mode
	res := exExpand(g, exOpts{Cont: true})
	if res.Timeout || res.Panic != "" {
		return exFirstPerShape(fs)
	}
	if res.Err {
		fs = append(fs, exFinding{Shape: "continue-error", What: "ContinueOnError returns an error", Obs: res.ErrText})
		return exFirstPerShape(fs)
	}
	out := exDecode(res.Out)
	for _, k := range exRootElements(s[g.Root]) {
		for _, h := range exHolders(g.Root, k.Kind, k.V, k.Path) {
			if h.Kind != exSchema {
				continue
			}
			t, _ := exCanonRef(g.Root, h.Ref)
			if n := info.Nodes[t.String()]; n == nil || n.Exists {
				continue
			}
			ov, _ := exAt(out, h.Path)
			got, _ := exRefOf(exSchema, ov)
			if got != h.Ref && got != exLibRef(h.Ref) {
				shape := "ref-lost"
				if _, there := s.lookup(t); there {
					shape = "ref-lost:ill-typed" // the target exists but is not an object
				} else if exPointerThroughRef(s, t.String()) {
					shape = "ref-lost:pointer-through-ref" // resolved in the partially expanded live root (finding F24)
				}
				fs = append(fs, exFinding{Shape: shape, What: "unresolvable schema `$ref` at " + h.ptr() + " is not left verbatim by ContinueOnError", Obs: exView(ov), Exp: h.Ref})
			}
		}
	}
	if len(g.Broken) == 0 && len(g.Missing) == 0 {
		return exFirstPerShape(fs)
	}
	// what does not depend on a broken reference is expanded as in the repaired graph
	g0 := exRepair(g)
	ref := exExpand(g0, exOpts{})
	if !ref.ok() {
		return exFirstPerShape(fs) // the strict check on the repaired graph reports that
	}
	s0 := g0.store()
	out0 := exDecode(ref.Out)
	so, so0 := s.with(g.Root, out), s0.with(g.Root, out0)
	// the comparison INSIDE an element that depends on a broken reference is made when all faults are dangling or absent
	// targets of SCHEMA references: those stay in place verbatim (a broken parameter/response/path-item reference is dropped
	// with its element, an ill-typed target is the known finding F22, a missing document takes all of its elements with it)
	fine := len(g.Missing) == 0
	for _, b := range g.Broken {
		if b.Kind != exSchema || strings.HasPrefix(b.Fault, "ill-typed") {
			fine = false
		}
	}
	for _, k := range exRootElements(s[g.Root]) {
		n := info.Nodes[exTarget{g.Root, exPtr(k.Path)}.String()]
		if n == nil {
			continue
		}
		a, oka := exAt(out, k.Path)
		b, okb := exAt(out0, k.Path)
		if !oka || !okb {
			continue
		}
		if n.Broken && fine {
			// a broken reference is left verbatim, i.e. not re-spelled for its new place: read from the root location its text may
			// by coincidence designate something (a fragment-only "#/definitions" taken over from another document).  Its holder
			// is a dangling position all the same
			a = exMarkVerbatim(a, g.Broken)
		}
		x, y := so.unfold(g.Root, a, k.Kind, exDepth), so0.unfold(g.Root, b, k.Kind, exDepth)
		if n.Broken {
			if !fine {
				continue
			}
			// the element depends on a broken reference: everything in it that does not must still be expanded as in the repaired
			// graph — the two unfoldings agree except below the positions where the faulty one dangles
			if d := exDiffModDangling(x, y, ""); d != "" {
				fs = append(fs, exFinding{Shape: exShape("independent-part-differs", g, false, exPtr(k.Path)),
					What: exPtr(k.Path) + " depends on a broken reference, but a part of it that does not is not expanded as in the repaired graph (first difference at " + d + ")", Obs: exView(a), Exp: exView(b)})
				break
			}
			continue
		}
		if exJSON(x) != exJSON(y) || (g0.Acyclic && exJSON(a) != exJSON(b)) {
			fs = append(fs, exFinding{Shape: exShape("independent-differs", g, false, exPtr(k.Path)),
				What: exPtr(k.Path) + " does not depend on a broken reference but is not expanded as in the repaired graph (first difference at " + exFirstDiff(a, b, "") + ")", Obs: exView(a), Exp: exView(b)})
			break
		}
	}
	return exFirstPerShape(fs)
}

// exMarkVerbatim replaces every holder of a `$ref` whose text is that of an injected broken reference by a dangling marker.
func exMarkVerbatim(v interface{}, broken []exBroken) interface{} {
	switch x := v.(type) {
	case map[string]interface{}:
		if r, ok := x["$ref"].(string); ok {
			for _, b := range broken {
				if b.Ref == r {
					return map[string]interface{}{"$dangling": r}
				}
			}
		}
		out := make(map[string]interface{}, len(x))
		for k, e := range x {
			out[k] = exMarkVerbatim(e, broken)
		}
		return out
	case []interface{}:
		out := make([]interface{}, len(x))
		for i, e := range x {
			out[i] = exMarkVerbatim(e, broken)
		}
		return out
	}
	return v
}

// exDiffModDangling: first difference between the unfolding x of a faulty graph and the unfolding y of its repair, ignoring
// what lies at or below a position where x dangles (an unresolvable reference left in place) or was cut.
func exDiffModDangling(x, y interface{}, at string) string {
	if xm, ok := x.(map[string]interface{}); ok {
		if _, d := xm["$dangling"]; d {
			return ""
		}
		ym, ok := y.(map[string]interface{})
		if !ok {
			return at + " (kinds differ)"
		}
		keys := map[string]bool{}
		for k := range xm {
			keys[k] = true
		}
		for k := range ym {
			keys[k] = true
		}
		ks := make([]string, 0, len(keys))
		for k := range keys {
			ks = append(ks, k)
		}
		sort.Strings(ks)
		for _, k := range ks {
			xv, okx := xm[k]
			yv, oky := ym[k]
			if okx != oky {
				return at + "/" + k + " (present on one side only)"
			}
			if d := exDiffModDangling(xv, yv, at+"/"+k); d != "" {
				return d
			}
		}
		return ""
	}
	if xl, ok := x.([]interface{}); ok {
		yl, ok := y.([]interface{})
		if !ok || len(xl) != len(yl) {
			return at + " (arrays differ in kind or length)"
		}
		for i := range xl {
			if d := exDiffModDangling(xl[i], yl[i], at+"/"+strconv.Itoa(i)); d != "" {
				return d
			}
		}
		return ""
	}
	if exJSON(x) != exJSON(y) {
		return at
	}
	return ""
}

// exFindRefText returns the first `$ref` text anywhere in v that satisfies p ("" when none does).
func exFindRefText(v interface{}, p func(string) bool) string {
	switch x := v.(type) {
	case map[string]interface{}:
		if r, ok := x["$ref"].(string); ok && p(r) {
			return r
		}
		keys := make([]string, 0, len(x))
		for k := range x {
			keys = append(keys, k)
		}
		sort.Strings(keys)
		for _, k := range keys {
			if r := exFindRefText(x[k], p); r != "" {
				return r
			}
		}
	case []interface{}:
		for _, e := range x {
			if r := exFindRefText(e, p); r != "" {
				return r
			}
		}
	}
	return ""
}

// exFirstDiff: a pointer to the first position at which two JSON values differ ("" when they are equal).
func exFirstDiff(a, b interface{}, at string) string {
	switch x := a.(type) {
	case map[string]interface{}:
		y, ok := b.(map[string]interface{})
		if !ok {
			return at + " (kinds differ)"
		}
		keys := map[string]bool{}
		for k := range x {
			keys[k] = true
		}
		for k := range y {
			keys[k] = true
		}
		ks := make([]string, 0, len(keys))
		for k := range keys {
			ks = append(ks, k)
		}
		sort.Strings(ks)
		for _, k := range ks {
			xv, okx := x[k]
			yv, oky := y[k]
			if okx != oky {
				return at + "/" + k + " (present on one side only)"
			}
			if d := exFirstDiff(xv, yv, at+"/"+k); d != "" {
				return d
			}
		}
		return ""
	case []interface{}:
		y, ok := b.([]interface{})
		if !ok || len(x) != len(y) {
			return at + " (arrays differ in kind or length)"
		}
		for i := range x {
			if d := exFirstDiff(x[i], y[i], at+"/"+strconv.Itoa(i)); d != "" {
				return d
			}
		}
		return ""
	}
	if exJSON(a) != exJSON(b) {
		return at
	}
	return ""
}

// ---------------------------------------------------------------------------------------------
// C09: skip-schemas mode

func checkC09(in *exInput) []exFinding {
	g := in.graph()
	// the other options must make no difference to what skip mode does (AbsoluteCircularRef is about circular references of a
	// full expansion; ContinueOnError about unresolvable ones)
	o := in.opts()
	res := exExpand(g, exOpts{Skip: true, Abs: o.Abs, Built: o.Built})
	if res.Panic != "" && !strings.Contains(res.Panic, "called using nil") {
		return []exFinding{{Shape: "panic", What: "the skip-schemas expansion panics", Obs: exClip(res.Panic, 300)}}
	}
	if !res.ok() {
		return nil
	}
	s := g.store()
	rootIn := s[g.Root]
	out := exDecode(res.Out)
	so := s.with(g.Root, out)
	var fs []exFinding
	for _, h := range exRemainingRefs(g.Root, out) {
		if h.Kind != exSchema {
			fs = append(fs, exFinding{Shape: exShape("element-ref-left", g, false, exPtr(h.Path[:2])), What: "a " + h.Kind + " `$ref` remains at " + h.ptr(), Obs: h.Ref})
		}
	}
	// (modulo the codec: the text of a `$ref` is re-printed by decoding and encoding alone)
	var viaCodec interface{} = rootIn
	if sw := new(spec.Swagger); json.Unmarshal(g.Docs[g.Root], sw) == nil {
		if b, err := json.Marshal(sw); err == nil {
			viaCodec = exDecode(b)
		}
	}
	din, _ := exAt(viaCodec, []string{"definitions"})
	dout, _ := exAt(out, []string{"definitions"})
	if exJSON(din) != exJSON(dout) {
		fs = append(fs, exFinding{Shape: "definitions-touched", What: "the definitions section is modified", Obs: exView(dout), Exp: exView(din)})
	}
	for _, k := range exRootElements(rootIn) {
		if k.Kind == exSchema {
			continue
		}
		ov, ok := exAt(out, k.Path)
		if !ok {
			fs = append(fs, exFinding{Shape: "position-lost", What: exPtr(k.Path) + " is missing from the output"})
			continue
		}
		a, b := s.canonTree(g.Root, k.V, k.Kind, 12), so.canonTree(g.Root, ov, k.Kind, 12)
		if exJSON(a) != exJSON(b) {
			fs = append(fs, exFinding{Shape: exShape("schema-ref-retargeted", g, false, exPtr(k.Path)),
				What: "under " + exPtr(k.Path) + ": the dereferenced element or the canonical targets of its schema `$ref`s differ from the input", Obs: exView(b), Exp: exView(a)})
			break
		}
	}
	for _, h := range exRemainingRefs(g.Root, out) {
		if t, ok := exCanonRef(g.Root, h.Ref); ok && h.Kind == exSchema && t.Doc == g.Root && !strings.HasPrefix(h.Ref, "#") && !strings.HasPrefix(h.ptr(), "/definitions/") {
			fs = append(fs, exFinding{Shape: exShape("ref-rendering", g, false, exPtr(h.Path[:2])), What: "schema `$ref` at " + h.ptr() + " points into the root document but is not fragment-only", Obs: h.Ref})
		}
	}
	// a full expansion afterwards gives what a direct full expansion gives
	direct := exExpand(g, exOpts{})
	if direct.ok() {
		g2 := g.clone()
		g2.Docs[g.Root] = res.Out
		then := exExpand(g2, exOpts{})
		if !then.ok() {
			fs = append(fs, exFinding{Shape: exShape("then-full-differs", g, false), What: "the output of the skip-schemas run cannot be fully expanded", Obs: then.ErrText + then.Panic})
		} else {
			d, t := exDecode(direct.Out), exDecode(then.Out)
			if ptr, kind, want, got := exCompareElements(s.with(g.Root, d), d, s.with(g.Root, t), t, g.Root, exDepth); kind != "" {
				fs = append(fs, exFinding{Shape: exShape("then-full-differs", g, false, ptr), What: "skip-schemas then full expansion differs from a direct full expansion at " + ptr, Obs: exView(got), Exp: exView(want)})
			}
		}
	}
	return exFirstPerShape(fs)
}

func exPlainVariant(r *rng, g *exGraph) []*exInput { return []*exInput{exInputOf(g)} }

// ---------------------------------------------------------------------------------------------
// C10: single-element entry points

var exPseudoRoot = spec.VerifNormalizeBase(".root")

var exOpKind = map[string]string{"expand_schema": exSchema, "expand_param": exParam, "expand_response": exResponse}

func checkC10(in *exInput) []exFinding {
	g := in.graph()
	c := g.call(in.Op, in.opts())
	c.Element, c.Entry = in.Element, in.Entry
	res := exRun(c)
	if res.Timeout || res.Panic != "" {
		return nil // C04
	}
	var fs []exFinding
	if res.RootChanged != "" {
		fs = append(fs, exFinding{Shape: "root-mutated", What: in.Entry + ": the root document passed as context is modified", Obs: res.RootChanged})
	}
	if res.OptsChanged != "" {
		fs = append(fs, exFinding{Shape: "options-mutated", What: in.Entry + ": the caller's options are modified", Obs: res.OptsChanged})
	}
	kind := exOpKind[in.Op]
	s, loc := g.store(), g.Root
	if in.Entry != "base_path" {
		loc = exPseudoRoot
		s = s.with(loc, s[g.Root])
	}
	el := exDecode(in.Element)
	want := s.unfold(loc, el, kind, exDepth)
	if s.reachesDangling(loc, el, kind) {
		// the element depends on something this entry point cannot reach
		return append(fs, exFinding{Shape: "stat:out-of-reach:" + in.Entry})
	}
	fs = append(fs, exFinding{Shape: "stat:compared:" + in.Entry})
	o := in.opts()
	if res.Err {
		fs = append(fs, exFinding{Shape: exShape("entry:"+in.Entry, g, o.Abs, in.Pointer), What: in.Op + " fails on an element whose references all resolve", Obs: res.ErrText})
		return fs
	}
	if in.Entry != "base_path" {
		// the root was handed over as a value: what is left behind must be readable against THAT root, i.e. fragment-only
		// when it points into it — the pseudo location under which the library files the root internally must not leak
		if leak := exFindRefText(exDecode(res.Out), func(r string) bool {
			u := strings.SplitN(r, "#", 2)[0]
			return u == ".root" || strings.HasSuffix(u, "/.root")
		}); leak != "" {
			fs = append(fs, exFinding{Shape: exShape("entry-pseudo-root-leaks", g, o.Abs, in.Pointer), What: in.Op + " (" + in.Entry + "): a `$ref` left in the result names the library's internal pseudo location of the root instead of being fragment-only", Obs: leak})
			return fs
		}
	}
	if !o.Skip {
		// completeness, as for whole-specification expansion (C03): a `$ref` is left only at a node of a reference cycle
		for _, h := range exHolders(loc, kind, exDecode(res.Out), nil) {
			t, ok := exCanonRef(loc, h.Ref)
			if !ok {
				continue
			}
			// judged in the store itself (not through the analysis of the root, whose starting points need not reach the element)
			if !s.refOnCycle(t, h.Kind) {
				fs = append(fs, exFinding{Shape: exShape("entry-ref-not-on-cycle:"+in.Entry, g, o.Abs, in.Pointer),
					What: fmt.Sprintf("%s (%s): `$ref` %q left at %s designates a node that is on no reference cycle of the input", in.Op, in.Entry, h.Ref, h.ptr()), Obs: t.String()})
				return fs
			}
		}
	}
	got := s.unfold(loc, exDecode(res.Out), kind, exDepth)
	if exJSON(got) != exJSON(want) {
		fs = append(fs, exFinding{Shape: exShape("entry:"+in.Entry, g, o.Abs, in.Pointer), What: in.Op + ": the result does not denote what the element denotes in the context of the root", Obs: exView(got), Exp: exView(want)})
	}
	return fs
}

// reachesDangling: does following the references below v ever meet a target that is not there?
func (s exStore) reachesDangling(doc string, v interface{}, kind string) bool {
	seen := map[string]bool{}
	var visit func(doc string, v interface{}, kind string) bool
	visit = func(doc string, v interface{}, kind string) bool {
		for _, h := range exHolders(doc, kind, v, nil) {
			t, ok := exCanonRef(doc, h.Ref)
			if !ok {
				return true
			}
			if seen[t.String()+" "+h.Kind] {
				continue
			}
			seen[t.String()+" "+h.Kind] = true
			n, found := s.lookup(t)
			if _, isObj := n.(map[string]interface{}); !found || !isObj {
				return true
			}
			if visit(t.Doc, n, h.Kind) {
				return true
			}
		}
		return false
	}
	return visit(doc, v, kind)
}

func exC10Variants(r *rng, g *exGraph) []*exInput {
	var out []*exInput
	for _, ec := range exElementCases(g) {
		for _, entry := range exEntries {
			if !exEntryApplies(ec.Op, entry) || (g.Root == exPseudoRoot && entry == "base_path") {
				continue // a root without a location cannot be named by a base path
			}
			in := exInputOf(g)
			in.Op, in.Element, in.Entry, in.Pointer = ec.Op, ec.Element, entry, ec.Pointer
			if ec.Op == "expand_schema" && entry == "base_path" {
				in.Opts = &exOpts{Abs: r.chance(1, 2)}
			}
			out = append(out, in)
		}
	}
	return out
}

// ---------------------------------------------------------------------------------------------
// C18: a resolution cache is transparent

type exMapCache struct {
	mu sync.Mutex
	m  map[string]interface{}
}

func newExMapCache() *exMapCache { return &exMapCache{m: map[string]interface{}{}} }

func (c *exMapCache) Get(k string) (interface{}, bool) {
	c.mu.Lock()
	defer c.mu.Unlock()
	v, ok := c.m[k]
	return v, ok
}

func (c *exMapCache) Set(k string, v interface{}) {
	c.mu.Lock()
	c.m[k] = v
	c.mu.Unlock()
}

type exCacheRun struct {
	out     json.RawMessage
	err     string
	loads   []string
	timeout bool
	pan     string
}

func exExpandWithCache(g *exGraph, element json.RawMessage, cache spec.ResolutionCache, abs bool) *exCacheRun {
	r := &exCacheRun{}
	lg := &exLoadLog{}
	loader := exMakeLoader(g.Docs, g.Missing, lg)
	r.timeout, r.pan = exGuard(func() {
		sch := new(spec.Schema)
		if err := json.Unmarshal(element, sch); err != nil {
			r.err = err.Error()
			return
		}
		opts := &spec.ExpandOptions{RelativeBase: g.Root, PathLoader: loader, AbsoluteCircularRef: abs}
		var err error
		if cache == nil {
			err = spec.ExpandSchemaWithBasePath(sch, nil, opts) // an untyped nil, as a caller would write it
		} else {
			err = spec.ExpandSchemaWithBasePath(sch, cache, opts)
		}
		if err != nil {
			r.err = err.Error()
			return
		}
		r.out, _ = json.Marshal(sch)
	})
	r.loads = lg.list()
	return r
}

func exDuplicates(xs []string) []string {
	seen := map[string]int{}
	var out []string
	for _, x := range xs {
		seen[x]++
		if seen[x] == 2 {
			out = append(out, x)
		}
	}
	return out
}

func checkC18(in *exInput) []exFinding {
	g := in.graph()
	if g.hasTag("id") {
		return nil
	}
	s := g.store()
	abs := in.opts().Abs
	var elements []json.RawMessage
	for _, ec := range exElementCases(g) {
		if ec.Op == "expand_schema" && ec.Form == "ref" {
			elements = append(elements, ec.Element)
		}
	}
	same := func(a, b *exCacheRun) bool {
		if a.err != "" || b.err != "" {
			return (a.err != "") == (b.err != "")
		}
		if g.Acyclic {
			return bytes.Equal(a.out, b.out)
		}
		// (where a cycle is cut may depend on the order in which Go walks a map - but never whether the reference the element itself
		// consists of is followed at all)
		if exBareRef(a.out) != exBareRef(b.out) {
			return false
		}
		return exJSON(s.unfold(g.Root, exDecode(a.out), exSchema, exDepth)) == exJSON(s.unfold(g.Root, exDecode(b.out), exSchema, exDepth))
	}
	preload := func(urls []string) *exMapCache {
		c := newExMapCache()
		for _, u := range urls {
			c.Set(u, exCloneJSON(s[u]))
		}
		return c
	}
	var fs0 []exFinding
	// the whole specification, in one call: each external document is requested at most once (whichever section reaches it first)
	for _, o := range []exOpts{{Abs: abs}, {Skip: true}} {
		if res := exRun(g.call("expand_spec", o)); res.ok() {
			if d := exDuplicates(res.Loads); len(d) > 0 {
				fs0 = append(fs0, exFinding{Shape: "duplicate-load:spec", What: "a document is requested twice within one ExpandSpec", Obs: d})
			}
		}
	}
	if len(fs0) > 0 {
		return exFirstPerShape(fs0)
	}
	docs := g.docList()
	var subsets [][]string
	subsets = append(subsets, docs, []string{g.Root})
	for k := 0; k < len(docs) && k < 4; k++ {
		var sub []string
		for i, u := range docs {
			if (i+k)%2 == 0 {
				sub = append(sub, u)
			}
		}
		subsets = append(subsets, sub)
	}
	var fs []exFinding
	bad := func(r *exCacheRun) bool { return r.timeout || r.pan != "" }
	shared := newExMapCache()
	var sharedLoads []string
	for _, el := range elements {
		base := exExpandWithCache(g, el, nil, abs)
		if bad(base) {
			return nil
		}
		if d := exDuplicates(base.loads); len(d) > 0 {
			fs = append(fs, exFinding{Shape: "duplicate-load", What: "without a cache, a document is requested twice while expanding " + string(el), Obs: base.loads})
		}
		fresh := exExpandWithCache(g, el, newExMapCache(), abs)
		if !bad(fresh) && !same(base, fresh) {
			fs = append(fs, exFinding{Shape: exShape("cache-changes-result", g, abs), What: "a fresh cache changes the expansion of " + string(el), Obs: exClip(string(fresh.out)+fresh.err, 1200), Exp: exClip(string(base.out)+base.err, 1200)})
		}
		if !bad(fresh) {
			if d := exDuplicates(fresh.loads); len(d) > 0 {
				fs = append(fs, exFinding{Shape: "duplicate-load", What: "with a fresh cache, a document is requested twice while expanding " + string(el), Obs: fresh.loads})
			}
		}
		for _, sub := range subsets {
			pre := exExpandWithCache(g, el, preload(sub), abs)
			if bad(pre) {
				continue
			}
			if !same(base, pre) {
				fs = append(fs, exFinding{Shape: exShape("cache-changes-result", g, abs), What: fmt.Sprintf("a cache pre-loaded with %v changes the expansion of %s", sub, el), Obs: exClip(string(pre.out)+pre.err, 1200), Exp: exClip(string(base.out)+base.err, 1200)})
			}
			have := map[string]bool{}
			for _, u := range sub {
				have[u] = true
			}
			for _, u := range pre.loads {
				if have[u] {
					fs = append(fs, exFinding{Shape: "preloaded-requested", What: "a document present in the supplied cache is requested from the loader", Obs: u})
				}
			}
		}
		re := exExpandWithCache(g, el, shared, abs)
		if bad(re) {
			continue
		}
		sharedLoads = append(sharedLoads, re.loads...)
		if !same(base, re) {
			fs = append(fs, exFinding{Shape: exShape("cache-changes-result", g, abs), What: "a cache reused from earlier expansions of the same documents changes the expansion of " + string(el), Obs: exClip(string(re.out)+re.err, 1200), Exp: exClip(string(base.out)+base.err, 1200)})
		}
	}
	// a second pass with the same cache: every element once more, after everything has been walked
	for _, el := range elements {
		base := exExpandWithCache(g, el, nil, abs)
		re := exExpandWithCache(g, el, shared, abs)
		if bad(base) || bad(re) {
			continue
		}
		sharedLoads = append(sharedLoads, re.loads...)
		if !same(base, re) {
			fs = append(fs, exFinding{Shape: exShape("cache-changes-result", g, abs), What: "a cache reused from earlier expansions of the same documents changes the expansion of " + string(el) + " (second pass)", Obs: exClip(string(re.out)+re.err, 1200), Exp: exClip(string(base.out)+base.err, 1200)})
		}
	}
	if d := exDuplicates(sharedLoads); len(d) > 0 {
		fs = append(fs, exFinding{Shape: "duplicate-load", What: "with a cache reused across expansions, a document is requested again", Obs: d})
	}
	if !abs {
		fs = append(fs, checkC18Rooted(g, s, subsets, preload)...)
	}
	return exFirstPerShape(fs)
}

// exExpandRootedWithCache: the entry points that take the root as a value (ExpandSchema, ExpandParameterWithRoot,
// ExpandResponseWithRoot) and a cache; they have no loader option, documents come from the package-level loader.
func exExpandRootedWithCache(g *exGraph, op string, element json.RawMessage, cache spec.ResolutionCache) *exCacheRun {
	r := &exCacheRun{}
	lg := &exLoadLog{}
	exInstallGlobal(exMakeLoader(g.Docs, g.Missing, lg))
	r.timeout, r.pan = exGuard(func() {
		var root map[string]interface{}
		if err := json.Unmarshal(g.Docs[g.Root], &root); err != nil {
			r.err = err.Error()
			return
		}
		var v interface{}
		var err error
		switch op {
		case "expand_schema":
			x := new(spec.Schema)
			if err = json.Unmarshal(element, x); err == nil {
				if cache == nil {
					err = spec.ExpandSchema(x, root, nil)
				} else {
					err = spec.ExpandSchema(x, root, cache)
				}
			}
			v = x
		case "expand_param":
			x := new(spec.Parameter)
			if err = json.Unmarshal(element, x); err == nil {
				if cache == nil {
					err = spec.ExpandParameterWithRoot(x, root, nil)
				} else {
					err = spec.ExpandParameterWithRoot(x, root, cache)
				}
			}
			v = x
		case "expand_response":
			x := new(spec.Response)
			if err = json.Unmarshal(element, x); err == nil {
				if cache == nil {
					err = spec.ExpandResponseWithRoot(x, root, nil)
				} else {
					err = spec.ExpandResponseWithRoot(x, root, cache)
				}
			}
			v = x
		}
		if err != nil {
			r.err = err.Error()
			return
		}
		r.out, _ = json.Marshal(v)
	})
	r.loads = lg.list()
	return r
}

// checkC18Rooted: the same three cache states through the entry points that take the root as a value.  The element
// names the root document by its URL, so that every document of the graph - the root's own file included - is an
// external document for the call and goes through the cache.
func checkC18Rooted(g *exGraph, s exStore, subsets [][]string, preload func([]string) *exMapCache) []exFinding {
	var fs []exFinding
	bad := func(r *exCacheRun) bool { return r.timeout || r.pan != "" }
	sp := s.with(exPseudoRoot, s[g.Root])
	shared := newExMapCache()
	var sharedLoads []string
	for _, ec := range exElementCases(g) {
		if ec.Form != "ref" {
			continue
		}
		var holder map[string]string
		if json.Unmarshal(ec.Element, &holder) != nil || !strings.HasPrefix(holder["$ref"], "#") {
			continue
		}
		el, _ := json.Marshal(map[string]string{"$ref": g.Root + holder["$ref"]})
		kind := exOpKind[ec.Op]
		same := func(a, b *exCacheRun) bool {
			if a.err != "" || b.err != "" {
				return (a.err != "") == (b.err != "")
			}
			if g.Acyclic {
				return bytes.Equal(a.out, b.out)
			}
			return exJSON(sp.unfold(exPseudoRoot, exDecode(a.out), kind, exDepth)) == exJSON(sp.unfold(exPseudoRoot, exDecode(b.out), kind, exDepth))
		}
		what := func(state string) string {
			return fmt.Sprintf("%s with a root value: %s changes the expansion of %s", ec.Op, state, el)
		}
		base := exExpandRootedWithCache(g, ec.Op, el, nil)
		if bad(base) {
			continue
		}
		fresh := exExpandRootedWithCache(g, ec.Op, el, newExMapCache())
		if !bad(fresh) {
			if !same(base, fresh) {
				fs = append(fs, exFinding{Shape: exShape("cache-changes-result:rooted", g, false), What: what("a fresh cache"), Obs: exClip(string(fresh.out)+fresh.err, 1200), Exp: exClip(string(base.out)+base.err, 1200)})
			}
			if d := exDuplicates(fresh.loads); len(d) > 0 {
				fs = append(fs, exFinding{Shape: "duplicate-load:rooted", What: ec.Op + " with a root value and a fresh cache: a document is requested twice while expanding " + string(el), Obs: fresh.loads})
			}
		}
		for _, sub := range subsets {
			pre := exExpandRootedWithCache(g, ec.Op, el, preload(sub))
			if bad(pre) {
				continue
			}
			if !same(base, pre) {
				fs = append(fs, exFinding{Shape: exShape("cache-changes-result:rooted", g, false), What: what(fmt.Sprintf("a cache pre-loaded with %v", sub)), Obs: exClip(string(pre.out)+pre.err, 1200), Exp: exClip(string(base.out)+base.err, 1200)})
			}
			have := map[string]bool{}
			for _, u := range sub {
				have[u] = true
			}
			for _, u := range pre.loads {
				if have[u] {
					fs = append(fs, exFinding{Shape: "preloaded-requested:rooted", What: ec.Op + " with a root value: a document present in the supplied cache is requested from the loader", Obs: u})
				}
			}
		}
		re := exExpandRootedWithCache(g, ec.Op, el, shared)
		if bad(re) {
			continue
		}
		sharedLoads = append(sharedLoads, re.loads...)
		if !same(base, re) {
			fs = append(fs, exFinding{Shape: exShape("cache-changes-result:rooted", g, false), What: what("a cache reused from earlier expansions against the same root"), Obs: exClip(string(re.out)+re.err, 1200), Exp: exClip(string(base.out)+base.err, 1200)})
		}
	}
	if d := exDuplicates(sharedLoads); len(d) > 0 {
		fs = append(fs, exFinding{Shape: "duplicate-load:rooted", What: "with a root value and a cache reused across expansions, a document is requested again", Obs: d})
	}
	return fs
}

// ---------------------------------------------------------------------------------------------
// C11e2e: the root location may be spelled in any equivalent way

var exSpellingRewrites = map[string]bool{"dot": true, "updown": true, "dupslash": true, "dupfirst": true, "file1": true, "file3": true, "schemecase": true, "fragment": true, "query": true}

func exRootSpellings(r *rng, loc string, k int) []string {
	seen := map[string]bool{loc: true}
	var out []string
	for tries := 0; len(out) < k && tries < 20*k; tries++ {
		s := loc
		for j := 0; j < 1+r.intn(4); j++ {
			rw := rewrites[r.intn(len(rewrites))]
			if !exSpellingRewrites[rw.name] {
				continue
			}
			if t, ok := rw.f(s, r); ok {
				s = t
			}
		}
		if !seen[s] {
			seen[s] = true
			out = append(out, s)
		}
	}
	return out
}

func exCanonicalURL(u string) bool {
	p, err := url.Parse(u)
	if err != nil || p.Scheme == "" || p.Scheme != strings.ToLower(p.Scheme) || p.Fragment != "" || strings.Contains(u, "#") {
		return false
	}
	if p.Scheme == "file" && (p.RawQuery != "" || p.ForceQuery) {
		return false
	}
	return path.IsAbs(p.Path) && path.Clean(p.Path) == p.Path
}

// exSet: the set of requested URLs.  Whether the root document itself is requested (a reference
// that names it by file name) depends, on cyclic graphs, on where the cycle happens to be cut: it
// is left out of the comparison there.
func exSet(xs []string, ignore ...string) []string {
	seen := map[string]bool{}
	for _, x := range ignore {
		seen[x] = true
	}
	out := []string{}
	for _, x := range xs {
		if !seen[x] {
			seen[x] = true
			out = append(out, x)
		}
	}
	sort.Strings(out)
	return out
}

var exRespellCrashes int32

func checkC11e2e(in *exInput) []exFinding {
	if atomic.LoadInt32(&exRespellCrashes) > 3 {
		return []exFinding{{Shape: "stat:respelled-crash-not-examined"}}
	}
	g := in.graph()
	o := in.opts()
	// ExpandSpec, or one of the single-element entry points that take the root location as a string
	mk := func(spelling string) *exCall {
		op := in.Op
		if op == "" {
			op = "expand_spec"
		}
		c := g.call(op, o)
		c.Element, c.Entry, c.Spelling = in.Element, in.Entry, spelling
		if op == "resolve" { // Resolve…WithBase with no root value: the document is fetched from the location as the caller writes it
			var el struct {
				Ref string `json:"$ref"`
			}
			_ = json.Unmarshal(in.Element, &el)
			c.Kind, c.Ref, c.RootMode, c.Entry, c.Element = in.Entry, el.Ref, "none", "", nil
		}
		return c
	}
	c := mk(in.Spelling)
	// in a worker process: a spelling that defeats cycle detection ends in a stack overflow, which no recover() catches
	res := exWorkerRun(c)
	var fs []exFinding
	what := fmt.Sprintf("root location spelled %q instead of %q: ", in.Spelling, g.Root)
	if res.Timeout || res.Panic != "" {
		if atomic.AddInt32(&exRespellCrashes, 1) > 3 {
			return []exFinding{{Shape: "stat:respelled-crash-not-examined"}} // each costs a time-out or a gigabyte of stack: three witnesses are enough
		}
		ref := exRun(mk(""))
		if ref.Timeout || ref.Panic != "" {
			return nil // the canonical spelling does not come back either: not a matter of spelling (C04)
		}
		obs := "no result within the time limit"
		if res.Panic != "" {
			obs = exClip(res.Panic, 300)
		}
		return []exFinding{{Shape: exShape("respelled-root", g, o.Abs), What: what + "the expansion crashes or does not return, while it does with the canonical spelling", Obs: obs}}
	}
	for _, u := range res.Loads {
		if !exCanonicalURL(u) {
			fs = append(fs, exFinding{Shape: exShape("respelled-root", g, o.Abs), What: what + "the loader is given a URL that is not canonical", Obs: u})
		}
	}
	// compare with the canonical spelling; an outcome that the canonical spelling also produces on one
	// of a few runs (Go's map order decides where cycles are cut and which of several errors comes first)
	// is not a difference made by the spelling
	var first *exFinding
	for k := 0; k < 5; k++ {
		ref := exRun(mk(""))
		if ref.Timeout || ref.Panic != "" {
			return exFirstPerShape(fs)
		}
		d := exRespellingDiff(g, ref, res)
		if kind := exOpKind[in.Op]; in.Op != "" && in.Op != "expand_spec" && in.Op != "resolve" && d != nil && kind != "" && !ref.Err && !res.Err && !g.Acyclic {
			// a single element: what it denotes at the root location
			st := g.store()
			if exJSON(st.unfold(g.Root, exDecode(ref.Out), kind, exDepth)) == exJSON(st.unfold(g.Root, exDecode(res.Out), kind, exDepth)) &&
				exJSON(exSet(ref.Loads, g.Root)) == exJSON(exSet(res.Loads, g.Root)) {
				d = nil
			}
		}
		if d == nil {
			if k > 0 {
				fs = append(fs, exFinding{Shape: "stat:canonical-spelling-unstable"})
			}
			return exFirstPerShape(fs)
		}
		if first == nil {
			first = d
		}
	}
	first.Shape = exShape("respelled-root", g, o.Abs)
	first.What = what + first.What
	return exFirstPerShape(append(fs, *first))
}

func exRespellingDiff(g *exGraph, ref, res *exOutcome) *exFinding {
	if ref.Err != res.Err {
		return &exFinding{What: "error outcome differs", Obs: res.ErrText, Exp: ref.ErrText}
	}
	if ref.Err {
		return nil
	}
	var ignore []string
	if !g.Acyclic {
		ignore = []string{g.Root}
	}
	if a, b := exSet(ref.Loads, ignore...), exSet(res.Loads, ignore...); exJSON(a) != exJSON(b) {
		return &exFinding{What: "a different set of documents is requested", Obs: b, Exp: a}
	}
	if bytes.Equal(ref.Out, res.Out) {
		return nil
	}
	if g.Acyclic {
		return &exFinding{What: "outputs differ", Obs: exClip(string(res.Out), 1500), Exp: exClip(string(ref.Out), 1500)}
	}
	s := g.store()
	a, b := exDecode(ref.Out), exDecode(res.Out)
	if ptr, kind, want, got := exCompareElements(s.with(g.Root, a), a, s.with(g.Root, b), b, g.Root, exDepth); kind != "" {
		return &exFinding{What: "outputs differ at " + ptr, Obs: exView(got), Exp: exView(want)}
	}
	return nil
}

func exSpellingVariants(r *rng, g *exGraph) []*exInput {
	var out []*exInput
	for _, sp := range exRootSpellings(r, g.Root, 6) {
		in := exInputOf(g)
		in.Spelling = sp
		in.Opts = &exOpts{Abs: r.chance(1, 2), Skip: r.chance(1, 5)}
		out = append(out, in)
		// the entry points that take the root location as a string: ExpandSchemaWithBasePath, ExpandParameter, ExpandResponse
		var els []exElementCase
		for _, ec := range exElementCases(g) {
			if ec.Form == "ref" {
				els = append(els, ec)
			}
		}
		if len(els) > 0 && r.chance(1, 2) {
			ec := els[r.intn(len(els))]
			in2 := exInputOf(g)
			in2.Spelling = sp
			in2.Op, in2.Element, in2.Entry, in2.Pointer = ec.Op, ec.Element, "base_path", ec.Pointer
			in2.Opts = &exOpts{Abs: r.chance(1, 2)}
			out = append(out, in2)
		}
	}
	// the resolvers that are given no root value, only its location - in another spelling - and a fragment-only reference
	fixed := []string{}
	if k := strings.LastIndex(g.Root, "/"); k > 8 {
		fixed = append(fixed, g.Root[:k]+"/."+g.Root[k:], g.Root[:k]+"/x/.."+g.Root[k:])
		if strings.HasPrefix(g.Root, "file:///") {
			fixed = append(fixed, "file:/"+strings.TrimPrefix(g.Root, "file:///"))
		}
	}
	for i, sp := range append(fixed, exRootSpellings(r, g.Root, 2)...) {
		for _, ec := range exElementCases(g) {
			if ec.Form != "ref" {
				continue
			}
			kind := map[string]string{"expand_schema": "Schema", "expand_param": "Parameter", "expand_response": "Response"}[ec.Op]
			if kind == "" {
				continue
			}
			in4 := exInputOf(g)
			in4.Spelling = sp
			in4.Op, in4.Element, in4.Entry, in4.Pointer = "resolve", ec.Element, kind, ec.Pointer
			in4.Opts = &exOpts{}
			out = append(out, in4)
			if i > 0 {
				break
			}
		}
	}
	// a root location written with a trailing fragment that happens to be the pointer of something the element refers to (the
	// fragment of a location is irrelevant, whatever it says)
	for _, ec := range exElementCases(g) {
		if ec.Form != "ref" || len(out) > 14 {
			continue
		}
		var el struct {
			Ref string `json:"$ref"`
		}
		if json.Unmarshal(ec.Element, &el) != nil || !strings.HasPrefix(el.Ref, "#/") {
			continue
		}
		in3 := exInputOf(g)
		in3.Spelling = g.Root + el.Ref // (the fragment as a reference writes it: escaped where a URL needs it)
		in3.Op, in3.Element, in3.Entry, in3.Pointer = ec.Op, ec.Element, "base_path", ec.Pointer
		in3.Opts = &exOpts{Abs: r.chance(1, 2)}
		out = append(out, in3)
	}
	return out
}

// ---------------------------------------------------------------------------------------------
// C16: calls share no hidden state

type exHistory struct {
	Pool    []*exCall `json:"pool"`
	History []int     `json:"history"`
}

const exMetaSwagger = "http://swagger.io/v2/schema.json"
const exMetaDraft04 = "http://json-schema.org/draft-04/schema"

// exMetaCalls: operations on the two built-in meta-schemas (dispatched by exExecMeta).
func exMetaCall(op, which string) *exCall {
	return &exCall{Op: op, Kind: which, Docs: map[string]json.RawMessage{}, Root: "file:///r/root.json"}
}

func exMetaSchema(which string) *spec.Schema {
	if which == "draft04" {
		return spec.MustLoadJSONSchemaDraft04()
	}
	return spec.MustLoadSwagger20Schema()
}

func exMetaURL(which string) string {
	if which == "draft04" {
		return exMetaDraft04
	}
	return exMetaSwagger
}

// exMetaStore: the two embedded meta-schemas under their own URLs.
func exMetaStore() exStore {
	s := exStore{}
	for _, which := range []string{"swagger20", "draft04"} {
		b, _ := json.Marshal(exMetaSchema(which))
		s[exMetaURL(which)] = exDecode(b)
	}
	return s
}

// exExecAny = exExec plus the meta-schema operations.
func exExecAny(c *exCall) *exOutcome {
	switch c.Op {
	case "expand_meta": // ExpandSchema of a fresh copy of the meta-schema, against itself
		o := &exOutcome{Loads: []string{}}
		lg := &exLoadLog{}
		exInstallGlobal(exMakeLoader(c.Docs, nil, lg))
		sch := exMetaSchema(c.Kind)
		if err := spec.ExpandSchema(sch, nil, nil); err != nil {
			o.Err, o.ErrText = true, err.Error()
		} else {
			o.Out, _ = json.Marshal(sch)
		}
		o.Loads = append(o.Loads, lg.list()...)
		return o
	case "resolve_meta": // the built-in cache entry, resolved as a whole and at a nested pointer
		o := &exOutcome{Loads: []string{}}
		lg := &exLoadLog{}
		loader := exMakeLoader(c.Docs, nil, lg)
		exInstallGlobal(loader)
		whole := spec.MustCreateRef(exMetaURL(c.Kind))
		nested := spec.MustCreateRef(exMetaURL(c.Kind) + "#/properties/" + map[string]string{"draft04": "multipleOf", "swagger20": "swagger"}[c.Kind])
		a, err := spec.ResolveRefWithBase(nil, &whole, &spec.ExpandOptions{PathLoader: loader})
		if err != nil {
			o.Err, o.ErrText = true, err.Error()
			return o
		}
		b, err := spec.ResolveRefWithBase(nil, &nested, &spec.ExpandOptions{PathLoader: loader})
		if err != nil {
			o.Err, o.ErrText = true, err.Error()
			return o
		}
		o.Out, _ = json.Marshal([]interface{}{a, b})
		o.Loads = append(o.Loads, lg.list()...)
		return o
	}
	return exExec(c)
}

func exRunAny(c *exCall) *exOutcome {
	if c.Op != "expand_meta" && c.Op != "resolve_meta" {
		return exRun(c)
	}
	var o *exOutcome
	if timeout, pan := exGuard(func() { o = exExecAny(c) }); timeout {
		return &exOutcome{Timeout: true}
	} else if pan != "" {
		return &exOutcome{Panic: pan}
	}
	return o
}

func exCallGraph(c *exCall) *exGraph {
	g := &exGraph{Docs: c.Docs, Root: c.Root, Missing: c.Missing}
	g.analyse()
	return g
}

// exSameOutcome: is `got` what `want` (the same call made first in a fresh process) was?
func exSameOutcome(c *exCall, want, got *exOutcome) string {
	if want.Timeout || want.Panic != "" || got.Timeout || got.Panic != "" {
		if want.Timeout != got.Timeout || (want.Panic != "") != (got.Panic != "") {
			return fmt.Sprintf("timeout/panic %v/%q instead of %v/%q", got.Timeout, got.Panic, want.Timeout, want.Panic)
		}
		return ""
	}
	if want.Err != got.Err {
		return fmt.Sprintf("error %q instead of %q", got.ErrText, want.ErrText)
	}
	if want.Err {
		return ""
	}
	var ignore []string
	if c.Op != "resolve" && c.Op != "resolve_ref" && len(c.Docs) > 0 {
		if g := exCallGraph(c); !g.Acyclic {
			ignore = []string{g.Root}
		}
	}
	if a, b := exSet(want.Loads, ignore...), exSet(got.Loads, ignore...); exJSON(a) != exJSON(b) {
		return fmt.Sprintf("documents requested %v instead of %v", b, a)
	}
	if bytes.Equal(want.Out, got.Out) {
		return ""
	}
	switch c.Op {
	case "expand_spec":
		g := exCallGraph(c)
		if g.Acyclic {
			break
		}
		s := g.store()
		a, b := exDecode(want.Out), exDecode(got.Out)
		if _, kind, _, _ := exCompareElements(s.with(g.Root, a), a, s.with(g.Root, b), b, g.Root, exDepth); kind == "" {
			return ""
		}
	case "expand_meta":
		// the expanded meta-schema refers to itself: compare the two results as self-contained documents
		const loc = "file:///meta/schema.json"
		a, b := exDecode(want.Out), exDecode(got.Out)
		meta := exMetaStore()
		if exJSON(meta.with(loc, a).unfold(loc, a, exSchema, 4)) == exJSON(meta.with(loc, b).unfold(loc, b, exSchema, 4)) {
			return ""
		}
	case "expand_schema", "expand_param", "expand_response":
		g := exCallGraph(c)
		if g.Acyclic {
			break
		}
		s, loc := g.store(), g.Root
		if c.Entry != "base_path" {
			loc = exPseudoRoot
			s = s.with(loc, s[g.Root])
		}
		kind := exOpKind[c.Op]
		if exJSON(s.unfold(loc, exDecode(want.Out), kind, exDepth)) == exJSON(s.unfold(loc, exDecode(got.Out), kind, exDepth)) {
			return ""
		}
	}
	return "result " + exClip(string(got.Out), 700) + " instead of " + exClip(string(want.Out), 700)
}

func checkC16(h *exHistory) []exFinding { return checkC16With(h, map[int]*exOutcome{}) }

func checkC16With(h *exHistory, fresh map[int]*exOutcome) []exFinding {
	for _, i := range h.History {
		if i < 0 || i >= len(h.Pool) {
			return []exFinding{{Shape: "bad-input", What: "history index out of range"}}
		}
		if fresh[i] == nil {
			fresh[i] = exFreshAny(h.Pool[i])
		}
	}
	var fs []exFinding
	for step, i := range h.History {
		c := h.Pool[i]
		got := exRunAny(c)
		if got.OptsChanged != "" {
			fs = append(fs, exFinding{Shape: "options-mutated", What: fmt.Sprintf("call %d (%s): the caller's options are modified", step, exCallLabel(c)), Obs: got.OptsChanged})
		}
		if d := exSameOutcome(c, fresh[i], got); d != "" {
			shape := "history-changes-result"
			if len(c.Docs) > 0 { // an outcome that depends on map order on a graph with a known defect is that defect, not hidden state
				shape = exShape(shape, exCallGraph(c), c.Opts.Abs)
			}
			fs = append(fs, exFinding{Shape: shape, What: fmt.Sprintf("call %d of the history (%s %s) differs from the same call made first in a fresh process", step, exCallLabel(c), c.Ref), Obs: d})
		}
	}
	// the built-in meta-schemas are still there, unmodified
	for _, which := range []string{"swagger20", "draft04"} {
		got := exExecAny(exMetaCall("resolve_meta", which))
		var parts []json.RawMessage
		json.Unmarshal(got.Out, &parts)
		want, _ := json.Marshal(exMetaSchema(which))
		if got.Err || len(parts) != 2 || !bytes.Equal(parts[0], want) {
			fs = append(fs, exFinding{Shape: "meta-schema-changed", What: "after the history, " + exMetaURL(which) + " no longer resolves to the embedded document", Obs: exClip(got.ErrText+string(got.Out), 600)})
		}
	}
	return exFirstPerShape(fs)
}

// exFreshAny: the call made first thing in a new process.
func exFreshAny(c *exCall) *exOutcome { return exFresh(c) }

func exHistoryPool(r *rng, graphs []*exGraph) []*exCall {
	var pool []*exCall
	for _, g := range graphs {
		pool = append(pool, g.call("expand_spec", exOpts{Abs: r.chance(1, 2), Skip: r.chance(1, 4), Cont: r.chance(1, 4)}))
		for _, rc := range exResolveCases(r, g, 2) {
			c := g.call("resolve", exOpts{})
			c.Kind, c.Ref, c.RootMode = rc.Kind, rc.Ref, r.pick([]string{"typed", "generic", "none"})
			pool = append(pool, c)
		}
		els := exElementCases(g)
		for k := 0; k < 2 && len(els) > 0; k++ {
			ec := els[r.intn(len(els))]
			c := g.call(ec.Op, exOpts{})
			c.Element, c.Entry = ec.Element, r.pick(exEntries)
			if !exEntryApplies(ec.Op, c.Entry) {
				c.Entry = "base_path"
			}
			pool = append(pool, c)
		}
	}
	pool = append(pool, exMetaCall("expand_meta", "swagger20"), exMetaCall("expand_meta", "draft04"), exMetaCall("resolve_meta", "swagger20"))
	return pool
}

func oracleC16(r *rng, n int, tier string) *oracleResult {
	t := newExTally("C16")
	groups := n / 10
	if groups < 3 {
		groups = 3
	}
	perGroup := 4
	if tier == "thorough" {
		perGroup = 12
	}
	for gi := 0; gi < groups; gi++ {
		rg := r.fork(uint64(gi))
		var graphs []*exGraph
		for k := 0; k < 3; k++ {
			// same locations, different contents
			g := exRandomGraph(rg.fork(uint64(k)), exGenOpts{Cycles: rg.intn(3), MaxDocs: 3})
			if k == 2 {
				if f, _ := exInjectFault(rg, g); f != nil {
					g = f
				}
			}
			t.graph(g)
			graphs = append(graphs, g)
		}
		pool := exHistoryPool(rg, graphs)
		fresh := map[int]*exOutcome{}
		// texts that are not URLs, where the library repairs instead of failing: a root location a caller mistyped, then a schema
		// `id` that is no URI (ignored: references below it are read from the document's own location)
		{
			type m = map[string]interface{}
			bad := exFromGeneric(m{"file:///r/root.json": m{"swagger": "2.0", "info": m{"title": "t", "version": "1"}, "paths": m{},
				"definitions": m{"a": m{"type": "string"}}}}, "file:///r/root.json").call("expand_spec", exOpts{})
			bad.Spelling = rg.pick([]string{"100%", "2024:q3/root.json", "a\x7fb.json"})
			withID := exFromGeneric(m{"http://example.com/specs/root.json": m{"swagger": "2.0", "info": m{"title": "t", "version": "1"}, "paths": m{},
				"definitions": m{"holder": m{"id": rg.pick([]string{"100%", "%zz", ":"}), "type": "object", "properties": m{"x": m{"$ref": "defs.json#/definitions/x"}}}}},
				"http://example.com/specs/defs.json": m{"definitions": m{"x": m{"type": "integer", "description": "x of defs"}}}}, "http://example.com/specs/root.json").call("expand_spec", exOpts{})
			bad.InProcess, withID.InProcess = true, true
			pool = append(pool, bad, withID)
			h := &exHistory{Pool: pool, History: []int{len(pool) - 2, len(pool) - 1, len(pool) - 2, len(pool) - 1}}
			fs := checkC16With(h, fresh)
			for i := range fs {
				// (the `id` here is no URI at all: not the half-implemented scoping of findings F10/F10b, whose shape the
				// presence of an `id` member would otherwise give)
				if strings.HasPrefix(fs[i].Shape, "history-changes-result") {
					fs[i].Shape = "history-changes-result:text-that-is-no-url"
				}
			}
			t.res.Evaluations += 3
			t.eval(exCompactHistory(h), fs, nil)
		}
		// references into the two built-in meta-schemas (held by every default cache, recursive): what one call learns while walking
		// them is its own business
		if gi == 0 {
			type m = map[string]interface{}
			mk := func(ref string) *exCall {
				c := exFromGeneric(m{"file:///ms/root.json": m{"swagger": "2.0", "info": m{"title": "t", "version": "1"}, "paths": m{},
					"definitions": m{"viaMeta": m{"$ref": ref}, "plain": m{"type": "string"}}}}, "file:///ms/root.json").call("expand_spec", exOpts{})
				c.InProcess = true
				return c
			}
			pool = append(pool, mk("http://swagger.io/v2/schema.json#/definitions/schema"), mk("http://json-schema.org/draft-04/schema#/definitions/positiveInteger"),
				mk("http://swagger.io/v2/schema.json#/definitions/header"))
			n := len(pool)
			h := &exHistory{Pool: pool, History: []int{n - 3, n - 3, n - 2, n - 1, n - 3, n - 1}}
			fs := checkC16With(h, fresh)
			for i := range fs {
				if strings.HasPrefix(fs[i].Shape, "history-changes-result") {
					fs[i].Shape = "history-changes-result:meta-schema"
				}
			}
			t.res.Evaluations += 5
			t.eval(exCompactHistory(h), fs, nil)
		}
		// a root in which a definition carries an `id`, then a cyclic root without any (on the same host): what the first call learnt
		// about its root - where it is anchored - is nothing to the second, whose remaining reference is spelled from its own root
		if gi == 0 {
			type m = map[string]interface{}
			withID := exFromGeneric(m{"http://example.test/api/a.json": m{"swagger": "2.0", "info": m{"title": "a", "version": "1"}, "paths": m{},
				"definitions": m{"pet": m{"id": "http://example.test/models/v2/pet.json", "type": "object", "properties": m{"n": m{"type": "string"}}}}}}, "http://example.test/api/a.json").call("expand_spec", exOpts{})
			cyclic := exFromGeneric(m{"http://example.test/api/tree.json": m{"swagger": "2.0", "info": m{"title": "t", "version": "1"}, "paths": m{},
				"definitions": m{"tree": m{"type": "object", "properties": m{"kids": m{"type": "array", "items": m{"$ref": "#/definitions/tree"}}}}}}}, "http://example.test/api/tree.json").call("expand_spec", exOpts{})
			skip := exFromGeneric(m{"http://example.test/api/s.json": m{"swagger": "2.0", "info": m{"title": "s", "version": "1"},
				"definitions": m{"leaf": m{"type": "string"}},
				"paths":       m{"/a": m{"get": m{"responses": m{"200": m{"description": "d", "schema": m{"$ref": "#/definitions/leaf"}}}}}}}}, "http://example.test/api/s.json").call("expand_spec", exOpts{Skip: true})
			withID.InProcess, cyclic.InProcess, skip.InProcess = true, true, true
			pool = append(pool, withID, cyclic, skip)
			n := len(pool)
			h := &exHistory{Pool: pool, History: []int{n - 3, n - 2, n - 1, n - 3, n - 2, n - 1, n - 3, n - 2}}
			fs := checkC16With(h, fresh)
			for i := range fs {
				if strings.HasPrefix(fs[i].Shape, "history-changes-result") {
					fs[i].Shape = "history-changes-result:after-a-root-with-id"
				}
			}
			t.res.Evaluations += 7
			t.eval(exCompactHistory(h), fs, nil)
		}
		// callers who pass no options at all (the documents they name are read through the package-level loader, relative references
		// start from the working directory): one whose root refers into a sub-folder, then one whose root refers to a document
		// next to it
		if gi == 0 {
			type m = map[string]interface{}
			cwdURL := strings.TrimSuffix(exPseudoRoot, ".root")
			mk := func(ref string, docs m) *exCall {
				docs[exPseudoRoot] = m{"swagger": "2.0", "info": m{"title": "t", "version": "1"}, "paths": m{}, "definitions": m{"a": m{"$ref": ref}}}
				c := exFromGeneric(docs, exPseudoRoot).call("expand_spec", exOpts{})
				c.Entry, c.EmptyBase, c.InProcess = "nil_options", true, true
				return c
			}
			sub := mk("sub/dir/other.json#/definitions/x", m{cwdURL + "sub/dir/other.json": m{"definitions": m{"x": m{"type": "string", "description": "x of sub/dir/other"}}}})
			next := mk("b.json#/definitions/item", m{cwdURL + "b.json": m{"definitions": m{"item": m{"type": "integer", "description": "item of b"}}}})
			pool = append(pool, sub, next)
			n := len(pool)
			h := &exHistory{Pool: pool, History: []int{n - 2, n - 1, n - 2, n - 1}}
			fs := checkC16With(h, fresh)
			for i := range fs {
				if strings.HasPrefix(fs[i].Shape, "history-changes-result") {
					fs[i].Shape = "history-changes-result:no-options"
				}
			}
			t.res.Evaluations += 3
			t.eval(exCompactHistory(h), fs, nil)
		}
		for hi := 0; hi < perGroup; hi++ {
			h := &exHistory{Pool: pool}
			for k := 2 + rg.intn(29); k > 0; k-- {
				h.History = append(h.History, rg.intn(len(pool)))
			}
			fs := checkC16With(h, fresh)
			t.res.Evaluations += len(h.History) - 1
			t.eval(exCompactHistory(h), fs, func(f exFinding) (interface{}, *exFinding) {
				// a pair of calls is usually enough
				for b := 1; b < len(h.History); b++ {
					for a := 0; a < b; a++ {
						small := &exHistory{Pool: pool, History: []int{h.History[a], h.History[b]}}
						for _, x := range checkC16With(small, fresh) {
							if x.Shape == f.Shape {
								return exCompactHistory(small), &x
							}
						}
					}
					if b > 12 {
						break
					}
				}
				return nil, nil
			})
		}
	}
	t.res.Samples = nil
	return t.done()
}

// exCompactHistory keeps only the calls the history uses.
func exCompactHistory(h *exHistory) *exHistory {
	idx := map[int]int{}
	c := &exHistory{}
	for _, i := range h.History {
		if _, ok := idx[i]; !ok {
			idx[i] = len(c.Pool)
			c.Pool = append(c.Pool, h.Pool[i])
		}
		c.History = append(c.History, idx[i])
	}
	return c
}

func replayC16(raw json.RawMessage) *oracleResult {
	t := newExTally("C16")
	h := &exHistory{}
	if err := json.Unmarshal(raw, h); err != nil || len(h.Pool) == 0 {
		t.res.Failures = append(t.res.Failures, failure{Property: "C16", What: "bad replay input"})
		return t.res
	}
	t.eval(h, checkC16(h), nil)
	return t.res
}

// ---------------------------------------------------------------------------------------------
// C17: concurrent use on independent data

type exConcInput struct {
	Goroutines        int         `json:"goroutines"`
	Tasks             []*exCall   `json:"tasks"`    // op additionally: shared_expand, marshal, pointer
	Schedule          [][]int     `json:"schedule"` // per goroutine, indices into Tasks
	Shared            *exGraph    `json:"shared"`   // the read-only document and the documents of the shared cache
	Pointers          []string    `json:"pointers,omitempty"`
	LoaderDelayMicros int         `json:"loader_delay_us,omitempty"` // every document fetch takes this long, so that fetches of different callers overlap
	Note              interface{} `json:"note,omitempty"`
}

type exConcEnv struct {
	shared *exGraph
	typed  *spec.Swagger
	cache  *exMapCache
	opts   *spec.ExpandOptions // one options value (location of the shared root, a loader) that every goroutine passes to its calls
}

func newExConcEnv(shared *exGraph, typed *spec.Swagger) *exConcEnv {
	return &exConcEnv{shared: shared, typed: typed, cache: newExMapCache(),
		opts: &spec.ExpandOptions{RelativeBase: shared.Root, PathLoader: exMakeLoader(shared.Docs, nil, &exLoadLog{})}}
}

func (e *exConcEnv) run(c *exCall) *exOutcome {
	switch c.Op {
	case "marshal":
		b, err := json.Marshal(e.typed)
		if err != nil {
			return &exOutcome{Err: true, ErrText: err.Error()}
		}
		return &exOutcome{Out: b}
	case "pointer":
		p, err := jsonpointer.New(c.Ref)
		if err != nil {
			return &exOutcome{Err: true, ErrText: err.Error()}
		}
		v, _, err := p.Get(e.typed)
		if err != nil {
			return &exOutcome{Err: true, ErrText: err.Error()}
		}
		b, _ := json.Marshal(v)
		return &exOutcome{Out: b}
	case "shared_expand":
		lg := &exLoadLog{}
		sch := new(spec.Schema)
		if err := json.Unmarshal(c.Element, sch); err != nil {
			return &exOutcome{Err: true, ErrText: err.Error()}
		}
		opts := &spec.ExpandOptions{RelativeBase: e.shared.Root, PathLoader: exMakeLoader(e.shared.Docs, nil, lg), AbsoluteCircularRef: c.Opts.Abs}
		if err := spec.ExpandSchemaWithBasePath(sch, e.cache, opts); err != nil {
			return &exOutcome{Err: true, ErrText: err.Error()}
		}
		b, _ := json.Marshal(sch)
		return &exOutcome{Out: b}
	case "shared_opts_expand", "shared_opts_spec":
		// distinct in-memory documents, no cache; the options are configuration the goroutines have in common
		var v interface{}
		var err error
		if c.Op == "shared_opts_spec" {
			sw := new(spec.Swagger)
			if err = json.Unmarshal(e.shared.Docs[e.shared.Root], sw); err == nil {
				err = spec.ExpandSpec(sw, e.opts)
			}
			v = sw
		} else {
			sch := new(spec.Schema)
			if err = json.Unmarshal(c.Element, sch); err == nil {
				err = spec.ExpandSchemaWithBasePath(sch, nil, e.opts)
			}
			v = sch
		}
		if err != nil {
			return &exOutcome{Err: true, ErrText: err.Error()}
		}
		b, _ := json.Marshal(v)
		return &exOutcome{Out: b}
	}
	return exExecLocal(c)
}

// exExecLocal: exExec without touching the package-level loader (tasks run concurrently).
func exExecLocal(c *exCall) *exOutcome {
	if c.Entry == "with_root_typed" || c.Entry == "with_root_generic" || (c.Entry == "base_path" && c.Op != "expand_schema") {
		return &exOutcome{Err: true, ErrText: "entry point needs the package-level loader"}
	}
	return exExecNoGlobal(c)
}

func exConcSame(e *exConcEnv, c *exCall, want, got *exOutcome) string {
	if want.Err != got.Err || (want.Panic != "") != (got.Panic != "") {
		return fmt.Sprintf("error %q %q instead of %q %q", got.ErrText, got.Panic, want.ErrText, want.Panic)
	}
	if want.Err || bytes.Equal(want.Out, got.Out) {
		return ""
	}
	switch c.Op {
	case "shared_opts_spec":
		cc := e.shared.call("expand_spec", exOpts{})
		return exSameOutcome(cc, &exOutcome{Out: want.Out, Loads: []string{}}, &exOutcome{Out: got.Out, Loads: []string{}})
	case "shared_expand", "shared_opts_expand":
		s := e.shared.store()
		if exJSON(s.unfold(e.shared.Root, exDecode(want.Out), exSchema, exDepth)) == exJSON(s.unfold(e.shared.Root, exDecode(got.Out), exSchema, exDepth)) {
			return ""
		}
	case "expand_spec", "expand_schema":
		return exSameOutcome(c, &exOutcome{Out: want.Out, Loads: []string{}}, &exOutcome{Out: got.Out, Loads: []string{}})
	}
	return "result " + exClip(string(got.Out), 600) + " instead of " + exClip(string(want.Out), 600)
}

func checkC17(in *exConcInput) []exFinding {
	env := newExConcEnv(in.Shared, new(spec.Swagger))
	if err := json.Unmarshal(in.Shared.Docs[in.Shared.Root], env.typed); err != nil {
		return []exFinding{{Shape: "bad-input", What: err.Error()}}
	}
	type result struct {
		g, task int
		o       *exOutcome
	}
	results := make(chan result, 4096)
	start := make(chan struct{})
	var wg sync.WaitGroup
	for gi, sched := range in.Schedule {
		wg.Add(1)
		go func(gi int, sched []int) {
			defer wg.Done()
			<-start
			for _, ti := range sched {
				var o *exOutcome
				func() {
					defer func() {
						if r := recover(); r != nil {
							o = &exOutcome{Panic: fmt.Sprint(r)}
						}
					}()
					o = env.run(in.Tasks[ti])
				}()
				results <- result{gi, ti, o}
			}
		}(gi, sched)
	}
	atomic.StoreInt64(&exLoaderDelay, int64(in.LoaderDelayMicros)*1000)
	defer atomic.StoreInt64(&exLoaderDelay, 0)
	close(start)
	done := make(chan struct{})
	go func() { wg.Wait(); close(done) }()
	select {
	case <-done:
	case <-time.After(6 * exTimeout):
		return []exFinding{{Shape: "deadlock", What: fmt.Sprintf("%d goroutines do not finish within %s", len(in.Schedule), 6*exTimeout)}}
	}
	close(results)
	atomic.StoreInt64(&exLoaderDelay, 0)
	// sequential reference: each task alone, made after the concurrent phase so that the goroutines
	// meet whatever lazily initialised state the library has in its cold state (the shared cache
	// starts empty in both runs)
	seqEnv := newExConcEnv(in.Shared, env.typed)
	want := make([]*exOutcome, len(in.Tasks))
	for i, c := range in.Tasks {
		want[i] = seqEnv.run(c)
	}
	var fs []exFinding
	for r := range results {
		c := in.Tasks[r.task]
		if d := exConcSame(env, c, want[r.task], r.o); d != "" {
			shape := "concurrent-result-differs"
			if len(c.Docs) > 0 { // an outcome that depends on map order on a graph with a known defect
				shape = exShape(shape, exCallGraph(c), c.Opts.Abs)
			} else if strings.HasPrefix(c.Op, "shared_") {
				shape = exShape(shape, in.Shared, c.Opts.Abs)
			}
			fs = append(fs, exFinding{Shape: shape, What: fmt.Sprintf("goroutine %d, task %d (%s): the result differs from the sequential reference", r.g, r.task, exCallLabel(c)), Obs: d})
		}
	}
	return exFirstPerShape(fs)
}

func oracleC17(r *rng, n int, tier string) *oracleResult {
	t := newExTally("C17")
	rounds := n / 30
	if rounds < 2 {
		rounds = 2
	}
	if tier == "thorough" {
		rounds *= 3
	}
	for round := 0; round < rounds; round++ {
		for _, N := range []int{2, 8, 32} {
			rr := r.fork(uint64(round*100 + N))
			shared := exRandomGraph(rr.fork(1), exGenOpts{Prefix: "/shared", Cycles: rr.intn(2), MaxDocs: 3})
			t.graph(shared)
			in := &exConcInput{Goroutines: N, Shared: shared}
			// distinct roots: one graph per goroutine, each below its own prefix - or, every other round, independent callers
			// whose documents happen to live at the same locations (two revisions of one tree, each behind its own loader),
			// with fetches that take long enough to overlap
			sameLocations := round%2 == 1
			if sameLocations {
				in.LoaderDelayMicros = 200
			}
			var own []*exGraph
			for gi := 0; gi < N && gi < 8; gi++ {
				prefix := "/g" + strconv.Itoa(gi)
				if sameLocations {
					prefix = "/rev"
				}
				g := exRandomGraph(rr.fork(uint64(10+gi)), exGenOpts{Prefix: prefix, Cycles: rr.intn(3), MaxDocs: 3})
				own = append(own, g)
				t.graph(g)
			}
			var sharedTasks []int
			add := func(c *exCall) int {
				in.Tasks = append(in.Tasks, c)
				return len(in.Tasks) - 1
			}
			sharedTasks = append(sharedTasks, add(&exCall{Op: "marshal"}))
			for _, k := range exRootElements(shared.store()[shared.Root]) {
				sharedTasks = append(sharedTasks, add(&exCall{Op: "pointer", Ref: exPtr(k.Path)}))
			}
			for _, ec := range exElementCases(shared) {
				if ec.Op == "expand_schema" && ec.Form == "ref" {
					sharedTasks = append(sharedTasks, add(&exCall{Op: "shared_expand", Element: ec.Element, Opts: exOpts{Abs: rr.chance(1, 2)}}))
					sharedTasks = append(sharedTasks, add(&exCall{Op: "shared_opts_expand", Element: ec.Element}))
				}
			}
			sharedTasks = append(sharedTasks, add(&exCall{Op: "shared_opts_spec"}))
			for _, rc := range exResolveCases(rr, shared, 4) {
				c := shared.call("resolve", exOpts{})
				c.Kind, c.Ref, c.RootMode = rc.Kind, rc.Ref, "none"
				sharedTasks = append(sharedTasks, add(c))
			}
			ownTasks := make([][]int, len(own))
			for gi, g := range own {
				ownTasks[gi] = append(ownTasks[gi], add(g.call("expand_spec", exOpts{Abs: rr.chance(1, 2), Skip: rr.chance(1, 4)})))
				// the same documents with a reference of its own that cannot be resolved (another one for every caller and every
				// round), expanded by a caller who asked to continue: what is reported, and how, is that caller's business alone
				if gd, ok := exDecode(g.Docs[g.Root]).(map[string]interface{}); ok {
					defs, _ := gd["definitions"].(map[string]interface{})
					if defs == nil {
						defs = map[string]interface{}{}
						gd["definitions"] = defs
					}
					defs["dangling"] = map[string]interface{}{"$ref": fmt.Sprintf("#/definitions/missing-%d-%d-%d", round, N, gi)}
					defs["away"] = map[string]interface{}{"$ref": fmt.Sprintf("gone-%d-%d-%d.json#/definitions/x", round, N, gi)}
					gf := g.clone()
					gf.Docs[g.Root], _ = json.Marshal(gd)
					ownTasks[gi] = append(ownTasks[gi], add(gf.call("expand_spec", exOpts{Cont: true, Skip: rr.chance(1, 4)})))
				}
				for _, ec := range exElementCases(g) {
					if ec.Op == "expand_schema" && ec.Form == "ref" && len(ownTasks[gi]) < 4 {
						c := g.call("expand_schema", exOpts{})
						c.Element, c.Entry = ec.Element, "base_path"
						ownTasks[gi] = append(ownTasks[gi], add(c))
					}
				}
			}
			work := 6 + rr.intn(10)
			for gi := 0; gi < N; gi++ {
				var sched []int
				for k := 0; k < work; k++ {
					if rr.chance(1, 2) {
						sched = append(sched, sharedTasks[rr.intn(len(sharedTasks))])
					} else {
						o := ownTasks[gi%len(own)]
						sched = append(sched, o[rr.intn(len(o))])
					}
				}
				in.Schedule = append(in.Schedule, sched)
			}
			fs := checkC17(in)
			t.res.Stats["goroutines:"+strconv.Itoa(N)]++
			t.res.Evaluations += N*work - 1
			t.eval(in, fs, nil)
		}
	}
	t.res.Samples = nil
	return t.done()
}

func replayC17(raw json.RawMessage) *oracleResult {
	t := newExTally("C17")
	in := &exConcInput{}
	if err := json.Unmarshal(raw, in); err != nil || in.Shared == nil {
		t.res.Failures = append(t.res.Failures, failure{Property: "C17", What: "bad replay input"})
		return t.res
	}
	t.eval(in, checkC17(in), nil)
	return t.res
}

// ---------------------------------------------------------------------------------------------

func init() {
	reg := func(prop string, o func(r *rng, n int, tier string) *oracleResult, check func(*exInput) []exFinding) {
		oracles[prop] = o
		replays[prop] = exReplay(prop, check)
	}
	reg("C02", exGraphOracle("C02", true, false, exAbsVariants, checkC02, 2), checkC02)
	reg("C03", exGraphOracle("C03", true, false, exAbsVariants, checkC03, 2), checkC03)
	reg("C04", exGraphOracle("C04", true, true, exPlainVariant, checkC04, 1), checkC04)
	reg("C08", exGraphOracle("C08", false, true, exPlainVariant, checkC08, 1), checkC08)
	reg("C09", exGraphOracle("C09", false, false, exAbsVariants, checkC09, 1), checkC09)
	reg("C10", exGraphOracle("C10", false, false, exC10Variants, checkC10, 1), checkC10)
	reg("C18", exGraphOracle("C18", false, false, exC18Variants, checkC18, 1), checkC18)
	reg("C11e2e", exGraphOracle("C11e2e", false, false, exSpellingVariants, checkC11e2e, 1), checkC11e2e)
	oracles["C16"] = oracleC16
	replays["C16"] = replayC16
	oracles["C17"] = oracleC17
	replays["C17"] = replayC17
}

// exBareRef: the text is an object with the single member `$ref`.
func exBareRef(out []byte) bool {
	m, ok := exDecode(out).(map[string]interface{})
	if !ok || len(m) != 1 {
		return false
	}
	_, has := m["$ref"]
	return has
}
