package main

// Additional checks on the implementation for C10 and C18 (sequences of calls that share a cache).

import (
	"encoding/json"
	"fmt"
	"net/url"
	"os"
	"sort"
	"strings"
	"sync"

	"github.com/go-openapi/spec"
)

type mapCache struct{ m map[string]interface{} }

func (c *mapCache) Get(k string) (interface{}, bool) { v, ok := c.m[k]; return v, ok }
func (c *mapCache) Set(k string, v interface{})      { c.m[k] = v }

type sharedCacheInput struct {
	RootA json.RawMessage `json:"root_a"`
	RootB json.RawMessage `json:"root_b"`
	Ref   string          `json:"ref"`
}

// one cache, two different roots in sequence: the second call must see ITS root
func checkSharedCacheRoots(in sharedCacheInput) (msg string, obs, exp interface{}) {
	defer func() {
		if r := recover(); r != nil {
			msg = fmt.Sprintf("panic: %v", r)
		}
	}()
	var a, b spec.Swagger
	if json.Unmarshal(in.RootA, &a) != nil || json.Unmarshal(in.RootB, &b) != nil {
		return
	}
	expand := func(root *spec.Swagger, cache spec.ResolutionCache) (string, error) {
		s := spec.RefSchema(in.Ref)
		if err := spec.ExpandSchema(s, root, cache); err != nil {
			return "", err
		}
		out, _ := json.Marshal(s)
		return string(out), nil
	}
	want, errW := expand(&b, nil)
	shared := &mapCache{m: map[string]interface{}{}}
	_, _ = expand(&a, shared)
	got, errG := expand(&b, shared)
	if (errW == nil) != (errG == nil) {
		return "with a cache reused from a call on another root the outcome differs (error vs no error)", fmt.Sprint(errG), fmt.Sprint(errW)
	}
	if errW == nil && got != want {
		return "with a cache reused from a call on another root the element is expanded against the wrong root", got, want
	}
	return
}

func oracleC10Shared(r *rng, n int, tier string) *oracleResult {
	exQuiet()
	res := &oracleResult{Stats: map[string]int{}}
	mk := func(title, typ string, extra string) json.RawMessage {
		return json.RawMessage(fmt.Sprintf(`{"swagger":"2.0","info":{"title":%q,"version":"1"},"paths":{},"definitions":{"item":{"type":%q},"wrap":{"type":"array","items":{"$ref":"#/definitions/item"}}%s}}`, title, typ, extra))
	}
	types := []string{"string", "integer", "boolean", "number"}
	for i := 0; i < 12+n/10; i++ {
		ta, tb := types[r.intn(len(types))], types[r.intn(len(types))]
		extra := ""
		if r.chance(1, 2) {
			extra = `,"onlyInB":{"type":"object","properties":{"p":{"$ref":"#/definitions/item"}}}`
		}
		for _, ref := range []string{"#/definitions/item", "#/definitions/wrap", "#/definitions/onlyInB"} {
			in := sharedCacheInput{RootA: mk("a", ta, ""), RootB: mk("b", tb, extra), Ref: ref}
			res.Evaluations++
			if ta != tb {
				res.Distinct++
			}
			if msg, obs, exp := checkSharedCacheRoots(in); msg != "" {
				res.Stats["fail:shared-cache-other-root"]++
				if res.Stats["fail:shared-cache-other-root"] <= 1 {
					res.Failures = append(res.Failures, failure{Property: "C10", What: msg, Shape: "shared-cache-other-root", Input: in, Observed: obs, Expected: exp})
				}
			}
		}
	}
	res.Samples = []interface{}{sharedCacheInput{RootA: mk("a", "string", ""), RootB: mk("b", "integer", ""), Ref: "#/definitions/item"}}
	return res
}

// a document whose whole content is `null`, referenced several times: requested at most once, never when pre-loaded
type nullDocInput struct {
	Preload bool `json:"preload"`
	Reuse   bool `json:"reuse"`
}

func checkNullDoc(in nullDocInput) (msg string, obs interface{}) {
	defer func() {
		if r := recover(); r != nil {
			msg = fmt.Sprintf("panic: %v", r)
		}
	}()
	docs := map[string]string{
		"file:///n/defs.json": `{"definitions":{"a":{"type":"object","properties":{"t":{"$ref":"todo.json"},"u":{"$ref":"todo.json"}}}}}`,
		"file:///n/todo.json": `null`,
	}
	counts := map[string]int{}
	loader := func(u string) (json.RawMessage, error) {
		counts[u]++
		if d, ok := docs[u]; ok {
			return json.RawMessage(d), nil
		}
		return nil, fmt.Errorf("no such document %s", u)
	}
	run := func(cache spec.ResolutionCache) {
		s := new(spec.Schema)
		_ = json.Unmarshal([]byte(`{"type":"object","properties":{"x":{"$ref":"todo.json"},"y":{"$ref":"defs.json#/definitions/a"}}}`), s)
		_ = spec.ExpandSchemaWithBasePath(s, cache, &spec.ExpandOptions{RelativeBase: "file:///n/root.json", PathLoader: loader, ContinueOnError: true})
	}
	var cache spec.ResolutionCache
	if in.Preload || in.Reuse {
		cache = &mapCache{m: map[string]interface{}{}}
	}
	if in.Preload {
		for u, d := range docs {
			var v interface{}
			_ = json.Unmarshal([]byte(d), &v)
			cache.Set(u, v)
		}
	}
	run(cache)
	if in.Reuse {
		first := map[string]int{}
		for k, v := range counts {
			first[k] = v
		}
		run(cache)
		for k, v := range counts {
			if v > first[k] && first[k] > 0 {
				return "a document already fetched is requested again when the cache is reused", counts
			}
		}
	}
	for u, c := range counts {
		if c > 1 {
			return fmt.Sprintf("%s is requested %d times within one expansion", u, c), counts
		}
		if in.Preload && c > 0 {
			return u + " is requested although the supplied cache holds it", counts
		}
	}
	return
}

func oracleC18Null(r *rng, n int, tier string) *oracleResult {
	exQuiet()
	res := &oracleResult{Stats: map[string]int{}}
	for _, in := range []nullDocInput{{false, false}, {true, false}, {false, true}, {true, true}} {
		res.Evaluations++
		res.Distinct++
		if msg, obs := checkNullDoc(in); msg != "" {
			res.Stats["fail:null-document-refetched"]++
			if res.Stats["fail:null-document-refetched"] <= 1 {
				res.Failures = append(res.Failures, failure{Property: "C18", What: msg, Shape: "null-document-refetched", Input: in, Observed: obs})
			}
		}
	}
	res.Samples = []interface{}{nullDocInput{true, false}}
	return res
}

func init() {
	oracles["C10shared"] = oracleC10Shared
	replays["C10shared"] = func(input json.RawMessage) *oracleResult {
		var in sharedCacheInput
		res := &oracleResult{Stats: map[string]int{}, Evaluations: 1}
		if json.Unmarshal(input, &in) != nil {
			return res
		}
		if msg, obs, exp := checkSharedCacheRoots(in); msg != "" {
			res.Failures = append(res.Failures, failure{Property: "C10", What: msg, Shape: "shared-cache-other-root", Input: in, Observed: obs, Expected: exp})
		}
		return res
	}
	oracles["C18null"] = oracleC18Null
	replays["C18null"] = func(input json.RawMessage) *oracleResult {
		var in nullDocInput
		res := &oracleResult{Stats: map[string]int{}, Evaluations: 1}
		if json.Unmarshal(input, &in) != nil {
			return res
		}
		if msg, obs := checkNullDoc(in); msg != "" {
			res.Failures = append(res.Failures, failure{Property: "C18", What: msg, Shape: "null-document-refetched", Input: in, Observed: obs})
		}
		return res
	}
}

// ---------------------------------------------------------------------------------------------
// the built-in meta-schemas live in the package-level cache and are shared by every clone of it: calls that reach
// them through a `$ref` (whole document or fragment) must neither change them nor each other's answers

func metaProbe() (string, error) {
	ref := spec.MustCreateRef("http://json-schema.org/draft-04/schema#/definitions/positiveIntegerDefault0")
	loader := func(u string) (json.RawMessage, error) { return nil, fmt.Errorf("no network: %s", u) }
	s, err := spec.ResolveRefWithBase(nil, &ref, &spec.ExpandOptions{RelativeBase: "file:///m/root.json", PathLoader: loader})
	if err != nil {
		return "", err
	}
	b, _ := json.Marshal(s)
	return string(b), nil
}

// metaProbeExpand: the same fragment, and a fragment of the Swagger 2.0 meta-schema, through ExpandSchema without a cache
func metaProbeExpand() (string, error) {
	var out []string
	for _, u := range []string{"http://json-schema.org/draft-04/schema#/definitions/positiveIntegerDefault0", "http://swagger.io/v2/schema.json#/definitions/license"} {
		sch := new(spec.Schema)
		_ = json.Unmarshal([]byte(`{"type":"object","properties":{"m":{"$ref":"`+u+`"}}}`), sch)
		if err := spec.ExpandSchema(sch, nil, nil); err != nil {
			return "", err
		}
		b, _ := json.Marshal(sch)
		out = append(out, string(b))
	}
	return strings.Join(out, " "), nil
}

// metaFresh: what the loaders of the two meta-schemas hand out
func metaFresh() string {
	a, _ := spec.JSONSchemaDraft04()
	b, _ := spec.Swagger20Schema()
	ja, _ := json.Marshal(a)
	jb, _ := json.Marshal(b)
	return string(ja) + " " + string(jb)
}

func metaWhole(url string) (*spec.Schema, error) {
	ref := spec.MustCreateRef(url)
	loader := func(u string) (json.RawMessage, error) { return nil, fmt.Errorf("no network: %s", u) }
	return spec.ResolveRefWithBase(nil, &ref, &spec.ExpandOptions{RelativeBase: "file:///m/root.json", PathLoader: loader})
}

func metaUse(url string) error {
	// resolve a whole meta-schema, then expand what was returned (the caller owns it), and expand a schema that refers to it
	s, err := metaWhole(url)
	if err != nil {
		return err
	}
	_ = spec.ExpandSchema(s, nil, nil)
	sch := new(spec.Schema)
	_ = json.Unmarshal([]byte(`{"type":"object","properties":{"m":{"$ref":"`+url+`"}}}`), sch)
	loader := func(u string) (json.RawMessage, error) { return nil, fmt.Errorf("no network: %s", u) }
	return spec.ExpandSchemaWithBasePath(sch, nil, &spec.ExpandOptions{RelativeBase: "file:///m/root.json", PathLoader: loader})
}

func metaPristine() string {
	for _, c := range []struct {
		url   string
		fresh func() (*spec.Schema, error)
	}{{"http://json-schema.org/draft-04/schema#", spec.JSONSchemaDraft04}, {"http://swagger.io/v2/schema.json#", spec.Swagger20Schema}} {
		got, err := metaWhole(c.url)
		if err != nil {
			return "the built-in meta-schema " + c.url + " no longer resolves: " + err.Error()
		}
		want, _ := c.fresh()
		a, _ := json.Marshal(got)
		b, _ := json.Marshal(want)
		if string(a) != string(b) {
			return "the built-in meta-schema " + c.url + " was modified"
		}
	}
	return ""
}

type metaInput struct {
	Workers int `json:"workers"`
}

func checkMeta(in metaInput) (msg string) {
	defer func() {
		if r := recover(); r != nil {
			msg = fmt.Sprintf("panic: %v", r)
		}
	}()
	before, err := metaProbe()
	if err != nil {
		return "a fragment of the built-in draft-04 meta-schema does not resolve: " + err.Error()
	}
	beforeX, err := metaProbeExpand()
	if err != nil {
		return "a fragment of a built-in meta-schema does not expand: " + err.Error()
	}
	fresh0 := metaFresh()
	// a caller loads its own copy of each meta-schema and expands it in place (as a validator does)
	for _, load := range []func() (*spec.Schema, error){spec.JSONSchemaDraft04, spec.Swagger20Schema} {
		if own, err := load(); err == nil {
			_ = spec.ExpandSchema(own, nil, nil)
		}
	}
	urls := []string{"http://json-schema.org/draft-04/schema#", "http://swagger.io/v2/schema.json#"}
	if in.Workers <= 1 {
		for _, u := range urls {
			_ = metaUse(u)
		}
	} else {
		done := make(chan struct{}, in.Workers)
		for w := 0; w < in.Workers; w++ {
			go func(w int) {
				defer func() { _ = recover(); done <- struct{}{} }()
				_ = metaUse(urls[w%2])
			}(w)
		}
		for w := 0; w < in.Workers; w++ {
			<-done
		}
	}
	after, err := metaProbe()
	if err != nil {
		return "after other calls a fragment of the built-in meta-schema no longer resolves: " + err.Error()
	}
	if after != before {
		return "an earlier call changed what a later, unrelated resolution returns: " + before + " became " + after
	}
	afterX, err := metaProbeExpand()
	if err != nil {
		return "after other calls a fragment of a built-in meta-schema no longer expands (ExpandSchema without a cache): " + err.Error()
	}
	if afterX != beforeX {
		return "an earlier call changed what a later, unrelated ExpandSchema without a cache returns: " + exClip(beforeX, 300) + " became " + exClip(afterX, 300)
	}
	if metaFresh() != fresh0 {
		return "a meta-schema loaded after another loaded copy was expanded is not the embedded one (the loaders hand out shared storage)"
	}
	return metaPristine()
}

func oracleMeta(prop string, workers []int) func(r *rng, n int, tier string) *oracleResult {
	return func(r *rng, n int, tier string) *oracleResult {
		exQuiet()
		res := &oracleResult{Stats: map[string]int{}}
		for _, w := range workers {
			for rep := 0; rep < 3; rep++ {
				in := metaInput{Workers: w}
				res.Evaluations++
				res.Distinct++
				if msg := checkMeta(in); msg != "" {
					res.Stats["fail:meta-schema-shared"]++
					if res.Stats["fail:meta-schema-shared"] <= 1 {
						res.Failures = append(res.Failures, failure{Property: prop, What: msg, Shape: "meta-schema-shared", Input: in})
					}
				}
			}
		}
		res.Samples = []interface{}{metaInput{Workers: workers[0]}}
		return res
	}
}

func init() {
	oracles["C16meta"] = oracleMeta("C16", []int{1})
	oracles["C17meta"] = oracleMeta("C17", []int{2, 8, 32})
	rp := func(prop string) func(json.RawMessage) *oracleResult {
		return func(input json.RawMessage) *oracleResult {
			var in metaInput
			res := &oracleResult{Stats: map[string]int{}, Evaluations: 1}
			if json.Unmarshal(input, &in) != nil {
				return res
			}
			if msg := checkMeta(in); msg != "" {
				res.Failures = append(res.Failures, failure{Property: prop, What: msg, Shape: "meta-schema-shared", Input: in})
			}
			return res
		}
	}
	replays["C16meta"] = rp("C16")
	replays["C17meta"] = rp("C17")
}

// ---------------------------------------------------------------------------------------------
// C04: cycles through schemas carrying an ABSOLUTE id, in canonical and non-canonical spellings (upper-case host, default
// port, doubled slash): expansion must terminate for every spelling (each call in a killable worker with a time limit)

type idCycleInput struct {
	ID    string `json:"id"`
	Shape string `json:"shape"` // self | mutual | nested
}

func idCycleDocs(in idCycleInput) map[string]interface{} {
	node := map[string]interface{}{"id": in.ID, "type": "object", "properties": map[string]interface{}{
		"next": map[string]interface{}{"$ref": "#/definitions/node"}, "name": map[string]interface{}{"type": "string"}}}
	defs := map[string]interface{}{"node": node}
	switch in.Shape {
	case "mutual":
		node["properties"].(map[string]interface{})["next"] = map[string]interface{}{"$ref": "#/definitions/other"}
		defs["other"] = map[string]interface{}{"type": "object", "properties": map[string]interface{}{"back": map[string]interface{}{"$ref": "#/definitions/node"}}}
	case "nested":
		node["properties"].(map[string]interface{})["next"] = map[string]interface{}{"type": "array", "items": map[string]interface{}{"allOf": []interface{}{map[string]interface{}{"$ref": "#/definitions/node"}}}}
	}
	return map[string]interface{}{"file:///ids/root.json": map[string]interface{}{"swagger": "2.0", "info": map[string]interface{}{"title": "t", "version": "1"},
		"paths":       map[string]interface{}{"/n": map[string]interface{}{"get": map[string]interface{}{"responses": map[string]interface{}{"200": map[string]interface{}{"description": "d", "schema": map[string]interface{}{"$ref": "#/definitions/node"}}}}}},
		"definitions": defs}}
}

func checkIDCycle(in idCycleInput) (msg string) {
	g := exFromGeneric(idCycleDocs(in), "file:///ids/root.json")
	for _, cont := range []bool{false, true} {
		for _, abs := range []bool{false, true} {
			c := g.call("expand_spec", exOpts{Cont: cont, Abs: abs})
			res := exWorkerRun(c)
			if res.Timeout {
				return fmt.Sprintf("ExpandSpec (cont=%v abs=%v) does not return within the time limit on a cycle through a schema with id %q", cont, abs, in.ID)
			}
			if res.Panic != "" {
				return fmt.Sprintf("ExpandSpec (cont=%v abs=%v) crashes on a cycle through a schema with id %q: %.200s", cont, abs, in.ID, res.Panic)
			}
		}
	}
	return ""
}

func oracleC04IDs(r *rng, n int, tier string) *oracleResult {
	exQuiet()
	res := &oracleResult{Stats: map[string]int{}}
	ids := []string{"http://schemas.example.com/node.json", "http://Schemas.Example.COM/node.json", "http://schemas.example.com:80/node.json",
		"https://schemas.example.com:443/node.json", "HTTP://schemas.example.com/node.json", "http://schemas.example.com//a//node.json", "file://HOST/ids/node.json"}
	for _, id := range ids {
		for _, sh := range []string{"self", "mutual", "nested"} {
			in := idCycleInput{ID: id, Shape: sh}
			res.Evaluations++
			res.Distinct++
			if msg := checkIDCycle(in); msg != "" {
				res.Stats["fail:id-cycle-nontermination"]++
				if res.Stats["fail:id-cycle-nontermination"] <= 1 {
					res.Failures = append(res.Failures, failure{Property: "C04", What: msg, Shape: "id-cycle-nontermination", Input: in})
				}
			}
		}
	}
	res.Samples = []interface{}{idCycleInput{ID: ids[1], Shape: "self"}}
	return res
}

func init() {
	oracles["C04ids"] = oracleC04IDs
	replays["C04ids"] = func(input json.RawMessage) *oracleResult {
		var in idCycleInput
		res := &oracleResult{Stats: map[string]int{}, Evaluations: 1}
		if json.Unmarshal(input, &in) != nil {
			return res
		}
		if msg := checkIDCycle(in); msg != "" {
			res.Failures = append(res.Failures, failure{Property: "C04", What: msg, Shape: "id-cycle-nontermination", Input: in})
		}
		return res
	}
}

// ---------------------------------------------------------------------------------------------
// C04: cycles on which EVERY reference is spelled as an absolute URL that is not in canonical form (a "." or ".." segment,
// a doubled slash, a query on a local file): the two halves of cycle detection (what is pushed on the parent chain, what is
// looked up) must agree on the spelling, or the cycle is never closed

type spellCycleInput struct {
	Root  string `json:"root"`  // canonical location of the root document
	Spell string `json:"spell"` // how the root is spelled inside the references
	Shape string `json:"shape"` // self | mutual | param-chain
}

func spellCycleDocs(in spellCycleInput) map[string]interface{} {
	ref := func(ptr string) map[string]interface{} { return map[string]interface{}{"$ref": in.Spell + "#" + ptr} }
	defs := map[string]interface{}{"node": map[string]interface{}{"type": "object", "properties": map[string]interface{}{"next": ref("/definitions/node")}}}
	doc := map[string]interface{}{"swagger": "2.0", "info": map[string]interface{}{"title": "t", "version": "1"}, "paths": map[string]interface{}{}, "definitions": defs}
	switch in.Shape {
	case "mutual":
		defs["node"] = map[string]interface{}{"type": "object", "properties": map[string]interface{}{"next": ref("/definitions/other")}}
		defs["other"] = map[string]interface{}{"type": "array", "items": ref("/definitions/node")}
	case "param-chain":
		doc["parameters"] = map[string]interface{}{"p": ref("/parameters/q"), "q": ref("/parameters/p")}
		doc["paths"] = map[string]interface{}{"/x": map[string]interface{}{"get": map[string]interface{}{"parameters": []interface{}{ref("/parameters/p")},
			"responses": map[string]interface{}{"200": map[string]interface{}{"description": "d"}}}}}
	}
	return map[string]interface{}{in.Root: doc}
}

func checkSpellCycle(in spellCycleInput) string {
	g := exFromGeneric(spellCycleDocs(in), in.Root)
	for _, o := range []exOpts{{}, {Cont: true}, {Abs: true}, {Skip: true}} {
		res := exWorkerRun(g.call("expand_spec", o))
		if res.Timeout {
			return fmt.Sprintf("ExpandSpec (%+v) does not return within the time limit on a cycle whose references are spelled %q", o, in.Spell)
		}
		if res.Panic != "" {
			return fmt.Sprintf("ExpandSpec (%+v) crashes on a cycle whose references are spelled %q: %.200s", o, in.Spell, res.Panic)
		}
	}
	return ""
}

func oracleC04Spell(r *rng, n int, tier string) *oracleResult {
	exQuiet()
	res := &oracleResult{Stats: map[string]int{}}
	cases := spellCycleCases()
	fails := 0
	for _, c := range cases {
		for _, sh := range []string{"self", "mutual", "param-chain"} {
			if fails >= 2 {
				res.Stats["not-examined-after-two-failures"]++
				continue
			}
			in := spellCycleInput{Root: c.root, Spell: c.spell, Shape: sh}
			res.Evaluations++
			res.Distinct++
			if msg := checkSpellCycle(in); msg != "" {
				fails++
				res.Stats["fail:unclean-absolute-cycle"]++
				if fails <= 1 {
					res.Failures = append(res.Failures, failure{Property: "C04", What: msg, Shape: "unclean-absolute-cycle", Input: in})
				}
			}
		}
	}
	res.Samples = []interface{}{spellCycleInput{Root: "file:///r/api/root.json", Spell: "file:///r/api/./root.json", Shape: "self"}}
	return res
}

type spellCase struct{ root, spell string }

// spellCycleCases: a root location and another, equivalent way of writing it as an absolute URL
func spellCycleCases() []spellCase {
	type rs = spellCase
	var cases []rs
	for _, root := range []string{"file:///r/api/root.json", "http://h.example/api/root.json"} {
		u, _ := url.Parse(root)
		pre := u.Scheme + "://" + u.Host
		for _, sp := range []string{pre + "/r/../" + strings.TrimPrefix(u.Path, "/"), pre + strings.Replace(u.Path, "/api/", "/api/./", 1), pre + strings.Replace(u.Path, "/api/", "/api/x/../", 1),
			pre + strings.Replace(u.Path, "/api/", "/api//", 1), strings.ToUpper(u.Scheme) + "://" + u.Host + u.Path} {
			cases = append(cases, rs{root, sp})
		}
		if u.Scheme == "file" {
			cases = append(cases, rs{root, root + "?v=1"}, rs{root, root + "?"}, rs{root, "file:" + u.Path})
		} else {
			cases = append(cases, rs{root, pre + ":80" + u.Path}, rs{root, "http://H.Example" + u.Path})
		}
	}
	return cases
}

func init() {
	oracles["C04spell"] = oracleC04Spell
	replays["C04spell"] = func(input json.RawMessage) *oracleResult {
		var in spellCycleInput
		res := &oracleResult{Stats: map[string]int{}, Evaluations: 1}
		if json.Unmarshal(input, &in) != nil {
			return res
		}
		if msg := checkSpellCycle(in); msg != "" {
			res.Failures = append(res.Failures, failure{Property: "C04", What: msg, Shape: "unclean-absolute-cycle", Input: in})
		}
		return res
	}
}

// ---------------------------------------------------------------------------------------------
// C17 (and C10): one TYPED root shared read-only by goroutines that expand their own schemas against it, through references
// that end at members the typed document holds as *Schema (a parameter's or response's schema, a `not`): whatever the
// resolver hands out must not share storage with the root

type typedRootInput struct {
	Goroutines int `json:"goroutines"`
	Rounds     int `json:"rounds"`
}

const typedRootDoc = `{"swagger":"2.0","info":{"title":"t","version":"1"},
 "definitions":{"Leaf":{"type":"object","deprecated":true,"const":"x","properties":{"v":{"type":"string","writeOnly":true,"x-go-name":"V","X-Order":2},"w":{"type":"integer","x-Order":"1","X-Nullable":true},"u":{"type":"boolean","x-order":3}}},
   "D":{"type":"object","not":{"type":"object","properties":{"l":{"$ref":"#/definitions/Leaf"}},"allOf":[{"$ref":"#/definitions/Leaf"}]}},
   "Pos":{"$ref":"http://json-schema.org/draft-04/schema#/definitions/positiveInteger"},
   "HasPos":{"type":"object","properties":{"n":{"$ref":"http://json-schema.org/draft-04/schema#/definitions/positiveInteger"}}}},
 "parameters":{"P":{"in":"body","name":"b","schema":{"type":"object","properties":{"l":{"$ref":"#/definitions/Leaf"}},"items":{"$ref":"#/definitions/Leaf"}}}},
 "responses":{"R":{"description":"r","schema":{"type":"array","items":{"$ref":"#/definitions/Leaf"},"additionalProperties":{"$ref":"#/definitions/Leaf"}}}},
 "paths":{"/p":{"get":{"responses":{"200":{"description":"ok","schema":{"type":"object","properties":{"d":{"$ref":"#/definitions/D"}}}}}}}}}`

var typedRootRefs = []string{"#/parameters/P/schema", "#/responses/R/schema", "#/definitions/D/not", "#/paths/~1p/get/responses/200/schema", "#/definitions/D",
	"#/definitions/HasPos", "#/definitions/Pos"}

func checkTypedRoot(in typedRootInput) string {
	root := new(spec.Swagger)
	if err := json.Unmarshal([]byte(typedRootDoc), root); err != nil {
		return ""
	}
	// (what the document holds, read without encoding it: the spelling of the extension names of Leaf's properties)
	extKeys := func() string {
		var ks []string
		for pn, p := range root.Definitions["Leaf"].Properties {
			for k := range p.Extensions {
				ks = append(ks, pn+"."+k)
			}
		}
		sort.Strings(ks)
		return strings.Join(ks, " ")
	}
	keysBefore := extKeys()
	before, _ := json.Marshal(root)
	if k := extKeys(); k != keysBefore {
		return fmt.Sprintf("encoding the typed root modifies it: the extension names of its properties were %q and are now %q", keysBefore, k)
	}
	expand := func(ref string) (string, error) {
		sch := &spec.Schema{}
		sch.Ref = spec.MustCreateRef(ref)
		if err := spec.ExpandSchema(sch, root, nil); err != nil {
			return "", err
		}
		b, err := json.Marshal(sch)
		return string(b), err
	}
	// a caller's own copy of a definition that is nothing but a reference to another document (an absolute URL with a fragment: a
	// built-in meta-schema, held by every default cache), expanded against the shared root
	expandCopy := func() (string, error) {
		sch := root.Definitions["Pos"]
		if err := spec.ExpandSchema(&sch, root, nil); err != nil {
			return "", err
		}
		b, err := json.Marshal(sch)
		return string(b), err
	}
	wantCopy, errCopy := expandCopy()
	want := map[string]string{}
	for _, r := range typedRootRefs {
		w, err := expand(r)
		if err != nil {
			return "" // not a matter of sharing
		}
		want[r] = w
	}
	if mid, _ := json.Marshal(root); string(mid) != string(before) {
		return "a sequential ExpandSchema against a typed root modifies the root (reference ending at a *Schema member)"
	}
	var wg sync.WaitGroup
	msgs := make(chan string, in.Goroutines)
	for g := 0; g < in.Goroutines; g++ {
		wg.Add(1)
		go func(g int) {
			defer wg.Done()
			for k := 0; k < in.Rounds; k++ {
				if g%3 == 2 { // a reader of the shared root
					b, err := json.Marshal(root)
					if err != nil || string(b) != string(before) {
						msgs <- "the encoding of the shared read-only root differs from the sequential one while other goroutines expand against it"
						return
					}
					continue
				}
				if errCopy == nil && g%3 == 1 && k%2 == 1 {
					if got, err := expandCopy(); err != nil || got != wantCopy {
						msgs <- "ExpandSchema of a caller's copy of a definition (a reference to another document) against the shared typed root differs from its sequential answer"
						return
					}
					continue
				}
				r := typedRootRefs[(g+k)%len(typedRootRefs)]
				got, err := expand(r)
				if err != nil || got != want[r] {
					msgs <- fmt.Sprintf("ExpandSchema of %s against the shared typed root differs from its sequential answer", r)
					return
				}
			}
		}(g)
	}
	wg.Wait()
	close(msgs)
	for m := range msgs {
		return m
	}
	if k := extKeys(); k != keysBefore {
		return fmt.Sprintf("the shared typed root has been modified by reading it: the extension names of its properties were %q and are now %q", keysBefore, k)
	}
	if after, _ := json.Marshal(root); string(after) != string(before) {
		return "the shared typed root has been modified by expansions made against it"
	}
	return ""
}

func oracleTypedRoot(prop string, sizes []int) func(r *rng, n int, tier string) *oracleResult {
	return func(r *rng, n int, tier string) *oracleResult {
		exQuiet()
		res := &oracleResult{Stats: map[string]int{}}
		for _, g := range sizes {
			in := typedRootInput{Goroutines: g, Rounds: 40}
			res.Evaluations++
			res.Distinct++
			if msg := checkTypedRoot(in); msg != "" {
				res.Stats["fail:typed-root-shared"]++
				res.Failures = append(res.Failures, failure{Property: prop, What: msg, Shape: "typed-root-shared", Input: in})
				break
			}
		}
		res.Samples = []interface{}{typedRootInput{Goroutines: 8, Rounds: 40}}
		return res
	}
}

func init() {
	oracles["C17typed"] = oracleTypedRoot("C17", []int{2, 8, 32})
	oracles["C10typed"] = oracleTypedRoot("C10", []int{1})
	rp := func(prop string) func(json.RawMessage) *oracleResult {
		return func(input json.RawMessage) *oracleResult {
			var in typedRootInput
			res := &oracleResult{Stats: map[string]int{}, Evaluations: 1}
			if json.Unmarshal(input, &in) != nil {
				return res
			}
			if msg := checkTypedRoot(in); msg != "" {
				res.Failures = append(res.Failures, failure{Property: prop, What: msg, Shape: "typed-root-shared", Input: in})
			}
			return res
		}
	}
	replays["C17typed"] = rp("C17")
	replays["C10typed"] = rp("C10")
}

// ---------------------------------------------------------------------------------------------
// C03: cycles made of parameter / response / path-item references only (the generated graphs keep such chains well-founded,
// because an element that is nothing but a reference to itself denotes nothing).  Whatever the expander does with them, a
// `$ref` it leaves at such a position must still resolve from the root location to a node on the cycle - in particular when
// the reference that closes the cycle is written in another document, in another folder.

type elemCycleInput struct {
	Shape string `json:"shape"`
	Abs   bool   `json:"abs"`
	Root  string `json:"root,omitempty"`  // spelled cycles: the root location ...
	Spell string `json:"spell,omitempty"` // ... and the way the references of the cycle write it
}

var elemCycleShapes = []string{"pathitem-self-other", "pathitem-2cycle-other", "pathitem-self-root", "param-2cycle-other", "response-self-other", "pathitem-back-to-root"}

func elemCycleGraph(shape string) *exGraph {
	root, other := "file:///r/api/root.json", "file:///r/shared/items.json"
	ref := func(s string) map[string]interface{} { return map[string]interface{}{"$ref": s} }
	hdr := func(m map[string]interface{}) map[string]interface{} {
		m["swagger"], m["info"] = "2.0", map[string]interface{}{"title": "t", "version": "1"}
		if m["paths"] == nil {
			m["paths"] = map[string]interface{}{}
		}
		return m
	}
	tree := map[string]interface{}{"type": "object", "properties": map[string]interface{}{"next": ref("#/definitions/tree")}}
	okResp := map[string]interface{}{"200": map[string]interface{}{"description": "ok", "schema": ref("#/definitions/tree")}}
	r := hdr(map[string]interface{}{"definitions": map[string]interface{}{"tree": tree}})
	o := hdr(map[string]interface{}{})
	paths := map[string]interface{}{"/tree": map[string]interface{}{"get": map[string]interface{}{"responses": okResp}}}
	r["paths"] = paths
	switch shape {
	case "pathitem-self-other":
		paths["/a"] = ref("../shared/items.json#/x")
		o["x"] = ref("#/x")
	case "pathitem-2cycle-other":
		paths["/a"] = ref("../shared/items.json#/x")
		o["x"], o["y"] = ref("#/y"), ref("#/x")
	case "pathitem-self-root":
		paths["/a"] = ref("#/paths/~1a")
	case "pathitem-back-to-root":
		paths["/a"] = ref("../shared/items.json#/x")
		o["x"] = ref("../api/root.json#/paths/~1a")
	case "param-2cycle-other":
		o["parameters"] = map[string]interface{}{"p": ref("#/parameters/q"), "q": ref("#/parameters/p")}
		paths["/a"] = map[string]interface{}{"get": map[string]interface{}{"parameters": []interface{}{ref("../shared/items.json#/parameters/p")}, "responses": okResp}}
	case "response-self-other":
		o["responses"] = map[string]interface{}{"r": ref("#/responses/r")}
		paths["/a"] = map[string]interface{}{"get": map[string]interface{}{"responses": map[string]interface{}{"default": ref("../shared/items.json#/responses/r")}}}
	}
	return exFromGeneric(map[string]interface{}{root: r, other: o}, root)
}

// longChainGraph: d00 -> d01 -> ... -> d40 through one property each; the last one is a leaf, or refers back to d38
func longChainGraph(shape string) *exGraph {
	type m = map[string]interface{}
	const n = 40
	root, other := "file:///lc/root.json", "file:///lc/chain.json"
	defs := m{}
	for i := 0; i <= n; i++ {
		d := m{"type": "object", "description": fmt.Sprintf("node %d", i)}
		if i < n {
			d["properties"] = m{"next": m{"$ref": fmt.Sprintf("#/definitions/d%02d", i+1)}}
		} else if shape == "long-lead-in" {
			d["properties"] = m{"back": m{"$ref": fmt.Sprintf("#/definitions/d%02d", n-2)}}
		}
		defs[fmt.Sprintf("d%02d", i)] = d
	}
	r := m{"swagger": "2.0", "info": m{"title": "t", "version": "1"}, "paths": m{}}
	if shape == "long-chain-other-doc" {
		r["definitions"] = m{"entry": m{"$ref": "chain.json#/definitions/d00"}}
		return exFromGeneric(m{root: r, other: m{"definitions": defs}}, root)
	}
	r["definitions"] = defs
	return exFromGeneric(m{root: r}, root)
}

func checkElemCycle(in elemCycleInput) []exFinding {
	if strings.HasPrefix(in.Shape, "long-") {
		x := exInputOf(longChainGraph(in.Shape))
		x.Opts = &exOpts{Abs: in.Abs}
		return checkC03(x)
	}
	if in.Spell != "" {
		x := exInputOf(exFromGeneric(spellCycleDocs(spellCycleInput{Root: in.Root, Spell: in.Spell, Shape: in.Shape}), in.Root))
		x.Opts = &exOpts{Abs: in.Abs}
		return checkC03(x)
	}
	x := exInputOf(elemCycleGraph(in.Shape))
	x.Opts = &exOpts{Abs: in.Abs}
	return checkC03(x)
}

func oracleC03Cyc(r *rng, n int, tier string) *oracleResult {
	exQuiet()
	res := &oracleResult{Stats: map[string]int{}}
	for _, sh := range elemCycleShapes {
		for _, abs := range []bool{false, true} {
			in := elemCycleInput{Shape: sh, Abs: abs}
			res.Evaluations++
			res.Distinct++
			for _, f := range checkElemCycle(in) {
				if strings.HasPrefix(f.Shape, "stat:") {
					continue
				}
				res.Stats["fail:"+f.Shape]++
				res.Failures = append(res.Failures, failure{Property: "C03", What: "cycle of element references (" + sh + "): " + f.What, Shape: "element-cycle:" + f.Shape, Input: in, Observed: f.Obs, Expected: f.Exp})
			}
		}
	}
	// cycles whose references are absolute URLs written with dot segments, doubled slashes, another letter case, a default port or
	// a query: the `$ref` left at the cut-point resolves from the root (fragment-only when it points into the root; the canonical
	// absolute URL with AbsoluteCircularRef)
	for _, c := range spellCycleCases() {
		if i := strings.Index(c.spell, "://"); (i >= 0 && strings.Contains(c.spell[i+3:], "//")) || strings.Contains(c.spell, ":80/") || strings.Contains(c.spell, "H.Example") {
			// doubled slashes, the default port and the letter case of the host are equivalences the reference parser applies; the
			// reference semantics of this check does not know them (it would call the graph acyclic): termination only (C04spell)
			continue
		}
		for _, sh := range []string{"self", "mutual"} {
			for _, abs := range []bool{false, true} {
				in := elemCycleInput{Shape: sh, Abs: abs, Root: c.root, Spell: c.spell}
				res.Evaluations++
				res.Distinct++
				for _, f := range checkElemCycle(in) {
					if strings.HasPrefix(f.Shape, "stat:") {
						continue
					}
					res.Stats["fail:"+f.Shape]++
					res.Failures = append(res.Failures, failure{Property: "C03", What: "cycle through references spelled " + c.spell + ": " + f.What, Shape: "spelled-cycle:" + f.Shape, Input: in, Observed: f.Obs, Expected: f.Exp})
				}
			}
		}
	}
	// long chains of references (more hops than any fixed depth a guard might pick): acyclic, so nothing remains; and as the
	// lead-in into a cycle, so only the cut-point of the cycle remains
	for _, sh := range []string{"long-chain", "long-chain-other-doc", "long-lead-in"} {
		for _, abs := range []bool{false, true} {
			in := elemCycleInput{Shape: sh, Abs: abs}
			res.Evaluations++
			res.Distinct++
			for _, f := range checkElemCycle(in) {
				if strings.HasPrefix(f.Shape, "stat:") {
					continue
				}
				res.Stats["fail:"+f.Shape]++
				res.Failures = append(res.Failures, failure{Property: "C03", What: "chain of 40 references (" + sh + "): " + f.What, Shape: "long-chain:" + f.Shape, Input: in, Observed: f.Obs, Expected: f.Exp})
			}
		}
	}
	for _, f := range res.Failures {
		if in, ok := f.Input.(elemCycleInput); ok && in.Spell != "" {
			res.Stats["failspell:"+in.Spell]++
		}
	}
	res.Samples = []interface{}{elemCycleInput{Shape: "pathitem-self-other"}}
	return dedupFailures(res)
}

func init() {
	oracles["C03cyc"] = oracleC03Cyc
	replays["C03cyc"] = func(input json.RawMessage) *oracleResult {
		var in elemCycleInput
		res := &oracleResult{Stats: map[string]int{}, Evaluations: 1}
		if json.Unmarshal(input, &in) != nil {
			return res
		}
		for _, f := range checkElemCycle(in) {
			if !strings.HasPrefix(f.Shape, "stat:") {
				res.Failures = append(res.Failures, failure{Property: "C03", What: f.What, Shape: "element-cycle:" + f.Shape, Input: in, Observed: f.Obs, Expected: f.Exp})
			}
		}
		return res
	}
}

// ---------------------------------------------------------------------------------------------
// C04: cycles through references that end at a member the TYPED document holds behind a pointer (the `not` of a schema, the
// schema of a parameter or of a response, a single-schema `items`, a schema-valued `additionalProperties`), the designated
// object being reached again later in the same expansion (from `paths`) and by a second expansion of the same root:
// whatever the resolver hands out must not let the expander tie the document into a cyclic Go structure

type ptrCycleInput struct {
	Shape string `json:"shape"`
}

var ptrCycleShapes = []string{"not", "param-schema", "response-schema", "items", "additionalProperties"}

func ptrCycleDoc(shape string) map[string]interface{} {
	ref := func(s string) map[string]interface{} { return map[string]interface{}{"$ref": s} }
	obj := func(target string) map[string]interface{} {
		return map[string]interface{}{"type": "object", "properties": map[string]interface{}{"again": ref(target), "leaf": map[string]interface{}{"type": "string"}}}
	}
	doc := map[string]interface{}{"swagger": "2.0", "info": map[string]interface{}{"title": "t", "version": "1"}}
	defs := map[string]interface{}{}
	doc["definitions"] = defs
	var target string
	switch shape {
	case "not":
		target = "#/definitions/a/not"
		defs["a"] = map[string]interface{}{"type": "object", "not": obj(target)}
	case "items":
		target = "#/definitions/a/items"
		defs["a"] = map[string]interface{}{"type": "array", "items": obj(target)}
	case "additionalProperties":
		target = "#/definitions/a/additionalProperties"
		defs["a"] = map[string]interface{}{"type": "object", "additionalProperties": obj(target)}
	case "param-schema":
		target = "#/parameters/p/schema"
		doc["parameters"] = map[string]interface{}{"p": map[string]interface{}{"name": "b", "in": "body", "schema": obj(target)}}
	case "response-schema":
		target = "#/responses/r/schema"
		doc["responses"] = map[string]interface{}{"r": map[string]interface{}{"description": "r", "schema": obj(target)}}
	}
	// reached again, after the shared sections, from the paths
	doc["paths"] = map[string]interface{}{"/again": map[string]interface{}{"get": map[string]interface{}{
		"parameters": []interface{}{map[string]interface{}{"name": "q", "in": "body", "schema": ref(target)}},
		"responses":  map[string]interface{}{"200": map[string]interface{}{"description": "ok", "schema": map[string]interface{}{"type": "array", "items": ref(target)}}}}}}
	return doc
}

func checkPtrCycle(in ptrCycleInput) string {
	root := "file:///r/root.json"
	g := exFromGeneric(map[string]interface{}{root: ptrCycleDoc(in.Shape)}, root)
	for _, o := range []exOpts{{}, {Cont: true}, {Abs: true}} {
		c := g.call("expand_spec", o)
		c.Twice = true
		res := exWorkerRun(c)
		if res.Timeout {
			return fmt.Sprintf("ExpandSpec (%+v, twice on the same typed root) does not return on a cycle through a reference ending at %s", o, in.Shape)
		}
		if res.Panic != "" {
			return fmt.Sprintf("ExpandSpec (%+v, twice on the same typed root) crashes on a cycle through a reference ending at %s: %.200s", o, in.Shape, res.Panic)
		}
	}
	return ""
}

func oracleC04Ptr(r *rng, n int, tier string) *oracleResult {
	exQuiet()
	res := &oracleResult{Stats: map[string]int{}}
	fails := 0
	for _, sh := range ptrCycleShapes {
		if fails >= 2 {
			res.Stats["not-examined-after-two-failures"]++
			continue
		}
		in := ptrCycleInput{Shape: sh}
		res.Evaluations++
		res.Distinct++
		if msg := checkPtrCycle(in); msg != "" {
			fails++
			res.Stats["fail:pointer-member-cycle"]++
			if fails <= 1 {
				res.Failures = append(res.Failures, failure{Property: "C04", What: msg, Shape: "pointer-member-cycle", Input: in})
			}
		}
	}
	res.Samples = []interface{}{ptrCycleInput{Shape: "not"}}
	return res
}

func init() {
	oracles["C04ptr"] = oracleC04Ptr
	replays["C04ptr"] = func(input json.RawMessage) *oracleResult {
		var in ptrCycleInput
		res := &oracleResult{Stats: map[string]int{}, Evaluations: 1}
		if json.Unmarshal(input, &in) != nil {
			return res
		}
		if msg := checkPtrCycle(in); msg != "" {
			res.Failures = append(res.Failures, failure{Property: "C04", What: msg, Shape: "pointer-member-cycle", Input: in})
		}
		return res
	}
}

// ---------------------------------------------------------------------------------------------
// C08: the root document is held in memory, but a `$ref` that NAMES it (by file name, by a relative path from another
// document, by its absolute URL) is a reference to a document like any other: when the loader refuses that location the
// reference cannot be resolved - an error in strict mode, the `$ref` left in place when asked to continue.

type rootRefusedInput struct {
	Shape string `json:"shape"` // self-by-name | back-ref-sibling | back-ref-subdir | absolute-url
}

func rootRefusedGraph(in rootRefusedInput) (*exGraph, string) {
	type m = map[string]interface{}
	const rootURL = "file:///w/api/root.json"
	root := m{"swagger": "2.0", "info": m{"title": "root", "version": "1"}, "paths": m{},
		"definitions": m{"T": m{"type": "object", "description": "T of root"}}}
	docs := m{rootURL: root}
	var ref string
	switch in.Shape {
	case "self-by-name":
		ref = "root.json#/definitions/T"
		root["definitions"].(m)["U"] = m{"type": "object", "properties": m{"t": m{"$ref": ref}}}
	case "absolute-url":
		ref = rootURL + "#/definitions/T"
		root["definitions"].(m)["U"] = m{"type": "array", "items": m{"$ref": ref}}
	case "back-ref-sibling", "back-ref-subdir":
		dir, back := "", "root.json"
		if in.Shape == "back-ref-subdir" {
			dir, back = "sub/", "../root.json"
		}
		ref = back + "#/definitions/T"
		root["paths"] = m{"/a": m{"$ref": dir + "items.json#/paths/~1a"}}
		docs["file:///w/api/"+dir+"items.json"] = m{"swagger": "2.0", "info": m{"title": "items", "version": "1"},
			"paths": m{"/a": m{"get": m{"responses": m{"200": m{"description": "ok", "schema": m{"$ref": ref}}}}}}}
	}
	g := exFromGeneric(docs, rootURL)
	g.Missing = []string{rootURL}
	return g, ref
}

func checkRootRefused(in rootRefusedInput) string {
	g, ref := rootRefusedGraph(in)
	served := g.clone()
	served.Missing = nil
	if res := exWorkerRun(served.call("expand_spec", exOpts{})); !res.ok() {
		return "" // the graph does not even expand when every document is served: nothing to compare
	}
	strict := exWorkerRun(g.call("expand_spec", exOpts{}))
	if strict.Timeout || strict.Panic != "" {
		return ""
	}
	if !strict.Err {
		return fmt.Sprintf("no error although the `$ref` %q names a document the loader refuses (the root, by its location)", ref)
	}
	cont := exWorkerRun(g.call("expand_spec", exOpts{Cont: true}))
	if cont.Timeout || cont.Panic != "" {
		return ""
	}
	if cont.Err {
		return fmt.Sprintf("ContinueOnError: an error is returned for the unresolvable `$ref` %q: %.200s", ref, cont.ErrText)
	}
	if exFindRefText(exDecode(cont.Out), func(r string) bool { return strings.HasSuffix(r, "#/definitions/T") }) == "" {
		return fmt.Sprintf("ContinueOnError: the unresolvable `$ref` %q is not left in place", ref)
	}
	return ""
}

func oracleC08Root(r *rng, n int, tier string) *oracleResult {
	exQuiet()
	res := &oracleResult{Stats: map[string]int{}}
	for _, sh := range []string{"self-by-name", "absolute-url", "back-ref-sibling", "back-ref-subdir"} {
		in := rootRefusedInput{Shape: sh}
		res.Evaluations++
		res.Distinct++
		if msg := checkRootRefused(in); msg != "" {
			res.Stats["fail:root-refused"]++
			if len(res.Failures) < 2 {
				res.Failures = append(res.Failures, failure{Property: "C08", What: msg, Shape: "silent-failure:root-named-and-refused", Input: in})
			}
		}
	}
	res.Samples = []interface{}{rootRefusedInput{Shape: "self-by-name"}}
	return res
}

func init() {
	oracles["C08root"] = oracleC08Root
	replays["C08root"] = func(input json.RawMessage) *oracleResult {
		var in rootRefusedInput
		res := &oracleResult{Stats: map[string]int{}, Evaluations: 1}
		if json.Unmarshal(input, &in) != nil {
			return res
		}
		if msg := checkRootRefused(in); msg != "" {
			res.Failures = append(res.Failures, failure{Property: "C08", What: msg, Shape: "silent-failure:root-named-and-refused", Input: in})
		}
		return res
	}
}

// ---------------------------------------------------------------------------------------------
// C18: a schema that carries its own `id` opens a scope; what a fragment-only `$ref` below it designates must not depend on
// whether the supplied cache already holds the root document (nor on any other cache state)

type scopedIDInput struct {
	Where string `json:"where"` // the keyword under which the scoped schema sits (or "document-id")
	Cont  bool   `json:"cont,omitempty"`
}

func checkScopedID(in scopedIDInput) (msg string, obs interface{}) {
	defer func() {
		if r := recover(); r != nil {
			msg = fmt.Sprintf("panic: %v", r)
		}
	}()
	const rootURL = "file:///sc/root.json"
	docs := map[string]string{
		rootURL:                         `{"swagger":"2.0","info":{"title":"t","version":"1"},"paths":{},"definitions":{"label":{"type":"string","description":"label of the root"},"other":{"type":"boolean"}}}`,
		"file:///sc/other.json":         `{"definitions":{"x":{"type":"number"}}}`,
		"http://scoped.example/in.json": `{"definitions":{"label":{"type":"integer","description":"label served at the id"}}}`,
	}
	scoped := `{"id":"http://scoped.example/in.json","type":"object","definitions":{"label":{"type":"integer","description":"label of the scope"}},"properties":{"label":{"$ref":"#/definitions/label"}}}`
	element := `{"type":"object","properties":{"first":{"$ref":"#/definitions/other"},"away":{"$ref":"other.json#/definitions/x"}},"` + in.Where + `":` + map[string]string{
		"allOf": `[` + scoped + `]`, "items": scoped, "additionalProperties": scoped, "not": scoped}[in.Where] + `}`
	loader := func(u string) (json.RawMessage, error) {
		if d, ok := docs[u]; ok {
			return json.RawMessage(d), nil
		}
		return nil, fmt.Errorf("no such document %s", u)
	}
	run := func(cache spec.ResolutionCache) string {
		s := new(spec.Schema)
		if err := json.Unmarshal([]byte(element), s); err != nil {
			return "decode: " + err.Error()
		}
		var err error
		if cache == nil {
			err = spec.ExpandSchemaWithBasePath(s, nil, &spec.ExpandOptions{RelativeBase: rootURL, PathLoader: loader})
		} else {
			err = spec.ExpandSchemaWithBasePath(s, cache, &spec.ExpandOptions{RelativeBase: rootURL, PathLoader: loader})
		}
		if err != nil {
			return "error: " + err.Error()
		}
		b, _ := json.Marshal(s)
		return string(b)
	}
	preload := func(urls ...string) spec.ResolutionCache {
		c := &mapCache{m: map[string]interface{}{}}
		for _, u := range urls {
			var v interface{}
			_ = json.Unmarshal([]byte(docs[u]), &v)
			c.Set(u, v)
		}
		return c
	}
	base := run(nil)
	states := map[string]spec.ResolutionCache{
		"a fresh cache":                          &mapCache{m: map[string]interface{}{}},
		"a cache pre-loaded with the root":       preload(rootURL),
		"a cache pre-loaded with every document": preload(rootURL, "file:///sc/other.json", "http://scoped.example/in.json"),
	}
	reused := &mapCache{m: map[string]interface{}{}}
	run(reused)
	states["a cache reused from an earlier expansion"] = reused
	for _, name := range []string{"a fresh cache", "a cache pre-loaded with the root", "a cache pre-loaded with every document", "a cache reused from an earlier expansion"} {
		if got := run(states[name]); got != base {
			return name + " changes the expansion of an element with a scoped (`id`) sub-schema", map[string]string{"with": got, "without": base}
		}
	}
	return
}

// checkDocID: an external document declares a top-level `id` at which nothing is served; one reference reaches it by its
// location, another names it by the id.  What the second one yields (here: nothing, the loader refuses the id) must be the same
// with no cache, a fresh one, one pre-loaded with the document, and one reused from an expansion that fetched the document.
func checkDocID(cont bool) (msg string, obs interface{}) {
	defer func() {
		if r := recover(); r != nil {
			msg = fmt.Sprintf("panic: %v", r)
		}
	}()
	const rootURL, typesURL, idURL = "file:///di/root.json", "file:///di/types.json", "http://schemas.test/common/types.json"
	docs := map[string]string{
		rootURL:  `{"swagger":"2.0","info":{"title":"t","version":"1"},"paths":{}}`,
		typesURL: `{"id":"` + idURL + `","definitions":{"name":{"type":"string"},"age":{"type":"integer","minimum":0}}}`,
	}
	byLocation := `{"$ref":"types.json#/definitions/name"}`
	byID := `{"$ref":"` + idURL + `#/definitions/age"}`
	both := `{"allOf":[` + byLocation + `,` + byID + `]}`
	loader := func(u string) (json.RawMessage, error) {
		if d, ok := docs[u]; ok {
			return json.RawMessage(d), nil
		}
		return nil, fmt.Errorf("no such document %s", u)
	}
	run := func(element string, cache spec.ResolutionCache) string {
		s := new(spec.Schema)
		if err := json.Unmarshal([]byte(element), s); err != nil {
			return "decode: " + err.Error()
		}
		var err error
		opts := &spec.ExpandOptions{RelativeBase: rootURL, PathLoader: loader, ContinueOnError: cont}
		if cache == nil {
			err = spec.ExpandSchemaWithBasePath(s, nil, opts)
		} else {
			err = spec.ExpandSchemaWithBasePath(s, cache, opts)
		}
		if err != nil {
			return "error"
		}
		b, _ := json.Marshal(s)
		return string(b)
	}
	preload := func(urls ...string) spec.ResolutionCache {
		c := &mapCache{m: map[string]interface{}{}}
		for _, u := range urls {
			var v interface{}
			_ = json.Unmarshal([]byte(docs[u]), &v)
			c.Set(u, v)
		}
		return c
	}
	for _, element := range []string{both, byID} {
		base := run(element, nil)
		reusedSame, reusedLoc := &mapCache{m: map[string]interface{}{}}, &mapCache{m: map[string]interface{}{}}
		run(element, reusedSame)
		run(byLocation, reusedLoc)
		states := []struct {
			name  string
			cache spec.ResolutionCache
		}{{"a fresh cache", &mapCache{m: map[string]interface{}{}}}, {"a cache pre-loaded with the document", preload(typesURL)},
			{"a cache pre-loaded with the root and the document", preload(rootURL, typesURL)},
			{"a cache reused from an earlier expansion of the same element", reusedSame},
			{"a cache reused from an expansion that reached the document by its location", reusedLoc}}
		for _, st := range states {
			if got := run(element, st.cache); got != base {
				return st.name + " changes the expansion of a reference that names a document by the `id` it declares", map[string]string{"element": element, "with": got, "without": base}
			}
		}
	}
	return
}

// checkFragmentID: a schema of an external document carries an `id` that is a fragment ("#tag", "defs.json#tag": the draft-04 way
// of naming a sub-schema).  Expanding an element that walks it, then - with the same cache - another element that refers into the
// same document, gives what the second element gives with no cache at all.
func checkFragmentID(id string) (msg string, obs interface{}) {
	defer func() {
		if r := recover(); r != nil {
			msg = fmt.Sprintf("panic: %v", r)
		}
	}()
	const rootURL, defsURL = "file:///fi/root.json", "file:///fi/defs.json"
	docs := map[string]string{
		rootURL: `{"swagger":"2.0","info":{"title":"t","version":"1"},"paths":{}}`,
		defsURL: `{"definitions":{"tagged":{"id":"` + id + `","type":"object","properties":{"n":{"$ref":"#/definitions/count"}}},"count":{"type":"integer","minimum":0}}}`,
	}
	loader := func(u string) (json.RawMessage, error) {
		if d, ok := docs[u]; ok {
			return json.RawMessage(d), nil
		}
		return nil, fmt.Errorf("no such document %s", u)
	}
	run := func(element string, cache spec.ResolutionCache) string {
		s := new(spec.Schema)
		if err := json.Unmarshal([]byte(element), s); err != nil {
			return "decode: " + err.Error()
		}
		var err error
		opts := &spec.ExpandOptions{RelativeBase: rootURL, PathLoader: loader}
		if cache == nil {
			err = spec.ExpandSchemaWithBasePath(s, nil, opts)
		} else {
			err = spec.ExpandSchemaWithBasePath(s, cache, opts)
		}
		if err != nil {
			return "error"
		}
		b, _ := json.Marshal(s)
		return string(b)
	}
	first, second := `{"$ref":"defs.json#/definitions/tagged"}`, `{"type":"array","items":{"$ref":"defs.json#/definitions/count"}}`
	for _, el := range []string{second, first} {
		base := run(el, nil)
		reused := &mapCache{m: map[string]interface{}{}}
		run(first, reused)
		if got := run(el, reused); got != base {
			return "a cache reused after an expansion that walked a schema with a fragment `id` changes the expansion of another element", map[string]string{"element": el, "with": got, "without": base}
		}
		pre := &mapCache{m: map[string]interface{}{}}
		var v interface{}
		_ = json.Unmarshal([]byte(docs[defsURL]), &v)
		pre.Set(defsURL, v)
		run(first, pre)
		if got := run(el, pre); got != base {
			return "a pre-loaded cache used for two elements, the first of which walks a schema with a fragment `id`, changes the expansion of the second", map[string]string{"element": el, "with": got, "without": base}
		}
	}
	return
}

func oracleC18Scoped(r *rng, n int, tier string) *oracleResult {
	exQuiet()
	res := &oracleResult{Stats: map[string]int{}}
	for _, id := range []string{"#tag", "defs.json#tag", "file:///fi/defs.json#tag"} {
		in := scopedIDInput{Where: "fragment-id:" + id}
		res.Evaluations += 6
		res.Distinct++
		if msg, obs := checkFragmentID(id); msg != "" {
			res.Stats["fail:cache-changes-result:fragment-id"]++
			if res.Stats["fail:cache-changes-result:fragment-id"] <= 1 {
				res.Failures = append(res.Failures, failure{Property: "C18", What: msg, Shape: "cache-changes-result:fragment-id", Input: in, Observed: obs})
			}
		}
	}
	for _, cont := range []bool{true, false} {
		in := scopedIDInput{Where: "document-id", Cont: cont}
		res.Evaluations += 12
		res.Distinct++
		if msg, obs := checkDocID(cont); msg != "" {
			res.Stats["fail:cache-changes-result:document-id"]++
			if len(res.Failures) < 1 {
				res.Failures = append(res.Failures, failure{Property: "C18", What: msg, Shape: "cache-changes-result:document-id", Input: in, Observed: obs})
			}
		}
	}
	for _, w := range []string{"allOf", "items", "additionalProperties", "not"} {
		in := scopedIDInput{Where: w}
		res.Evaluations += 5
		res.Distinct++
		if msg, obs := checkScopedID(in); msg != "" {
			res.Stats["fail:cache-changes-result:scoped-id"]++
			if len(res.Failures) < 1 {
				res.Failures = append(res.Failures, failure{Property: "C18", What: msg, Shape: "cache-changes-result:scoped-id", Input: in, Observed: obs})
			}
		}
	}
	res.Samples = []interface{}{scopedIDInput{Where: "allOf"}}
	return res
}

func init() {
	oracles["C18scoped"] = oracleC18Scoped
	replays["C18scoped"] = func(input json.RawMessage) *oracleResult {
		var in scopedIDInput
		res := &oracleResult{Stats: map[string]int{}, Evaluations: 1}
		if json.Unmarshal(input, &in) != nil {
			return res
		}
		if strings.HasPrefix(in.Where, "fragment-id:") {
			if msg, obs := checkFragmentID(strings.TrimPrefix(in.Where, "fragment-id:")); msg != "" {
				res.Failures = append(res.Failures, failure{Property: "C18", What: msg, Shape: "cache-changes-result:fragment-id", Input: in, Observed: obs})
			}
			return res
		}
		if in.Where == "document-id" {
			if msg, obs := checkDocID(in.Cont); msg != "" {
				res.Failures = append(res.Failures, failure{Property: "C18", What: msg, Shape: "cache-changes-result:document-id", Input: in, Observed: obs})
			}
			return res
		}
		if msg, obs := checkScopedID(in); msg != "" {
			res.Failures = append(res.Failures, failure{Property: "C18", What: msg, Shape: "cache-changes-result:scoped-id", Input: in, Observed: obs})
		}
		return res
	}
}

// ---------------------------------------------------------------------------------------------
// C04: a chain of parameter, response or path-item references that runs INTO a cycle it is not part of (a -> b -> c -> c,
// a -> b -> c -> d -> c): the element expanded first is not on the cycle, so the cycle closes on a reference other than the
// first one followed

type tailCycleInput struct {
	Kind  string `json:"kind"`  // parameter | response | pathitem
	Cycle int    `json:"cycle"` // length of the cycle the tail runs into (1 or 2)
	Cross bool   `json:"cross"` // the cycle lies in another document
}

func tailCycleGraph(in tailCycleInput) *exGraph {
	type m = map[string]interface{}
	root, other := "file:///t/root.json", "file:///t/sub/other.json"
	sec := map[string]string{"parameter": "parameters", "response": "responses", "pathitem": "paths"}[in.Kind]
	name := func(s string) string {
		if in.Kind == "pathitem" {
			return "/" + s
		}
		return s
	}
	ref := func(doc, s string) m {
		return m{"$ref": doc + "#/" + sec + "/" + strings.ReplaceAll(name(s), "/", "~1")}
	}
	r := m{"swagger": "2.0", "info": m{"title": "t", "version": "1"}, "paths": m{}}
	o := m{"swagger": "2.0", "info": m{"title": "o", "version": "1"}, "paths": m{}}
	rs, os := m{}, m{}
	cdoc, cm := "", rs
	if in.Cross {
		cdoc, cm = "sub/other.json", os
	}
	back := ""
	if in.Cross {
		back = "" // references inside the other document are local to it
	}
	rs[name("a")] = ref("", "b")
	rs[name("b")] = ref(cdoc, "c")
	if in.Cycle == 1 {
		cm[name("c")] = ref(back, "c")
	} else {
		cm[name("c")] = ref(back, "d")
		cm[name("d")] = ref(back, "c")
	}
	if in.Kind == "pathitem" {
		r["paths"], o["paths"] = rs, os
	} else {
		r[sec], o[sec] = rs, os
		use := m{"get": m{"responses": m{"200": m{"description": "ok"}}}}
		if in.Kind == "parameter" {
			use["parameters"] = []interface{}{ref("", "a")} // path level: a list, visited in order
		} else {
			use["get"].(m)["responses"].(m)["default"] = ref("", "a")
		}
		r["paths"] = m{"/use": use}
	}
	return exFromGeneric(m{root: r, other: o}, root)
}

func checkTailCycle(in tailCycleInput) string {
	g := tailCycleGraph(in)
	for _, o := range []exOpts{{}, {Cont: true}, {Skip: true}, {Skip: true, Cont: true}} {
		for rep := 0; rep < 4; rep++ { // the sections are maps: which element is expanded first varies from run to run
			res := exWorkerRun(g.call("expand_spec", o))
			if res.Timeout {
				return fmt.Sprintf("ExpandSpec (%+v) does not return within the time limit on a chain of %s references that runs into a cycle", o, in.Kind)
			}
			if res.Panic != "" {
				return fmt.Sprintf("ExpandSpec (%+v) crashes on a chain of %s references that runs into a cycle: %.200s", o, in.Kind, res.Panic)
			}
		}
	}
	if in.Kind != "pathitem" {
		op := map[string]string{"parameter": "expand_param", "response": "expand_response"}[in.Kind]
		c := g.call(op, exOpts{})
		c.Element, _ = json.Marshal(map[string]string{"$ref": "#/" + map[string]string{"parameter": "parameters", "response": "responses"}[in.Kind] + "/a"})
		for _, e := range []string{"with_root_generic", "with_root_typed"} {
			c.Entry = e
			res := exWorkerRun(c)
			if res.Timeout || res.Panic != "" {
				return fmt.Sprintf("%s with a root value (%s) does not return (or crashes) on a chain that runs into a cycle: %.200s", op, e, res.Panic)
			}
		}
	}
	return ""
}

// the entry points that take a base location (ExpandParameter, ExpandResponse, ExpandSchemaWithBasePath) on a cyclic
// document whose location the caller spells in a way that is not canonical
type baseSpellCycleInput struct {
	Root     string `json:"root"`     // canonical location of the document
	Spelling string `json:"spelling"` // the base location as the caller writes it
	Shape    string `json:"shape"`    // param-chain | response-schema | schema
}

func baseSpellCycleCases() []baseSpellCycleInput {
	var out []baseSpellCycleInput
	cwd, _ := os.Getwd()
	pairs := [][2]string{
		{"file:///srv/spec.json", "/srv/a/../spec.json"}, {"file:///srv/spec.json", "/srv/./spec.json"}, {"file:///srv/spec.json", "file:///srv/a/../spec.json"},
		{"file:///srv/spec.json", "/srv//spec.json"}, {"http://example.com/spec.json", "http://example.com/api/../spec.json"},
		{"http://example.com/spec.json", "HTTP://EXAMPLE.com/spec.json"}, {"http://example.com/spec.json", "http://example.com:80/./spec.json"},
		{"file://" + cwd + "/spec.json", "./spec.json"}, {"file://" + cwd + "/docs/api/spec.json", "docs/api/spec.json"},
		{"file://" + cwd + "/spec.json", "docs/../spec.json"}, {"file://" + cwd + "/spec.json", "spec.json"},
	}
	for _, p := range pairs {
		for _, sh := range []string{"param-chain", "response-schema", "schema"} {
			out = append(out, baseSpellCycleInput{Root: p[0], Spelling: p[1], Shape: sh})
		}
	}
	return out
}

func checkBaseSpellCycle(in baseSpellCycleInput) string {
	type m = map[string]interface{}
	doc := m{"swagger": "2.0", "info": m{"title": "t", "version": "1"}, "paths": m{},
		"parameters":  m{"p": m{"$ref": "#/parameters/q"}, "q": m{"$ref": "#/parameters/p"}},
		"definitions": m{"node": m{"type": "object", "properties": m{"next": m{"$ref": "#/definitions/node"}}}}}
	g := exFromGeneric(m{in.Root: doc}, in.Root)
	var c *exCall
	switch in.Shape {
	case "param-chain":
		c = g.call("expand_param", exOpts{})
		c.Element = json.RawMessage(`{"$ref":"#/parameters/p"}`)
	case "response-schema":
		c = g.call("expand_response", exOpts{})
		c.Element = json.RawMessage(`{"description":"d","schema":{"$ref":"#/definitions/node"}}`)
	default:
		c = g.call("expand_schema", exOpts{})
		c.Element = json.RawMessage(`{"$ref":"#/definitions/node"}`)
	}
	c.Entry, c.Spelling = "base_path", in.Spelling
	res := exWorkerRun(c)
	if res.Timeout || res.Panic != "" {
		return fmt.Sprintf("%s with the base location %q does not return (or crashes) on a cyclic document: %.200s", c.Op, in.Spelling, res.Panic)
	}
	return ""
}

func oracleC04Tail(r *rng, n int, tier string) *oracleResult {
	exQuiet()
	res := &oracleResult{Stats: map[string]int{}}
	fails := 0
	for _, k := range []string{"parameter", "response", "pathitem"} {
		for _, cyc := range []int{1, 2} {
			for _, cross := range []bool{false, true} {
				if fails >= 2 {
					res.Stats["not-examined-after-two-failures"]++
					continue
				}
				in := tailCycleInput{Kind: k, Cycle: cyc, Cross: cross}
				res.Evaluations += 17
				res.Distinct++
				if msg := checkTailCycle(in); msg != "" {
					fails++
					res.Stats["fail:tail-into-cycle"]++
					if fails <= 1 {
						res.Failures = append(res.Failures, failure{Property: "C04", What: msg, Shape: "tail-into-element-cycle", Input: in})
					}
				}
			}
		}
	}
	for _, in := range baseSpellCycleCases() {
		if fails >= 2 {
			res.Stats["not-examined-after-two-failures"]++
			continue
		}
		res.Evaluations++
		res.Distinct++
		if msg := checkBaseSpellCycle(in); msg != "" {
			fails++
			res.Stats["fail:base-spelling-cycle"]++
			if fails <= 1 {
				res.Failures = append(res.Failures, failure{Property: "C04", What: msg, Shape: "base-spelling-on-cycle", Input: in})
			}
		}
	}
	res.Samples = []interface{}{tailCycleInput{Kind: "parameter", Cycle: 1}}
	return res
}

func init() {
	oracles["C04tail"] = oracleC04Tail
	replays["C04tail"] = func(input json.RawMessage) *oracleResult {
		var in tailCycleInput
		res := &oracleResult{Stats: map[string]int{}, Evaluations: 1}
		var bs baseSpellCycleInput
		if json.Unmarshal(input, &bs) == nil && bs.Spelling != "" {
			if msg := checkBaseSpellCycle(bs); msg != "" {
				res.Failures = append(res.Failures, failure{Property: "C04", What: msg, Shape: "base-spelling-on-cycle", Input: bs})
			}
			return res
		}
		if json.Unmarshal(input, &in) != nil {
			return res
		}
		if msg := checkTailCycle(in); msg != "" {
			res.Failures = append(res.Failures, failure{Property: "C04", What: msg, Shape: "tail-into-element-cycle", Input: in})
		}
		return res
	}
}

// ---------------------------------------------------------------------------------------------
// C08: a parameter, response or path item written as a reference object WITH further members the target does not define:
// those members stay (the target is decoded over the object) and are visited, so a `$ref` below them that cannot be
// resolved is reported like any other - an error in strict mode, left in place when asked to continue.

type refSiblingInput struct {
	Kind  string `json:"kind"`  // response | parameter | pathitem
	Fault string `json:"fault"` // missing-pointer | refused-document
	Place string `json:"place"` // operation | shared | path-level
}

func refSiblingGraph(in refSiblingInput) (*exGraph, string) {
	type m = map[string]interface{}
	const rootURL = "file:///w/api/root.json"
	bad := "#/definitions/nowhere"
	if in.Fault == "refused-document" {
		bad = "gone.json#/definitions/T"
	}
	badSchema := m{"$ref": bad}
	root := m{"swagger": "2.0", "info": m{"title": "root", "version": "1"},
		"definitions": m{"T": m{"type": "string"}},
		"parameters":  m{"plain": m{"name": "q", "in": "query", "type": "string"}},
		"responses":   m{"plain": m{"description": "no schema here"}}}
	op := m{"responses": m{"200": m{"description": "ok"}}}
	paths := m{"/a": m{"get": op}}
	switch in.Kind {
	case "response":
		refObj := m{"$ref": "#/responses/plain", "schema": badSchema}
		if in.Place == "shared" {
			root["responses"].(m)["viaRef"] = refObj
			op["responses"].(m)["default"] = m{"$ref": "#/responses/viaRef"}
		} else {
			op["responses"].(m)["default"] = refObj
		}
	case "parameter":
		refObj := m{"$ref": "#/parameters/plain", "schema": badSchema}
		if in.Place == "path-level" {
			paths["/a"].(m)["parameters"] = []interface{}{refObj}
		} else {
			op["parameters"] = []interface{}{refObj}
		}
	case "pathitem":
		paths["/shared"] = m{"parameters": []interface{}{m{"name": "q", "in": "query", "type": "string"}}}
		paths["/b"] = m{"$ref": "#/paths/~1shared", "get": m{"responses": m{"200": m{"description": "ok", "schema": badSchema}}}}
	}
	root["paths"] = paths
	g := exFromGeneric(m{rootURL: root}, rootURL)
	if in.Fault == "refused-document" {
		g.Missing = []string{"file:///w/api/gone.json"}
	}
	return g, bad
}

func checkRefSibling(in refSiblingInput) string {
	g, bad := refSiblingGraph(in)
	tail := bad[strings.Index(bad, "#"):]
	for _, skip := range []bool{false} {
		strict := exWorkerRun(g.call("expand_spec", exOpts{Skip: skip}))
		if strict.Timeout || strict.Panic != "" {
			return ""
		}
		if !strict.Err {
			return fmt.Sprintf("no error although the `$ref` %q, written next to the `$ref` of a %s, cannot be resolved", bad, in.Kind)
		}
		cont := exWorkerRun(g.call("expand_spec", exOpts{Cont: true, Skip: skip}))
		if cont.Timeout || cont.Panic != "" {
			return ""
		}
		if cont.Err {
			return fmt.Sprintf("ContinueOnError: an error is returned for the unresolvable `$ref` %q: %.200s", bad, cont.ErrText)
		}
		if exFindRefText(exDecode(cont.Out), func(r string) bool { return strings.HasSuffix(r, tail) }) == "" {
			return fmt.Sprintf("ContinueOnError: the unresolvable `$ref` %q, written next to the `$ref` of a %s, is not left in place", bad, in.Kind)
		}
	}
	return ""
}

// danglingFixedPointers: pointers that lead nowhere although something nearby exists - an index under an `items` that is a
// single schema, an index outside a tuple, an optional member the target does not have
var danglingFixedPointers = []string{"#/definitions/arr/items/0", "#/definitions/arr/items/1", "#/definitions/tup/items/2", "#/definitions/tup/items/-1",
	"#/definitions/arr/additionalItems", "#/definitions/arr/not", "#/definitions/tup/items/0/items"}

func checkDanglingFixed(ptr string) string {
	type m = map[string]interface{}
	const rootURL = "file:///w/api/root.json"
	root := m{"swagger": "2.0", "info": m{"title": "root", "version": "1"}, "paths": m{},
		"definitions": m{"arr": m{"type": "array", "items": m{"type": "string"}},
			"tup":  m{"type": "array", "items": []interface{}{m{"type": "string"}, m{"type": "integer"}}},
			"uses": m{"type": "object", "properties": m{"bad": m{"$ref": ptr}}}}}
	g := exFromGeneric(m{rootURL: root}, rootURL)
	strict := exWorkerRun(g.call("expand_spec", exOpts{}))
	if strict.Timeout || strict.Panic != "" {
		return ""
	}
	if !strict.Err {
		return fmt.Sprintf("no error although the `$ref` %q leads nowhere in the document", ptr)
	}
	cont := exWorkerRun(g.call("expand_spec", exOpts{Cont: true}))
	if cont.Timeout || cont.Panic != "" {
		return ""
	}
	if cont.Err {
		return fmt.Sprintf("ContinueOnError: an error is returned for the unresolvable `$ref` %q: %.200s", ptr, cont.ErrText)
	}
	if exFindRefText(exDecode(cont.Out), func(r string) bool { return r == ptr }) == "" {
		return fmt.Sprintf("ContinueOnError: the unresolvable `$ref` %q is not left in place", ptr)
	}
	return ""
}

// checkAnchorID: a located document (no root value) holds, under `definitions`, a schema with a plain-name `id` ("#address"); the
// schema being expanded - the document itself - refers to its own definitions by fragment.  Every such reference that exists
// is expanded; one that leads nowhere in the DOCUMENT (although the anchored schema has a member of that name) is reported.
func checkAnchorID(dangling bool) string {
	const docURL = "file:///an/doc.json"
	refs := `"a":{"$ref":"#/definitions/name"},"z":{"$ref":"#/definitions/address"}`
	if dangling {
		refs += `,"s":{"$ref":"#/properties/street"}`
	}
	doc := `{"type":"object","definitions":{"address":{"id":"#address","type":"object","properties":{"street":{"type":"string","description":"street of address"}}},` +
		`"name":{"type":"string","description":"name of doc"}},"properties":{` + refs + `}}`
	loader := func(u string) (json.RawMessage, error) {
		if u == docURL {
			return json.RawMessage(doc), nil
		}
		return nil, fmt.Errorf("no such document %s", u)
	}
	for _, cont := range []bool{false, true} {
		sch := new(spec.Schema)
		if json.Unmarshal([]byte(doc), sch) != nil {
			return ""
		}
		err := spec.ExpandSchemaWithBasePath(sch, nil, &spec.ExpandOptions{RelativeBase: docURL, PathLoader: loader, ContinueOnError: cont})
		out, _ := json.Marshal(sch)
		switch {
		case !dangling && err != nil:
			return fmt.Sprintf("an error is returned although every reference of the located document resolves (a definition carries a plain-name id): %v", err)
		case !dangling && !strings.Contains(string(out), `"a":{"description":"name of doc"`):
			return "a resolvable reference of a located document is not expanded (a definition carries a plain-name id): " + exClip(string(out), 300)
		case dangling && !cont && err == nil:
			return "no error although `#/properties/street` leads nowhere in the located document (only the anchored definition has such a member)"
		case dangling && cont && (err != nil || !strings.Contains(string(out), `"$ref":"#/properties/street"`)):
			return fmt.Sprintf("ContinueOnError: the unresolvable `#/properties/street` is not left in place (err=%v): %s", err, exClip(string(out), 300))
		}
	}
	return ""
}

// checkNoBase: ExpandSpec of a root given with no location at all (the caller's options hold a loader only): a reference leads into
// another document (found from the working directory), whose own fragment-only references are read in THAT document - one that
// exists there is expanded; one that exists only in the root (a homonym) leads nowhere and is reported.
func checkNoBase(dangling bool) string {
	type m = map[string]interface{}
	cwdURL := strings.TrimSuffix(exPseudoRoot, ".root")
	inner := "#/definitions/inner"
	if dangling {
		inner = "#/definitions/ghost"
	}
	root := m{"swagger": "2.0", "info": m{"title": "root", "version": "1"}, "paths": m{},
		"definitions": m{"uses": m{"$ref": "other.json#/definitions/outer"}, "ghost": m{"type": "boolean", "description": "ghost of the root"},
			"inner": m{"type": "boolean", "description": "inner of the root"}}}
	other := m{"definitions": m{"outer": m{"type": "object", "properties": m{"x": m{"$ref": inner}}}, "inner": m{"type": "string", "description": "inner of other"}}}
	g := exFromGeneric(m{exPseudoRoot: root, cwdURL + "other.json": other}, exPseudoRoot)
	c := g.call("expand_spec", exOpts{})
	c.EmptyBase = true
	strict := exWorkerRun(c)
	if strict.Timeout || strict.Panic != "" {
		return ""
	}
	if !dangling {
		if strict.Err {
			return "ExpandSpec of a root without a location reports an error although every reference resolves (a fragment-only reference inside another document): " + exClip(strict.ErrText, 200)
		}
		if !strings.Contains(string(strict.Out), "inner of other") || strings.Contains(string(strict.Out), `"x":{"description":"inner of the root"`) {
			return "ExpandSpec of a root without a location reads a fragment-only reference of another document in the root: " + exClip(string(strict.Out), 300)
		}
		return ""
	}
	if !strict.Err {
		return "ExpandSpec of a root without a location: no error although `#/definitions/ghost` leads nowhere in the document that contains it (the root has a definition of that name)"
	}
	c2 := g.call("expand_spec", exOpts{Cont: true})
	c2.EmptyBase = true
	cont := exWorkerRun(c2)
	if cont.Timeout || cont.Panic != "" {
		return ""
	}
	if cont.Err || strings.Contains(string(cont.Out), `"x":{"description":"ghost of the root"`) {
		return "ContinueOnError, root without a location: the unresolvable `#/definitions/ghost` of another document is replaced by the root's definition of that name (or an error is returned)"
	}
	return ""
}

func refSiblingCases() []refSiblingInput {
	var out []refSiblingInput
	for _, f := range []string{"missing-pointer", "refused-document"} {
		out = append(out, refSiblingInput{"response", f, "operation"}, refSiblingInput{"response", f, "shared"},
			refSiblingInput{"parameter", f, "operation"}, refSiblingInput{"parameter", f, "path-level"}, refSiblingInput{"pathitem", f, "operation"})
	}
	return out
}

func oracleC08Sibling(r *rng, n int, tier string) *oracleResult {
	exQuiet()
	res := &oracleResult{Stats: map[string]int{}}
	for _, in := range refSiblingCases() {
		res.Evaluations++
		res.Distinct++
		if msg := checkRefSibling(in); msg != "" {
			res.Stats["fail:ref-sibling"]++
			if len(res.Failures) < 2 {
				res.Failures = append(res.Failures, failure{Property: "C08", What: msg, Shape: "silent-failure:below-a-member-next-to-a-reference", Input: in})
			}
		}
	}
	for _, dangling := range []bool{false, true} {
		res.Evaluations += 2
		res.Distinct++
		if msg := checkNoBase(dangling); msg != "" {
			res.Stats["fail:no-base"]++
			res.Failures = append(res.Failures, failure{Property: "C08", What: msg, Shape: "silent-failure:root-without-location", Input: refSiblingInput{Kind: "no-base", Fault: fmt.Sprint(dangling)}})
		}
	}
	for _, dangling := range []bool{false, true} {
		res.Evaluations += 2
		res.Distinct++
		if msg := guardedMsg(func() string { return checkAnchorID(dangling) }); msg != "" {
			res.Stats["fail:anchor-id"]++
			res.Failures = append(res.Failures, failure{Property: "C08", What: msg, Shape: "silent-failure:plain-name-id", Input: refSiblingInput{Kind: "anchor-id", Fault: fmt.Sprint(dangling)}})
		}
	}
	for _, ptr := range danglingFixedPointers {
		res.Evaluations++
		res.Distinct++
		if msg := checkDanglingFixed(ptr); msg != "" {
			res.Stats["fail:dangling-near-something"]++
			if len(res.Failures) < 3 {
				res.Failures = append(res.Failures, failure{Property: "C08", What: msg, Shape: "silent-failure:pointer-that-leads-nowhere", Input: refSiblingInput{Kind: "pointer", Fault: ptr}})
			}
		}
	}
	res.Samples = []interface{}{refSiblingInput{"response", "missing-pointer", "operation"}}
	return res
}

func init() {
	oracles["C08sibling"] = oracleC08Sibling
	replays["C08sibling"] = func(input json.RawMessage) *oracleResult {
		var in refSiblingInput
		res := &oracleResult{Stats: map[string]int{}, Evaluations: 1}
		if json.Unmarshal(input, &in) != nil {
			return res
		}
		if in.Kind == "no-base" {
			if msg := checkNoBase(in.Fault == "true"); msg != "" {
				res.Failures = append(res.Failures, failure{Property: "C08", What: msg, Shape: "silent-failure:root-without-location", Input: in})
			}
			return res
		}
		if in.Kind == "anchor-id" {
			if msg := guardedMsg(func() string { return checkAnchorID(in.Fault == "true") }); msg != "" {
				res.Failures = append(res.Failures, failure{Property: "C08", What: msg, Shape: "silent-failure:plain-name-id", Input: in})
			}
			return res
		}
		if in.Kind == "pointer" {
			if msg := checkDanglingFixed(in.Fault); msg != "" {
				res.Failures = append(res.Failures, failure{Property: "C08", What: msg, Shape: "silent-failure:pointer-that-leads-nowhere", Input: in})
			}
			return res
		}
		if msg := checkRefSibling(in); msg != "" {
			res.Failures = append(res.Failures, failure{Property: "C08", What: msg, Shape: "silent-failure:below-a-member-next-to-a-reference", Input: in})
		}
		return res
	}
}

// guardedMsg runs a check that calls the library in this process; a panic is a message.
func guardedMsg(f func() string) (msg string) {
	defer func() {
		if r := recover(); r != nil {
			msg = fmt.Sprintf("panic: %v", r)
		}
	}()
	return f()
}
