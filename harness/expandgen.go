package main

// Generators for the expander / resolver cluster: multi-document reference graphs held in memory,
// the library calls made on them (in a goroutine with a time limit, or in a worker process for the
// graphs that are known to make the library diverge) and the `expand` correspondence cases.

import (
	"bufio"
	"bytes"
	"encoding/json"
	"errors"
	"fmt"
	"io"
	"log"
	"net/url"
	"os"
	"os/exec"
	"path"
	"reflect"
	"regexp"
	"sort"
	"strconv"
	"strings"
	"sync"
	"sync/atomic"
	"time"

	"github.com/go-openapi/spec"
)

// ---------------------------------------------------------------------------------------------
// graphs

type exBroken struct {
	Fault   string   `json:"fault"` // dangling-ptr | ill-typed:<type> | missing-doc
	Doc     string   `json:"doc"`
	Path    []string `json:"path"`
	Kind    string   `json:"kind"`
	Ref     string   `json:"ref"`      // the text now in place
	OrigRef string   `json:"orig_ref"` // the text before the fault was injected
}

type exGraph struct {
	Docs    map[string]json.RawMessage `json:"docs"`
	Root    string                     `json:"root"`
	Tags    []string                   `json:"tags"`
	Acyclic bool                       `json:"acyclic"`
	Refs    []string                   `json:"refs,omitempty"`
	Missing []string                   `json:"missing,omitempty"`
	Broken  []exBroken                 `json:"broken,omitempty"`
	info    *exInfo
}

func (g *exGraph) store() exStore { return exDecodeStore(g.Docs, g.Missing) }

func (g *exGraph) analyse() *exInfo {
	if g.info == nil {
		g.info = exAnalyse(g.store(), g.Root)
		g.Tags = g.info.tagList()
		g.Acyclic = g.info.Acyclic
		g.Refs = g.info.refList()
	}
	return g.info
}

func (g *exGraph) hasTag(t string) bool { return g.analyse().Tags[t] }

func (g *exGraph) clone() *exGraph {
	c := &exGraph{Docs: map[string]json.RawMessage{}, Root: g.Root}
	for k, v := range g.Docs {
		c.Docs[k] = v
	}
	c.Missing = append([]string{}, g.Missing...)
	c.Broken = append([]exBroken{}, g.Broken...)
	return c
}

func (g *exGraph) docList() []string {
	out := make([]string, 0, len(g.Docs))
	for k := range g.Docs {
		out = append(out, k)
	}
	sort.Strings(out)
	return out
}

func (g *exGraph) key() string {
	var b strings.Builder
	for _, u := range g.docList() {
		b.WriteString(u)
		b.Write(g.Docs[u])
	}
	b.WriteString(strings.Join(g.Missing, ","))
	return b.String()
}

func exFromGeneric(docs map[string]interface{}, root string) *exGraph {
	g := &exGraph{Docs: map[string]json.RawMessage{}, Root: root}
	for u, d := range docs {
		b, _ := json.Marshal(d)
		g.Docs[u] = b
	}
	g.analyse()
	return g
}

// ---------------------------------------------------------------------------------------------
// random multi-document graphs

type exGenOpts struct {
	Prefix  string // every file path lives below it ("" or "/g7"); the http host gets it as a suffix
	Cycles  int    // number of back edges to try
	IDs     bool
	NoHTTP  bool
	MaxDocs int
}

type exTgt struct {
	doc    int
	tokens []string
}

type exDef struct {
	doc    int
	base   []string // pointer tokens of the definition in its document
	rank   int
	tree   map[string]interface{}
	nested [][]string
}

type exLeaf struct {
	doc int
	m   map[string]interface{}
}

type exGen struct {
	r         *rng
	o         exGenOpts
	urls      []string
	schemaDoc []bool
	defs      []*exDef
	byDoc     map[int][]*exDef
	leaves    []exLeaf
	lbl       int
}

var exSpecialNames = []string{"a/b", "c~d", "e f", "g%h", "D0", "D1", "E F"} // incl. names differing from others only by letter case
var exLeafTypes = []string{"string", "integer", "boolean", "number"}

func (g *exGen) label(p string) string {
	g.lbl++
	return p + strconv.Itoa(g.lbl)
}

func exRelPath(from, to *url.URL) string {
	fd := strings.Split(strings.Trim(path.Dir(from.Path), "/"), "/")
	if path.Dir(from.Path) == "/" {
		fd = nil
	}
	tp := strings.Split(strings.Trim(to.Path, "/"), "/")
	i := 0
	for i < len(fd) && i < len(tp)-1 && fd[i] == tp[i] {
		i++
	}
	return strings.Repeat("../", len(fd)-i) + strings.Join(tp[i:], "/")
}

// exFragment spells a pointer as a URL fragment: ~-escaping, then the percent escapes that net/url needs.
func exFragment(r *rng, tokens []string) string {
	var b strings.Builder
	for _, t := range tokens {
		b.WriteByte('/')
		for _, c := range []byte(exEscTok(t)) {
			switch {
			case c == '%':
				b.WriteString("%25")
			case c == ' ':
				if r != nil && r.chance(1, 3) {
					b.WriteByte(' ')
				} else {
					b.WriteString("%20")
				}
			case c == '^' || c == '"' || c == '`' || c == '<' || c == '>' || c == '{' || c == '}' || c == '|' || c == '\\':
				fmt.Fprintf(&b, "%%%02X", c)
			case r != nil && c >= 'a' && c <= 'z' && r.chance(1, 60):
				fmt.Fprintf(&b, "%%%02X", c) // a gratuitous escape of an unreserved character
			default:
				b.WriteByte(c)
			}
		}
	}
	return b.String()
}

// exSpell writes a reference from document `from` to (to, tokens) in one of its admissible spellings.
func exSpell(r *rng, from, to string, tokens []string) string {
	frag := ""
	if tokens != nil {
		frag = "#" + exFragment(r, tokens)
	}
	fu, _ := url.Parse(from)
	tu, _ := url.Parse(to)
	if from == to {
		if frag != "" && (r == nil || !r.chance(1, 8)) {
			return frag
		}
		if frag == "" && r != nil && r.chance(1, 2) {
			return "#" // the whole current document (the recursive idiom of a document that is a schema)
		}
		return path.Base(tu.Path) + frag // the document names itself
	}
	if fu.Scheme != tu.Scheme || fu.Host != tu.Host {
		return to + frag
	}
	k := 0
	if r != nil {
		k = r.intn(20)
	}
	switch {
	case k < 12:
		rel := exRelPath(fu, tu)
		if r != nil && !strings.HasPrefix(rel, "..") && r.chance(1, 4) {
			rel = "./" + rel
		}
		return rel + frag
	case k < 15:
		return tu.Path + frag // root-relative: absolute path without scheme
	}
	if tu.Scheme == "file" && r != nil && r.chance(1, 4) {
		// a local file has no query: "file:///x.json?v=1" and "file:///x.json?" are spellings of file:///x.json
		return to + r.pick([]string{"?v=1", "?"}) + frag
	}
	return to + frag
}

func (g *exGen) refTo(from int, t exTgt) map[string]interface{} {
	return map[string]interface{}{"$ref": exSpell(g.r, g.urls[from], g.urls[t.doc], t.tokens)}
}

// forward targets: definitions of higher rank and their nested positions
func (g *exGen) forward(rank int) (exTgt, bool) {
	var cands []*exDef
	for _, d := range g.defs {
		if d.rank > rank && d.tree != nil {
			cands = append(cands, d)
		}
	}
	if len(cands) == 0 {
		return exTgt{}, false
	}
	d := cands[g.r.intn(len(cands))]
	return g.into(d), true
}

func (g *exGen) into(d *exDef) exTgt {
	if len(d.nested) > 0 && g.r.chance(1, 4) {
		n := d.nested[g.r.intn(len(d.nested))]
		return exTgt{d.doc, append(append([]string{}, d.base...), n...)}
	}
	if len(d.base) == 0 {
		return exTgt{d.doc, nil}
	}
	return exTgt{d.doc, d.base}
}

func (g *exGen) leaf(doc int) map[string]interface{} {
	m := map[string]interface{}{"type": g.r.pick(exLeafTypes), "description": g.label("leaf")}
	g.leaves = append(g.leaves, exLeaf{doc, m})
	return m
}

func (g *exGen) slot(doc, rank, depth int) map[string]interface{} {
	k := g.r.intn(100)
	if k < 45 {
		if t, ok := g.forward(rank); ok {
			h := g.refTo(doc, t)
			// siblings of a schema `$ref` are not part of what it denotes ("$ref replaces its holder"): they must neither
			// survive nor leak into the expansion
			switch g.r.intn(12) {
			case 0:
				h["x-nullable"] = true
			case 1:
				h["description"] = g.label("sibling")
			}
			return h
		}
	}
	if depth <= 0 || k >= 75 {
		return g.leaf(doc)
	}
	return g.tree(doc, rank, depth-1)
}

var exKeywordPositions = []string{"properties", "patternProperties", "definitions", "dependencies", "items", "itemsTuple", "allOf", "anyOf", "oneOf",
	"not", "additionalProperties", "additionalItems"}

func exPlace(m map[string]interface{}, pos, key string, c map[string]interface{}) {
	switch pos {
	case "properties", "patternProperties", "definitions", "dependencies":
		mm, _ := m[pos].(map[string]interface{})
		if mm == nil {
			mm = map[string]interface{}{}
			m[pos] = mm
		}
		if pos == "patternProperties" {
			key = "^" + key
		}
		mm[key] = c
	case "allOf", "anyOf", "oneOf":
		a, _ := m[pos].([]interface{})
		m[pos] = append(a, c)
	case "itemsTuple":
		switch it := m["items"].(type) {
		case nil:
			m["items"] = []interface{}{c}
		case []interface{}:
			m["items"] = append(it, c)
		default:
			exPlace(m, "properties", key, c)
		}
	default: // items, not, additionalProperties, additionalItems
		if _, taken := m[pos]; taken {
			exPlace(m, "properties", key, c)
			return
		}
		m[pos] = c
	}
}

func (g *exGen) tree(doc, rank, depth int) map[string]interface{} {
	m := map[string]interface{}{"description": g.label("node")}
	if g.r.chance(1, 3) {
		m["type"] = "object"
	}
	n := 1 + g.r.intn(3)
	for i := 0; i < n; i++ {
		pos := exKeywordPositions[g.r.intn(len(exKeywordPositions))]
		key := g.r.pick([]string{"k0", "k1", "p", "q"})
		if g.r.chance(1, 12) {
			key = g.r.pick(exSpecialNames)
		}
		c := g.slot(doc, rank, depth)
		if _, isRef := c["$ref"]; pos == "properties" && !isRef && g.r.chance(1, 3) {
			c["x-order"] = float64(g.r.intn(4)) // the encoder then orders the properties itself (OrderSchemaItems)
		}
		exPlace(m, pos, key, c)
	}
	return m
}

func exNested(tree map[string]interface{}) [][]string {
	var out [][]string
	exWalk(exSchema, tree, nil, func(p []string, k string, m map[string]interface{}) bool {
		if len(p) > 0 && len(out) < 8 {
			out = append(out, append([]string{}, p...))
		}
		return true
	})
	return out
}

func (g *exGen) elementSchema(doc int) map[string]interface{} {
	return g.slot(doc, -1, 1)
}

func (g *exGen) paramLiteral(doc int) map[string]interface{} {
	if g.r.chance(1, 4) {
		return map[string]interface{}{"name": g.label("q"), "in": "query", "type": "string"}
	}
	in := "body"
	if g.r.chance(1, 5) {
		// the expander's contract is structural: a schema under a parameter is walked wherever the parameter is sent
		// (a document may be invalid Swagger in this respect and still has to expand, or to fail loudly)
		in = g.r.pick([]string{"query", "header", "path", "formData", ""})
	}
	m := map[string]interface{}{"name": g.label("b"), "schema": g.elementSchema(doc)}
	if in != "" {
		m["in"] = in
	}
	return m
}

func (g *exGen) responseLiteral(doc int) map[string]interface{} {
	m := map[string]interface{}{"description": g.label("resp")}
	if !g.r.chance(1, 5) {
		m["schema"] = g.elementSchema(doc)
	}
	return m
}

type exElem struct {
	doc  int
	name string
	rank int
}

func exRandomGraph(r *rng, o exGenOpts) *exGraph {
	g := &exGen{r: r, o: o, byDoc: map[int][]*exDef{}}
	p := o.Prefix
	rootName, sameName := "root.json", "o.json"
	prefixSibling := r.chance(1, 8)
	if prefixSibling {
		rootName, sameName = "api", "api-defs.json"
	}
	root := "file://" + p + "/r/" + rootName
	host := "h" + strings.Trim(strings.ReplaceAll(p, "/", ""), " ")
	locs := []string{"file://" + p + "/r/" + sameName, "file://" + p + "/r/a/o.json", "file://" + p + "/r/a/b/p.json", "file://" + p + "/up.json", "file://" + p + "/q/x.json"}
	if !prefixSibling && r.chance(1, 6) {
		// sibling FOLDERS whose names are string prefixes of one another (api/ and api-common/): handled correctly by
		// the library today (unlike prefix-related document names), so they must stay that way
		root = "file://" + p + "/r/api/root.json"
		locs = []string{"file://" + p + "/r/api-common/o.json", "file://" + p + "/r/api/a/o.json", "file://" + p + "/r/api-common/b/p.json", "file://" + p + "/r/ap/up.json", "file://" + p + "/r/api2/x.json"}
	}
	maxDocs := o.MaxDocs
	if maxDocs == 0 {
		maxDocs = 4
	}
	nd := 1 + r.intn(maxDocs)
	g.urls = []string{root}
	g.schemaDoc = []bool{false}
	if prefixSibling && nd < 2 {
		nd = 2
	}
	perm := []int{0, 1, 2, 3, 4}
	for i := len(perm) - 1; i > 0; i-- {
		j := r.intn(i + 1)
		perm[i], perm[j] = perm[j], perm[i]
	}
	if prefixSibling { // the sibling must be there
		for i, v := range perm {
			if v == 0 {
				perm[0], perm[i] = perm[i], perm[0]
			}
		}
	}
	for i := 0; i < nd-1; i++ {
		g.urls = append(g.urls, locs[perm[i]])
		g.schemaDoc = append(g.schemaDoc, false)
	}
	if nd >= 2 && !o.NoHTTP && r.chance(1, 4) {
		g.urls = append(g.urls, "http://"+host+"/api/ext.json")
		g.schemaDoc = append(g.schemaDoc, false)
	}
	if !o.NoHTTP && !prefixSibling && r.chance(1, 6) {
		// twins: documents with the SAME path as the root (or as each other) on another scheme / host / port — whether a
		// reference leaves the current document is a matter of the whole URL, not of its path
		ru, _ := url.Parse(root)
		g.urls = append(g.urls, "http://"+host+ru.Path)
		g.schemaDoc = append(g.schemaDoc, false)
		if r.chance(1, 2) {
			g.urls = append(g.urls, r.pick([]string{"http://" + host + ":8080" + ru.Path, "https://" + host + ru.Path, "http://x" + host + ru.Path}))
			g.schemaDoc = append(g.schemaDoc, false)
		}
	}
	if nd >= 2 && !prefixSibling && r.chance(1, 6) {
		// case twins: two documents whose locations differ only by letter case (file name or folder) are different documents
		u := g.urls[1]
		i := strings.LastIndex(u, "/")
		tw := u[:i+1] + strings.ToUpper(u[i+1:i+2]) + u[i+2:]
		if r.chance(1, 2) {
			if j := strings.LastIndex(u[:i], "/"); j > len("file://") {
				tw = u[:j+1] + strings.ToUpper(u[j+1:j+2]) + u[j+2:]
			}
		}
		if tw != u {
			g.urls = append(g.urls, tw)
			g.schemaDoc = append(g.schemaDoc, false)
		}
	}
	if r.chance(1, 4) {
		g.urls = append(g.urls, "file://"+p+"/r/a/s.json") // a document that is a schema
		g.schemaDoc = append(g.schemaDoc, true)
	}
	// definitions and their ranks
	for di := range g.urls {
		if g.schemaDoc[di] {
			g.defs = append(g.defs, &exDef{doc: di})
			continue
		}
		n := 1 + r.intn(3)
		used := map[string]bool{}
		for k := 0; k < n; k++ {
			name := "d" + strconv.Itoa(k)
			if r.chance(1, 3) {
				name = r.pick(exSpecialNames)
			}
			if used[name] {
				continue
			}
			used[name] = true
			g.defs = append(g.defs, &exDef{doc: di, base: []string{"definitions", name}})
		}
	}
	for i := len(g.defs) - 1; i > 0; i-- {
		j := r.intn(i + 1)
		g.defs[i], g.defs[j] = g.defs[j], g.defs[i]
	}
	for i, d := range g.defs {
		d.rank = i
		g.byDoc[d.doc] = append(g.byDoc[d.doc], d)
	}
	for i := len(g.defs) - 1; i >= 0; i-- {
		d := g.defs[i]
		if len(d.base) > 0 && r.chance(1, 8) {
			if t, ok := g.forward(d.rank); ok { // an alias: the definition is itself a reference
				d.tree = g.refTo(d.doc, t)
				continue
			}
		}
		if len(d.base) > 0 && r.chance(1, 10) {
			// the empty schema (it accepts every value): a target with no member at all, in typed and in untyped documents
			d.tree = map[string]interface{}{}
			continue
		}
		d.tree = g.tree(d.doc, d.rank, 2)
		if len(d.base) == 0 && r.chance(1, 2) {
			// a document that is a schema refers to itself as a whole: the recursive idiom "$ref": "#"
			exPlace(d.tree, r.pick([]string{"properties", "items", "additionalProperties", "allOf"}), "self", map[string]interface{}{"$ref": "#"})
		}
		d.nested = exNested(d.tree)
	}
	// shared parameters, responses, path items: reference chains go to higher rank, so they end
	var swaggerDocs []int
	for di := range g.urls {
		if !g.schemaDoc[di] {
			swaggerDocs = append(swaggerDocs, di)
		}
	}
	mk := func(prefix string, rootMin, max int) []exElem {
		var es []exElem
		for _, di := range swaggerDocs {
			n := r.intn(max + 1)
			if di == 0 && n < rootMin {
				n = rootMin
			}
			for k := 0; k < n; k++ {
				name := prefix + strconv.Itoa(k)
				if r.chance(1, 3) {
					// names that hold the text of an escape, or characters a reference has to escape: a pointer designates them
					// after exactly one round of decoding
					name += r.pick([]string{"%41", "/a%20b", "/{id}", " b", "~0x", "/100%", "#frag", "?q=1"})
				}
				es = append(es, exElem{doc: di, name: name})
			}
		}
		for i := len(es) - 1; i > 0; i-- {
			j := r.intn(i + 1)
			es[i], es[j] = es[j], es[i]
		}
		for i := range es {
			es[i].rank = i
		}
		return es
	}
	params, resps, items := mk("p", 1, 2), mk("r", 1, 2), mk("/z", 0, 1)
	sections := map[int]map[string]map[string]interface{}{}
	put := func(di int, sec, name string, v interface{}) {
		if sections[di] == nil {
			sections[di] = map[string]map[string]interface{}{}
		}
		if sections[di][sec] == nil {
			sections[di][sec] = map[string]interface{}{}
		}
		sections[di][sec][name] = v
	}
	elemRef := func(from int, sec string, e exElem) map[string]interface{} {
		return g.refTo(from, exTgt{e.doc, []string{sec, e.name}})
	}
	chain := func(es []exElem, sec string, lit func(int) map[string]interface{}) {
		for i, e := range es {
			if i+1 < len(es) && r.chance(1, 2) {
				put(e.doc, sec, e.name, elemRef(e.doc, sec, es[i+1+r.intn(len(es)-i-1)]))
			} else {
				put(e.doc, sec, e.name, lit(e.doc))
			}
		}
	}
	chain(params, "parameters", g.paramLiteral)
	chain(resps, "responses", g.responseLiteral)
	paramUse := func(di int) interface{} {
		if len(params) > 0 && r.chance(2, 3) {
			return elemRef(di, "parameters", params[r.intn(len(params))])
		}
		return g.paramLiteral(di)
	}
	respUse := func(di int) interface{} {
		if len(resps) > 0 && r.chance(2, 3) {
			return elemRef(di, "responses", resps[r.intn(len(resps))])
		}
		return g.responseLiteral(di)
	}
	operation := func(di int) map[string]interface{} {
		op := map[string]interface{}{}
		if n := r.intn(3); n > 0 {
			var ps []interface{}
			for k := 0; k < n; k++ {
				ps = append(ps, paramUse(di))
			}
			op["parameters"] = ps
		}
		rs := map[string]interface{}{}
		if r.chance(2, 3) {
			rs["default"] = respUse(di)
		}
		if r.chance(2, 3) || len(rs) == 0 {
			rs[r.pick([]string{"200", "404"})] = respUse(di)
		}
		op["responses"] = rs
		return op
	}
	pathItem := func(di int) map[string]interface{} {
		pi := map[string]interface{}{}
		if r.chance(1, 2) {
			pi["parameters"] = []interface{}{paramUse(di)}
		}
		pi[r.pick(exOpKeys)] = operation(di)
		if r.chance(1, 3) {
			pi["get"] = operation(di)
		}
		return pi
	}
	chain(items, "paths", pathItem)
	put(0, "paths", "/x", pathItem(0))
	for _, e := range items {
		if e.doc != 0 && r.chance(2, 3) {
			put(0, "paths", "/y", elemRef(0, "paths", e))
			break
		}
	}
	if r.chance(1, 3) {
		put(0, "parameters", "pa", map[string]interface{}{"name": "pa", "in": "query", "type": "array", "items": map[string]interface{}{"type": "string"}})
	}
	// back edges
	targets := func() exTgt { return g.into(g.defs[r.intn(len(g.defs))]) }
	for c := 0; c < o.Cycles && len(g.leaves) > 0; c++ {
		l := g.leaves[r.intn(len(g.leaves))]
		if _, done := l.m["$ref"]; done {
			continue
		}
		ref := g.refTo(l.doc, targets())
		for k := range l.m {
			delete(l.m, k)
		}
		l.m["$ref"] = ref["$ref"]
	}
	if o.IDs {
		ids := []string{"http://ids" + host + "/x/y.json", "idfile.json", "sub/", "#anchor", "sub/idfile.json",
			"HTTP://IDS" + strings.ToUpper(host) + ":80/x/y.json", "http://ids" + host + "//x/y.json"} // incl. absolute ids in non-canonical spelling
		for k := 0; k <= r.intn(2); k++ {
			d := g.defs[r.intn(len(g.defs))]
			if _, isRef := d.tree["$ref"]; !isRef {
				d.tree["id"] = ids[r.intn(len(ids))]
			}
		}
	}
	// assemble
	docs := map[string]interface{}{}
	for di, u := range g.urls {
		if g.schemaDoc[di] {
			docs[u] = g.byDoc[di][0].tree
			continue
		}
		doc := map[string]interface{}{"swagger": "2.0", "info": map[string]interface{}{"title": "doc" + strconv.Itoa(di), "version": "1"}}
		defs := map[string]interface{}{}
		for _, d := range g.byDoc[di] {
			defs[d.base[1]] = d.tree
		}
		if len(defs) > 0 {
			doc["definitions"] = defs
		}
		for _, sec := range []string{"parameters", "responses", "paths"} {
			if m := sections[di][sec]; len(m) > 0 {
				doc[sec] = m
			}
		}
		if _, ok := doc["paths"]; !ok {
			doc["paths"] = map[string]interface{}{}
		}
		docs[u] = doc
	}
	return exFromGeneric(docs, root)
}

// ---------------------------------------------------------------------------------------------
// bounded-exhaustive graphs: <=3 definitions, <=2 documents, every adjacency matrix, each edge at a keyword position

type exBoundedShape struct {
	n    int // definitions
	docs int // bit i set: definition i lives in the second document (definition 0 is always in the root)
	adj  int // bit (s*n+t): edge s -> t
	rot  int // rotation of the keyword positions
}

func exBoundedShapes() []exBoundedShape {
	var out []exBoundedShape
	for n := 1; n <= 3; n++ {
		for docs := 0; docs < 1<<uint(n); docs += 2 {
			for adj := 0; adj < 1<<uint(n*n); adj++ {
				out = append(out, exBoundedShape{n: n, docs: docs, adj: adj})
			}
		}
	}
	return out
}

func exBoundedGraph(sh exBoundedShape) *exGraph {
	root, other := "file:///r/root.json", "file:///r/a/o.json"
	urlOf := func(i int) string {
		if sh.docs&(1<<uint(i)) != 0 {
			return other
		}
		return root
	}
	name := func(i int) string { return "d" + strconv.Itoa(i) }
	defs := map[string]map[string]interface{}{root: {}, other: {}}
	for s := 0; s < sh.n; s++ {
		m := map[string]interface{}{"description": "def " + name(s)}
		for t := 0; t < sh.n; t++ {
			if sh.adj&(1<<uint(s*sh.n+t)) == 0 {
				continue
			}
			pos := exKeywordPositions[(sh.rot+s*5+t*3)%len(exKeywordPositions)]
			ref := map[string]interface{}{"$ref": exSpell(nil, urlOf(s), urlOf(t), []string{"definitions", name(t)})}
			exPlace(m, pos, "to"+name(t), ref)
		}
		defs[urlOf(s)][name(s)] = m
	}
	last := name(sh.n - 1)
	rootDoc := map[string]interface{}{"swagger": "2.0", "info": map[string]interface{}{"title": "t", "version": "1"},
		"definitions": defs[root],
		"parameters": map[string]interface{}{"p": map[string]interface{}{"name": "p", "in": "body",
			"schema": map[string]interface{}{"$ref": exSpell(nil, root, urlOf(0), []string{"definitions", name(0)})}}},
		"responses": map[string]interface{}{"r": map[string]interface{}{"description": "r",
			"schema": map[string]interface{}{"$ref": exSpell(nil, root, urlOf(sh.n-1), []string{"definitions", last})}}},
		"paths": map[string]interface{}{"/x": map[string]interface{}{"get": map[string]interface{}{
			"parameters": []interface{}{map[string]interface{}{"$ref": "#/parameters/p"}},
			"responses":  map[string]interface{}{"200": map[string]interface{}{"$ref": "#/responses/r"}}}}},
	}
	docs := map[string]interface{}{root: rootDoc}
	if len(defs[other]) > 0 {
		docs[other] = map[string]interface{}{"swagger": "2.0", "info": map[string]interface{}{"title": "o", "version": "1"},
			"paths": map[string]interface{}{}, "definitions": defs[other]}
	}
	g := exFromGeneric(docs, root)
	g.info.Tags["bounded"] = true
	g.Tags = g.info.tagList()
	return g
}

// exBoundedSample: all shapes in the thorough tier (with every rotation), a stratified sample of k otherwise.
func exBoundedSample(r *rng, k int, tier string) []*exGraph {
	shapes := exBoundedShapes()
	var out []*exGraph
	if tier == "thorough" {
		for _, sh := range shapes {
			for rot := 0; rot < len(exKeywordPositions); rot += 4 {
				sh.rot = rot
				out = append(out, exBoundedGraph(sh))
			}
		}
		return out
	}
	if k <= 0 {
		return nil
	}
	step := float64(len(shapes)) / float64(k)
	if step < 1 {
		step = 1
	}
	for x := 0.0; int(x) < len(shapes) && len(out) < k; x += step {
		lo, hi := int(x), int(x+step)
		if hi > len(shapes) {
			hi = len(shapes)
		}
		sh := shapes[lo+r.intn(hi-lo)]
		sh.rot = r.intn(len(exKeywordPositions))
		out = append(out, exBoundedGraph(sh))
	}
	return out
}

// exGraphs is the common source of graphs of the generator and of the oracles.
func exGraphs(r *rng, n int, tier string, ids bool) []*exGraph {
	var out []*exGraph
	seen := map[string]bool{}
	idGraphs := 0
	add := func(g *exGraph) {
		if k := g.key(); !seen[k] {
			seen[k] = true
			out = append(out, g)
		}
	}
	for i := 0; i < n; i++ {
		o := exGenOpts{}
		switch r.intn(5) {
		case 0, 1:
			o.Cycles = 0
		case 2:
			o.Cycles = 1
		case 3:
			o.Cycles = 2 + r.intn(2)
		default:
			o.Cycles = 4 + r.intn(5)
		}
		// graphs with schema ids can run into the known non-termination F10: each costs time-outs, so their number is capped
		// (the cap is not reached by the quick tier)
		wantID := r.chance(1, 10)
		o.IDs = ids && wantID && idGraphs < 25
		if o.IDs {
			idGraphs++
		}
		add(exRandomGraph(r.fork(uint64(i)), o))
	}
	for _, g := range exBoundedSample(r.fork(0xb0), n/2, tier) {
		add(g)
	}
	for _, g := range exImportedElementGraphs() {
		add(g)
	}
	// some of the self-contained single documents once more, as roots without a location
	k := 0
	for _, g := range append([]*exGraph{}, out...) {
		if k < 2+n/8 && len(g.Docs) == 1 && len(g.Missing) == 0 && exOnlyFragmentRefs(g.Docs[g.Root]) && !bytes.Contains(g.Docs[g.Root], []byte(`"id":`)) {
			add(g.inMemory())
			k++
		}
	}
	return out
}

// exImportedElementGraphs: a path item imported from another document whose operations use that document's own shared
// parameters and responses through fragment-only references, the schemas of those referring on - locally, by file name, to
// a third document - while the importing root holds different definitions, parameters and responses under the same names.
// Variants: where the other documents lie (next to the root, in a sub-folder), and a recursive definition behind them.
func exImportedElementGraphs() []*exGraph {
	type m = map[string]interface{}
	var out []*exGraph
	for _, dir := range []string{"", "sub/"} {
		for _, cyclic := range []bool{false, true} {
			tdef := m{"type": "object", "description": "T of items", "properties": m{"n": m{"type": "string"}}}
			if cyclic {
				tdef["properties"].(m)["next"] = m{"$ref": "#/definitions/T"}
			}
			items := m{"swagger": "2.0", "info": m{"title": "items", "version": "1"},
				"paths": m{"/items": m{
					"parameters": []interface{}{m{"$ref": "#/parameters/trace"}},
					"get": m{"parameters": []interface{}{m{"$ref": "#/parameters/limit"}, m{"$ref": "items.json#/parameters/trace"}},
						"responses": m{"200": m{"$ref": "#/responses/ok"}, "default": m{"$ref": "#/responses/chained"}}}}},
				"parameters": m{
					"limit": m{"name": "limit", "in": "body", "schema": m{"$ref": "#/definitions/T"}},
					"trace": m{"name": "trace", "in": "body", "schema": m{"type": "array", "items": m{"$ref": "models.json#/definitions/P"}}}},
				"responses": m{
					"ok":      m{"description": "ok of items", "schema": m{"$ref": "models.json#/definitions/P"}},
					"chained": m{"$ref": "#/responses/ok"}},
				"definitions": m{"T": tdef}}
			models := m{"definitions": m{"P": m{"type": "object", "description": "P of models", "properties": m{"t": m{"$ref": "items.json#/definitions/T"}}}}}
			root := m{"swagger": "2.0", "info": m{"title": "root", "version": "1"},
				"paths":       m{"/items": m{"$ref": dir + "items.json#/paths/~1items"}, "/own": m{"get": m{"parameters": []interface{}{m{"$ref": "#/parameters/limit"}}, "responses": m{"200": m{"$ref": "#/responses/ok"}}}}},
				"parameters":  m{"limit": m{"name": "limit", "in": "query", "type": "integer"}, "trace": m{"name": "trace", "in": "header", "type": "string"}},
				"responses":   m{"ok": m{"description": "ok of root"}},
				"definitions": m{"T": m{"type": "integer", "description": "T of root"}, "P": m{"type": "boolean", "description": "P of root"}}}
			out = append(out, exFromGeneric(m{"file:///i/root.json": root, "file:///i/" + dir + "items.json": items, "file:///i/" + dir + "models.json": models}, "file:///i/root.json"))
		}
	}
	// two documents of one folder - also: the root and a document next to it - whose schemas below parameters and responses refer
	// to their own definitions by the same fragment-only text; the definitions differ
	for _, layout := range []string{"shared/", ""} {
		mk := func(who string) m {
			return m{"swagger": "2.0", "info": m{"title": who, "version": "1"}, "paths": m{},
				"parameters":  m{"p": m{"name": "p", "in": "body", "schema": m{"$ref": "#/definitions/Error"}}},
				"responses":   m{"r": m{"description": "r of " + who, "schema": m{"type": "array", "items": m{"$ref": "#/definitions/Error"}}}},
				"definitions": m{"Error": m{"type": "object", "description": "Error of " + who, "properties": m{"code": m{"type": "string", "description": who}}}}}
		}
		root := mk("root")
		root["paths"] = m{"/a": m{"get": m{"parameters": []interface{}{m{"$ref": layout + "params.json#/parameters/p"}},
			"responses": m{"200": m{"$ref": layout + "responses.json#/responses/r"}, "404": m{"$ref": "#/responses/r"}, "500": m{"$ref": layout + "params.json#/responses/r"}}}},
			"/b": m{"post": m{"parameters": []interface{}{m{"$ref": "#/parameters/p"}, m{"$ref": layout + "responses.json#/parameters/p"}}, "responses": m{"200": m{"$ref": layout + "responses.json#/responses/r"}}}}}
		out = append(out, exFromGeneric(m{"file:///s/root.json": root, "file:///s/" + layout + "params.json": mk("params"), "file:///s/" + layout + "responses.json": mk("responses")}, "file:///s/root.json"))
	}
	// a two-hop import through a document whose file name merely ENDS with the name of the next one (common-params.json →
	// params.json, spelled with the bare name): both hold a definition of the same name, referred to by fragment
	{
		mkp := func(who string, p m) m {
			return m{"swagger": "2.0", "info": m{"title": who, "version": "1"}, "paths": m{}, "parameters": m{"p": p},
				"responses":   m{"r": m{"description": "r of " + who, "schema": m{"$ref": "#/definitions/Local"}}},
				"definitions": m{"Local": m{"type": "object", "description": "Local of " + who}}}
		}
		common := mkp("common-params", m{"$ref": "params.json#/parameters/p"})
		common["responses"] = m{"r": m{"$ref": "params.json#/responses/r"}}
		params := mkp("params", m{"name": "p", "in": "body", "schema": m{"$ref": "#/definitions/Local"}})
		root := m{"swagger": "2.0", "info": m{"title": "root", "version": "1"}, "definitions": m{"Local": m{"type": "integer", "description": "Local of root"}},
			"paths": m{"/a": m{"get": m{"parameters": []interface{}{m{"$ref": "shared/common-params.json#/parameters/p"}},
				"responses": m{"200": m{"$ref": "shared/common-params.json#/responses/r"}}}}}}
		out = append(out, exFromGeneric(m{"file:///x/root.json": root, "file:///x/shared/common-params.json": common, "file:///x/shared/params.json": params}, "file:///x/root.json"))
	}
	// a document served at a location with a query (a revision, a format selector): part of its identity for anything but a
	// local file; referenced several times and referring to itself by fragment
	for _, loc := range []string{"https://h.example/types.json?rev=2", "http://h.example:8080/api/types?format=json&rev=2"} {
		types := m{"definitions": m{"name": m{"type": "string", "description": "name of types"},
			"other": m{"type": "object", "properties": m{"n": m{"$ref": "#/definitions/name"}, "m": m{"$ref": "#/definitions/name"}}}}}
		root := m{"swagger": "2.0", "info": m{"title": "root", "version": "1"}, "paths": m{},
			"definitions": m{"A": m{"$ref": loc + "#/definitions/name"}, "B": m{"$ref": loc + "#/definitions/other"},
				"C": m{"type": "array", "items": m{"$ref": loc + "#/definitions/other"}}, "name": m{"type": "integer"}}}
		out = append(out, exFromGeneric(m{"file:///q/root.json": root, loc: types}, "file:///q/root.json"))
	}
	// names that differ by letter case only, one reached through the other (JSON pointers are case-sensitive: no cycle here)
	{
		root := m{"swagger": "2.0", "info": m{"title": "root", "version": "1"},
			"definitions": m{"Item": m{"type": "object", "description": "Item", "properties": m{"i": m{"$ref": "#/definitions/item"}}}, "item": m{"type": "string", "description": "item"},
				"order": m{"type": "array", "items": m{"$ref": "#/definitions/Item"}}},
			"parameters": m{"pageSize": m{"$ref": "#/parameters/Limit"}, "Limit": m{"$ref": "#/parameters/limit"}, "limit": m{"name": "limit", "in": "query", "type": "integer"},
				"newOrder": m{"name": "o", "in": "body", "schema": m{"$ref": "#/definitions/order"}}},
			"responses": m{"notFound": m{"$ref": "#/responses/Error"}, "Error": m{"$ref": "#/responses/error"}, "error": m{"description": "error", "schema": m{"$ref": "#/definitions/Item"}}},
			"paths":     m{"/o": m{"get": m{"parameters": []interface{}{m{"$ref": "#/parameters/pageSize"}}, "responses": m{"404": m{"$ref": "#/responses/notFound"}}}}}}
		out = append(out, exFromGeneric(m{"file:///cv/root.json": root}, "file:///cv/root.json"))
	}
	// an operation without a `responses` member (the decoder leaves a nil pointer): its parameters are references like any others
	{
		root := m{"swagger": "2.0", "info": m{"title": "root", "version": "1"},
			"definitions": m{"leaf": m{"type": "string", "description": "leaf"}, "node": m{"type": "object", "properties": m{"next": m{"$ref": "#/definitions/node"}, "l": m{"$ref": "#/definitions/leaf"}}}},
			"parameters":  m{"filter": m{"name": "filter", "in": "body", "schema": m{"$ref": "#/definitions/leaf"}}, "tree": m{"name": "tree", "in": "body", "schema": m{"$ref": "#/definitions/node"}}},
			"paths": m{"/bare": m{"get": m{"parameters": []interface{}{m{"$ref": "#/parameters/filter"}}},
				"post": m{"parameters": []interface{}{m{"name": "b", "in": "body", "schema": m{"$ref": "#/definitions/leaf"}}}},
				"put":  m{"parameters": []interface{}{m{"$ref": "#/parameters/tree"}}, "responses": m{}}}}}
		out = append(out, exFromGeneric(m{"file:///nr/root.json": root}, "file:///nr/root.json"))
	}
	// documents used both by the sections walked first (definitions, shared parameters, shared responses) and under paths: one
	// expansion, one request each
	{
		ext := m{"swagger": "2.0", "info": m{"title": "ext", "version": "1"}, "paths": m{},
			"definitions": m{"T": m{"type": "object", "description": "T of ext", "properties": m{"n": m{"type": "string"}}}},
			"parameters":  m{"p": m{"name": "p", "in": "body", "schema": m{"$ref": "#/definitions/T"}}}}
		other := m{"swagger": "2.0", "info": m{"title": "other", "version": "1"}, "paths": m{},
			"responses": m{"r": m{"description": "r of other", "schema": m{"$ref": "ext.json#/definitions/T"}}}}
		root := m{"swagger": "2.0", "info": m{"title": "root", "version": "1"},
			"definitions": m{"A": m{"$ref": "ext.json#/definitions/T"}},
			"parameters":  m{"shared": m{"$ref": "ext.json#/parameters/p"}},
			"responses":   m{"shared": m{"$ref": "other.json#/responses/r"}},
			"paths": m{"/a": m{"get": m{"parameters": []interface{}{m{"$ref": "ext.json#/parameters/p"}},
				"responses": m{"200": m{"$ref": "other.json#/responses/r"}, "default": m{"description": "d", "schema": m{"$ref": "ext.json#/definitions/T"}}}}}}}
		out = append(out, exFromGeneric(m{"file:///tw/root.json": root, "file:///tw/ext.json": ext, "file:///tw/other.json": other}, "file:///tw/root.json"))
	}
	// two different documents whose locations differ by the scheme alone (or by the port, or by a query): used in one expansion, by
	// absolute references, by a relative hop that inherits the scheme of its document, and by parameters of a specification
	for _, rootLoc := range []string{"http://h.example/api/root.json", "https://h.example/api/root.json"} {
		mk := func(who string) m {
			return m{"swagger": "2.0", "info": m{"title": who, "version": "1"}, "paths": m{},
				"parameters":  m{"p": m{"name": "p", "in": "body", "schema": m{"$ref": "#/definitions/T"}}},
				"definitions": m{"T": m{"type": "string", "description": "T of " + who}, "viaRel": m{"$ref": "x.json#/definitions/T"}}}
		}
		root := m{"swagger": "2.0", "info": m{"title": "root", "version": "1"},
			"paths": m{"/a": m{"get": m{"parameters": []interface{}{m{"$ref": "../defs/x.json#/parameters/p"}, m{"$ref": "https://h.example/defs/x.json#/parameters/p"},
				m{"$ref": "http://h.example/defs/x.json#/parameters/p"}}, "responses": m{"200": m{"description": "ok"}}}}},
			"definitions": m{"plain": m{"$ref": "http://h.example/defs/x.json#/definitions/T"}, "secure": m{"$ref": "https://h.example/defs/x.json#/definitions/T"},
				"port": m{"$ref": "http://h.example:8080/defs/x.json#/definitions/T"}, "again": m{"$ref": "https://h.example/defs/x.json#/definitions/viaRel"},
				"rel": m{"$ref": "../defs/x.json#/definitions/T"}}}
		out = append(out, exFromGeneric(m{rootLoc: root, "http://h.example/defs/x.json": mk("http"), "https://h.example/defs/x.json": mk("https"),
			"http://h.example:8080/defs/x.json": mk("port 8080")}, rootLoc))
	}
	return out
}

// ---------------------------------------------------------------------------------------------
// fault injection

func exAllHolders(s exStore, docs []string) []exHolder {
	var out []exHolder
	for _, u := range docs {
		m, ok := s[u].(map[string]interface{})
		if !ok {
			continue
		}
		if _, sw := m["swagger"]; sw {
			for _, k := range exKids(exSwagger, m) {
				out = append(out, exHolders(u, k.Kind, k.V, k.Path)...)
			}
		} else {
			out = append(out, exHolders(u, exSchema, m, nil)...)
		}
	}
	return out
}

func exSetRef(doc interface{}, path []string, ref string) bool {
	v, ok := exAt(doc, path)
	if !ok {
		return false
	}
	m, ok := v.(map[string]interface{})
	if !ok {
		return false
	}
	m["$ref"] = ref
	return true
}

// exInjectFault returns a copy of g with one kind of fault; "" when no fault could be placed.
func exInjectFault(r *rng, g *exGraph) (*exGraph, string) {
	f := g.clone()
	s := exDecodeStore(g.Docs, nil)
	docs := g.docList()
	holders := exAllHolders(s, docs)
	kind := r.intn(11) / 2 // 0 missing document, 1 2 dangling pointer, 3 ill-typed target, 4 absent optional member, 5 index at the edge of a list
	if kind == 0 && len(docs) > 1 {
		var others []string
		for _, u := range docs {
			if u != g.Root {
				others = append(others, u)
			}
		}
		f.Missing = []string{others[r.intn(len(others))]}
		if len(others) > 1 && r.chance(1, 3) {
			for _, u := range others {
				if u != f.Missing[0] && r.chance(1, 2) {
					f.Missing = append(f.Missing, u)
				}
			}
		}
		sort.Strings(f.Missing)
		f.analyse()
		return f, "missing-doc"
	}
	if len(holders) == 0 {
		return nil, ""
	}
	n := 1
	if r.chance(1, 4) {
		n = 2
	}
	fault := "dangling-ptr"
	touched := map[string]bool{}
	for i := 0; i < n; i++ {
		h := holders[r.intn(len(holders))]
		if touched[h.Doc+h.ptr()] {
			continue
		}
		touched[h.Doc+h.ptr()] = true
		t, ok := exCanonRef(h.Doc, h.Ref)
		if !ok {
			continue
		}
		var tokens []string
		if kind == 3 {
			// ill-typed target: a string, number, boolean or array where an object is expected
			tp := r.pick([]string{"string", "number", "boolean", "array"})
			fault = "ill-typed:" + tp
			td, ok := s[t.Doc].(map[string]interface{})
			if !ok {
				continue
			}
			td["x-vals"] = map[string]interface{}{"string": "text", "number": 3.5, "boolean": true, "array": []interface{}{1.0, "a"}}
			tokens = []string{"x-vals", tp}
		} else if kind == 5 && h.Kind == exSchema {
			// a pointer into a list of schemas that ends just outside it: one past the end, negative, not a number, or an index
			// under an `items` that is a single schema
			fault = "edge-index"
			td, ok := s[t.Doc].(map[string]interface{})
			if !ok {
				continue
			}
			defs, _ := td["definitions"].(map[string]interface{})
			if defs == nil {
				defs = map[string]interface{}{}
				td["definitions"] = defs
			}
			defs["edge"] = map[string]interface{}{"type": "array", "items": []interface{}{map[string]interface{}{"type": "string"}, map[string]interface{}{"type": "integer"}},
				"allOf": []interface{}{map[string]interface{}{"type": "array"}}, "not": map[string]interface{}{"type": "array", "items": map[string]interface{}{"type": "null"}}}
			tokens = append([]string{"definitions", "edge"}, [][]string{{"items", "2"}, {"items", "3"}, {"items", "-1"}, {"items", "x"}, {"allOf", "1"},
				{"not", "items", "0"}, {"items", "2", "type"}, {"allOf", "-1"}}[r.intn(8)]...)
		} else if kind == 4 && h.Kind == exSchema {
			// a pointer to an optional member that the (existing) target does not have
			fault = "absent-member"
			tokens = exPtrTokens(t.Ptr)
			tv, _ := s.lookup(t)
			tm, _ := tv.(map[string]interface{})
			var absent []string
			// held by the typed document behind a pointer (nil when absent) - or in a map or a slice (nil when absent)
			for _, k := range []string{"not", "additionalProperties", "additionalItems", "items", "properties", "patternProperties", "definitions",
				"dependencies", "allOf", "anyOf", "oneOf", "required", "enum", "type"} {
				if _, has := tm[k]; !has && tm != nil {
					absent = append(absent, k)
				}
			}
			if len(absent) == 0 {
				continue
			}
			pick := r.pick(absent)
			td, isDoc := s[t.Doc].(map[string]interface{})
			if _, isSw := td["swagger"]; isDoc && isSw && r.chance(1, 3) {
				// the member is there, but holds what its union type cannot: a scalar `items`, an empty list as a dependency (the
				// typed document keeps an empty union, which encodes as null).  In a definition of its own, so that no other
				// reference meets it.
				fault = "empty-union"
				defs, _ := td["definitions"].(map[string]interface{})
				if defs == nil {
					defs = map[string]interface{}{}
					td["definitions"] = defs
				}
				defs["emptyunion"] = map[string]interface{}{"description": "unions", "items": []interface{}{5.0, "s", true}[r.intn(3)], "dependencies": map[string]interface{}{"k": []interface{}{}}}
				tokens = append([]string{"definitions", "emptyunion"}, [][]string{{"items"}, {"dependencies", "k"}}[r.intn(2)]...)
			} else {
				tokens = append(append([]string{}, tokens...), pick)
			}
		} else {
			tokens = exPtrTokens(t.Ptr)
			if len(tokens) == 0 {
				tokens = []string{"definitions", "nope"}
			} else {
				tokens = append(append([]string{}, tokens[:len(tokens)-1]...), "nope"+strconv.Itoa(i))
			}
		}
		newRef := exSpell(nil, h.Doc, t.Doc, tokens)
		if !exSetRef(s[h.Doc], h.Path, newRef) {
			continue
		}
		f.Broken = append(f.Broken, exBroken{Fault: fault, Doc: h.Doc, Path: h.Path, Kind: h.Kind, Ref: newRef, OrigRef: h.Ref})
	}
	if len(f.Broken) == 0 {
		return nil, ""
	}
	for u := range f.Docs {
		b, _ := json.Marshal(s[u])
		f.Docs[u] = b
	}
	f.analyse()
	for _, b := range f.Broken {
		if b.Fault == "empty-union" {
			// the root then holds a definition with a scalar `items`: outside the expander model (the typed document encodes the
			// empty union as null, the known codec finding F4b); judged by the oracles on the implementation
			f.Tags = append(f.Tags, "empty-union")
			f.info.Tags["empty-union"] = true
			break
		}
	}
	return f, strings.SplitN(fault, ":", 2)[0]
}

// exRepair undoes the injected faults.
func exRepair(g *exGraph) *exGraph {
	f := g.clone()
	f.Missing = nil
	s := exDecodeStore(g.Docs, nil)
	for _, b := range g.Broken {
		exSetRef(s[b.Doc], b.Path, b.OrigRef)
	}
	for u := range f.Docs {
		// the `x-vals` member an ill-typed fault added stays: a whole-document reference shows it, and the repaired graph must
		// differ from the faulty one in the broken references only
		b, _ := json.Marshal(s[u])
		f.Docs[u] = b
	}
	f.Broken = nil
	f.analyse()
	return f
}

// ---------------------------------------------------------------------------------------------
// calls on the library

type exOpts struct {
	Skip  bool `json:"skip"`
	Cont  bool `json:"cont"`
	Abs   bool `json:"abs"`
	Built bool `json:"built,omitempty"` // expand_spec: the root is handed over in another in-memory representation of the same document
}

// exReshape turns a decoded specification into an equivalent Go value as a program would build it: a schema clause under
// additionalProperties/additionalItems without the `Allows` flag (the encoder writes the schema whenever one is there), empty
// but allocated collections where the decoder leaves nil.  Its JSON encoding is unchanged.
func exReshape(sw *spec.Swagger) {
	var schema func(s *spec.Schema)
	schemas := func(m map[string]spec.Schema) {
		for k, v := range m {
			schema(&v)
			m[k] = v
		}
	}
	schema = func(s *spec.Schema) {
		if s == nil {
			return
		}
		for _, c := range []*spec.SchemaOrBool{s.AdditionalProperties, s.AdditionalItems} {
			if c != nil && c.Schema != nil {
				c.Allows = false
				schema(c.Schema)
			}
		}
		if s.Items != nil {
			schema(s.Items.Schema)
			for i := range s.Items.Schemas {
				schema(&s.Items.Schemas[i])
			}
		}
		for _, l := range [][]spec.Schema{s.AllOf, s.AnyOf, s.OneOf} {
			for i := range l {
				schema(&l[i])
			}
		}
		schema(s.Not)
		schemas(s.Properties)
		schemas(s.PatternProperties)
		schemas(s.Definitions)
		for k, d := range s.Dependencies {
			schema(d.Schema)
			s.Dependencies[k] = d
		}
		if s.Properties == nil {
			s.Properties = spec.SchemaProperties{}
		}
		if s.Required == nil {
			s.Required = []string{}
		}
		if s.AllOf == nil {
			s.AllOf = []spec.Schema{}
		}
	}
	param := func(p *spec.Parameter) { schema(p.Schema) }
	resp := func(r *spec.Response) {
		if r != nil {
			schema(r.Schema)
		}
	}
	schemas(sw.Definitions)
	for k, p := range sw.Parameters {
		param(&p)
		sw.Parameters[k] = p
	}
	for k, r := range sw.Responses {
		resp(&r)
		sw.Responses[k] = r
	}
	if sw.Paths == nil {
		return
	}
	for k, pi := range sw.Paths.Paths {
		for i := range pi.Parameters {
			param(&pi.Parameters[i])
		}
		for _, op := range []*spec.Operation{pi.Get, pi.Put, pi.Post, pi.Delete, pi.Options, pi.Head, pi.Patch} {
			if op == nil {
				continue
			}
			for i := range op.Parameters {
				param(&op.Parameters[i])
			}
			if op.Responses != nil {
				resp(op.Responses.Default)
				for code, r := range op.Responses.StatusCodeResponses {
					resp(&r)
					op.Responses.StatusCodeResponses[code] = r
				}
			}
		}
		sw.Paths.Paths[k] = pi
	}
}

type exCall struct {
	Op        string                     `json:"op"`
	Docs      map[string]json.RawMessage `json:"docs"`
	Root      string                     `json:"root"`
	Opts      exOpts                     `json:"opts"`
	Missing   []string                   `json:"missing,omitempty"`
	Spelling  string                     `json:"spelling,omitempty"` // RelativeBase as the caller writes it (default: Root)
	Twice     bool                       `json:"twice,omitempty"`    // expand_spec: the same typed root is expanded a second time
	Kind      string                     `json:"kind,omitempty"`     // resolve: Schema Parameter Response PathItem Items
	Ref       string                     `json:"ref,omitempty"`
	RootMode  string                     `json:"root_mode,omitempty"` // typed generic none
	Element   json.RawMessage            `json:"element,omitempty"`
	Entry     string                     `json:"entry,omitempty"`      // with_root_typed with_root_generic base_path
	EmptyBase bool                       `json:"empty_base,omitempty"` // the options carry no location (the root is the pseudo root)
	InProcess bool                       `json:"in_process,omitempty"` // never handed to a worker process (histories: the calls must share the process)
}

type exOutcome struct {
	Err         bool            `json:"err"`
	ErrText     string          `json:"err_text,omitempty"`
	Timeout     bool            `json:"timeout"`
	Panic       string          `json:"panic,omitempty"`
	Out         json.RawMessage `json:"out"`
	Loads       []string        `json:"loads"` // in request order
	RootChanged string          `json:"root_changed,omitempty"`
	OptsChanged string          `json:"opts_changed,omitempty"`
}

func (o *exOutcome) ok() bool { return !o.Err && !o.Timeout && o.Panic == "" }

func (o *exOutcome) sortedLoads() []string {
	out := append([]string{}, o.Loads...)
	sort.Strings(out)
	return out
}

type exLoadLog struct {
	mu   sync.Mutex
	urls []string
}

func (l *exLoadLog) add(u string) {
	l.mu.Lock()
	l.urls = append(l.urls, u)
	l.mu.Unlock()
}

func (l *exLoadLog) list() []string {
	l.mu.Lock()
	defer l.mu.Unlock()
	return append([]string{}, l.urls...)
}

var errExNoDoc = errors.New("no such document")

var exLoaderDelay int64 // nanoseconds every loader waits before answering (set by the concurrent oracle only)

func exMakeLoader(docs map[string]json.RawMessage, missing []string, lg *exLoadLog) func(string) (json.RawMessage, error) {
	gone := map[string]bool{}
	for _, m := range missing {
		gone[m] = true
	}
	return func(u string) (json.RawMessage, error) {
		if lg != nil {
			lg.add(u)
		}
		if d := atomic.LoadInt64(&exLoaderDelay); d > 0 {
			time.Sleep(time.Duration(d)) // concurrent workloads: fetching a document takes time, fetches overlap
		}
		d, ok := docs[u]
		if !ok || gone[u] {
			return nil, fmt.Errorf("%w: %s", errExNoDoc, u)
		}
		return append(json.RawMessage{}, d...), nil
	}
}

// The package-level loader of the library is replaced once and for all: nothing in this harness may
// touch the file system or the network.  Entry points without a PathLoader option are served from
// the documents of the call in progress.
var exGlobalLoader atomic.Value // func(string) (json.RawMessage, error)

// exInstallGlobal: what a caller of the entry points without a loader option does before the call - assign the package-level
// loader.  A new function value every time, serving the documents of this call only (a program that swaps loaders does not
// reuse one closure).
func exInstallGlobal(loader func(string) (json.RawMessage, error)) {
	exGlobalLoader.Store(loader)
	spec.PathLoader = func(u string) (json.RawMessage, error) { return loader(u) }
}

func exGlobalLoad(u string) (json.RawMessage, error) {
	if f, ok := exGlobalLoader.Load().(func(string) (json.RawMessage, error)); ok && f != nil {
		return f(u)
	}
	return nil, fmt.Errorf("%w: %s", errExNoDoc, u)
}

func exOptsEqual(a, b *spec.ExpandOptions) string {
	var d []string
	if a.RelativeBase != b.RelativeBase {
		d = append(d, fmt.Sprintf("RelativeBase %q -> %q", a.RelativeBase, b.RelativeBase))
	}
	if a.SkipSchemas != b.SkipSchemas {
		d = append(d, "SkipSchemas")
	}
	if a.ContinueOnError != b.ContinueOnError {
		d = append(d, "ContinueOnError")
	}
	if a.AbsoluteCircularRef != b.AbsoluteCircularRef {
		d = append(d, "AbsoluteCircularRef")
	}
	if reflect.ValueOf(a.PathLoader).Pointer() != reflect.ValueOf(b.PathLoader).Pointer() {
		d = append(d, "PathLoader")
	}
	return strings.Join(d, ", ")
}

func exRootValue(c *exCall, mode string) (interface{}, error) {
	switch mode {
	case "typed", "with_root_typed":
		sw := new(spec.Swagger)
		if err := json.Unmarshal(c.Docs[c.Root], sw); err != nil {
			return nil, err
		}
		return sw, nil
	case "generic", "with_root_generic":
		var m map[string]interface{}
		if err := json.Unmarshal(c.Docs[c.Root], &m); err != nil {
			return nil, err
		}
		return m, nil
	}
	return nil, nil
}

// exExec makes one call on the library (no protection against divergence: see exRun).
func exExec(c *exCall) *exOutcome { return exExecWith(c, true) }

// exExecNoGlobal: the same without installing the documents of the call behind the package-level loader.
func exExecNoGlobal(c *exCall) *exOutcome { return exExecWith(c, false) }

func exMarshal(v interface{}) (b []byte, err error) {
	defer func() {
		if r := recover(); r != nil {
			panic(fmt.Sprintf("encoding the result panics: %v", r))
		}
	}()
	return json.Marshal(v)
}

func exExecWith(c *exCall, global bool) (o *exOutcome) {
	o = &exOutcome{}
	lg := &exLoadLog{}
	defer func() {
		if r := recover(); r != nil {
			o.Panic = fmt.Sprint(r)
			o.Out = nil
		}
		o.Loads = lg.list()
		if o.Loads == nil {
			o.Loads = []string{}
		}
	}()
	loader := exMakeLoader(c.Docs, c.Missing, lg)
	if global {
		exInstallGlobal(loader)
	}
	base := c.Root
	if c.Spelling != "" {
		base = c.Spelling
	}
	if c.EmptyBase {
		base = ""
	}
	opts := &spec.ExpandOptions{RelativeBase: base, SkipSchemas: c.Opts.Skip, ContinueOnError: c.Opts.Cont, AbsoluteCircularRef: c.Opts.Abs, PathLoader: loader}
	before := *opts
	fail := func(err error) bool {
		if err != nil {
			o.Err, o.ErrText = true, err.Error()
			return true
		}
		return false
	}
	result := func(v interface{}, err error) {
		if fail(err) {
			return
		}
		b, err := exMarshal(v)
		if !fail(err) {
			o.Out = b
		}
	}
	var root interface{}
	var rootBefore []byte
	needRoot := c.RootMode
	if c.Entry == "with_root_typed" || c.Entry == "with_root_generic" {
		needRoot = c.Entry
	}
	if needRoot != "" && needRoot != "none" {
		var err error
		if root, err = exRootValue(c, needRoot); err != nil {
			fail(fmt.Errorf("decode root: %w", err))
			return
		}
		rootBefore, _ = json.Marshal(root)
	}
	switch c.Op {
	case "expand_spec":
		sw := new(spec.Swagger)
		if err := json.Unmarshal(c.Docs[c.Root], sw); err != nil {
			fail(fmt.Errorf("decode root: %w", err))
			return
		}
		if c.Opts.Built {
			exReshape(sw)
		}
		var err error
		if c.Entry == "nil_options" {
			err = spec.ExpandSpec(sw, nil) // a caller without options: everything is local to the document
		} else {
			err = spec.ExpandSpec(sw, opts)
		}
		if err == nil && c.Twice {
			err = spec.ExpandSpec(sw, opts)
		}
		result(sw, err)
	case "resolve":
		ref, err := spec.NewRef(c.Ref)
		if err != nil {
			fail(fmt.Errorf("new ref: %w", err))
			return
		}
		switch c.Kind {
		case "Schema":
			v, err := spec.ResolveRefWithBase(root, &ref, opts)
			result(v, err)
		case "Parameter":
			if c.Entry == "plain" {
				v, err := spec.ResolveParameter(root, ref)
				result(v, err)
				break
			}
			v, err := spec.ResolveParameterWithBase(root, ref, opts)
			result(v, err)
		case "Response":
			if c.Entry == "plain" {
				v, err := spec.ResolveResponse(root, ref)
				result(v, err)
				break
			}
			v, err := spec.ResolveResponseWithBase(root, ref, opts)
			result(v, err)
		case "PathItem":
			if c.Entry == "plain" {
				v, err := spec.ResolvePathItem(root, ref, opts)
				result(v, err)
				break
			}
			v, err := spec.ResolvePathItemWithBase(root, ref, opts)
			result(v, err)
		case "Items":
			if c.Entry == "plain" {
				v, err := spec.ResolveItems(root, ref, opts)
				result(v, err)
				break
			}
			v, err := spec.ResolveItemsWithBase(root, ref, opts)
			result(v, err)
		default:
			fail(fmt.Errorf("unknown kind %q", c.Kind))
		}
	case "resolve_ref":
		ref, err := spec.NewRef(c.Ref)
		if err != nil {
			fail(fmt.Errorf("new ref: %w", err))
			return
		}
		v, err := spec.ResolveRef(root, &ref)
		result(v, err)
	case "expand_schema":
		sch := new(spec.Schema)
		if err := json.Unmarshal(c.Element, sch); err != nil {
			fail(fmt.Errorf("decode element: %w", err))
			return
		}
		if c.Entry == "base_path" {
			result(sch, spec.ExpandSchemaWithBasePath(sch, nil, opts))
		} else if c.Entry == "cache_prefilled" {
			// the pre-filled cache: an earlier ExpandSchema call with this cache filed the root under its pseudo location;
			// the element is then expanded by the cache alone - no root, no location in the options
			groot, err := exRootValue(c, "with_root_generic")
			if err != nil {
				fail(fmt.Errorf("decode root: %w", err))
				return
			}
			cache := newExMapCache()
			_ = spec.ExpandSchema(new(spec.Schema), groot, cache)
			opts = &spec.ExpandOptions{SkipSchemas: c.Opts.Skip, ContinueOnError: c.Opts.Cont, AbsoluteCircularRef: c.Opts.Abs, PathLoader: loader}
			before = *opts
			result(sch, spec.ExpandSchemaWithBasePath(sch, cache, opts))
		} else {
			result(sch, spec.ExpandSchema(sch, root, nil))
		}
	case "expand_param":
		p := new(spec.Parameter)
		if err := json.Unmarshal(c.Element, p); err != nil {
			fail(fmt.Errorf("decode element: %w", err))
			return
		}
		if c.Entry == "base_path" {
			result(p, spec.ExpandParameter(p, base))
		} else if c.Entry == "cache_prefilled" {
			cache, err := exPrefilledCache(c)
			if err != nil {
				fail(fmt.Errorf("decode root: %w", err))
				return
			}
			result(p, spec.ExpandParameterWithRoot(p, nil, cache))
		} else {
			result(p, spec.ExpandParameterWithRoot(p, root, nil))
		}
	case "expand_response":
		p := new(spec.Response)
		if err := json.Unmarshal(c.Element, p); err != nil {
			fail(fmt.Errorf("decode element: %w", err))
			return
		}
		if c.Entry == "base_path" {
			result(p, spec.ExpandResponse(p, base))
		} else if c.Entry == "cache_prefilled" {
			cache, err := exPrefilledCache(c)
			if err != nil {
				fail(fmt.Errorf("decode root: %w", err))
				return
			}
			result(p, spec.ExpandResponseWithRoot(p, nil, cache))
		} else {
			result(p, spec.ExpandResponseWithRoot(p, root, nil))
		}
	default:
		fail(fmt.Errorf("unknown op %q", c.Op))
	}
	o.OptsChanged = exOptsEqual(&before, opts)
	if rootBefore != nil {
		after, _ := json.Marshal(root)
		if !bytes.Equal(after, rootBefore) {
			o.RootChanged = exClip(string(after), 600)
		}
	}
	return o
}

// exPrefilledCache: a cache in which an earlier ExpandSchema call filed the root value under its pseudo location.
func exPrefilledCache(c *exCall) (spec.ResolutionCache, error) {
	groot, err := exRootValue(c, "with_root_generic")
	if err != nil {
		return nil, err
	}
	cache := newExMapCache()
	_ = spec.ExpandSchema(new(spec.Schema), groot, cache)
	return cache, nil
}

var exTimeout = func() time.Duration {
	if ms, err := strconv.Atoi(os.Getenv("VERIF_EX_TIMEOUT_MS")); err == nil && ms > 0 {
		return time.Duration(ms) * time.Millisecond
	}
	return 5 * time.Second
}()

var exLeaked int32 // goroutines abandoned after a time-out in this process

// exIsolated: graphs on which the library is known to be able to diverge (schemas with `id`) are run
// in a worker process that can be killed; so is everything once a goroutine had to be abandoned.
func exIsolated(c *exCall) bool {
	if atomic.LoadInt32(&exLeaked) > 0 {
		return true
	}
	for _, d := range c.Docs {
		if bytes.Contains(d, []byte(`"id":`)) {
			return true
		}
	}
	return false
}

// exGuard runs f in a goroutine with the time limit.
func exGuard(f func()) (timeout bool, pan string) {
	done := make(chan string, 1)
	go func() {
		defer func() {
			if r := recover(); r != nil {
				done <- "panic: " + fmt.Sprint(r)
			}
		}()
		f()
		done <- ""
	}()
	select {
	case p := <-done:
		return false, p
	case <-time.After(exTimeout):
		atomic.AddInt32(&exLeaked, 1)
		return true, ""
	}
}

func exRun(c *exCall) *exOutcome {
	if exIsolated(c) && !c.InProcess {
		return exWorkerRun(c)
	}
	var o *exOutcome
	timeout, pan := exGuard(func() { o = exExec(c) })
	if timeout {
		return &exOutcome{Timeout: true, Loads: []string{}}
	}
	if pan != "" {
		return &exOutcome{Panic: pan, Loads: []string{}}
	}
	return o
}

// ---------------------------------------------------------------------------------------------
// worker process:  harness exworker   (requests on stdin, one JSON object per line)
//                  harness oneshot <file>  (one call read from a file)

const exMark = "\x01EXR "

type exWorker struct {
	cmd   *exec.Cmd
	in    io.WriteCloser
	lines chan string
}

var exWorkerMu sync.Mutex
var exTheWorker *exWorker

func exStartWorker() (*exWorker, error) {
	exe, err := os.Executable()
	if err != nil {
		return nil, err
	}
	cmd := exec.Command(exe, "exworker")
	cmd.Stderr = io.Discard
	in, err := cmd.StdinPipe()
	if err != nil {
		return nil, err
	}
	out, err := cmd.StdoutPipe()
	if err != nil {
		return nil, err
	}
	if err := cmd.Start(); err != nil {
		return nil, err
	}
	w := &exWorker{cmd: cmd, in: in, lines: make(chan string, 4)}
	go func() {
		sc := bufio.NewReaderSize(out, 1<<20)
		for {
			line, err := sc.ReadString('\n')
			if strings.HasPrefix(line, exMark) {
				w.lines <- strings.TrimPrefix(line, exMark)
			}
			if err != nil {
				close(w.lines)
				return
			}
		}
	}()
	return w, nil
}

func (w *exWorker) kill() {
	w.in.Close()
	w.cmd.Process.Kill()
	go w.cmd.Wait()
}

func (w *exWorker) call(c *exCall) (*exOutcome, bool) {
	b, _ := json.Marshal(c)
	if _, err := w.in.Write(append(b, '\n')); err != nil {
		return &exOutcome{Panic: "worker: " + err.Error(), Loads: []string{}}, false
	}
	select {
	case line, ok := <-w.lines:
		if !ok {
			return &exOutcome{Panic: "worker process died (stack overflow or out of memory)", Loads: []string{}}, false
		}
		o := &exOutcome{}
		if err := json.Unmarshal([]byte(line), o); err != nil {
			return &exOutcome{Panic: "worker: bad answer: " + err.Error(), Loads: []string{}}, false
		}
		return o, true
	case <-time.After(exTimeout):
		return &exOutcome{Timeout: true, Loads: []string{}}, false
	}
}

func exWorkerRun(c *exCall) *exOutcome {
	exWorkerMu.Lock()
	defer exWorkerMu.Unlock()
	if exTheWorker == nil {
		w, err := exStartWorker()
		if err != nil {
			return &exOutcome{Panic: "cannot start worker: " + err.Error(), Loads: []string{}}
		}
		exTheWorker = w
	}
	o, alive := exTheWorker.call(c)
	if !alive {
		exTheWorker.kill()
		exTheWorker = nil
	}
	return o
}

// exFresh makes the call first thing in a new process.
func exFresh(c *exCall) *exOutcome {
	w, err := exStartWorker()
	if err != nil {
		return &exOutcome{Panic: "cannot start worker: " + err.Error(), Loads: []string{}}
	}
	o, _ := w.call(c)
	w.kill()
	return o
}

func exServe() {
	in := bufio.NewReaderSize(os.Stdin, 1<<20)
	out := bufio.NewWriter(os.Stdout)
	for {
		line, err := in.ReadBytes('\n')
		if len(bytes.TrimSpace(line)) > 0 {
			var c exCall
			var o *exOutcome
			if e := json.Unmarshal(line, &c); e != nil {
				o = &exOutcome{Panic: "worker: bad request: " + e.Error()}
			} else {
				o = exExecAny(&c)
			}
			b, _ := json.Marshal(o)
			out.WriteString(exMark)
			out.Write(b)
			out.WriteByte('\n')
			out.Flush()
		}
		if err != nil {
			return
		}
	}
}

func exQuiet() {
	log.SetOutput(io.Discard) // ContinueOnError logs every error it swallows
}

func init() {
	spec.PathLoader = exGlobalLoad
	if len(os.Args) >= 2 && os.Args[1] == "exworker" {
		exQuiet()
		exServe()
		os.Exit(0)
	}
	if len(os.Args) >= 3 && os.Args[1] == "oneshot" {
		exQuiet()
		b, err := os.ReadFile(os.Args[2])
		if err != nil {
			fmt.Fprintln(os.Stderr, err)
			os.Exit(3)
		}
		var c exCall
		if err := json.Unmarshal(b, &c); err != nil {
			fmt.Fprintln(os.Stderr, "harness: bad call:", err)
			os.Exit(3)
		}
		var o *exOutcome
		if timeout, pan := exGuard(func() { o = exExecAny(&c) }); timeout {
			o = &exOutcome{Timeout: true}
		} else if pan != "" {
			o = &exOutcome{Panic: pan}
		}
		out, _ := json.Marshal(o)
		fmt.Println(string(out))
		os.Exit(0)
	}
	generators["expand"] = genExpandCases
}

// ---------------------------------------------------------------------------------------------
// the `expand` cases

func (g *exGraph) call(op string, o exOpts) *exCall {
	// a root filed at the library's own pseudo location is a document held in memory only: the caller has no location to give
	return &exCall{Op: op, Docs: g.Docs, Root: g.Root, Opts: o, Missing: g.Missing, EmptyBase: g.Root == exPseudoRoot}
}

// inMemory: the same single, self-contained document as a root that has no location (RelativeBase left empty).
func (g *exGraph) inMemory() *exGraph {
	c := &exGraph{Docs: map[string]json.RawMessage{exPseudoRoot: g.Docs[g.Root]}, Root: exPseudoRoot}
	c.analyse()
	return c
}

// exUnfoldAll unfolds every element position of a root document (given decoded) in the store.
func exUnfoldAll(s exStore, root string, doc interface{}, depth int) map[string]interface{} {
	out := map[string]interface{}{}
	for _, k := range exRootElements(doc) {
		out[exPtr(k.Path)] = s.unfold(root, k.V, k.Kind, depth)
	}
	return out
}

func exGoView(g *exGraph, c *exCall, o *exOutcome, withUnf bool) (orderedMap, int) {
	m := orderedMap{{"err", o.Err}, {"timeout", o.Timeout}, {"panic", o.Panic != ""}}
	var out interface{}
	if o.ok() && o.Out != nil {
		m = append(m, kv{"out", o.Out})
		json.Unmarshal(o.Out, &out)
	} else {
		m = append(m, kv{"out", nil})
	}
	m = append(m, kv{"loads", o.sortedLoads()})
	depth := 0
	if withUnf {
		var unf interface{}
		if out != nil {
			s := g.store()
			for depth = 4; depth >= 1; depth-- {
				var u interface{}
				if c.Op == "expand_spec" {
					// every definition, parameter, response and path item of the output, read at the root location
					u = exUnfoldAll(s.with(g.Root, out), g.Root, out, depth)
				} else {
					// the expanded element, read in the context it was expanded in
					loc := g.Root
					if c.Entry != "base_path" {
						loc = exPseudoRoot
					}
					u = s.with(loc, s[g.Root]).unfold(loc, out, exOpKind[c.Op], depth)
				}
				if len(exJSON(u)) < 12000 {
					unf = u
					break
				}
			}
		}
		m = append(m, kv{"unf", unf})
	}
	return m, depth
}

// exPointerSpellings: the admissible spellings of a pointer as a fragment (raw, ~-escaped, percent-escaped).
func exPointerSpellings(tokens []string) []string {
	seen := map[string]bool{}
	var out []string
	add := func(s string) {
		if _, err := url.Parse("#" + s); err == nil && !seen[s] {
			// only spellings that read back as the same pointer
			if t, ok := exCanonRef("file:///x", "#"+s); ok && t.Ptr == exPtr(tokens) {
				seen[s] = true
				out = append(out, s)
			}
		}
	}
	add(exFragment(nil, tokens))
	var raw, pct, tld strings.Builder
	for _, t := range tokens {
		raw.WriteString("/" + strings.ReplaceAll(t, "/", "~1")) // a lone ~ left as it is
		tld.WriteString("/" + strings.ReplaceAll(exEscTok(t), "%", "%25"))
		pct.WriteByte('/')
		for _, c := range []byte(exEscTok(t)) {
			if c >= 'a' && c <= 'z' || c >= 'A' && c <= 'Z' || c >= '0' && c <= '9' {
				pct.WriteByte(c)
			} else {
				fmt.Fprintf(&pct, "%%%02X", c)
			}
		}
	}
	add(raw.String())
	add(tld.String())
	add(pct.String())
	return out
}

type exResolveCase struct {
	Kind string
	Ref  string
	Tag  string
}

var exKindName = map[string]string{exSchema: "Schema", exParam: "Parameter", exResponse: "Response", exPathItem: "PathItem"}

// exResolveCases: references (as written from the root location) to the referable positions of the graph.
func exResolveCases(r *rng, g *exGraph, max int) []exResolveCase {
	in := g.analyse()
	var all []exResolveCase
	for _, k := range in.Order {
		n := in.Nodes[k]
		kind, ok := exKindName[n.Kind]
		if !ok {
			continue
		}
		tokens := exPtrTokens(n.T.Ptr)
		if n.T.Ptr == "" {
			all = append(all, exResolveCase{kind, exSpell(r, g.Root, n.T.Doc, nil), "whole-doc"})
			continue
		}
		for _, f := range exPointerSpellings(tokens) {
			prefix := ""
			if n.T.Doc != g.Root || r.chance(1, 6) {
				prefix = strings.SplitN(exSpell(r, g.Root, n.T.Doc, []string{"x"}), "#", 2)[0]
				if n.T.Doc == g.Root && prefix == "" {
					prefix = path.Base(g.Root)
				}
			}
			tag := "existing"
			if !n.Exists {
				tag = "dangling"
			}
			all = append(all, exResolveCase{kind, prefix + "#" + f, tag})
		}
	}
	if rd, ok := g.store()[g.Root].(map[string]interface{}); ok {
		if ps, ok := rd["parameters"].(map[string]interface{}); ok {
			if _, ok := ps["pa"]; ok {
				all = append(all, exResolveCase{"Items", "#/parameters/pa/items", "existing"})
			}
		}
	}
	all = append(all, exResolveCase{"Schema", "#/definitions/nope", "dangling"}, exResolveCase{"Schema", "nodoc.json#/definitions/x", "dangling"},
		exResolveCase{"Parameter", "#/parameters/nope", "dangling"}, exResolveCase{"Response", "../nodir/nodoc.json#/responses/r", "dangling"})
	for i := len(all) - 1; i > 0; i-- {
		j := r.intn(i + 1)
		all[i], all[j] = all[j], all[i]
	}
	if len(all) > max {
		all = all[:max]
	}
	return all
}

type exElementCase struct {
	Op      string
	Element json.RawMessage
	Form    string // ref | literal
	Pointer string
}

// exElementCases: each definition/parameter/response of the root, as a reference to it and as its content.
func exElementCases(g *exGraph) []exElementCase {
	var out []exElementCase
	rd := g.store()[g.Root]
	for _, k := range exRootElements(rd) {
		op := map[string]string{exSchema: "expand_schema", exParam: "expand_param", exResponse: "expand_response"}[k.Kind]
		if op == "" {
			continue
		}
		ref, _ := json.Marshal(map[string]string{"$ref": "#" + exFragment(nil, k.Path)})
		lit, _ := json.Marshal(k.V)
		out = append(out, exElementCase{op, ref, "ref", exPtr(k.Path)}, exElementCase{op, lit, "literal", exPtr(k.Path)})
	}
	return out
}

var exEntries = []string{"with_root_typed", "with_root_generic", "base_path", "cache_prefilled"}

// exEntryApplies: every element expander can be handed a pre-filled cache instead of a root
func exEntryApplies(op, entry string) bool {
	return true
}

// exUnionsGraph: one document whose schemas hold `items`, `additionalProperties` and `additionalItems` in each of their forms.
func exUnionsGraph() *exGraph {
	return exFromGeneric(map[string]interface{}{"file:///u/root.json": map[string]interface{}{"swagger": "2.0", "info": map[string]interface{}{"title": "u", "version": "1"},
		"paths": map[string]interface{}{},
		"definitions": map[string]interface{}{
			"tuple":  map[string]interface{}{"type": "array", "items": []interface{}{map[string]interface{}{"type": "string"}, map[string]interface{}{"type": "integer"}}, "additionalItems": false},
			"list":   map[string]interface{}{"type": "array", "items": map[string]interface{}{"type": "string"}, "additionalItems": map[string]interface{}{"type": "number"}},
			"closed": map[string]interface{}{"type": "object", "additionalProperties": false},
			"open":   map[string]interface{}{"type": "object", "additionalProperties": true},
			"typed":  map[string]interface{}{"type": "object", "additionalProperties": map[string]interface{}{"type": "string"}, "not": map[string]interface{}{"type": "null"}},
			"plain":  map[string]interface{}{"type": "object"},
			"":       map[string]interface{}{"type": "string", "description": "the definition whose name is empty"},
			// unions their decoder leaves empty (the typed document then encodes them as null)
			"scalaritems": map[string]interface{}{"type": "array", "items": 5},
			"emptydep":    map[string]interface{}{"type": "object", "dependencies": map[string]interface{}{"k": []interface{}{}}},
			"ext": map[string]interface{}{"type": "object", "X-Inner": map[string]interface{}{"in": map[string]interface{}{"type": "boolean"}},
				"x-inner": map[string]interface{}{"in": map[string]interface{}{"type": "number"}}},
		},
		// vendor extensions in the spellings the decoders accept (the prefix is matched case-insensitively, the key is kept as written)
		"X-Shared": map[string]interface{}{"thing": map[string]interface{}{"type": "string", "format": "upper"}},
		"x-shared": map[string]interface{}{"thing": map[string]interface{}{"type": "string", "format": "lower"}},
		"x-Mixed":  map[string]interface{}{"thing": map[string]interface{}{"type": "integer"}}}}, "file:///u/root.json")
}

// exNamesGraph: one document whose path items, parameters, responses and definitions carry names that hold the text of an
// escape ("%41", "a%20b", "~1"), next to the names a second decoding would turn them into: a reference designates a member
// after exactly one round of percent- and pointer-decoding, whichever way the root is supplied.
var exOddNames = []string{"only%41", "onlyA", "a%20b", "a b", "{id}", "%7Bid%7D", "100%", "x~1y", "x/y", "v~0", "v~", "é", "q?r", "h#i", "%", "tail ", "tail", " lead"}

func exNamesGraph() (*exGraph, []exResolveCase) {
	paths, params, resps, defs := map[string]interface{}{}, map[string]interface{}{}, map[string]interface{}{}, map[string]interface{}{}
	var cases []exResolveCase
	for _, n := range exOddNames {
		paths["/"+n] = map[string]interface{}{"get": map[string]interface{}{"responses": map[string]interface{}{"200": map[string]interface{}{"description": "path " + n}}}}
		params[n] = map[string]interface{}{"name": "param " + n, "in": "query", "type": "string"}
		resps[n] = map[string]interface{}{"description": "response " + n}
		defs[n] = map[string]interface{}{"description": "definition " + n}
		cases = append(cases, exResolveCase{Kind: "PathItem", Ref: "#" + exFragment(nil, []string{"paths", "/" + n}), Tag: "odd-name"},
			exResolveCase{Kind: "Parameter", Ref: "#" + exFragment(nil, []string{"parameters", n}), Tag: "odd-name"},
			exResolveCase{Kind: "Response", Ref: "#" + exFragment(nil, []string{"responses", n}), Tag: "odd-name"},
			exResolveCase{Kind: "Schema", Ref: "#" + exFragment(nil, []string{"definitions", n}), Tag: "odd-name"},
			exResolveCase{Kind: "Schema", Ref: "#" + exFragment(nil, []string{"paths", "/" + n, "get", "responses", "200"}), Tag: "odd-name"})
	}
	// a blank written as it is (net/url keeps it): at the end of the text it is part of the last name
	for _, r := range []string{"#/definitions/tail ", "#/paths/~1tail ", "#/parameters/tail ", "#/responses/tail ", "#/definitions/a b", "#/definitions/ lead"} {
		kind := map[string]string{"paths": "PathItem", "parameters": "Parameter", "responses": "Response", "definitions": "Schema"}[strings.Split(r, "/")[1]]
		cases = append(cases, exResolveCase{Kind: kind, Ref: r, Tag: "odd-name-raw-blank"})
	}
	// spelled with one escape too many, these designate nothing (or the member whose name really holds the escape)
	for _, r := range []string{"#/paths/~1%257Bid%257D", "#/paths/~1only%2541", "#/parameters/%257Bid%257D", "#/definitions/a%2520b", "#/definitions/x~01y", "#/responses/100%2525"} {
		kind := map[string]string{"paths": "PathItem", "parameters": "Parameter", "responses": "Response", "definitions": "Schema"}[strings.Split(r, "/")[1]]
		cases = append(cases, exResolveCase{Kind: kind, Ref: r, Tag: "odd-name-over-escaped"})
	}
	g := exFromGeneric(map[string]interface{}{"file:///n/root.json": map[string]interface{}{"swagger": "2.0", "info": map[string]interface{}{"title": "names", "version": "1"},
		"paths": paths, "parameters": params, "responses": resps, "definitions": defs}}, "file:///n/root.json")
	return g, cases
}

var exUnionRefs = []string{"#/definitions/tuple/items", "#/definitions/tuple/items/0", "#/definitions/tuple/additionalItems", "#/definitions/list/items",
	"#/definitions/list/additionalItems", "#/definitions/closed/additionalProperties", "#/definitions/open/additionalProperties",
	"#/definitions/typed/additionalProperties", "#/definitions/typed/not", "#/definitions/plain/not", "#/definitions/plain/items", "#/definitions/plain/additionalProperties",
	"#/definitions/scalaritems/items", "#/definitions/emptydep/dependencies/k", "#/definitions/plain/properties", "#/definitions/plain/allOf", "#/definitions/plain/required",
	// pointers whose last token is empty (RFC 6901: the member named ""): one that exists, others that lead nowhere
	"#/definitions/", "#/definitions/plain/", "#/", "#/definitions/tuple/items/", "#/definitions//",
	"#/X-Shared/thing", "#/x-shared/thing", "#/x-Mixed/thing", "#/X-SHARED/thing", "#/definitions/ext/X-Inner/in", "#/definitions/ext/x-inner/in", "#/definitions/ext/x-INNER/in"}

var exRefTextRe = regexp.MustCompile(`"\$ref"\s*:\s*"([^"]*)"`)

// exOnlyFragmentRefs: every `$ref` of the document is fragment-only (the document does not even name its own file).
func exOnlyFragmentRefs(doc json.RawMessage) bool {
	for _, m := range exRefTextRe.FindAllSubmatch(doc, -1) {
		if !bytes.HasPrefix(m[1], []byte("#")) {
			return false
		}
	}
	return true
}

func genExpandCases(r *rng, n int, tier string, cw *caseWriter) {
	exQuiet()
	graphs := exGraphs(r.fork(1), n, tier, true)
	rf := r.fork(2)
	emit := func(m orderedMap) {
		b, _ := json.Marshal(m)
		if len(b) > 30000 {
			cw.count("dropped:too-long")
			return
		}
		cw.emit(m)
		cw.count(fmt.Sprint(m[0].V))
	}
	// 0. pointers that end at the members a typed schema holds as unions (schema-or-array, schema-or-bool) in each of their
	//    forms, and at members that are absent: every way of supplying the root, both resolvers
	{
		g := exUnionsGraph()
		for _, ref := range exUnionRefs {
			for _, mode := range []string{"typed", "generic", "none"} {
				c := g.call("resolve", exOpts{})
				c.Kind, c.Ref, c.RootMode = "Schema", ref, mode
				view, _ := exGoView(g, c, exRun(c), false)
				emit(orderedMap{{"op", "resolve"}, {"nt", true}, {"kind", "Schema"}, {"docs", g.Docs}, {"root", g.Root}, {"ref", ref}, {"root_mode", mode},
					{"missing", []string{}}, {"expect", "union-position"}, {"go", view}})
				if mode != "none" {
					c2 := g.call("resolve_ref", exOpts{})
					c2.Ref, c2.RootMode = ref, mode
					view2, _ := exGoView(g, c2, exRun(c2), false)
					emit(orderedMap{{"op", "resolve_ref"}, {"nt", true}, {"kind", "Schema"}, {"docs", g.Docs}, {"root", g.Root}, {"ref", ref}, {"root_mode", mode},
						{"missing", []string{}}, {"expect", "union-position"}, {"go", view2}})
				}
			}
		}
	}
	// 0b. chains of parameter, response and path-item references that run into a cycle they are not part of (the library side
	//     runs in a worker process: a chain followed without end overflows the stack)
	for _, k := range []string{"parameter", "response", "pathitem"} {
		for _, cyc := range []int{1, 2} {
			for _, cross := range []bool{false, true} {
				g := tailCycleGraph(tailCycleInput{Kind: k, Cycle: cyc, Cross: cross})
				g.analyse()
				for _, o := range []exOpts{{}, {Cont: true, Abs: true}} {
					c := g.call("expand_spec", o)
					res := exWorkerRun(c)
					view, depth := exGoView(g, c, res, true)
					emit(orderedMap{{"op", "expand_spec"}, {"nt", true}, {"tags", g.Tags}, {"docs", g.Docs}, {"root", g.Root}, {"opts", o},
						{"missing", []string{}}, {"acyclic", g.Acyclic}, {"unf_depth", depth}, {"go", view}})
					cw.count("tail-into-cycle")
				}
			}
		}
	}
	// 0b'. chains of 40 schema references: acyclic (nothing remains), through another document, and as the lead-in into a cycle
	for _, sh := range []string{"long-chain", "long-chain-other-doc", "long-lead-in"} {
		g := longChainGraph(sh)
		g.analyse()
		for _, o := range []exOpts{{}, {Abs: true, Cont: true}} {
			c := g.call("expand_spec", o)
			view, depth := exGoView(g, c, exRun(c), true)
			emit(orderedMap{{"op", "expand_spec"}, {"nt", true}, {"tags", g.Tags}, {"docs", g.Docs}, {"root", g.Root}, {"opts", o},
				{"missing", []string{}}, {"acyclic", g.Acyclic}, {"unf_depth", depth}, {"go", view}})
			cw.count("long-chain")
		}
	}
	{
		g, cases := exNamesGraph()
		for _, rc := range cases {
			for _, mode := range []string{"typed", "generic", "none"} {
				c := g.call("resolve", exOpts{})
				c.Kind, c.Ref, c.RootMode = rc.Kind, rc.Ref, mode
				view, _ := exGoView(g, c, exRun(c), false)
				emit(orderedMap{{"op", "resolve"}, {"nt", true}, {"kind", rc.Kind}, {"docs", g.Docs}, {"root", g.Root}, {"ref", rc.Ref}, {"root_mode", mode},
					{"missing", []string{}}, {"expect", rc.Tag}, {"go", view}})
			}
		}
	}
	// 0c. pointers that pass through each operation of a path item (the seven verbs hold different content; a second path item
	//     defines one verb only), every way of supplying the root
	{
		type m = map[string]interface{}
		verbs := []string{"get", "put", "post", "delete", "options", "head", "patch"}
		all, one := m{}, m{}
		for _, v := range verbs {
			all[v] = m{"description": "the " + v + " operation",
				"parameters": []interface{}{m{"name": "p-" + v, "in": "query", "type": "string", "description": "parameter of " + v}},
				"responses":  m{"200": m{"description": "answer of " + v, "schema": m{"type": "string", "description": "schema of " + v}}}}
		}
		one["head"] = all["head"]
		g := exFromGeneric(m{"file:///vb/root.json": m{"swagger": "2.0", "info": m{"title": "t", "version": "1"}, "paths": m{"/all": all, "/one": one}}}, "file:///vb/root.json")
		for _, pth := range []string{"~1all", "~1one"} {
			for _, v := range verbs {
				for _, rc := range []struct{ kind, tail string }{{"Response", "/responses/200"}, {"Parameter", "/parameters/0"}, {"Schema", "/responses/200/schema"}} {
					ref := "#/paths/" + pth + "/" + v + rc.tail
					for _, mode := range []string{"typed", "generic", "none"} {
						c := g.call("resolve", exOpts{})
						c.Kind, c.Ref, c.RootMode = rc.kind, ref, mode
						view, _ := exGoView(g, c, exRun(c), false)
						emit(orderedMap{{"op", "resolve"}, {"nt", true}, {"kind", rc.kind}, {"docs", g.Docs}, {"root", g.Root}, {"ref", ref}, {"root_mode", mode},
							{"missing", []string{}}, {"expect", "through-operation"}, {"go", view}})
					}
				}
			}
		}
	}
	for gi, g0 := range graphs {
		g := g0
		if gi%3 == 2 {
			if f, kind := exInjectFault(rf, g0); f != nil {
				g = f
				cw.count("fault:" + kind)
			}
		}
		g.analyse()
		if g.Acyclic {
			cw.count("acyclic")
		} else {
			cw.count("cyclic")
		}
		// 1. whole-specification expansion, two option settings
		settings := []exOpts{{Skip: rf.chance(1, 4), Cont: rf.chance(1, 3), Abs: rf.chance(1, 2)}}
		second := exOpts{Skip: !settings[0].Skip && rf.chance(1, 3), Cont: !settings[0].Cont, Abs: !settings[0].Abs}
		settings = append(settings, second)
		for _, o := range settings {
			c := g.call("expand_spec", o)
			res := exRun(c)
			view, depth := exGoView(g, c, res, true)
			m := orderedMap{{"op", "expand_spec"}, {"nt", len(g.Refs) > 0}, {"tags", g.Tags}, {"docs", g.Docs}, {"root", g.Root}, {"opts", o},
				{"missing", append([]string{}, g.Missing...)}, {"acyclic", g.Acyclic}, {"unf_depth", depth}, {"go", view}}
			emit(m)
			if g.Acyclic && len(g.Docs) == 1 && len(g.Missing) == 0 && !o.Skip && !g.hasTag("id") && exOnlyFragmentRefs(g.Docs[g.Root]) {
				// the same call by a caller who passes no options at all (the document is self-contained)
				cn := g.call("expand_spec", o)
				cn.Entry = "nil_options"
				vn, dn := exGoView(g, cn, exRun(cn), true)
				emit(orderedMap{{"op", "expand_spec"}, {"nt", len(g.Refs) > 0}, {"tags", g.Tags}, {"docs", g.Docs}, {"root", g.Root}, {"opts", exOpts{}},
					{"missing", []string{}}, {"acyclic", true}, {"unf_depth", dn}, {"entry_point", "nil_options"}, {"go", vn}})
				cw.count("nil-options")
			}
			if res.Timeout {
				cw.count("timeout")
			}
		}
		if g.hasTag("id-reldir-on-cycle") {
			continue // every further call on such a graph costs a time-out
		}
		// 2. resolution
		for _, rc := range exResolveCases(rf, g, 8) {
			if g.hasTag("empty-union") {
				break // the definition that holds the empty union is itself a target here: outside the model (codec finding F4b)
			}
			mode := rf.pick([]string{"typed", "generic", "none"})
			if g.Root == exPseudoRoot && mode == "none" {
				mode = rf.pick([]string{"typed", "generic"}) // a root without a location can only be handed over as a value
			}
			// the options a caller may pass along must not change what a reference designates (nor turn "nothing" into a value)
			ro := exOpts{Cont: rf.chance(1, 3), Abs: rf.chance(1, 4)}
			c := g.call("resolve", ro)
			c.Kind, c.Ref, c.RootMode = rc.Kind, rc.Ref, mode
			res := exRun(c)
			view, _ := exGoView(g, c, res, false)
			emit(orderedMap{{"op", "resolve"}, {"nt", true}, {"kind", rc.Kind}, {"docs", g.Docs}, {"root", g.Root}, {"ref", rc.Ref}, {"root_mode", mode}, {"opts", ro},
				{"missing", append([]string{}, g.Missing...)}, {"expect", rc.Tag}, {"go", view}})
			if rc.Kind != "Schema" && strings.HasPrefix(rc.Ref, "#") && mode != "none" {
				// the resolvers without "WithBase" in their name (a root value, a reference into it): same answer
				cp := g.call("resolve", ro)
				cp.Kind, cp.Ref, cp.RootMode, cp.Entry = rc.Kind, rc.Ref, mode, "plain"
				vp, _ := exGoView(g, cp, exRun(cp), false)
				emit(orderedMap{{"op", "resolve"}, {"nt", true}, {"kind", rc.Kind}, {"docs", g.Docs}, {"root", g.Root}, {"ref", rc.Ref}, {"root_mode", mode}, {"opts", ro},
					{"missing", append([]string{}, g.Missing...)}, {"expect", rc.Tag}, {"entry_point", "plain"}, {"go", vp}})
				cw.count("resolve-plain")
			}
			if rc.Kind == "Schema" && strings.HasPrefix(rc.Ref, "#") && rf.chance(1, 2) {
				c2 := g.call("resolve_ref", exOpts{})
				c2.Ref, c2.RootMode = rc.Ref, rf.pick([]string{"typed", "generic"})
				res2 := exRun(c2)
				view2, _ := exGoView(g, c2, res2, false)
				emit(orderedMap{{"op", "resolve_ref"}, {"nt", true}, {"kind", "Schema"}, {"docs", g.Docs}, {"root", g.Root}, {"ref", rc.Ref}, {"root_mode", c2.RootMode},
					{"missing", append([]string{}, g.Missing...)}, {"expect", rc.Tag}, {"go", view2}})
			}
		}
		// 3. single elements
		els := exElementCases(g)
		for i := len(els) - 1; i > 0; i-- {
			j := rf.intn(i + 1)
			els[i], els[j] = els[j], els[i]
		}
		if len(els) > 5 {
			els = els[:5]
		}
		for _, ec := range els {
			entry := rf.pick(exEntries)
			if !exEntryApplies(ec.Op, entry) || (g.Root == exPseudoRoot && entry == "base_path") {
				entry = "with_root_generic"
			}
			o := exOpts{}
			if ec.Op == "expand_schema" && entry == "base_path" {
				o = exOpts{Skip: rf.chance(1, 5), Cont: rf.chance(1, 4), Abs: rf.chance(1, 2)}
			}
			c := g.call(ec.Op, o)
			c.Element, c.Entry = ec.Element, entry
			res := exRun(c)
			view, depth := exGoView(g, c, res, true)
			emit(orderedMap{{"op", ec.Op}, {"nt", true}, {"tags", g.Tags}, {"docs", g.Docs}, {"root", g.Root}, {"element", ec.Element}, {"entry", entry}, {"opts", o},
				{"missing", append([]string{}, g.Missing...)}, {"acyclic", g.Acyclic}, {"form", ec.Form}, {"pseudo_root", exPseudoRoot}, {"unf_depth", depth}, {"go", view}})
		}
	}
}
