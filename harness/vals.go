package main

import (
	"encoding/json"
	"fmt"
	"reflect"
	"strings"

	"github.com/go-openapi/spec"
)

var valsModelled = map[string]bool{"clearedValidation": true, "CommonValidations": true, "SchemaValidations": true,
	"SchemaProps": true, "Schema": true, "Parameter": true, "Header": true, "Items": true}

func mv(x interface{}) interface{} { return modelView(reflect.ValueOf(x), valsModelled) }

func fptr(f float64) *float64 { return &f }
func iptr(i int64) *int64     { return &i }

var floatChoices = []float64{0, 1, -1, 1.5, 0.25, 100, -7, 4503599627370496}
var intChoices = []int64{0, 1, 2, 10, 255, 9007199254740991}
var patChoices = []string{"a", "^a\\d+$", "x\"y", "é", " ", "\\"}

// genCommon builds a CommonValidations whose presence pattern is `mask` (12 bits, field order).
func genCommon(r *rng, mask int) spec.CommonValidations {
	var c spec.CommonValidations
	bit := func(i int) bool { return mask&(1<<i) != 0 }
	if bit(0) {
		c.Maximum = fptr(floatChoices[r.intn(len(floatChoices))])
	}
	c.ExclusiveMaximum = bit(1)
	if bit(2) {
		c.Minimum = fptr(floatChoices[r.intn(len(floatChoices))])
	}
	c.ExclusiveMinimum = bit(3)
	if bit(4) {
		c.MaxLength = iptr(intChoices[r.intn(len(intChoices))])
	}
	if bit(5) {
		c.MinLength = iptr(intChoices[r.intn(len(intChoices))])
	}
	if bit(6) {
		c.Pattern = r.pick(patChoices)
	}
	if bit(7) {
		c.MaxItems = iptr(intChoices[r.intn(len(intChoices))])
	}
	if bit(8) {
		c.MinItems = iptr(intChoices[r.intn(len(intChoices))])
	}
	c.UniqueItems = bit(9)
	if bit(10) {
		c.MultipleOf = fptr(floatChoices[r.intn(len(floatChoices))])
	}
	if bit(11) {
		switch r.intn(3) {
		case 0:
			c.Enum = []interface{}{}
		case 1:
			c.Enum = []interface{}{"a", 1.0, nil, true}
		default:
			c.Enum = []interface{}{map[string]interface{}{"k": []interface{}{}}}
		}
	}
	return c
}

func genSV(r *rng, mask int) spec.SchemaValidations {
	v := spec.SchemaValidations{CommonValidations: genCommon(r, mask&0xfff)}
	if mask&(1<<12) != 0 {
		if r.chance(1, 3) {
			v.PatternProperties = spec.SchemaProperties{}
		} else {
			v.PatternProperties = spec.SchemaProperties{"^x": *spec.StringProperty()}
		}
	}
	if mask&(1<<13) != 0 {
		v.MaxProperties = iptr(intChoices[r.intn(len(intChoices))])
	}
	if mask&(1<<14) != 0 {
		v.MinProperties = iptr(intChoices[r.intn(len(intChoices))])
	}
	return v
}

func genSchemaCarrier(r *rng, mask int) spec.Schema {
	var s spec.Schema
	s.SetValidations(genSV(r, mask))
	if r.chance(1, 2) {
		s.Title = r.pick([]string{"t", "", "Title é"})
	}
	if r.chance(1, 2) {
		s.Description = "d"
	}
	if r.chance(1, 3) {
		s.ID = "http://x/y"
	}
	if r.chance(1, 3) {
		s.Type = spec.StringOrArray{"object"}
	}
	if r.chance(1, 3) {
		s.Required = []string{"a"}
	}
	if r.chance(1, 3) {
		s.Properties = spec.SchemaProperties{"a": *spec.Int64Property()}
	}
	if r.chance(1, 3) {
		s.Items = &spec.SchemaOrArray{Schema: spec.StringProperty()}
	}
	if r.chance(1, 3) {
		s.Default = map[string]interface{}{"k": 1.0}
	}
	if r.chance(1, 3) {
		s.AddExtension("x-foo", []interface{}{1.0, "a"})
	}
	if r.chance(1, 4) {
		s.ExtraProps = map[string]interface{}{"unknown": "kw"}
	}
	if r.chance(1, 4) {
		s.ReadOnly = true
	}
	if r.chance(1, 4) {
		s.Discriminator = "kind"
	}
	if r.chance(1, 4) {
		s.Ref = spec.MustCreateRef("#/definitions/a")
	}
	return s
}

func genParamCarrier(r *rng, mask int) spec.Parameter {
	p := spec.Parameter{}
	p.CommonValidations = genCommon(r, mask)
	p.Name = r.pick([]string{"p", "", "q"})
	p.In = r.pick([]string{"query", "header", "path", "formData", "body"})
	if p.In == "body" && r.chance(2, 3) {
		// a body parameter carries its validations in its schema: the parameter's own set is a separate thing
		sch := genSchemaCarrier(r, mask)
		p.Schema = &sch
	}
	if r.chance(1, 2) {
		p.Type = "string"
		p.Format = "date"
	}
	if r.chance(1, 3) {
		p.Required = true
	}
	if r.chance(1, 3) {
		p.AddExtension("x-p", 1.0)
	}
	if r.chance(1, 3) {
		p.Items = spec.NewItems().Typed("string", "")
	}
	return p
}

func genHeaderCarrier(r *rng, mask int) spec.Header {
	h := spec.Header{}
	h.CommonValidations = genCommon(r, mask)
	if r.chance(1, 2) {
		h.Type = "integer"
	}
	if r.chance(1, 2) {
		h.Description = "hd"
	}
	if r.chance(1, 3) {
		h.AddExtension("x-h", "v")
	}
	return h
}

func genItemsCarrier(r *rng, mask int) spec.Items {
	i := spec.Items{}
	i.CommonValidations = genCommon(r, mask)
	if r.chance(1, 2) {
		i.Type = "array"
		i.CollectionFormat = "csv"
	}
	if r.chance(1, 3) {
		i.Items = spec.NewItems().Typed("integer", "int32")
	}
	if r.chance(1, 3) {
		i.AddExtension("x-i", true)
	}
	return i
}

type callRec struct {
	cb    int
	name  string
	value interface{}
}

func recorder(ncb int) ([]func(string, interface{}), *[]callRec) {
	var calls []callRec
	cbs := make([]func(string, interface{}), ncb)
	for i := range cbs {
		i := i
		cbs[i] = func(name string, v interface{}) { calls = append(calls, callRec{i, name, v}) }
	}
	return cbs, &calls
}

func callsView(calls []callRec) []interface{} {
	out := make([]interface{}, 0, len(calls))
	for _, c := range calls {
		out = append(out, []interface{}{c.cb, c.name, modelView(reflect.ValueOf(&c.value).Elem(), valsModelled)})
	}
	return out
}

func withCalls(obj interface{}, calls []callRec) orderedMap {
	return orderedMap{{"obj", mv(obj)}, {"calls", callsView(calls)}}
}

// deep copies so that the implementation never shares pointers between the input view and its run
func cloneCommon(c spec.CommonValidations) spec.CommonValidations {
	d := c
	cp := func(p *float64) *float64 {
		if p == nil {
			return nil
		}
		return fptr(*p)
	}
	ci := func(p *int64) *int64 {
		if p == nil {
			return nil
		}
		return iptr(*p)
	}
	d.Maximum, d.Minimum, d.MultipleOf = cp(c.Maximum), cp(c.Minimum), cp(c.MultipleOf)
	d.MaxLength, d.MinLength, d.MaxItems, d.MinItems = ci(c.MaxLength), ci(c.MinLength), ci(c.MaxItems), ci(c.MinItems)
	return d
}

func genValsCases(r *rng, n int, tier string, cw *caseWriter) {
	emit := func(op string, nt bool, a, b interface{}, ncb int, goOut interface{}) {
		m := orderedMap{{"op", op}, {"nt", nt}, {"a", a}}
		if b != nil {
			m = append(m, kv{"b", b})
		}
		m = append(m, kv{"n", ncb}, kv{"go", goOut})
		cw.emit(m)
		cw.count(op)
	}
	// 1. every presence subset of the 12 simple-schema keywords, through every operation on them
	for mask := 0; mask < 1<<12; mask++ {
		c := genCommon(r, mask)
		in := mv(c)
		ncb := 1 + mask%3
		for _, fam := range []string{"number", "string", "array"} {
			cc := cloneCommon(c)
			cbs, calls := recorder(ncb)
			switch fam {
			case "number":
				cc.ClearNumberValidations(cbs...)
			case "string":
				cc.ClearStringValidations(cbs...)
			default:
				cc.ClearArrayValidations(cbs...)
			}
			emit("cv_clear_"+fam, mask != 0, in, nil, ncb, withCalls(cc, *calls))
		}
		emit("cv_get", mask != 0, in, nil, 0, mv(c.Validations()))
		emit("cv_has", mask != 0, in, nil, 0, []interface{}{c.HasNumberValidations(), c.HasStringValidations(), c.HasArrayValidations(), c.HasEnum()})
		v := genSV(r, r.intn(1<<15))
		cc := cloneCommon(c)
		cc.SetValidations(v)
		emit("cv_set", mask != 0, in, mv(v), 0, mv(cc))
	}
	// 2. every presence subset of the 15 schema keywords (thorough) or a stratified sample (quick)
	step := 7
	if tier == "thorough" {
		step = 1
	}
	for mask := 0; mask < 1<<15; mask += step {
		v := genSV(r, mask)
		in := mv(v)
		ncb := 1 + mask%2
		vv := v
		vv.CommonValidations = cloneCommon(v.CommonValidations)
		cbs, calls := recorder(ncb)
		vv.ClearObjectValidations(cbs...)
		emit("sv_clear_object", mask != 0, in, nil, ncb, withCalls(vv, *calls))
		emit("sv_get", mask != 0, in, nil, 0, mv(v.Validations()))
		emit("sv_has", mask != 0, in, nil, 0, v.HasObjectValidations())
		w := genSV(r, r.intn(1<<15))
		vv = v
		vv.SetValidations(w)
		emit("sv_set", mask != 0, in, mv(w), 0, mv(vv))
	}
	// 3. the four carriers with random surrounding fields
	for i := 0; i < n; i++ {
		mask := r.intn(1 << 15)
		s := genSchemaCarrier(r, mask)
		w := genSV(r, r.intn(1<<15))
		sin := mv(s)
		emit("schema_get", mask != 0, sin, nil, 0, mv(s.Validations()))
		s2 := s
		s2.SetValidations(w)
		emit("schema_set", mask != 0, sin, mv(w), 0, mv(s2))
		s3 := s
		emit("schema_with", mask != 0, sin, mv(w), 0, mv(*s3.WithValidations(w)))
		c := genCommon(r, r.intn(1<<12))
		p := genParamCarrier(r, mask&0xfff)
		pin := mv(p)
		emit("param_with", mask != 0, pin, mv(c), 0, mv(*p.WithValidations(c)))
		h := genHeaderCarrier(r, mask&0xfff)
		hin := mv(h)
		emit("header_with", mask != 0, hin, mv(c), 0, mv(*h.WithValidations(c)))
		it := genItemsCarrier(r, mask&0xfff)
		iin := mv(it)
		emit("items_with", mask != 0, iin, mv(c), 0, mv(*it.WithValidations(c)))
	}
}

// ---------------------------------------------------------------------------------------------
// the property itself, on the implementation

func jsonOf(x interface{}) string {
	b, err := json.Marshal(x)
	if err != nil {
		return "marshal error: " + err.Error()
	}
	return string(b)
}

var families = map[string][]string{
	"number": {"maximum", "exclusiveMaximum", "minimum", "exclusiveMinimum", "multipleOf"},
	"string": {"maxLength", "minLength", "pattern"},
	"array":  {"maxItems", "minItems", "uniqueItems"},
	"object": {"maxProperties", "minProperties", "patternProperties"},
}

// kwView maps a SchemaValidations to keyword -> model view (nil / false / "" = zero).
func kwView(v spec.SchemaValidations) map[string]interface{} {
	return map[string]interface{}{
		"maximum": mv(v.Maximum), "exclusiveMaximum": v.ExclusiveMaximum, "minimum": mv(v.Minimum),
		"exclusiveMinimum": v.ExclusiveMinimum, "multipleOf": mv(v.MultipleOf),
		"maxLength": mv(v.MaxLength), "minLength": mv(v.MinLength), "pattern": v.Pattern,
		"maxItems": mv(v.MaxItems), "minItems": mv(v.MinItems), "uniqueItems": v.UniqueItems,
		"enum":          mv(v.Enum),
		"maxProperties": mv(v.MaxProperties), "minProperties": mv(v.MinProperties), "patternProperties": mv(v.PatternProperties),
	}
}

func isZeroView(x interface{}) bool {
	switch t := x.(type) {
	case nil:
		return true
	case bool:
		return !t
	case string:
		return t == ""
	}
	return false
}

func checkClear(fam string, before, after spec.SchemaValidations, has bool, ncb int, calls []callRec) string {
	b, a := kwView(before), kwView(after)
	inFam := map[string]bool{}
	for _, k := range families[fam] {
		inFam[k] = true
		if !isZeroView(a[k]) {
			return fmt.Sprintf("keyword %s not cleared", k)
		}
	}
	for k := range b {
		if !inFam[k] && jsonOf(a[k]) != jsonOf(b[k]) {
			return fmt.Sprintf("keyword %s outside the family changed: %s -> %s", k, jsonOf(b[k]), jsonOf(a[k]))
		}
	}
	if has {
		return "has-query still true after clear"
	}
	for i := 0; i < ncb; i++ {
		seen := map[string]int{}
		for _, c := range calls {
			if c.cb != i {
				continue
			}
			seen[c.name]++
			if !inFam[c.name] {
				return fmt.Sprintf("callback %d told about %s which is not in family %s", i, c.name, fam)
			}
			got := modelView(reflect.ValueOf(&c.value).Elem(), valsModelled)
			if jsonOf(got) != jsonOf(b[c.name]) {
				return fmt.Sprintf("callback %d got %s=%s, previous value was %s", i, c.name, jsonOf(got), jsonOf(b[c.name]))
			}
		}
		for _, k := range families[fam] {
			want := 0
			if !isZeroView(b[k]) {
				want = 1
			}
			if seen[k] != want {
				return fmt.Sprintf("callback %d told about %s %d times, want %d", i, k, seen[k], want)
			}
		}
	}
	return ""
}

var clearOrders = func() [][]string {
	var out [][]string
	var rec func(rest, acc []string)
	rec = func(rest, acc []string) {
		if len(rest) == 0 {
			out = append(out, append([]string{}, acc...))
			return
		}
		for i := range rest {
			r2 := append(append([]string{}, rest[:i]...), rest[i+1:]...)
			rec(r2, append(acc, rest[i]))
		}
	}
	rec([]string{"number", "string", "array", "object"}, nil)
	return out
}()

type valsInput struct {
	Seed uint64 `json:"seed"`
	Mask int    `json:"mask"`
	Ncb  int    `json:"ncb"`
}

func checkValsOne(in valsInput) (string, interface{}) {
	r := newRng(in.Seed)
	v := genSV(r, in.Mask)
	w := genSV(r, r.intn(1<<15))
	// simple-schema carrier
	c := v.CommonValidations
	if got, want := jsonOf(mv(c.Validations())), jsonOf(mv(spec.SchemaValidations{CommonValidations: c})); got != want {
		return "CommonValidations.Validations does not return the held set", mv(c)
	}
	c2 := cloneCommon(c)
	c2.SetValidations(c.Validations())
	if jsonOf(mv(c2)) != jsonOf(mv(c)) {
		return "write(read(c)) != c on a simple-schema carrier", mv(c)
	}
	c3 := cloneCommon(c)
	c3.SetValidations(w)
	if jsonOf(mv(c3.Validations().CommonValidations)) != jsonOf(mv(w.CommonValidations)) {
		return "read(write(c,w)) != w on a simple-schema carrier", []interface{}{mv(c), mv(w)}
	}
	for _, fam := range []string{"number", "string", "array"} {
		cc := cloneCommon(c)
		cbs, calls := recorder(in.Ncb)
		var has bool
		switch fam {
		case "number":
			cc.ClearNumberValidations(cbs...)
			has = cc.HasNumberValidations()
		case "string":
			cc.ClearStringValidations(cbs...)
			has = cc.HasStringValidations()
		default:
			cc.ClearArrayValidations(cbs...)
			has = cc.HasArrayValidations()
		}
		if msg := checkClear(fam, spec.SchemaValidations{CommonValidations: c}, spec.SchemaValidations{CommonValidations: cc}, has, in.Ncb, *calls); msg != "" {
			return "clear " + fam + ": " + msg, mv(c)
		}
	}
	// schema validation set
	vv := v
	vv.CommonValidations = cloneCommon(v.CommonValidations)
	cbs, calls := recorder(in.Ncb)
	vv.ClearObjectValidations(cbs...)
	if msg := checkClear("object", v, vv, vv.HasObjectValidations(), in.Ncb, *calls); msg != "" {
		return "clear object: " + msg, mv(v)
	}
	v2 := v
	v2.SetValidations(w)
	if jsonOf(mv(v2.Validations())) != jsonOf(mv(w)) {
		return "read(write(v,w)) != w on SchemaValidations", []interface{}{mv(v), mv(w)}
	}
	// the four clear operations one after the other, in the order the seed picks among the 24: each is exact from the state
	// the previous ones left, and together they report every keyword that was present exactly once to every callback
	{
		order := clearOrders[int(in.Seed%24)]
		cur := v
		cur.CommonValidations = cloneCommon(v.CommonValidations)
		told := make([]map[string]int, in.Ncb)
		for i := range told {
			told[i] = map[string]int{}
		}
		for _, fam := range order {
			prev := cur
			prev.CommonValidations = cloneCommon(cur.CommonValidations)
			cbs, calls := recorder(in.Ncb)
			var has bool
			switch fam {
			case "number":
				cur.ClearNumberValidations(cbs...)
				has = cur.HasNumberValidations()
			case "string":
				cur.ClearStringValidations(cbs...)
				has = cur.HasStringValidations()
			case "array":
				cur.ClearArrayValidations(cbs...)
				has = cur.HasArrayValidations()
			default:
				cur.ClearObjectValidations(cbs...)
				has = cur.HasObjectValidations()
			}
			if msg := checkClear(fam, prev, cur, has, in.Ncb, *calls); msg != "" {
				return fmt.Sprintf("clear sequence %v, at %s: %s", order, fam, msg), mv(v)
			}
			for _, c := range *calls {
				told[c.cb][c.name]++
			}
		}
		b := kwView(v)
		for i := range told {
			for k, val := range b {
				want := 0
				if !isZeroView(val) && k != "enum" {
					want = 1
				}
				if k != "enum" && told[i][k] != want {
					return fmt.Sprintf("clear sequence %v: callback %d told about %s %d times in all, want %d", order, i, k, told[i][k], want), mv(v)
				}
			}
		}
	}
	// schema
	s := genSchemaCarrier(r, in.Mask)
	before := jsonOf(mv(s))
	s2 := s
	s2.SetValidations(s.Validations())
	if jsonOf(mv(s2)) != before {
		return "write(read(s)) != s on a schema", mv(s)
	}
	s3 := s
	s3.SetValidations(w)
	if jsonOf(mv(s3.Validations())) != jsonOf(mv(w)) {
		return "read(write(s,w)) != w on a schema", []interface{}{mv(s), mv(w)}
	}
	s3.SetValidations(s.Validations())
	if jsonOf(mv(s3)) != before {
		return "writing validations changed a non-validation field of a schema", []interface{}{mv(s), mv(w)}
	}
	// parameter / header / items
	cw := w.CommonValidations
	p := genParamCarrier(r, in.Mask&0xfff)
	pb := p
	pbView := jsonOf(mv(pb)) // taken before the write: the carrier may hold pointers (a body parameter's schema)
	p.WithValidations(cw)
	if jsonOf(mv(p.CommonValidations)) != jsonOf(mv(cw)) {
		return "parameter: written validations not readable back", []interface{}{mv(pb), mv(cw)}
	}
	p.CommonValidations = pb.CommonValidations
	if jsonOf(mv(p)) != pbView {
		return "parameter: WithValidations changed another field", []interface{}{mv(pb), mv(cw)}
	}
	h := genHeaderCarrier(r, in.Mask&0xfff)
	hb := h
	h.WithValidations(cw)
	if jsonOf(mv(h.CommonValidations)) != jsonOf(mv(cw)) {
		return "header: written validations not readable back", []interface{}{mv(hb), mv(cw)}
	}
	h.CommonValidations = hb.CommonValidations
	if jsonOf(mv(h)) != jsonOf(mv(hb)) {
		return "header: WithValidations changed another field", []interface{}{mv(hb), mv(cw)}
	}
	it := genItemsCarrier(r, in.Mask&0xfff)
	ib := it
	it.WithValidations(cw)
	if jsonOf(mv(it.CommonValidations)) != jsonOf(mv(cw)) {
		return "items: written validations not readable back", []interface{}{mv(ib), mv(cw)}
	}
	it.CommonValidations = ib.CommonValidations
	if jsonOf(mv(it)) != jsonOf(mv(ib)) {
		return "items: WithValidations changed another field", []interface{}{mv(ib), mv(cw)}
	}
	return "", nil
}

func oracleVals(r *rng, n int, tier string) *oracleResult {
	res := &oracleResult{Stats: map[string]int{}}
	try := func(in valsInput) {
		res.Evaluations++
		if in.Mask != 0 {
			res.Distinct++
		}
		if msg, obs := checkValsOne(in); msg != "" && len(res.Failures) < 5 {
			res.Failures = append(res.Failures, failure{Property: "C20", What: msg, Shape: strings.SplitN(msg, ":", 2)[0], Input: in, Observed: obs})
		}
	}
	for mask := 0; mask < 1<<15; mask++ {
		try(valsInput{Seed: r.next(), Mask: mask, Ncb: 1 + mask%3})
	}
	for i := 0; i < n; i++ {
		try(valsInput{Seed: r.next(), Mask: r.intn(1 << 15), Ncb: r.intn(4)})
	}
	res.Samples = []interface{}{valsInput{Seed: 1, Mask: 0x7fff, Ncb: 2}}
	return res
}

func replayVals(input json.RawMessage) *oracleResult {
	var in valsInput
	res := &oracleResult{Stats: map[string]int{}, Evaluations: 1}
	if err := json.Unmarshal(input, &in); err != nil {
		res.Failures = append(res.Failures, failure{Property: "C20", What: "bad replay input: " + err.Error()})
		return res
	}
	if msg, obs := checkValsOne(in); msg != "" {
		res.Failures = append(res.Failures, failure{Property: "C20", What: msg, Input: in, Observed: obs})
	}
	return res
}

func init() {
	generators["vals"] = genValsCases
	oracles["C20"] = oracleVals
	replays["C20"] = replayVals
}
