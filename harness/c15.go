package main

import (
	"encoding/json"
	"fmt"
	"strings"

	"github.com/go-openapi/jsonpointer"
)

// C15 on the implementation: a JSON pointer evaluated on the decoded, typed document gives the same JSON value
// as on the document's JSON encoding — for every pointer into the encoding that does not end in "$ref" and does
// not pass through a "$ref" member.

type c15Input struct {
	Kind    string          `json:"kind"`
	Doc     json.RawMessage `json:"doc"`
	Pointer string          `json:"pointer,omitempty"` // a single pointer (replay); empty = every pointer
}

func escTok(t string) string {
	return strings.ReplaceAll(strings.ReplaceAll(t, "~", "~0"), "/", "~1")
}

// allPointers lists every pointer into a generic JSON value (objects and arrays), depth-first.
func allPointers(v interface{}, prefix string, out *[]string, limit int) {
	if len(*out) >= limit {
		return
	}
	switch x := v.(type) {
	case map[string]interface{}:
		for k, e := range x {
			if k == "$ref" {
				continue
			}
			p := prefix + "/" + escTok(k)
			*out = append(*out, p)
			allPointers(e, p, out, limit)
		}
	case []interface{}:
		for i, e := range x {
			p := fmt.Sprintf("%s/%d", prefix, i)
			*out = append(*out, p)
			allPointers(e, p, out, limit)
		}
	}
}

var c15Keywords = map[string]bool{}

func init() {
	for _, k := range []string{"definitions", "properties", "patternProperties", "dependencies", "items", "allOf", "anyOf", "oneOf", "not",
		"additionalProperties", "additionalItems", "paths", "parameters", "responses", "schema", "headers", "info", "contact", "license", "tags",
		"externalDocs", "securityDefinitions", "security", "get", "put", "post", "delete", "options", "head", "patch", "default", "example", "examples",
		"enum", "type", "required", "xml", "scopes", "consumes", "produces", "schemes", "$schema", "id"} {
		c15Keywords[k] = true
	}
}

func c15Shape(kind, ptr string) string {
	toks := strings.Split(strings.TrimPrefix(ptr, "/"), "/")
	gen := make([]string, len(toks))
	inPayload := false
	for i, t := range toks {
		switch {
		case inPayload:
			gen[i] = "…"
		case strings.HasPrefix(strings.ToLower(t), "x-"):
			gen[i] = "x-*"
			inPayload = true
		case t == "default" && i > 0 && toks[i-1] != "responses", t == "example", t == "examples", t == "enum":
			gen[i] = t
			inPayload = true
		case c15Keywords[t]:
			gen[i] = t
		case strings.Trim(t, "0123456789") == "":
			gen[i] = "<n>"
		default:
			gen[i] = "*"
		}
	}
	for i, t := range gen {
		if (t == "contact" || t == "license") && i+1 < len(gen) {
			return "contact-license-extension"
		}
		if t == "externalDocs" && i+1 < len(gen) && gen[i+1] == "x-*" {
			return "externaldocs-xml-extension"
		}
		if t == "xml" && i+1 < len(gen) && gen[i+1] == "x-*" {
			return "externaldocs-xml-extension"
		}
	}
	if toks[len(toks)-1] == "$schema" {
		return "schema-url-member"
	}
	for i, t := range gen {
		if t == "dependencies" && i+2 < len(gen) && gen[i+2] == "<n>" {
			return "dependencies-string-array"
		}
	}
	k := len(gen) - 3
	if k < 0 {
		k = 0
	}
	return "lookup:" + strings.Join(gen[k:], "/")
}

func checkC15(in c15Input) (fs []failure, evaluated int) {
	defer func() {
		if r := recover(); r != nil {
			fs = append(fs, failure{Property: "C15", What: fmt.Sprintf("pointer evaluation panics: %v", r), Shape: "panic", Input: in})
		}
	}()
	v, err, pan := safeDecode(in.Kind, in.Doc)
	if pan != "" || err != nil {
		return nil, 0
	}
	enc, err, pan := safeEncode(v)
	if pan != "" || err != nil {
		return nil, 0
	}
	var generic interface{}
	if json.Unmarshal(enc, &generic) != nil {
		return nil, 0
	}
	var ptrs []string
	if in.Pointer != "" {
		ptrs = []string{in.Pointer}
	} else {
		allPointers(generic, "", &ptrs, 4000)
	}
	seen := map[string]bool{}
	var failedPrefix []string
	for _, p := range ptrs {
		skip := false
		for _, fp := range failedPrefix {
			if strings.HasPrefix(p, fp) {
				skip = true
				break
			}
		}
		if skip {
			continue
		}
		ptr, err := jsonpointer.New(p)
		if err != nil {
			continue
		}
		want, _, err := ptr.Get(generic)
		if err != nil {
			continue
		}
		evaluated++
		got, _, gerr := ptr.Get(v)
		one := in
		one.Pointer = p
		shape := c15Shape(in.Kind, p)
		if gerr != nil {
			failedPrefix = append(failedPrefix, p+"/")
			if i := strings.LastIndex(p, "/"); i > 0 {
				parentTok := p[:i]
				if j := strings.LastIndex(parentTok, "/"); j >= 0 {
					last, prev := p[i+1:], parentTok[j+1:]
					if pp, err := jsonpointer.New(parentTok); err == nil {
						if pv, _, err := pp.Get(generic); err == nil {
							if _, isObj := pv.(map[string]interface{}); isObj && strings.Trim(last, "0123456789") == "" && (prev == "items" || prev == "additionalItems") {
								shape = "numeric-keyword-under-items"
							}
						}
					}
				}
			}
			if !seen[shape] {
				seen[shape] = true
				fs = append(fs, failure{Property: "C15", What: "pointer resolves on the JSON form but not on the typed document: " + gerr.Error(), Shape: shape, Input: one})
			}
			continue
		}
		gb, err1 := json.Marshal(got)
		wb, err2 := json.Marshal(want)
		if err1 != nil || err2 != nil {
			continue
		}
		if eq, _ := jsonEqual(gb, wb); !eq {
			// a typed value may carry members that its encoding omits (zero values): compare through re-decoding of both
			var a, b interface{}
			json.Unmarshal(gb, &a)
			json.Unmarshal(wb, &b)
			if !seen[shape] {
				seen[shape] = true
				fs = append(fs, failure{Property: "C15", What: "typed and JSON evaluation give different values", Shape: shape, Input: one, Observed: json.RawMessage(gb), Expected: json.RawMessage(wb)})
			}
		}
	}
	return fs, evaluated
}

func hasTagC(d cdoc, tag string) bool {
	for _, t := range d.tags {
		if t == tag {
			return true
		}
	}
	return false
}

func oracleC15(r *rng, n int, tier string) *oracleResult {
	res := &oracleResult{Stats: map[string]int{}}
	// (also: operations and documents whose `security` is absent, the empty list - an operation opting out - and non-empty)
	docs := append(codecDocs(r, n, tier), gobExtraDocs()...)
	seen := map[string]bool{}
	for _, d := range docs {
		if (!d.nf || d.phase == 3) && !hasTagC(d, "status-spelling") && !hasTagC(d, "security-state") {
			// (response names of any spelling are kept: whatever the encoding of the decoded document holds is what pointers address)
			continue
		}
		switch d.kind {
		case "Swagger", "Schema", "Parameter", "Response", "Responses", "Header", "Items", "PathItem", "Paths", "Operation", "SecurityScheme", "Info", "Tag":
		default:
			continue
		}
		in := c15Input{Kind: d.kind, Doc: d.doc.bytes()}
		fs, k := checkC15(in)
		res.Evaluations += k
		key := d.kind + string(in.Doc)
		if !seen[key] {
			seen[key] = true
			if k > 0 {
				res.Distinct++
			}
		}
		res.Stats["docs:"+d.kind]++
		for _, f := range fs {
			res.Stats["fail:"+f.Shape]++
			if res.Stats["fail:"+f.Shape] <= 1 {
				res.Failures = append(res.Failures, f)
			}
		}
	}
	res.Samples = []interface{}{c15Input{Kind: "Schema", Doc: json.RawMessage(`{"properties":{"a/b":{"items":{"type":"string","x-foo":1}}}}`), Pointer: "/properties/a~1b/items/x-foo"}}
	return dedupFailures(res)
}

func replayC15(input json.RawMessage) *oracleResult {
	var in c15Input
	res := &oracleResult{Stats: map[string]int{}}
	if err := json.Unmarshal(input, &in); err != nil {
		res.Failures = append(res.Failures, failure{Property: "C15", What: "bad replay input"})
		return res
	}
	fs, k := checkC15(in)
	res.Evaluations = k
	res.Failures = fs
	return res
}

func init() {
	oracles["C15"] = oracleC15
	replays["C15"] = replayC15
}
