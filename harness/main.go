// Command harness runs go-openapi/spec (built from /repo with -tags verif) on generated inputs.
//
//	harness gen <cluster> -seed S -n N -out cases.jsonl     inputs + what the implementation did
//	harness oracle <prop> -seed S -n N -out replay.json     the property itself, checked on the implementation
//	harness replay <prop> <file>                            re-run one recorded failing input
package main

import (
	"bufio"
	"encoding/json"
	"flag"
	"fmt"
	"os"
)

type caseWriter struct {
	w     *bufio.Writer
	n     int
	stats map[string]int
}

func (c *caseWriter) emit(m orderedMap) {
	m = append(orderedMap{{"id", c.n}}, m...)
	b, err := json.Marshal(m)
	if err != nil {
		fmt.Fprintln(os.Stderr, "harness: cannot encode case:", err)
		os.Exit(3)
	}
	c.w.Write(b)
	c.w.WriteByte('\n')
	c.n++
}

func (c *caseWriter) count(k string) { c.stats[k]++ }

// failure is what an oracle reports: the property, a description and a replayable input.
type failure struct {
	Property string      `json:"property"`
	What     string      `json:"what"`
	Shape    string      `json:"shape,omitempty"` // classification used to match known findings
	Input    interface{} `json:"input"`
	Observed interface{} `json:"observed,omitempty"`
	Expected interface{} `json:"expected,omitempty"`
}

type oracleResult struct {
	Evaluations int            `json:"evaluations"`
	Distinct    int            `json:"distinct_nontrivial"`
	Stats       map[string]int `json:"stats"`
	Failures    []failure      `json:"failures"`
	Samples     []interface{}  `json:"samples"`
}

var generators = map[string]func(r *rng, n int, tier string, cw *caseWriter){}
var oracles = map[string]func(r *rng, n int, tier string) *oracleResult{}
var replays = map[string]func(input json.RawMessage) *oracleResult{}
var appliers = map[string]func(in, out string) error{}

func main() {
	if len(os.Args) < 3 {
		fmt.Fprintln(os.Stderr, "usage: harness gen|oracle|replay <name> [flags]")
		os.Exit(2)
	}
	cmd, name := os.Args[1], os.Args[2]
	fs := flag.NewFlagSet(cmd, flag.ExitOnError)
	seed := fs.Uint64("seed", 1, "seed")
	n := fs.Int("n", 1000, "number of random cases")
	out := fs.String("out", "", "output file")
	tier := fs.String("tier", "quick", "quick|thorough")
	switch cmd {
	case "gen":
		fs.Parse(os.Args[3:])
		g, ok := generators[name]
		if !ok {
			fmt.Fprintln(os.Stderr, "harness: no generator", name)
			os.Exit(2)
		}
		f, err := os.Create(*out)
		if err != nil {
			fmt.Fprintln(os.Stderr, err)
			os.Exit(3)
		}
		cw := &caseWriter{w: bufio.NewWriterSize(f, 1<<20), stats: map[string]int{}}
		g(newRng(*seed), *n, *tier, cw)
		cw.w.Flush()
		f.Close()
		st, _ := json.Marshal(map[string]interface{}{"cases": cw.n, "stats": cw.stats})
		fmt.Println(string(st))
	case "oracle":
		fs.Parse(os.Args[3:])
		o, ok := oracles[name]
		if !ok {
			fmt.Fprintln(os.Stderr, "harness: no oracle", name)
			os.Exit(2)
		}
		res := o(newRng(*seed), *n, *tier)
		writeResult(res, *out)
	case "apply":
		if len(os.Args) < 5 {
			fmt.Fprintln(os.Stderr, "usage: harness apply <name> <in.jsonl> <out.jsonl>")
			os.Exit(2)
		}
		ap, ok := appliers[name]
		if !ok {
			fmt.Fprintln(os.Stderr, "harness: no applier", name)
			os.Exit(2)
		}
		if err := ap(os.Args[3], os.Args[4]); err != nil {
			fmt.Fprintln(os.Stderr, err)
			os.Exit(3)
		}
	case "replay":
		if len(os.Args) < 4 {
			fmt.Fprintln(os.Stderr, "usage: harness replay <prop> <file>")
			os.Exit(2)
		}
		rp, ok := replays[name]
		if !ok {
			fmt.Fprintln(os.Stderr, "harness: no replay for", name)
			os.Exit(2)
		}
		b, err := os.ReadFile(os.Args[3])
		if err != nil {
			fmt.Fprintln(os.Stderr, err)
			os.Exit(3)
		}
		var doc struct {
			Input json.RawMessage `json:"input"`
		}
		if err := json.Unmarshal(b, &doc); err != nil || doc.Input == nil {
			fmt.Fprintln(os.Stderr, "harness: replay file has no input")
			os.Exit(3)
		}
		res := rp(doc.Input)
		writeResult(res, "")
		if len(res.Failures) > 0 {
			os.Exit(1)
		}
	default:
		fmt.Fprintln(os.Stderr, "harness: unknown command", cmd)
		os.Exit(2)
	}
}

func writeResult(res *oracleResult, out string) {
	if res.Failures == nil {
		res.Failures = []failure{}
	}
	b, _ := json.MarshalIndent(res, "", " ")
	if out == "" {
		fmt.Println(string(b))
		return
	}
	if err := os.WriteFile(out, b, 0o644); err != nil {
		fmt.Fprintln(os.Stderr, err)
		os.Exit(3)
	}
}
