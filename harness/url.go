package main

import (
	"bytes"
	"encoding/gob"
	"encoding/json"
	"fmt"
	"net/url"
	"os"
	"path"
	"strconv"
	"strings"

	"github.com/go-openapi/spec"
)

// ---------------------------------------------------------------------------------------------
// implementation-side observations (same shapes as Extract/DriverUrl.v)

func guard(f func() interface{}) (out interface{}) {
	defer func() {
		if r := recover(); r != nil {
			out = orderedMap{{"err", true}}
		}
	}()
	return f()
}

func strOut(s string) interface{} { return orderedMap{{"str", s}} }

func goNewRef(s string) interface{} {
	r, err := spec.NewRef(s)
	if err != nil {
		return orderedMap{{"err", true}}
	}
	return orderedMap{{"str", r.String()},
		{"flags", []bool{r.HasFullURL, r.HasURLPathOnly, r.HasFragmentOnly, r.HasFileScheme, r.HasFullFilePath}},
		{"canonical", r.IsCanonical()}, {"root", r.IsRoot()}, {"remote", r.RemoteURI()}}
}

func goURLString(s string) interface{} {
	u, err := url.Parse(s)
	if err != nil {
		return orderedMap{{"err", true}}
	}
	u.OmitHost = false
	return strOut(u.String())
}

func goNormalizeURI(ref, base string) interface{} {
	return guard(func() interface{} { return strOut(spec.VerifNormalizeURI(ref, base)) })
}

func goNormalizeBase(in string) interface{} {
	return guard(func() interface{} { return strOut(spec.VerifNormalizeBase(in)) })
}

func goRFC(ref, base string) interface{} {
	r, err := url.Parse(ref)
	if err != nil {
		return orderedMap{{"err", true}}
	}
	b, err := url.Parse(base)
	if err != nil {
		return orderedMap{{"err", true}}
	}
	t := b.ResolveReference(r)
	t.OmitHost = false
	return strOut(t.String())
}

func goDenormalize(ref, base, id string) interface{} {
	return guard(func() interface{} {
		r, err := spec.NewRef(ref)
		if err != nil {
			return orderedMap{{"err", true}}
		}
		d := spec.VerifDenormalizeRef(&r, base, id)
		return strOut(d.String())
	})
}

func goRebase(ref, base string, ne bool) interface{} {
	return guard(func() interface{} {
		r, err := spec.NewRef(ref)
		if err != nil {
			return orderedMap{{"err", true}}
		}
		if _, err := url.Parse(base); err != nil {
			return orderedMap{{"err", true}}
		}
		d, ok := spec.VerifRebase(&r, base, ne)
		return orderedMap{{"str", d.String()}, {"ok", ok}}
	})
}

// ---------------------------------------------------------------------------------------------
// generators

var segAlphabet = []string{"a", "b.c", ".", "..", "%20x", "é", "d e", "x~y"}
var fileNames = []string{"f.json", "g", "h.yaml", "é.json", "%41.json"}

func cartesian(alpha []string, n int, f func([]string)) {
	idx := make([]int, n)
	cur := make([]string, n)
	for {
		for i := range idx {
			cur[i] = alpha[idx[i]]
		}
		f(cur)
		k := n - 1
		for k >= 0 {
			idx[k]++
			if idx[k] < len(alpha) {
				break
			}
			idx[k] = 0
			k--
		}
		if k < 0 {
			return
		}
	}
}

var c12Bases = []string{
	"file:///root.json", "file:///r/root.json", "file:///r/a/root.json", "file:///r/a/b/root.json",
	"http://h/root.json", "http://h/r/root.json", "https://h:8443/r/a/root.json", "file://host/r/root.json",
	"http://h/r/a/b/c/root.json",
	// containing documents whose name has no extension (RFC 3986 5.2.3 drops the last segment of the base whatever it looks like)
	"file:///r/doc", "http://h/v2/api-docs", "https://h:8443/a.b/c/spec",
	// a local file named with an authority
	"file://localhost/r/a/root.json",
}

// c12Refs enumerates the in-scope references: up to maxSegs directory segments followed by a file name.
func c12Refs(maxSegs int, f func(ref string)) {
	for n := 0; n <= maxSegs; n++ {
		emit := func(segs []string) {
			for _, fn := range fileNames[:3] {
				p := strings.Join(append(append([]string{}, segs...), fn), "/")
				for _, rooted := range []string{"", "/"} {
					for _, frag := range []string{"", "#/definitions/x", "#/a~1b/%25"} {
						f(rooted + p + frag)
					}
				}
			}
		}
		if n == 0 {
			emit(nil)
		} else {
			cartesian(segAlphabet[:6], n, emit)
		}
	}
}

func genURLCases(r *rng, n int, tier string, cw *caseWriter) {
	emit := func(op string, nt bool, m orderedMap, goOut interface{}) {
		m = append(orderedMap{{"op", op}, {"nt", nt}}, m...)
		m = append(m, kv{"go", goOut})
		cw.emit(m)
		cw.count(op)
	}
	// --- C12: references against bases, exhaustively over the alphabet
	maxSegs := 2
	if tier == "thorough" {
		maxSegs = 4
	}
	for _, b := range c12Bases {
		c12Refs(maxSegs, func(ref string) {
			emit("normalize_uri", true, orderedMap{{"a", ref}, {"b", b}}, goNormalizeURI(ref, b))
		})
	}
	c12Refs(2, func(ref string) {
		for _, b := range c12Bases[:5] {
			emit("rfc_resolve", true, orderedMap{{"a", ref}, {"b", b}}, goRFC(ref, b))
		}
	})
	for _, ref := range []string{"", "#", "#/x", "?q=1", "?q=1#/x", "http://o/x.json", "http://o/x.json#/y", "file:///z/x.json", "HTTP://O:80//x//y.json#/z",
		"a/", "a//b.json", "./", "..", ".", "a/.", "a/..", "a%2Fb.json", "a b.json", "//h2/p.json", "file:/z.json", "x.json?q=1#/f"} {
		for _, b := range c12Bases {
			emit("normalize_uri", true, orderedMap{{"a", ref}, {"b", b}}, goNormalizeURI(ref, b))
			emit("rfc_resolve", true, orderedMap{{"a", ref}, {"b", b}}, goRFC(ref, b))
		}
	}
	// --- package path
	pathAlpha := []string{"a", ".", "..", "", "b.c"}
	for k := 0; k <= 4; k++ {
		f := func(segs []string) {
			for _, rooted := range []string{"", "/"} {
				p := rooted + strings.Join(segs, "/")
				emit("clean", p != "", orderedMap{{"a", p}}, strOut(path.Clean(p)))
				emit("dir", p != "", orderedMap{{"a", p}}, strOut(path.Dir(p)))
			}
		}
		if k == 0 {
			f(nil)
		} else {
			cartesian(pathAlpha, k, f)
		}
	}
	cartesian(pathAlpha, 2, func(a []string) {
		cartesian(pathAlpha, 2, func(b []string) {
			x, y := "/"+strings.Join(a, "/"), strings.Join(b, "/")
			emit("join", true, orderedMap{{"a", x}, {"b", y}}, strOut(path.Join(x, y)))
		})
	})
	// --- C13: reference strings from a token grammar
	tokens := []string{"http:", "HTTPS:", "file:", "//", "Host", "h.io:80", "h:443", "h:8080", "/", "a", "B%2f", " c", "é", "?q=1", "#", "#/d~0e~1f/%7E", ".", ".."}
	maxTok := 3
	if tier == "thorough" {
		maxTok = 4
	}
	for k := 0; k <= maxTok; k++ {
		f := func(t []string) {
			s := strings.Join(t, "")
			emit("new_ref", s != "", orderedMap{{"a", s}}, goNewRef(s))
			if k <= 3 {
				emit("url_string", s != "", orderedMap{{"a", s}}, goURLString(s))
			}
		}
		if k == 0 {
			f(nil)
		} else {
			cartesian(tokens, k, f)
		}
	}
	// structured random references
	for i := 0; i < n; i++ {
		s := randomRefString(r)
		emit("new_ref", true, orderedMap{{"a", s}}, goNewRef(s))
		emit("url_string", true, orderedMap{{"a", s}}, goURLString(s))
	}
	// --- C11: spellings of locations
	cwd, _ := os.Getwd()
	for _, loc := range c11Locations {
		for _, sp := range spellings(loc, cwd, r, 40) {
			emit("normalize_base", true, orderedMap{{"a", cwd}, {"b", sp}}, goNormalizeBase(sp))
		}
	}
	for _, s := range []string{"", ".", "..", "x", "x/", "/", "file:", "file://", "file:///", "file:///x?", "x?", "x?q", "a b", "%zz", ":x", "http://h", "http://h/", "http://h/a/../b?q#f", "HTTP://H/A", "file://host/x/y.json", "file:///r/root.json?q=1"} {
		emit("normalize_base", true, orderedMap{{"a", cwd}, {"b", s}}, goNormalizeBase(s))
	}
	// --- rebasing (used by the expander when it keeps a circular $ref)
	docs := []string{"file:///r/root.json", "file:///r/a/root.json", "file:///r/api", "http://h/r/root.json", "file:///root.json"}
	targets := []string{"file:///r/root.json#/definitions/x", "file:///r/other.json#/d", "file:///r/a/b/o.json", "file:///r/a/root.json#/p",
		"file:///q/o.json#/d", "file:///r/api-defs.json#/d", "http://h/r/sub/o.json#/d", "http://h2/r/o.json#/d", "file:///r/root.jsonx", "file:///o.json", "#/x", ""}
	for _, d := range docs {
		for _, t := range targets {
			emit("denormalize", true, orderedMap{{"a", t}, {"b", d}, {"c", ""}}, goDenormalize(t, d, ""))
			emit("denormalize", true, orderedMap{{"a", t}, {"b", d}, {"c", "http://h/r/id.json"}}, goDenormalize(t, d, "http://h/r/id.json"))
			for _, ne := range []bool{false, true} {
				emit("rebase", true, orderedMap{{"a", t}, {"b", d}, {"ne", ne}}, goRebase(t, d, ne))
			}
		}
	}
}

func randomRefString(r *rng) string {
	var b strings.Builder
	if r.chance(2, 3) {
		b.WriteString(r.pick([]string{"http", "HTTP", "https", "Https", "file", "FILE", "ws"}))
		b.WriteString(":")
		if r.chance(4, 5) {
			b.WriteString("//")
			if r.chance(3, 4) {
				b.WriteString(r.pick([]string{"host", "Host.Example.COM", "h-1.io", "127.0.0.1", "é.org"}))
				if r.chance(1, 2) {
					b.WriteString(r.pick([]string{":80", ":443", ":8080", ":0080", ":"}))
				}
			}
		}
		if r.chance(4, 5) {
			b.WriteString("/")
		}
	} else if r.chance(1, 3) {
		b.WriteString("/")
	}
	nseg := r.intn(4)
	for i := 0; i < nseg; i++ {
		if i > 0 {
			b.WriteString(r.pick([]string{"/", "/", "//"}))
		}
		b.WriteString(r.pick([]string{"a", "B", "c.json", ".", "..", "%7Ex", "%7ex", "d e", "é", "f+g", "h;i", "j@k", "l,m", "{n}", "o:p"}))
	}
	if r.chance(1, 5) {
		b.WriteString("?" + r.pick([]string{"", "q=1", "a=b&c=d"}))
	}
	if r.chance(1, 2) {
		b.WriteString("#" + r.pick([]string{"", "/definitions/x", "/a~1b", "/c~0d", "/%7E", "/e f", "frag", "/é", "/x%2Fy"}))
	}
	return b.String()
}

// ---------------------------------------------------------------------------------------------
// C11: equivalent spellings of a location

var c11Locations = []string{
	"file:///root.json", "file:///r/root.json", "file:///r/a/root.json", "file:///r/a/b/root.json",
	"http://h/root.json", "http://h/r/a/root.json", "https://h:8443/r/root.json", "https://h/r/a/b/root.json",
	"file://host/r/root.json",
}

type rewrite struct {
	name string
	f    func(s string, r *rng) (string, bool)
}

func pathOf(s string) (prefix, p, rest string) {
	// split "scheme://host" / path / "?query#frag"
	i := strings.Index(s, "://")
	start := 0
	if i >= 0 {
		j := strings.Index(s[i+3:], "/")
		if j < 0 {
			return s, "", ""
		}
		start = i + 3 + j
	} else if strings.HasPrefix(s, "file:/") {
		start = 5
	} else if k := strings.Index(s, ":"); k >= 0 && !strings.Contains(s[:k], "/") {
		return s, "", ""
	}
	end := len(s)
	if k := strings.IndexAny(s[start:], "?#"); k >= 0 {
		end = start + k
	}
	return s[:start], s[start:end], s[end:]
}

func insertAt(p string, r *rng, what string) (string, bool) {
	var slashes []int
	for i := 0; i < len(p); i++ {
		if p[i] == '/' {
			slashes = append(slashes, i)
		}
	}
	if len(slashes) == 0 {
		return p, false
	}
	k := slashes[r.intn(len(slashes))]
	return p[:k+1] + what + p[k+1:], true
}

var rewrites = []rewrite{
	{"dot", func(s string, r *rng) (string, bool) {
		pre, p, rest := pathOf(s)
		q, ok := insertAt(p, r, "./")
		return pre + q + rest, ok
	}},
	{"updown", func(s string, r *rng) (string, bool) {
		pre, p, rest := pathOf(s)
		q, ok := insertAt(p, r, r.pick([]string{"x/../", "y.z/../", "x/y/../../"}))
		return pre + q + rest, ok
	}},
	{"dupslash", func(s string, r *rng) (string, bool) {
		pre, p, rest := pathOf(s)
		// only inside the path, never at its start (a leading "//" starts an authority)
		if len(p) < 2 {
			return s, false
		}
		q, ok := insertAt(p[1:], r, "/")
		return pre + p[:1] + q + rest, ok
	}},
	{"dupfirst", func(s string, r *rng) (string, bool) {
		// after an explicit authority ("scheme://host", the empty one of "file://" included) the path may also begin with a
		// doubled slash: an empty first segment, not an authority
		pre, p, rest := pathOf(s)
		if !strings.Contains(pre, "://") || !strings.HasPrefix(p, "/") || strings.HasPrefix(p, "//") {
			return s, false
		}
		return pre + "/" + p + rest, true
	}},
	{"file1", func(s string, r *rng) (string, bool) {
		if strings.HasPrefix(s, "file:///") && !strings.HasPrefix(s, "file:////") {
			return "file:/" + s[8:], true
		}
		return s, false
	}},
	{"file3", func(s string, r *rng) (string, bool) {
		if strings.HasPrefix(s, "file:/") && !strings.HasPrefix(s, "file://") {
			return "file:///" + s[6:], true
		}
		return s, false
	}},
	{"barepath", func(s string, r *rng) (string, bool) {
		if strings.HasPrefix(s, "file:///") && !strings.HasPrefix(s, "file:////") {
			return s[7:], true
		}
		return s, false
	}},
	{"schemecase", func(s string, r *rng) (string, bool) {
		i := strings.Index(s, ":")
		if i <= 0 || strings.Contains(s[:i], "/") {
			return s, false
		}
		return strings.ToUpper(s[:i]) + s[i:], true
	}},
	{"fragment", func(s string, r *rng) (string, bool) {
		if strings.Contains(s, "#") {
			return s, false
		}
		return s + r.pick([]string{"#", "#/definitions/x", "#frag", "#/", "#/definitions/", "#a/b/"}), true
	}},
	{"query", func(s string, r *rng) (string, bool) {
		// for files only
		if strings.ContainsAny(s, "?#") || strings.HasPrefix(strings.ToLower(s), "http") {
			return s, false
		}
		return s + r.pick([]string{"?q=1", "?"}), true
	}},
}

// spellings returns the location itself plus k random compositions of 1..4 rewrites, and for bare
// file paths under cwd a relative spelling.
func spellings(loc, cwd string, r *rng, k int) []string {
	out := []string{loc}
	seen := map[string]bool{loc: true}
	for i := 0; i < k; i++ {
		s := loc
		var names []string
		for j := 0; j < 1+r.intn(4); j++ {
			rw := rewrites[r.intn(len(rewrites))]
			if t, ok := rw.f(s, r); ok {
				s = t
				names = append(names, rw.name)
			}
		}
		if !seen[s] {
			seen[s] = true
			out = append(out, s)
		}
	}
	return out
}

// ---------------------------------------------------------------------------------------------
// oracles: the properties themselves, on the implementation

func c12InScope(ref string) bool {
	u, err := url.Parse(ref)
	if err != nil || u.Scheme != "" || u.Host != "" || u.RawQuery != "" || u.ForceQuery || u.Opaque != "" {
		return false
	}
	p := u.EscapedPath()
	if p == "" {
		return true // fragment-only or empty
	}
	segs := strings.Split(strings.TrimPrefix(p, "/"), "/")
	for _, s := range segs {
		if s == "" {
			return false
		}
	}
	last := segs[len(segs)-1]
	return last != "." && last != ".."
}

func stripFragment(s string) string {
	if i := strings.Index(s, "#"); i >= 0 {
		return s[:i]
	}
	return s
}

func normUnreserved(s string) string {
	var b strings.Builder
	for i := 0; i < len(s); i++ {
		if s[i] == '%' && i+2 < len(s)+0 && i+2 <= len(s)-1+0 {
			if v, err := url.PathUnescape(s[i : i+3]); err == nil && len(v) == 1 {
				c := v[0]
				if c >= 'a' && c <= 'z' || c >= 'A' && c <= 'Z' || c >= '0' && c <= '9' || c == '-' || c == '_' || c == '~' || c == '.' {
					b.WriteByte(c)
				} else {
					b.WriteString(strings.ToUpper(s[i : i+3]))
				}
				i += 2
				continue
			}
		}
		b.WriteByte(s[i])
	}
	return b.String()
}

type c12Input struct {
	Ref  string `json:"ref"`
	Base string `json:"base"`
	Hop2 string `json:"hop2,omitempty"` // two-hop form: Ref leads from the root at Base into a document whose own reference is Hop2
	Pair string `json:"pair,omitempty"` // pair form: a second, absolute reference used in the same expansion (another document)
}

// checkC12Pair: two references of one document, used in one expansion: Ref (located from Base) and the absolute reference Pair,
// which designates ANOTHER document (its location differs from the first one's by the scheme, the port or a query).  Absolute
// references are used as they are: the loader is asked for both locations and each schema comes from its own document.
func checkC12Pair(in c12Input) (msg, shape string, obs, exp interface{}) {
	defer func() {
		if r := recover(); r != nil {
			msg, shape = fmt.Sprintf("expansion panics: %v", r), "panic"
		}
	}()
	t1, ok1 := c12Resolve(in.Base, in.Ref)
	t2, ok2 := c12Resolve(in.Base, in.Pair)
	if !ok1 || !ok2 || t1 == t2 || t1 == normUnreserved(in.Base) || t2 == normUnreserved(in.Base) {
		return
	}
	doc := func(who string) string { return `{"definitions":{"y":{"type":"string","description":"` + who + `"}}}` }
	root := `{"type":"object","properties":{"a":{"$ref":"` + in.Ref + `#/definitions/y"},"b":{"$ref":"` + in.Pair + `#/definitions/y"}}}`
	for _, order := range []string{"ab", "ba"} {
		text := root
		if order == "ba" {
			text = `{"type":"object","properties":{"a":{"$ref":"` + in.Pair + `#/definitions/y"},"b":{"$ref":"` + in.Ref + `#/definitions/y"}}}`
		}
		asked := map[string]bool{}
		loader := func(u string) (json.RawMessage, error) {
			k := normUnreserved(stripFragment(u))
			asked[k] = true
			switch k {
			case t1:
				return json.RawMessage(doc("first")), nil
			case t2:
				return json.RawMessage(doc("second")), nil
			}
			return nil, fmt.Errorf("no document at %s", u)
		}
		sch := new(spec.Schema)
		if err := json.Unmarshal([]byte(text), sch); err != nil {
			return
		}
		if err := spec.ExpandSchemaWithBasePath(sch, nil, &spec.ExpandOptions{RelativeBase: in.Base, PathLoader: loader}); err != nil {
			return "expansion fails although both RFC 3986 targets are served", "e2e-pair", err.Error(), []string{t1, t2}
		}
		if !asked[t1] || !asked[t2] {
			return "two references that designate different documents: the loader is not asked for both locations", "e2e-pair", fmt.Sprint(asked), []string{t1, t2}
		}
		out, _ := json.Marshal(sch)
		want := `"a":{"description":"first"`
		if order == "ba" {
			want = `"a":{"description":"second"`
		}
		if !strings.Contains(string(out), want) || !strings.Contains(string(out), `"first"`) || !strings.Contains(string(out), `"second"`) {
			return "two references that designate different documents: a schema does not come from the document its reference designates", "e2e-pair", string(out), []string{t1, t2}
		}
	}
	return
}

// c12Resolve: RFC 3986 reference resolution, by net/url.
func c12Resolve(base, ref string) (string, bool) {
	b, err1 := url.Parse(base)
	r, err2 := url.Parse(ref)
	if err1 != nil || err2 != nil {
		return "", false
	}
	w := b.ResolveReference(r)
	w.OmitHost = false
	w.Fragment, w.RawFragment = "", ""
	return normUnreserved(w.String()), true
}

// checkC12TwoHop: a parameter and a response of the root document at Base are references (Ref) into a second document, whose
// schemas are references (Hop2) into a third one.  Every reference is located from the document that contains it: the loader
// must be asked for RFC(Base, Ref) and then for RFC(RFC(Base, Ref), Hop2), and for nothing else.
func checkC12TwoHop(in c12Input) (msg, shape string, obs, exp interface{}) {
	defer func() {
		if r := recover(); r != nil {
			msg, shape = fmt.Sprintf("expansion panics: %v", r), "panic"
		}
	}()
	t1, ok1 := c12Resolve(in.Base, in.Ref)
	if !ok1 {
		return
	}
	t2, ok2 := c12Resolve(t1, in.Hop2)
	if !ok2 || t1 == normUnreserved(in.Base) || t2 == t1 || t2 == normUnreserved(in.Base) {
		return
	}
	// (the second document also holds a path item, imported by the root, whose path-level parameters - the ones shared by its
	// operations - refer to the third document: located from the document that contains the path item, like everything else)
	second := `{"swagger":"2.0","info":{"title":"second","version":"1"},"paths":{"/q":{"parameters":[{"name":"s","in":"body","schema":{"$ref":"` + in.Hop2 + `#/definitions/y"}},` +
		`{"$ref":"` + in.Hop2 + `#/parameters/shared"}],"get":{"responses":{"200":{"description":"d","schema":{"$ref":"` + in.Hop2 + `#/definitions/y"}}}}}},` +
		`"parameters":{"q":{"name":"q","in":"body","schema":{"$ref":"` + in.Hop2 + `#/definitions/y"}}},` +
		`"responses":{"r":{"description":"d","schema":{"$ref":"` + in.Hop2 + `#/definitions/y"}}},` +
		`"definitions":{"y":{"type":"integer"}}}`
	third := `{"definitions":{"y":{"type":"string","description":"third"}},"parameters":{"shared":{"name":"shared","in":"query","type":"string","description":"third"}}}`
	root := `{"swagger":"2.0","info":{"title":"root","version":"1"},"definitions":{"y":{"type":"boolean"}},` +
		`"paths":{"/p":{"get":{"parameters":[{"$ref":"` + in.Ref + `#/parameters/q"}],"responses":{"200":{"$ref":"` + in.Ref + `#/responses/r"}}}},` +
		`"/q":{"$ref":"` + in.Ref + `#/paths/~1q"}}}`
	var asked []string
	loader := func(u string) (json.RawMessage, error) {
		k := normUnreserved(stripFragment(u))
		asked = append(asked, k)
		switch k {
		case t1:
			return json.RawMessage(second), nil
		case t2:
			return json.RawMessage(third), nil
		case normUnreserved(in.Base):
			return json.RawMessage(root), nil
		}
		return nil, fmt.Errorf("no document at %s", u)
	}
	sw := new(spec.Swagger)
	if err := json.Unmarshal([]byte(root), sw); err != nil {
		return
	}
	err := spec.ExpandSpec(sw, &spec.ExpandOptions{RelativeBase: in.Base, PathLoader: loader})
	for _, a := range asked {
		if a != t1 && a != t2 && a != normUnreserved(in.Base) {
			return "after a first hop, the loader is asked for a document other than the RFC 3986 target of the second reference", "e2e-two-hop", a, []string{t1, t2}
		}
	}
	if err != nil {
		return "two-hop expansion fails although every RFC 3986 target is served", "e2e-two-hop", err.Error(), []string{t1, t2}
	}
	out, _ := json.Marshal(sw.Paths)
	if !strings.Contains(string(out), `"third"`) || strings.Contains(string(out), `"boolean"`) || strings.Contains(string(out), `"integer"`) {
		return "the schema reached through two hops is not the one in the RFC 3986 target of the second reference", "e2e-two-hop", string(out), t2
	}
	return
}

func checkC12(in c12Input) (msg, shape string, obs, exp interface{}) {
	if in.Hop2 != "" {
		return checkC12TwoHop(in)
	}
	if in.Pair != "" {
		return checkC12Pair(in)
	}
	defer func() {
		if r := recover(); r != nil {
			msg, shape = fmt.Sprintf("normalizeURI panics: %v", r), "panic"
		}
	}()
	got := spec.VerifNormalizeURI(in.Ref, in.Base)
	r, err := url.Parse(in.Ref)
	if err != nil {
		return
	}
	b, _ := url.Parse(in.Base)
	want := b.ResolveReference(r)
	want.OmitHost = false
	if r.IsAbs() && r.Host != "" || r.Scheme == "file" && strings.HasPrefix(r.Path, "/") {
		// an absolute reference is used as it is (in its canonical spelling)
		cr, _ := spec.NewRef(in.Ref)
		if got != cr.String() {
			// path cleaning of an absolute reference is also what RFC 3986 prescribes
			w2, _ := spec.NewRef(want.String())
			if got != w2.String() {
				return "absolute reference not used as it is", "absolute", got, cr.String()
			}
		}
		return
	}
	if !c12InScope(in.Ref) {
		return
	}
	gu, err := url.Parse(got)
	if err != nil {
		return "normalizeURI returns an unparsable URL", "unparsable", got, nil
	}
	// compared modulo RFC 3986 6.2.2.1/6.2.2.2: case of hex digits, escapes of unreserved characters
	wantDoc, gotDoc := normUnreserved(stripFragment(want.String())), normUnreserved(stripFragment(got))
	if gotDoc != wantDoc {
		shape := "resolution"
		if l := strings.ToLower(in.Ref); strings.Contains(l, "%2f") || strings.Contains(l, "%2e") {
			shape = "escaped-syntax" // an escape that decodes to "/" or ".": the decoded path is cleaned
		}
		return "document located differs from RFC 3986 resolution", shape, gotDoc, wantDoc
	}
	if gu.Fragment != r.Fragment {
		return "fragment of the reference not preserved", "fragment", gu.Fragment, r.Fragment
	}
	// end to end: the document the loader is asked for when a schema with this `$ref` is expanded at this base
	if r.Path != "" {
		var asked []string
		loader := func(u string) (json.RawMessage, error) {
			asked = append(asked, u)
			return json.RawMessage(`{"definitions":{"x":{"type":"string"},"a/b":{"type":"string"},"%":{"type":"string"}}}`), nil
		}
		sch := spec.RefSchema(in.Ref)
		_ = spec.ExpandSchemaWithBasePath(sch, nil, &spec.ExpandOptions{RelativeBase: in.Base, PathLoader: loader, ContinueOnError: true})
		if len(asked) == 0 {
			return "no document is requested from the loader for a reference to another document", "e2e-not-loaded", nil, wantDoc
		}
		if a := normUnreserved(stripFragment(asked[0])); a != wantDoc {
			return "the loader is asked for a document other than the RFC 3986 target", "e2e-resolution", a, wantDoc
		}
	}
	return
}

func oracleC12(r *rng, n int, tier string) *oracleResult {
	res := &oracleResult{Stats: map[string]int{}}
	seen := map[string]bool{}
	try := func(in c12Input) {
		res.Evaluations++
		k := in.Ref + "\x00" + in.Base
		if !seen[k] {
			seen[k] = true
			if in.Ref != "" {
				res.Distinct++
			}
		}
		if c12InScope(in.Ref) {
			res.Stats["in_scope"]++
		} else {
			res.Stats["other"]++
		}
		if msg, shape, obs, exp := checkC12(in); msg != "" {
			res.Stats["fail:"+shape]++
			if res.Stats["fail:"+shape] <= 3 {
				res.Failures = append(res.Failures, failure{Property: "C12", What: msg, Shape: shape, Input: in, Observed: obs, Expected: exp})
			}
		}
	}
	maxSegs := 3
	if tier == "thorough" {
		maxSegs = 4
	}
	for _, b := range c12Bases {
		c12Refs(maxSegs, func(ref string) { try(c12Input{Ref: ref, Base: b}) })
		for _, ref := range []string{"", "#", "#/x", "http://o/x.json", "http://o/x.json#/y", "file:///z/x.json", "https://o:444/a/b.json#/c"} {
			try(c12Input{Ref: ref, Base: b})
		}
	}
	// two hops: the first reference leads into another document (next to the root, in another folder, at the same path on
	// another scheme, host or port), whose own references are relative, root-relative or fragment-carrying
	for _, b := range c12Bases {
		bu, _ := url.Parse(b)
		firsts := []string{"second.json", "sub/second.json", "../second.json", "/abs/second.json"}
		for _, twin := range []string{"https://other.example" + bu.Path, "http://" + bu.Host + ":8080" + bu.Path, "https://" + bu.Host + bu.Path} {
			if tu, err := url.Parse(twin); err == nil && tu.Host != "" && tu.Host != ":8080" && twin != b {
				firsts = append(firsts, twin)
			}
		}
		for _, f := range firsts {
			for _, h := range []string{"third.json", "sub/third.json", "../models/third.json", "/m/third.json"} {
				try(c12Input{Ref: f, Base: b, Hop2: h})
			}
		}
	}
	// pairs: a second document whose location differs from the first one's by the scheme, the port or a query only
	for _, b := range c12Bases {
		for _, ref := range []string{"x.json", "../defs/x.json", "sub/x%20y.json", "http://o.example/defs/x.json", "https://o.example/defs/x.json"} {
			t1, ok := c12Resolve(b, ref)
			tu, err := url.Parse(t1)
			if !ok || err != nil || (tu.Scheme != "http" && tu.Scheme != "https") || tu.Host == "" {
				continue
			}
			other := map[string]string{"http": "https", "https": "http"}[tu.Scheme]
			host := tu.Hostname()
			for _, pair := range []string{other + "://" + tu.Host + tu.EscapedPath(), tu.Scheme + "://" + host + ":8080" + tu.EscapedPath(), t1 + "?rev=2"} {
				try(c12Input{Ref: ref, Base: b, Pair: pair})
			}
		}
	}
	// documents whose location merely CONTINUES the location of the base as a string (spec.json.bak next to spec.json, a folder
	// spec.json.d): another document, whatever a prefix test says
	for _, b := range c12Bases {
		name := b[strings.LastIndex(b, "/")+1:]
		if name == "" {
			continue
		}
		for _, suf := range []string{".bak", "5", ".d/types.json", "-v2", "%20copy"} {
			for _, pre := range []string{"", "./"} {
				try(c12Input{Ref: pre + name + suf, Base: b})
				try(c12Input{Ref: pre + name + suf + "#/definitions/x", Base: b})
			}
		}
		try(c12Input{Ref: b + ".old", Base: b})
		try(c12Input{Ref: b + ".old#/definitions/x", Base: b})
	}
	// random longer references, including escapes that decode to reserved characters
	segs := []string{"a", "b.c", ".", "..", "%20x", "é", "x%2Fy", "x%2fy", "%2E%2E", "%2e", "q%3Fr", "s%23t", "u%25v", "w+x", "y;z",
		"...", "..g", "g..", "v1..2", ".h"} // names with dots that are not dot segments (RFC 3986 5.4.2)
	for i := 0; i < n; i++ {
		k := 1 + r.intn(7)
		var parts []string
		for j := 0; j < k; j++ {
			parts = append(parts, segs[r.intn(len(segs))])
		}
		parts = append(parts, r.pick(append([]string{"a..b.json", "..g.json", "g...json"}, fileNames...)))
		ref := strings.Join(parts, "/")
		if r.chance(1, 3) {
			ref = "/" + ref
		}
		if r.chance(1, 2) {
			ref += "#/definitions/" + r.pick([]string{"x", "a~1b", "%25"})
		}
		try(c12Input{Ref: ref, Base: c12Bases[r.intn(len(c12Bases))]})
	}
	res.Samples = []interface{}{c12Input{Ref: "../b.c/%20x/f.json#/definitions/x", Base: "file:///r/a/root.json"}}
	return dedupFailures(res)
}

func dedupFailures(res *oracleResult) *oracleResult {
	if os.Getenv("VERIF_ALLFAIL") != "" {
		return res
	}
	seen := map[string]bool{}
	var out []failure
	for _, f := range res.Failures {
		if !seen[f.Shape] {
			seen[f.Shape] = true
			out = append(out, f)
		}
	}
	res.Failures = out
	return res
}

func replayC12(input json.RawMessage) *oracleResult {
	var in c12Input
	res := &oracleResult{Stats: map[string]int{}, Evaluations: 1}
	if err := json.Unmarshal(input, &in); err != nil {
		res.Failures = append(res.Failures, failure{Property: "C12", What: "bad replay input"})
		return res
	}
	if msg, shape, obs, exp := checkC12(in); msg != "" {
		res.Failures = append(res.Failures, failure{Property: "C12", What: msg, Shape: shape, Input: in, Observed: obs, Expected: exp})
	}
	return res
}

// --- C11

type c11Input struct {
	Loc      string `json:"location"`
	Spelling string `json:"spelling"`
	Cwd      string `json:"cwd,omitempty"`  // make this the working directory first: a relative spelling is taken against the CURRENT one
	Disk     string `json:"disk,omitempty"` // create this folder first, with store/v1/root.json in it, a link specs -> store/v1 and a link link.json -> store/v1/root.json
}

// c11Disk puts real files and symbolic links under dir: what a location normalises to is a matter of its text (and of the working
// directory for a relative one), not of what the file system holds there.
func c11Disk(dir string) bool {
	if os.MkdirAll(path.Join(dir, "store", "v1"), 0o755) != nil {
		return false
	}
	if os.WriteFile(path.Join(dir, "store", "v1", "root.json"), []byte(`{"swagger":"2.0"}`), 0o644) != nil {
		return false
	}
	os.Remove(path.Join(dir, "specs"))
	os.Remove(path.Join(dir, "link.json"))
	return os.Symlink(path.Join("store", "v1"), path.Join(dir, "specs")) == nil && os.Symlink(path.Join("store", "v1", "root.json"), path.Join(dir, "link.json")) == nil
}

func checkC11(in c11Input) (msg, shape string, obs, exp interface{}) {
	defer func() {
		if r := recover(); r != nil {
			msg, shape = fmt.Sprintf("normalizeBase panics: %v", r), "panic"
		}
	}()
	if in.Disk != "" && !c11Disk(in.Disk) {
		return
	}
	if in.Cwd != "" {
		old, _ := os.Getwd()
		if os.MkdirAll(in.Cwd, 0o755) != nil || os.Chdir(in.Cwd) != nil {
			return
		}
		defer os.Chdir(old)
	}
	want := spec.VerifNormalizeBase(in.Loc)
	got := spec.VerifNormalizeBase(in.Spelling)
	if got != want {
		shape := "spelling"
		if strings.Contains(in.Spelling, "?") {
			shape = "query-kept"
		}
		return "equivalent spellings normalise differently", shape, got, want
	}
	if again := spec.VerifNormalizeBase(got); again != got {
		return "normalising a canonical location changes it", "idempotence", again, got
	}
	u, err := url.Parse(got)
	if err != nil || u.Scheme == "" || !path.IsAbs(u.Path) || path.Clean(u.Path) != u.Path || u.Fragment != "" || strings.Contains(got, "#") {
		return "normalised location is not canonical (scheme, absolute clean path, no fragment)", "canonical", got, nil
	}
	return
}

func oracleC11(r *rng, n int, tier string) *oracleResult {
	res := &oracleResult{Stats: map[string]int{}}
	cwd, _ := os.Getwd()
	seen := map[string]bool{}
	try := func(in c11Input) {
		res.Evaluations++
		if !seen[in.Spelling] {
			seen[in.Spelling] = true
			if in.Spelling != in.Loc {
				res.Distinct++
			}
		}
		if msg, shape, obs, exp := checkC11(in); msg != "" {
			res.Stats["fail:"+shape]++
			if res.Stats["fail:"+shape] <= 3 {
				res.Failures = append(res.Failures, failure{Property: "C11", What: msg, Shape: shape, Input: in, Observed: obs, Expected: exp})
			}
		}
	}
	per := 60
	if tier == "thorough" {
		per = 600
	}
	for _, loc := range c11Locations {
		for _, sp := range spellings(loc, cwd, r, per+n/len(c11Locations)) {
			try(c11Input{Loc: loc, Spelling: sp})
		}
	}
	// relative spellings against the working directory
	for _, rel := range []string{"root.json", "a/root.json", "./a/../root.json", "a//b/root.json", "../root.json"} {
		abs := "file://" + path.Join(cwd, rel)
		try(c11Input{Loc: abs, Spelling: rel})
		try(c11Input{Loc: abs, Spelling: "./" + rel})
		try(c11Input{Loc: abs, Spelling: rel + "#/x"})
	}
	// ... and against OTHER working directories later in the life of the process: the anchoring is not a one-time decision
	for _, d := range []string{"wd-one", "wd-two/deeper"} {
		dir := path.Join(os.TempDir(), "verif-c11-"+strconv.Itoa(os.Getpid()), d)
		for _, rel := range []string{"root.json", "a/root.json", "./a/../root.json", "../root.json"} {
			try(c11Input{Loc: "file://" + path.Join(dir, rel), Spelling: rel, Cwd: dir})
		}
	}
	// locations that exist on disk, reached through symbolic links (a linked folder, a linked file)
	{
		dir := path.Join(os.TempDir(), "verif-c11-"+strconv.Itoa(os.Getpid()), "disk")
		for _, name := range []string{"specs/root.json", "link.json", "store/v1/root.json"} {
			loc := "file://" + path.Join(dir, name)
			for _, sp := range []string{path.Join(dir, name), dir + "/./" + name, dir + "/x/../" + name, dir + "//" + name, path.Join(dir, name) + "#/definitions/x",
				"file:" + path.Join(dir, name), "file://" + dir + "/./" + name} {
				try(c11Input{Loc: loc, Spelling: sp, Disk: dir})
			}
		}
		// (not: a relative spelling below a linked WORKING directory - the operating system names that directory by its physical path)
	}
	os.RemoveAll(path.Join(os.TempDir(), "verif-c11-"+strconv.Itoa(os.Getpid())))
	res.Samples = []interface{}{c11Input{Loc: "file:///r/a/root.json", Spelling: "FILE:/r/./a/x/../root.json#/definitions/x"}}
	return dedupFailures(res)
}

func replayC11(input json.RawMessage) *oracleResult {
	var in c11Input
	res := &oracleResult{Stats: map[string]int{}, Evaluations: 1}
	if err := json.Unmarshal(input, &in); err != nil {
		res.Failures = append(res.Failures, failure{Property: "C11", What: "bad replay input"})
		return res
	}
	if msg, shape, obs, exp := checkC11(in); msg != "" {
		res.Failures = append(res.Failures, failure{Property: "C11", What: msg, Shape: shape, Input: in, Observed: obs, Expected: exp})
	}
	return res
}

// --- C13

type c13Input struct {
	Ref   string `json:"ref"`
	Unset bool   `json:"unset,omitempty"` // the zero spec.Ref{} instead of NewRef(Ref)
}

func refView(r spec.Ref) string {
	return fmt.Sprintf("%q full=%v pathonly=%v fragonly=%v file=%v fullpath=%v root=%v ptr=%q", r.String(), r.HasFullURL, r.HasURLPathOnly,
		r.HasFragmentOnly, r.HasFileScheme, r.HasFullFilePath, r.IsRoot(), r.GetPointer().String())
}

// authorityOf: the text between "//" and the next "/", "?" or "#" of a reference as written ("" when there is no authority).
func authorityOf(ref string) string {
	i := strings.Index(ref, "//")
	if i < 0 || strings.ContainsAny(ref[:i], "/?#") {
		return ""
	}
	rest := ref[i+2:]
	if j := strings.IndexAny(rest, "/?#"); j >= 0 {
		rest = rest[:j]
	}
	return rest
}

func checkC13(in c13Input) (msg, shape string, obs, exp interface{}) {
	defer func() {
		if r := recover(); r != nil {
			msg, shape = fmt.Sprintf("panic: %v", r), "panic"
		}
	}()
	r, err := spec.NewRef(in.Ref)
	if err != nil {
		return
	}
	if u := r.GetURL(); u != nil && (u.User != nil || u.Opaque != "" || strings.Contains(u.Host, "[") || strings.Count(authorityOf(in.Ref), ":") > 1) {
		return // outside the quantifier: authority is a host with at most one port ("http:h.io:80" has two colons)
	}
	s := r.String()
	r2, err := spec.NewRef(s)
	if err != nil {
		return "canonical text does not parse", "reparse", s, nil
	}
	if refView(r2) != refView(r) {
		return "printing then parsing gives a different reference", "idempotence", refView(r2), refView(r)
	}
	// JSON
	b, err := json.Marshal(r)
	if err != nil {
		return "reference does not encode to JSON", "json", err.Error(), nil
	}
	var rj spec.Ref
	if err := json.Unmarshal(b, &rj); err != nil {
		return "JSON encoding does not decode", "json", string(b), nil
	}
	if s == "" && !r.IsRoot() {
		if string(b) != "{}" {
			return "empty reference does not encode as {}", "json-shape", string(b), "{}"
		}
	} else if s == "" {
		if string(b) != `{"$ref":""}` {
			return "the root reference does not encode as a single empty $ref member", "json-shape", string(b), `{"$ref":""}`
		}
	} else {
		var m map[string]interface{}
		json.Unmarshal(b, &m)
		if len(m) != 1 || m["$ref"] != s {
			return "non-empty reference is not a single $ref member", "json-shape", string(b), s
		}
	}
	if refView(rj) != refView(r) || (rj.GetURL() == nil) != (r.GetURL() == nil) {
		return "JSON round trip changes the reference", "json", refView(rj) + fmt.Sprintf(" url-set=%v", rj.GetURL() != nil), refView(r) + fmt.Sprintf(" url-set=%v", r.GetURL() != nil)
	}
	// gob
	var buf bytes.Buffer
	if err := gob.NewEncoder(&buf).Encode(r); err != nil {
		return "reference does not encode to gob", "gob", err.Error(), nil
	}
	var rg spec.Ref
	if err := gob.NewDecoder(&buf).Decode(&rg); err != nil {
		return "gob encoding does not decode", "gob", err.Error(), nil
	}
	if refView(rg) != refView(r) || (rg.GetURL() == nil) != (r.GetURL() == nil) {
		return "gob round trip changes the reference", "gob", refView(rg) + fmt.Sprintf(" url-set=%v", rg.GetURL() != nil), refView(r) + fmt.Sprintf(" url-set=%v", r.GetURL() != nil)
	}
	return
}

// checkC13Unset: the reference that holds nothing (the zero value, as distinct from the root reference "") encodes as an
// empty object and comes back as the zero value from both codecs.
func checkC13Unset() (msg, shape string, obs, exp interface{}) {
	defer func() {
		if r := recover(); r != nil {
			msg, shape = fmt.Sprintf("panic: %v", r), "panic"
		}
	}()
	var r spec.Ref
	b, err := json.Marshal(r)
	if err != nil || string(b) != "{}" {
		return "the unset reference does not encode as {}", "json-shape", string(b), "{}"
	}
	var rj spec.Ref
	if err := json.Unmarshal(b, &rj); err != nil || refView(rj) != refView(r) || rj.GetURL() != nil {
		return "JSON round trip changes the unset reference", "json", refView(rj), refView(r)
	}
	var buf bytes.Buffer
	if err := gob.NewEncoder(&buf).Encode(r); err != nil {
		return "the unset reference does not encode to gob", "gob", err.Error(), nil
	}
	var rg spec.Ref
	if err := gob.NewDecoder(&buf).Decode(&rg); err != nil || refView(rg) != refView(r) || rg.GetURL() != nil {
		return "gob round trip changes the unset reference", "gob", refView(rg), refView(r)
	}
	return
}

func oracleC13(r *rng, n int, tier string) *oracleResult {
	res := &oracleResult{Stats: map[string]int{}}
	seen := map[string]bool{}
	try := func(s string) {
		res.Evaluations++
		if !seen[s] {
			seen[s] = true
			if s != "" {
				res.Distinct++
			}
		}
		if msg, shape, obs, exp := checkC13(c13Input{Ref: s}); msg != "" {
			res.Stats["fail:"+shape]++
			if res.Stats["fail:"+shape] <= 3 {
				res.Failures = append(res.Failures, failure{Property: "C13", What: msg, Shape: shape, Input: c13Input{Ref: s}, Observed: obs, Expected: exp})
			}
		}
	}
	tokens := []string{"http:", "HTTPS:", "file:", "//", "Host", "h.io:80", "h:443", "h:8080", "/", "a", "B%2f", " c", "é", "?q=1", "#", "#/d~0e~1f/%7E", ".", ".."}
	maxTok := 3
	if tier == "thorough" {
		maxTok = 4
	}
	res.Evaluations++
	if msg, shape, obs, exp := checkC13Unset(); msg != "" {
		res.Failures = append(res.Failures, failure{Property: "C13", What: msg, Shape: shape, Input: c13Input{Unset: true}, Observed: obs, Expected: exp})
	}
	for k := 0; k <= maxTok; k++ {
		if k == 0 {
			try("")
		} else {
			cartesian(tokens, k, func(t []string) { try(strings.Join(t, "")) })
		}
	}
	// blanks and JSON-special characters at the edges and in the parts net/url prints verbatim (query, opaque part)
	for _, s := range []string{"other.json?rev=2 ", "?q= ", " other.json", "other.json ", "#/a ", "mailto:a b ", "a.json?x=1\u00a0", "a.json?note=caf\u00e9\u2003",
		"HTTP://Example.COM:80/specs//pets.json?title=Pet Store ", "a.json?q=\"v\"", "urn:x\\y", "a.json?q=\t", "\ta.json", "a.json?x=1\n", "#/x%25", "#/x%2541", "#/latin%E9"} {
		try(s)
	}
	for i := 0; i < n*4; i++ {
		try(randomRefString(r))
	}
	res.Samples = []interface{}{c13Input{Ref: "HTTP://Host.Example.COM:80//a//B%7ex#/definitions/a~1b"}}
	return dedupFailures(res)
}

func replayC13(input json.RawMessage) *oracleResult {
	var in c13Input
	res := &oracleResult{Stats: map[string]int{}, Evaluations: 1}
	if err := json.Unmarshal(input, &in); err != nil {
		res.Failures = append(res.Failures, failure{Property: "C13", What: "bad replay input"})
		return res
	}
	check := func() (string, string, interface{}, interface{}) { return checkC13(in) }
	if in.Unset {
		check = checkC13Unset
	}
	if msg, shape, obs, exp := check(); msg != "" {
		res.Failures = append(res.Failures, failure{Property: "C13", What: msg, Shape: shape, Input: in, Observed: obs, Expected: exp})
	}
	return res
}

func init() {
	generators["url"] = genURLCases
	oracles["C11"] = oracleC11
	oracles["C12"] = oracleC12
	oracles["C13"] = oracleC13
	replays["C11"] = replayC11
	replays["C12"] = replayC12
	replays["C13"] = replayC13
}
