package main

// Textual reference semantics for the expander cluster (C02 C03 C04 C08 C09 C10 C16 C17 C18 C11e2e).
//
// A store maps canonical document URLs to decoded JSON documents.  A `$ref` is always read against
// the URL of the document that textually contains it (RFC 3986 via net/url.ResolveReference); its
// fragment is a JSON pointer (percent decoding by net/url, then ~1 ~0).  Everything here is written
// against encoding/json and net/url only: it is the specification the library is compared with, and
// it never calls the expander.

import (
	"encoding/json"
	"net/url"
	"sort"
	"strconv"
	"strings"
	"sync"

	"github.com/go-openapi/spec"
)

type exStore map[string]interface{}

// exTarget is a canonical reference: document URL plus canonical JSON pointer ("" = whole document).
type exTarget struct {
	Doc string
	Ptr string
}

func (t exTarget) String() string { return t.Doc + "#" + t.Ptr }

func exEscTok(s string) string {
	return strings.ReplaceAll(strings.ReplaceAll(s, "~", "~0"), "/", "~1")
}

func exUnescTok(s string) string {
	return strings.ReplaceAll(strings.ReplaceAll(s, "~1", "/"), "~0", "~")
}

func exPtr(tokens []string) string {
	var b strings.Builder
	for _, t := range tokens {
		b.WriteByte('/')
		b.WriteString(exEscTok(t))
	}
	return b.String()
}

func exPtrTokens(ptr string) []string {
	if ptr == "" {
		return nil
	}
	parts := strings.Split(ptr[1:], "/")
	for i := range parts {
		parts[i] = exUnescTok(parts[i])
	}
	return parts
}

// exCanonRef resolves the text of a `$ref` found in document docURL.
func exCanonRef(docURL, ref string) (exTarget, bool) {
	b, err := url.Parse(docURL)
	if err != nil {
		return exTarget{}, false
	}
	r, err := url.Parse(ref)
	if err != nil {
		return exTarget{}, false
	}
	abs := b.ResolveReference(r)
	frag := abs.Fragment
	abs.Fragment, abs.RawFragment = "", ""
	abs.OmitHost = false
	abs.Scheme = strings.ToLower(abs.Scheme)
	if abs.Scheme == "file" {
		abs.RawQuery, abs.ForceQuery = "", false
	}
	if frag != "" && !strings.HasPrefix(frag, "/") {
		return exTarget{Doc: abs.String()}, false
	}
	return exTarget{Doc: abs.String(), Ptr: exPtr(exPtrTokens(frag))}, true
}

func exCloneJSON(v interface{}) interface{} {
	switch c := v.(type) {
	case map[string]interface{}:
		o := make(map[string]interface{}, len(c))
		for k, x := range c {
			o[k] = exCloneJSON(x)
		}
		return o
	case []interface{}:
		o := make([]interface{}, len(c))
		for i, x := range c {
			o[i] = exCloneJSON(x)
		}
		return o
	}
	return v
}

func exDecodeStore(docs map[string]json.RawMessage, missing []string) exStore {
	s := exStore{}
	gone := map[string]bool{}
	for _, m := range missing {
		gone[m] = true
	}
	for u, raw := range docs {
		if gone[u] {
			continue
		}
		var v interface{}
		if err := json.Unmarshal(raw, &v); err != nil {
			continue // an undecodable document is as good as absent
		}
		s[u] = v
	}
	return s
}

func (s exStore) with(u string, doc interface{}) exStore {
	o := make(exStore, len(s)+1)
	for k, v := range s {
		o[k] = v
	}
	o[u] = doc
	return o
}

func exStep(cur interface{}, tok string) (interface{}, bool) {
	switch c := cur.(type) {
	case map[string]interface{}:
		n, ok := c[tok]
		return n, ok
	case []interface{}:
		i, err := strconv.Atoi(tok)
		if err != nil || i < 0 || i >= len(c) {
			return nil, false
		}
		return c[i], true
	}
	return nil, false
}

func exAt(doc interface{}, tokens []string) (interface{}, bool) {
	cur := doc
	for _, tok := range tokens {
		n, ok := exStep(cur, tok)
		if !ok {
			return nil, false
		}
		cur = n
	}
	return cur, true
}

func (s exStore) lookup(t exTarget) (interface{}, bool) {
	d, ok := s[t.Doc]
	if !ok {
		return nil, false
	}
	return exAt(d, exPtrTokens(t.Ptr))
}

// ---------------------------------------------------------------------------------------------
// element kinds and their children

const (
	exSchema    = "schema"
	exParam     = "param"
	exResponse  = "response"
	exPathItem  = "pathitem"
	exOperation = "operation"
	exSwagger   = "swagger"
)

func exRefable(kind string) bool {
	return kind == exSchema || kind == exParam || kind == exResponse || kind == exPathItem
}

var exSchemaMapKeys = []string{"definitions", "properties", "patternProperties"}
var exSchemaArrKeys = []string{"allOf", "anyOf", "oneOf"}
var exSchemaOneKeys = []string{"not", "additionalProperties", "additionalItems"}
var exOpKeys = []string{"get", "put", "post", "delete", "options", "head", "patch"}

var exChildKeys = map[string]map[string]bool{
	exSchema: {"definitions": true, "properties": true, "patternProperties": true, "allOf": true, "anyOf": true, "oneOf": true, "not": true,
		"additionalProperties": true, "additionalItems": true, "items": true, "dependencies": true},
	exParam:    {"schema": true},
	exResponse: {"schema": true},
}

type exKid struct {
	Path []string // pointer tokens below the parent
	Kind string
	V    interface{}
}

func exSortedKeys(m map[string]interface{}) []string {
	ks := make([]string, 0, len(m))
	for k := range m {
		ks = append(ks, k)
	}
	sort.Strings(ks)
	return ks
}

// exKids lists, in a deterministic order, the element positions directly below an object of the given kind.
func exKids(kind string, m map[string]interface{}) []exKid {
	var out []exKid
	mapOf := func(key, ck string, skipExt bool) {
		if mm, ok := m[key].(map[string]interface{}); ok {
			for _, k := range exSortedKeys(mm) {
				if skipExt && strings.HasPrefix(strings.ToLower(k), "x-") {
					continue
				}
				out = append(out, exKid{[]string{key, k}, ck, mm[k]})
			}
		}
	}
	arrOf := func(key, ck string) {
		if a, ok := m[key].([]interface{}); ok {
			for i, x := range a {
				out = append(out, exKid{[]string{key, strconv.Itoa(i)}, ck, x})
			}
		}
	}
	switch kind {
	case exSchema:
		for _, k := range exSchemaMapKeys {
			mapOf(k, exSchema, false)
		}
		if mm, ok := m["dependencies"].(map[string]interface{}); ok {
			for _, k := range exSortedKeys(mm) {
				if _, isObj := mm[k].(map[string]interface{}); isObj {
					out = append(out, exKid{[]string{"dependencies", k}, exSchema, mm[k]})
				}
			}
		}
		switch it := m["items"].(type) {
		case map[string]interface{}:
			out = append(out, exKid{[]string{"items"}, exSchema, it})
		case []interface{}:
			arrOf("items", exSchema)
		}
		for _, k := range exSchemaArrKeys {
			arrOf(k, exSchema)
		}
		for _, k := range exSchemaOneKeys {
			if o, ok := m[k].(map[string]interface{}); ok {
				out = append(out, exKid{[]string{k}, exSchema, o})
			}
		}
	case exParam, exResponse:
		if v, ok := m["schema"]; ok {
			out = append(out, exKid{[]string{"schema"}, exSchema, v})
		}
	case exPathItem:
		arrOf("parameters", exParam)
		for _, k := range exOpKeys {
			if o, ok := m[k].(map[string]interface{}); ok {
				out = append(out, exKid{[]string{k}, exOperation, o})
			}
		}
	case exOperation:
		arrOf("parameters", exParam)
		mapOf("responses", exResponse, true)
	case exSwagger:
		mapOf("definitions", exSchema, false)
		mapOf("parameters", exParam, false)
		mapOf("responses", exResponse, false)
		mapOf("paths", exPathItem, true)
	}
	return out
}

// exRebuild copies m, replacing every element child by f(child).
func exRebuild(kind string, m map[string]interface{}, f func(exKid) interface{}) map[string]interface{} {
	out := make(map[string]interface{}, len(m))
	for k, v := range m {
		out[k] = v
	}
	copied := map[string]bool{}
	for _, k := range exKids(kind, m) {
		nv := f(k)
		if len(k.Path) == 1 {
			out[k.Path[0]] = nv
			continue
		}
		key := k.Path[0]
		if !copied[key] {
			copied[key] = true
			switch c := out[key].(type) {
			case map[string]interface{}:
				cc := make(map[string]interface{}, len(c))
				for a, b := range c {
					cc[a] = b
				}
				out[key] = cc
			case []interface{}:
				out[key] = append([]interface{}{}, c...)
			}
		}
		switch c := out[key].(type) {
		case map[string]interface{}:
			c[k.Path[1]] = nv
		case []interface{}:
			i, _ := strconv.Atoi(k.Path[1])
			c[i] = nv
		}
	}
	return out
}

func exRefOf(kind string, v interface{}) (string, bool) {
	if !exRefable(kind) {
		return "", false
	}
	m, ok := v.(map[string]interface{})
	if !ok {
		return "", false
	}
	r, ok := m["$ref"].(string)
	return r, ok
}

// ---------------------------------------------------------------------------------------------
// unfolding

const exCut = "…"

func exDangling(t exTarget) interface{} {
	return map[string]interface{}{"$dangling": t.String()}
}

// chase follows `$ref`s from v (read in doc) to a holder that is not a reference.
// stop != nil is the value to emit instead (dangling target, pure `$ref` loop).
func (s exStore) chase(doc string, v interface{}, kind string) (string, interface{}, interface{}) {
	seen := map[string]bool{}
	for {
		r, ok := exRefOf(kind, v)
		if !ok {
			return doc, v, nil
		}
		t, ok := exCanonRef(doc, r)
		if !ok {
			return doc, v, exDangling(t)
		}
		if seen[t.String()] {
			return doc, v, map[string]interface{}{"$loop": true}
		}
		seen[t.String()] = true
		n, ok := s.lookup(t)
		if !ok {
			return doc, v, exDangling(t)
		}
		if _, isObj := n.(map[string]interface{}); !isObj {
			return doc, v, exDangling(t) // a string, number, boolean, array or null is not an element
		}
		doc, v = t.Doc, n
	}
}

func (s exStore) unfold(doc string, v interface{}, kind string, depth int) interface{} {
	doc, v, stop := s.chase(doc, v, kind)
	if stop != nil {
		return stop
	}
	m, ok := v.(map[string]interface{})
	if !ok {
		return v
	}
	if depth <= 0 {
		return exCut
	}
	out := exRebuild(kind, m, func(k exKid) interface{} {
		d := depth - 1
		if k.Kind == exOperation {
			d = depth // an operation is not an element of its own: it does not consume depth
		}
		return s.unfold(doc, k.V, k.Kind, d)
	})
	return exNormRest(kind, out)
}

// exNormRest passes the members of an element that are not element positions through the library's
// own decoder and encoder for that kind, so that a normalisation made by the codec (which other
// properties are about) is not reported as a change of meaning.
var exNormMemo sync.Map

func exNormRest(kind string, m map[string]interface{}) map[string]interface{} {
	ck := exChildKeys[kind]
	if ck == nil {
		return m
	}
	rest := map[string]interface{}{}
	for k, v := range m {
		if !ck[k] && k != "$ref" {
			rest[k] = v
		}
	}
	if len(rest) == 0 {
		return m
	}
	b, err := json.Marshal(rest)
	if err != nil {
		return m
	}
	key := kind + "\x00" + string(b)
	var norm map[string]interface{}
	if c, ok := exNormMemo.Load(key); ok {
		norm, _ = c.(map[string]interface{})
	} else {
		norm = exLibNorm(kind, b)
		exNormMemo.Store(key, norm)
	}
	if norm == nil {
		return m
	}
	out := make(map[string]interface{}, len(m))
	for k, v := range m {
		if ck[k] || k == "$ref" {
			out[k] = v
		}
	}
	for k, v := range norm {
		if _, clash := out[k]; !clash {
			out[k] = v
		}
	}
	return out
}

func exLibNorm(kind string, b []byte) (res map[string]interface{}) {
	defer func() {
		if recover() != nil {
			res = nil
		}
	}()
	var enc []byte
	var err error
	switch kind {
	case exSchema:
		var x spec.Schema
		if err = json.Unmarshal(b, &x); err == nil {
			enc, err = json.Marshal(x)
		}
	case exParam:
		var x spec.Parameter
		if err = json.Unmarshal(b, &x); err == nil {
			enc, err = json.Marshal(x)
		}
	case exResponse:
		var x spec.Response
		if err = json.Unmarshal(b, &x); err == nil {
			enc, err = json.Marshal(x)
		}
	default:
		return nil
	}
	if err != nil {
		return nil
	}
	var out map[string]interface{}
	if json.Unmarshal(enc, &out) != nil {
		return nil
	}
	return out
}

func exJSON(v interface{}) string {
	b, _ := json.Marshal(v) // maps are written with sorted keys
	return string(b)
}

func exClip(s string, n int) string {
	if len(s) <= n {
		return s
	}
	return s[:n] + "…(" + strconv.Itoa(len(s)) + " bytes)"
}

// ---------------------------------------------------------------------------------------------
// walking

type exHolder struct {
	Doc  string   `json:"doc"`
	Path []string `json:"path"` // pointer tokens from the document root
	Kind string   `json:"kind"`
	Ref  string   `json:"ref"`
}

func (h exHolder) ptr() string { return exPtr(h.Path) }

// exWalk visits every element object below v (v included); visit returns false to stop descending.
// `$ref` holders are visited but never descended into (siblings of `$ref` are ignored, as the library does).
func exWalk(kind string, v interface{}, path []string, visit func(path []string, kind string, m map[string]interface{}) bool) {
	m, ok := v.(map[string]interface{})
	if !ok {
		return
	}
	if !visit(path, kind, m) {
		return
	}
	if _, isRef := exRefOf(kind, m); isRef {
		return
	}
	for _, k := range exKids(kind, m) {
		p := append(append([]string{}, path...), k.Path...)
		exWalk(k.Kind, k.V, p, visit)
	}
}

// exHolders lists the `$ref` holders below v.
func exHolders(doc, kind string, v interface{}, path []string) []exHolder {
	var out []exHolder
	exWalk(kind, v, path, func(p []string, k string, m map[string]interface{}) bool {
		if r, ok := exRefOf(k, m); ok {
			out = append(out, exHolder{doc, append([]string{}, p...), k, r})
		}
		return true
	})
	return out
}

// exRootElements lists the element positions of a Swagger document.
func exRootElements(doc interface{}) []exKid {
	m, ok := doc.(map[string]interface{})
	if !ok {
		return nil
	}
	return exKids(exSwagger, m)
}

// ---------------------------------------------------------------------------------------------
// the reference graph

type exNode struct {
	T       exTarget
	Kind    string
	Exists  bool     // the target is there and is an object
	Out     []string // canonical refs held in the subtree of the target
	Holders []exHolder
	OnCycle bool
	Broken  bool // reaches a target that does not exist
	IsRef   bool // the target is itself a `$ref` holder
	scc     int
}

type exInfo struct {
	Root    string
	Nodes   map[string]*exNode
	Order   []string // discovery order
	Starts  []string // nodes of the root's element positions
	Acyclic bool
	Tags    map[string]bool
	// imported parameters/responses whose schema is directly a `$ref` (F8 shape candidates)
	directSchemaRefs []struct{ doc, target string }
}

// exAnalyse computes the canonical reference graph reachable from the element positions of root.
func exAnalyse(s exStore, root string) *exInfo { return exAnalyseAt(s, root) }

// exAnalyseAt restricts the graph to what is reachable from the given element positions of the root
// (pointers such as "/paths/~1x"; none = all of them).
func exAnalyseAt(s exStore, root string, only ...string) *exInfo {
	in := &exInfo{Root: root, Nodes: map[string]*exNode{}, Tags: map[string]bool{}, Acyclic: true}
	var work []string
	add := func(t exTarget, kind string) {
		k := t.String()
		if _, ok := in.Nodes[k]; ok {
			return
		}
		in.Nodes[k] = &exNode{T: t, Kind: kind}
		in.Order = append(in.Order, k)
		work = append(work, k)
	}
	for _, k := range exRootElements(s[root]) {
		t := exTarget{root, exPtr(k.Path)}
		if len(only) > 0 {
			keep := false
			for _, p := range only {
				keep = keep || p == t.Ptr
			}
			if !keep {
				continue
			}
		}
		add(t, k.Kind)
		in.Starts = append(in.Starts, t.String())
		in.Tags["kind:"+k.Kind] = true
	}
	for len(work) > 0 {
		key := work[0]
		work = work[1:]
		n := in.Nodes[key]
		v, ok := s.lookup(n.T)
		if _, isObj := v.(map[string]interface{}); !ok || !isObj {
			continue
		}
		n.Exists = true
		if n.T.Ptr == "" {
			in.Tags["whole-doc"] = true
		} else if len(exPtrTokens(n.T.Ptr)) > 2 {
			in.Tags["nested-ptr"] = true
		}
		exWalk(n.Kind, v, exPtrTokens(n.T.Ptr), func(p []string, k string, m map[string]interface{}) bool {
			if k == exSchema {
				if id, ok := m["id"].(string); ok {
					in.Tags["id"] = true
					in.Tags["id:"+exIDKind(id)] = true
				}
			}
			if k == exParam || k == exResponse {
				if r, ok := exRefOf(exSchema, m["schema"]); ok {
					if t, ok := exCanonRef(n.T.Doc, r); ok {
						in.directSchemaRefs = append(in.directSchemaRefs, struct{ doc, target string }{n.T.Doc, t.String()})
					}
				}
			}
			r, ok := exRefOf(k, m)
			if !ok {
				return true
			}
			h := exHolder{n.T.Doc, append([]string{}, p...), k, r}
			n.Holders = append(n.Holders, h)
			t, ok := exCanonRef(n.T.Doc, r)
			n.Out = append(n.Out, t.String())
			add(t, k)
			if len(p) == len(exPtrTokens(n.T.Ptr)) {
				n.IsRef = true
			}
			if k != exSchema {
				in.Tags["ref:"+k] = true
			}
			if u, err := url.Parse(r); err == nil && u.Path != "" {
				if t.Doc == n.T.Doc {
					in.Tags["self-by-name"] = true
				}
			}
			return true
		})
	}
	in.scc()
	in.classify(s)
	return in
}

func exIDKind(id string) string {
	u, err := url.Parse(id)
	switch {
	case err != nil:
		return "bad"
	case u.Scheme != "":
		return "abs"
	case u.Path == "":
		return "frag"
	case strings.Contains(u.Path, "/"):
		return "reldir"
	}
	return "relfile"
}

// Tarjan's strongly connected components; a node is on a cycle when its component has more than one
// node or it has an edge to itself.
func (in *exInfo) scc() {
	index := map[string]int{}
	low := map[string]int{}
	on := map[string]bool{}
	var stack []string
	next, comp := 0, 0
	var strong func(v string)
	strong = func(v string) {
		index[v], low[v] = next, next
		next++
		stack = append(stack, v)
		on[v] = true
		for _, w := range in.Nodes[v].Out {
			if _, ok := in.Nodes[w]; !ok {
				continue
			}
			if _, seen := index[w]; !seen {
				strong(w)
				if low[w] < low[v] {
					low[v] = low[w]
				}
			} else if on[w] && index[w] < low[v] {
				low[v] = index[w]
			}
		}
		if low[v] == index[v] {
			var members []string
			for {
				w := stack[len(stack)-1]
				stack = stack[:len(stack)-1]
				on[w] = false
				members = append(members, w)
				if w == v {
					break
				}
			}
			cyc := len(members) > 1
			if !cyc {
				for _, w := range in.Nodes[v].Out {
					if w == v {
						cyc = true
					}
				}
			}
			docs := map[string]bool{}
			for _, w := range members {
				in.Nodes[w].scc = comp
				in.Nodes[w].OnCycle = cyc
				docs[in.Nodes[w].T.Doc] = true
			}
			if cyc {
				in.Acyclic = false
				if len(members) == 1 {
					in.Tags["self-loop"] = true
				} else {
					in.Tags["cycle:"+strconv.Itoa(len(members))] = true
				}
				if len(docs) > 1 {
					in.Tags["xdoc-cycle"] = true
				}
			}
			comp++
		}
	}
	for _, k := range in.Order {
		if _, seen := index[k]; !seen {
			strong(k)
		}
	}
	// Broken: least fixed point of "does not exist, or has an edge to a broken node"
	for changed := true; changed; {
		changed = false
		for _, k := range in.Order {
			n := in.Nodes[k]
			if n.Broken {
				continue
			}
			b := !n.Exists
			for _, w := range n.Out {
				if m, ok := in.Nodes[w]; ok && m.Broken {
					b = true
				}
			}
			if b {
				n.Broken, changed = true, true
			}
		}
	}
}

func (in *exInfo) classify(s exStore) {
	if in.Acyclic {
		in.Tags["acyclic"] = true
	} else {
		in.Tags["cyclic"] = true
	}
	docs := map[string]bool{}
	for _, k := range in.Order {
		n := in.Nodes[k]
		docs[n.T.Doc] = true
		if !n.Exists {
			in.Tags["unresolvable"] = true
		}
		if strings.ContainsAny(n.T.Ptr, "~% ") {
			in.Tags["escaped-name"] = true
		}
		if n.OnCycle && n.Kind == exSchema {
			if v, ok := s.lookup(n.T); ok {
				if m, ok := v.(map[string]interface{}); ok {
					if id, ok := m["id"].(string); ok && exIDKind(id) == "reldir" {
						in.Tags["id-reldir-on-cycle"] = true
					}
				}
			}
		}
	}
	docs[in.Root] = true
	for k := range in.Nodes {
		if exPointerThroughRef(s, k) {
			in.Tags["ptr-through-ref"] = true // finding F24: what such a reference designates depends on how far the live root is expanded
		}
	}
	in.Tags["docs:"+strconv.Itoa(len(docs))] = true
	ru, _ := url.Parse(in.Root)
	for d := range docs {
		u, err := url.Parse(d)
		if err != nil || ru == nil {
			continue
		}
		switch {
		case u.Scheme != ru.Scheme || u.Host != ru.Host:
			in.Tags["other-host"] = true
		case d != in.Root && strings.HasPrefix(u.Path, ru.Path):
			in.Tags["prefix-sibling"] = true
		}
	}
	// a parameter/response/path-item reference that crosses documents and lands on another reference:
	// the next hop of the chain has to be read in the document just entered
	for _, k := range in.Order {
		for i, h := range in.Nodes[k].Holders {
			if t := in.Nodes[in.Nodes[k].Out[i]]; h.Kind != exSchema && t != nil && t.IsRef && t.T.Doc != h.Doc {
				in.Tags["chain2"] = true
			}
		}
	}
	for _, d := range in.directSchemaRefs {
		if n, ok := in.Nodes[d.target]; ok && n.OnCycle && d.doc != in.Root {
			in.Tags["imported-circular"] = true
		}
	}
}

func (in *exInfo) tagList() []string {
	out := make([]string, 0, len(in.Tags))
	for t := range in.Tags {
		out = append(out, t)
	}
	sort.Strings(out)
	return out
}

func (in *exInfo) refList() []string {
	seen := map[string]bool{}
	var out []string
	for _, k := range in.Order {
		for _, w := range in.Nodes[k].Out {
			if !seen[w] {
				seen[w] = true
				out = append(out, w)
			}
		}
	}
	sort.Strings(out)
	return out
}

// knownShape maps what a graph contains to the shape of the known defect it may trigger ("" if none).
func (in *exInfo) knownShape() string {
	switch {
	case in.Tags["id:reldir"]:
		return "id-reldir" // a relative id with a directory component: known never to terminate on a cycle
	case in.Tags["id"]:
		return "id"
	case in.Tags["prefix-sibling"]:
		return "prefix-sibling-doc"
	case in.Tags["ptr-through-ref"]:
		return "pointer-through-ref" // F24: resolved (or not) in the partially expanded live root
	}
	// (multi-hop chains and circular schemas under imported elements were the areas of F7 and F8: repaired, no longer set apart)
	return ""
}

// ---------------------------------------------------------------------------------------------
// `$ref`s that remain in an output

// exRemainingRefs lists the holders left in an expanded root document.
func exRemainingRefs(root string, out interface{}) []exHolder {
	var hs []exHolder
	m, ok := out.(map[string]interface{})
	if !ok {
		return nil
	}
	for _, k := range exKids(exSwagger, m) {
		hs = append(hs, exHolders(root, k.Kind, k.V, k.Path)...)
	}
	return hs
}

// exCanonTree rewrites an element so that parameter/response/path-item references are followed and
// every schema `$ref` is replaced by its canonical target: two elements have equal trees when their
// non-schema parts are completely dereferenced to the same content and their schema references
// designate the same targets.
func (s exStore) canonTree(doc string, v interface{}, kind string, fuel int) interface{} {
	if kind == exSchema {
		if r, ok := exRefOf(kind, v); ok {
			t, _ := exCanonRef(doc, r)
			return map[string]interface{}{"$ref": t.String()}
		}
	} else if exRefable(kind) {
		d, n, stop := s.chase(doc, v, kind)
		if stop != nil {
			return stop
		}
		doc, v = d, n
	}
	m, ok := v.(map[string]interface{})
	if !ok || fuel <= 0 {
		return v
	}
	return exNormRest(kind, exRebuild(kind, m, func(k exKid) interface{} { return s.canonTree(doc, k.V, k.Kind, fuel-1) }))
}

// refOnCycle: does following references from the target of t ever lead back to t?  (Computed in the store itself, from t.)
func (s exStore) refOnCycle(t exTarget, kind string) bool {
	type nk struct{ key, kind string }
	seen := map[nk]bool{}
	var visit func(x exTarget, k string) bool
	visit = func(x exTarget, k string) bool {
		v, found := s.lookup(x)
		if !found {
			return false
		}
		for _, h := range exHolders(x.Doc, k, v, exPtrTokens(x.Ptr)) {
			y, ok := exCanonRef(x.Doc, h.Ref)
			if !ok {
				continue
			}
			if y.String() == t.String() {
				return true
			}
			if seen[nk{y.String(), h.Kind}] {
				continue
			}
			seen[nk{y.String(), h.Kind}] = true
			if visit(y, h.Kind) {
				return true
			}
		}
		return false
	}
	return visit(t, kind)
}
