package main

import (
	"bytes"
	"encoding/json"
	"fmt"
	"io"
	"reflect"
	"sort"
	"strconv"
	"strings"

	"github.com/go-openapi/spec"
)

// ---------------------------------------------------------------------------------------------
// JSON trees with ordered members (a name may occur twice) and numbers kept as written

type jv struct {
	t byte   // 'n' null, 't' true, 'f' false, '#' number, 's' string, 'a' array, 'o' object
	s string // the string, or the number literal
	a []*jv
	m []jmem
}

type jmem struct {
	k string
	v *jv
}

func jNull() *jv { return &jv{t: 'n'} }
func jBool(b bool) *jv {
	if b {
		return &jv{t: 't'}
	}
	return &jv{t: 'f'}
}
func jNum(lit string) *jv      { return &jv{t: '#', s: lit} }
func jInt(i int64) *jv         { return jNum(strconv.FormatInt(i, 10)) }
func jStr(s string) *jv        { return &jv{t: 's', s: s} }
func jArr(xs ...*jv) *jv       { return &jv{t: 'a', a: xs} }
func jObj(ms ...jmem) *jv      { return &jv{t: 'o', m: ms} }
func mem(k string, v *jv) jmem { return jmem{k, v} }

func quoteTo(b *bytes.Buffer, s string) {
	b.WriteByte('"')
	for i := 0; i < len(s); i++ {
		c := s[i]
		switch {
		case c == '"' || c == '\\':
			b.WriteByte('\\')
			b.WriteByte(c)
		case c < 0x20:
			fmt.Fprintf(b, "\\u%04x", c)
		default:
			b.WriteByte(c)
		}
	}
	b.WriteByte('"')
}

func (j *jv) write(b *bytes.Buffer) {
	switch j.t {
	case 'n':
		b.WriteString("null")
	case 't':
		b.WriteString("true")
	case 'f':
		b.WriteString("false")
	case '#':
		b.WriteString(j.s)
	case 's':
		quoteTo(b, j.s)
	case 'a':
		b.WriteByte('[')
		for i, x := range j.a {
			if i > 0 {
				b.WriteByte(',')
			}
			x.write(b)
		}
		b.WriteByte(']')
	case 'o':
		b.WriteByte('{')
		for i, m := range j.m {
			if i > 0 {
				b.WriteByte(',')
			}
			quoteTo(b, m.k)
			b.WriteByte(':')
			m.v.write(b)
		}
		b.WriteByte('}')
	}
}

func (j *jv) bytes() []byte {
	var b bytes.Buffer
	j.write(&b)
	return b.Bytes()
}

func (j *jv) clone() *jv {
	c := &jv{t: j.t, s: j.s}
	for _, x := range j.a {
		c.a = append(c.a, x.clone())
	}
	for _, m := range j.m {
		c.m = append(c.m, jmem{m.k, m.v.clone()})
	}
	return c
}

func (j *jv) get(k string) *jv {
	for _, m := range j.m {
		if m.k == k {
			return m.v
		}
	}
	return nil
}

// set replaces the first member named k, or appends it.
func (j *jv) set(k string, v *jv) {
	for i := range j.m {
		if j.m[i].k == k {
			j.m[i].v = v
			return
		}
	}
	j.m = append(j.m, jmem{k, v})
}

func (j *jv) nonTrivial() bool {
	switch j.t {
	case 'o':
		return len(j.m) > 0
	case 'a':
		return len(j.a) > 0
	}
	return true
}

// parseJV reads JSON text keeping member order, repeated members and number literals.
func parseJV(data []byte) (*jv, error) {
	dec := json.NewDecoder(bytes.NewReader(data))
	dec.UseNumber()
	v, err := parseTok(dec)
	if err != nil {
		return nil, err
	}
	if _, err := dec.Token(); err != io.EOF {
		return nil, fmt.Errorf("trailing data")
	}
	return v, nil
}

func parseTok(dec *json.Decoder) (*jv, error) {
	t, err := dec.Token()
	if err != nil {
		return nil, err
	}
	switch x := t.(type) {
	case nil:
		return jNull(), nil
	case bool:
		return jBool(x), nil
	case json.Number:
		return jNum(string(x)), nil
	case string:
		return jStr(x), nil
	case json.Delim:
		if x == '[' {
			out := &jv{t: 'a'}
			for dec.More() {
				e, err := parseTok(dec)
				if err != nil {
					return nil, err
				}
				out.a = append(out.a, e)
			}
			_, err := dec.Token()
			return out, err
		}
		if x == '{' {
			out := &jv{t: 'o'}
			for dec.More() {
				kt, err := dec.Token()
				if err != nil {
					return nil, err
				}
				k, _ := kt.(string)
				e, err := parseTok(dec)
				if err != nil {
					return nil, err
				}
				out.m = append(out.m, jmem{k, e})
			}
			_, err := dec.Token()
			return out, err
		}
	}
	return nil, fmt.Errorf("unexpected token %v", t)
}

func mustJV(s string) *jv {
	v, err := parseJV([]byte(s))
	if err != nil {
		panic("harness: bad literal " + s + ": " + err.Error())
	}
	return v
}

// ---------------------------------------------------------------------------------------------
// kinds and their keyword tables (read from the struct tags of package spec)

var kindNames = []string{"Swagger", "Info", "ContactInfo", "License", "Tag", "ExternalDocumentation", "XMLObject", "Paths", "PathItem",
	"Operation", "Parameter", "Items", "Header", "Response", "Responses", "Schema", "SecurityScheme", "SecurityDefinitions",
	"StringOrArray", "SchemaOrBool", "SchemaOrArray", "SchemaOrStringArray", "SchemaProperties", "Ref"}

var kindTypes = map[string]reflect.Type{
	"Swagger": reflect.TypeOf(spec.Swagger{}), "Info": reflect.TypeOf(spec.Info{}), "ContactInfo": reflect.TypeOf(spec.ContactInfo{}),
	"License": reflect.TypeOf(spec.License{}), "Tag": reflect.TypeOf(spec.Tag{}), "ExternalDocumentation": reflect.TypeOf(spec.ExternalDocumentation{}),
	"XMLObject": reflect.TypeOf(spec.XMLObject{}), "Paths": reflect.TypeOf(spec.Paths{}), "PathItem": reflect.TypeOf(spec.PathItem{}),
	"Operation": reflect.TypeOf(spec.Operation{}), "Parameter": reflect.TypeOf(spec.Parameter{}), "Items": reflect.TypeOf(spec.Items{}),
	"Header": reflect.TypeOf(spec.Header{}), "Response": reflect.TypeOf(spec.Response{}), "Responses": reflect.TypeOf(spec.Responses{}),
	"Schema": reflect.TypeOf(spec.Schema{}), "SecurityScheme": reflect.TypeOf(spec.SecurityScheme{}),
	"SecurityDefinitions": reflect.TypeOf(spec.SecurityDefinitions{}), "StringOrArray": reflect.TypeOf(spec.StringOrArray{}),
	"SchemaOrBool": reflect.TypeOf(spec.SchemaOrBool{}), "SchemaOrArray": reflect.TypeOf(spec.SchemaOrArray{}),
	"SchemaOrStringArray": reflect.TypeOf(spec.SchemaOrStringArray{}), "SchemaProperties": reflect.TypeOf(spec.SchemaProperties{}),
	"Ref": reflect.TypeOf(spec.Ref{}),
}

// unionKinds have no keyword table: their documents are enumerated / drawn by hand-written code.
var unionKinds = map[string]bool{"StringOrArray": true, "SchemaOrBool": true, "SchemaOrArray": true, "SchemaOrStringArray": true,
	"SchemaProperties": true, "Ref": true, "SecurityDefinitions": true}

func newKind(kind string) interface{} { return reflect.New(kindTypes[kind]).Interface() }

// ftype is what the generators need to know about a Go field type.
type ftype struct {
	class string // str bool f64 i64 any anys strs security strmap anymap kind slice map
	kind  string // for kind / slice / map: the kind of the (element) value
}

func classify(t reflect.Type) ftype {
	if t.PkgPath() == kindTypes["Schema"].PkgPath() && unionKinds[t.Name()] && t.Name() != "SecurityDefinitions" {
		return ftype{"kind", t.Name()}
	}
	switch t.Kind() {
	case reflect.Ptr:
		return classify(t.Elem())
	case reflect.String:
		return ftype{class: "str"}
	case reflect.Bool:
		return ftype{class: "bool"}
	case reflect.Float64:
		return ftype{class: "f64"}
	case reflect.Int64, reflect.Int:
		return ftype{class: "i64"}
	case reflect.Interface:
		return ftype{class: "any"}
	case reflect.Struct:
		return ftype{"kind", t.Name()}
	case reflect.Slice:
		switch t.Elem().Kind() {
		case reflect.Interface:
			return ftype{class: "anys"}
		case reflect.String:
			return ftype{class: "strs"}
		case reflect.Map:
			return ftype{class: "security"}
		}
		return ftype{"slice", classify(t.Elem()).kind}
	case reflect.Map:
		switch t.Elem().Kind() {
		case reflect.String:
			return ftype{class: "strmap"}
		case reflect.Interface:
			return ftype{class: "anymap"}
		}
		return ftype{"map", classify(t.Elem()).kind}
	}
	panic("harness: unclassified field type " + t.String())
}

func (f ftype) nested() bool {
	return f.class == "kind" && f.kind != "StringOrArray" || f.class == "slice" || f.class == "map"
}

type kwSpec struct {
	name    string
	ft      ftype
	special string // "", ext, ref, schema-url, unknown, path, status, default
}

type kindInfo struct {
	name     string
	kws      []*kwSpec
	ext      bool
	required []string
}

var kindTable = map[string]*kindInfo{}

// kwLower maps a lower-cased keyword to its exact spellings, over all kinds.
var kwLower = map[string]map[string]bool{}

var requiredOf = map[string][]string{
	"Swagger": {"swagger", "info", "paths"}, "Info": {"title", "version"}, "License": {"name"}, "Tag": {"name"},
	"ExternalDocumentation": {"url"}, "Parameter": {"name", "in", "type"}, "Items": {"type"}, "Header": {"type"},
	"Response": {"description"}, "Operation": {"responses"}, "SecurityScheme": {"type"},
}

func collectKeywords(t reflect.Type, ki *kindInfo) {
	for i := 0; i < t.NumField(); i++ {
		f := t.Field(i)
		if f.Anonymous && f.Type.Kind() == reflect.Struct {
			switch f.Type.Name() {
			case "VendorExtensible":
				ki.ext = true
				ki.kws = append(ki.kws, &kwSpec{name: "x-foo", special: "ext", ft: ftype{class: "any"}})
			case "Refable":
				ki.kws = append(ki.kws, &kwSpec{name: "$ref", special: "ref", ft: ftype{class: "str"}})
			default:
				collectKeywords(f.Type, ki)
			}
			continue
		}
		tag := strings.Split(f.Tag.Get("json"), ",")[0]
		switch {
		case tag == "-" && f.Name == "Ref":
			ki.kws = append(ki.kws, &kwSpec{name: "$ref", special: "ref", ft: ftype{class: "str"}})
		case tag == "-" && f.Name == "Schema":
			ki.kws = append(ki.kws, &kwSpec{name: "$schema", special: "schema-url", ft: ftype{class: "str"}})
		case tag == "-" && f.Name == "ExtraProps":
			ki.kws = append(ki.kws, &kwSpec{name: "unknownKw", special: "unknown", ft: ftype{class: "any"}})
		case tag == "-" && f.Name == "Paths":
			ki.kws = append(ki.kws, &kwSpec{name: "/a", special: "path", ft: ftype{"kind", "PathItem"}})
		case tag == "" && f.Name == "Default":
			ki.kws = append(ki.kws, &kwSpec{name: "default", special: "default", ft: ftype{"kind", "Response"}})
		case tag == "" && f.Name == "StatusCodeResponses":
			ki.kws = append(ki.kws, &kwSpec{name: "200", special: "status", ft: ftype{"kind", "Response"}})
		case tag == "" || tag == "-":
			panic("harness: field without a JSON name: " + t.Name() + "." + f.Name)
		default:
			ki.kws = append(ki.kws, &kwSpec{name: tag, ft: classify(f.Type)})
		}
	}
}

func init() {
	for _, k := range kindNames {
		ki := &kindInfo{name: k, required: requiredOf[k]}
		if !unionKinds[k] {
			collectKeywords(kindTypes[k], ki)
		}
		kindTable[k] = ki
		for _, kw := range ki.kws {
			if kw.special == "" || kw.special == "ref" || kw.special == "schema-url" || kw.special == "default" {
				l := strings.ToLower(kw.name)
				if kwLower[l] == nil {
					kwLower[l] = map[string]bool{}
				}
				kwLower[l][kw.name] = true
			}
		}
	}
	filter := func(xs []string) []string {
		var out []string
		for _, x := range xs {
			if ex, ok := kwLower[strings.ToLower(x)]; ok && !ex[x] {
				continue
			}
			out = append(out, x)
		}
		return out
	}
	plainNames, escapeNames, unknownNames = filter(plainNames), filter(escapeNames), filter(unknownNames)
}

func isRequired(ki *kindInfo, name string) bool {
	for _, r := range ki.required {
		if r == name {
			return true
		}
	}
	return false
}

// ---------------------------------------------------------------------------------------------
// alphabets

// names that any JSON encoder writes without an escape (beyond what UTF-8 needs)
var plainNames = []string{"a", "b", "c", "name1", "fooBar", "with space", "é", "日本語", "l s", "a/b", "a~b", "~0~1", "100%", "%41", "#", "a#b",
	"?", "q?r=1", "^a+$", "[a-z]*", "a.b", "type", "$ref", "-", "0", "_", "<b>&amp;"}

// names that need an escape inside a JSON string
var escapeNames = []string{"q\"uote", "back\\slash", "nl\\n", "tab\tx", "ctl\x01", "^a\\d+$", "\\", "\"", "line\nfeed", "\\u0041"}

var unknownNames = []string{"unknownKw", "foo", "Weird name", "é", "a\"b", "b\\c", "patternProperty", "$comment", "$id", "const", "if", "0", "-x", "xfoo", "x_y"}
var extSuffixes = []string{"foo", "bar", "nullable", "go-name", "order2", "é", "a b", "q\"", "b\\n", "0", "-", "UPPER", "ctl\x02", "a/b~c%d#e?f"}
var mimeTypes = []string{"application/json", "text/plain", "application/xml", "*/*", "application/vnd.x+json; charset=utf-8",
	// the same media type in other spellings (letter case, blanks around ';', parameter order): different texts, kept as written
	"application/vnd.x+json;charset=utf-8", "Application/JSON", "text/plain;  Charset=UTF-8 ; format=flowed", "text/plain; format=flowed; charset=UTF-8"}
var niceStrings = []string{"a", "text", "Some description.", "é", "日本", "with \"quotes\"", "back\\slash", "line\nbreak", "tab\t", "<b>&</b>", "l s", " ", "0", "null", "\x01"}
var canonicalRefs = []string{"#/definitions/x", "#/definitions/a~1b", "other.json#/definitions/y", "http://host/a.json#/d", "sub/o.json", "#/parameters/p", "#/responses/r",
	// names that a pointer has to escape, in their canonical spelling: "100%", "a%20b" (a literal percent sign), "a b", "{id}", "é", "Cats&Dogs"
	"#/definitions/100%25", "#/definitions/a%2520b", "#/definitions/a%20b", "#/paths/~1pets~1%7Bid%7D", "#/definitions/%C3%A9",
	"other.json?rev=2&x=1#/definitions/Cats&Dogs"}
var oddRefs = []string{"", "#", "%zz", "http://[::1", "a b", "//", "HTTP://Host:80//a//b.json#/x", "#/a%2Fb", ":", "file:///a/../b.json#",
	// characters that JSON has to escape, in the parts of a URL that net/url prints verbatim (query, opaque part)
	"#/definitions/100%25", "#/definitions/a%2520b", "#/definitions/%FF", "#/definitions/{id}", "#/definitions/a b", "doc.json#/definitions/%2525",
	`other.json?filter="a"#/definitions/x`, `models.json?rev=2","title":"injected`, `urn:schemas\thing`, `mailto:a"b@c`, `a.json?q=\u0041`}
var urlTextKeywords = map[string]bool{"url": true, "authorizationUrl": true, "tokenUrl": true, "termsOfService": true, "namespace": true, "host": true, "basePath": true}
var oddURLTexts = []string{"HTTPS://Example.COM/x", "https://example.com/contact#", "https://example.com/support team", "https://example.com/licença",
	"https://example.com/a/../b//c", "http://example.com:80/", "%zz", "http://[::1", "a b", "the url", "//", "mailto:A@B.c", "https://example.com/?q=a b#f g"}
var jsonTypes = []string{"string", "number", "integer", "boolean", "array", "object", "null"}
var statusCodes = []string{"200", "201", "204", "400", "404", "500", "100", "599", "600", "701", "999"} // any three digits (^([0-9]{3})$ in the meta-schema)
var xorderValues = []string{"", "0", "1", "1", "1.5", `"1"`, `"x"`, "-1", "1099511627776", "true"}

const draft4 = "http://json-schema.org/draft-04/schema#"

var stringChoices = map[string][]string{
	"type": {"string", "integer", "number", "boolean", "array", "file"}, "in": {"query", "header", "path", "formData", "body"},
	"format": {"int32", "int64", "date-time", "uuid", "x y"}, "pattern": {"^a\\d+$", "[a-z]*", "x\"y", "\\\\"},
	"collectionFormat": {"csv", "ssv", "tsv", "pipes", "multi"}, "flow": {"implicit", "password", "application", "accessCode"},
	"swagger": {"2.0"}, "host": {"api.example.com", "h:8080"}, "basePath": {"/", "/v1"}, "schemes": {"http", "https", "ws", "wss"},
	"consumes": mimeTypes, "produces": mimeTypes, "url": {"http://example.com/x", "https://e.org/?q=1#f"}, "email": {"a@b.c"},
	"authorizationUrl": {"http://auth/authorize"}, "tokenUrl": {"http://auth/token"}, "id": {"http://x/y#", "urn:x", "sub/"},
	"version": {"1", "1.0.0"}, "termsOfService": {"http://tos"}, "namespace": {"http://ns"},
}

// ---------------------------------------------------------------------------------------------
// minimal documents (phase 1)

func baseDoc(kind string) *jv {
	switch kind {
	case "Swagger":
		return mustJV(`{"swagger":"2.0","info":{"title":"t","version":"1"},"paths":{}}`)
	case "Info":
		return mustJV(`{"title":"t","version":"1"}`)
	case "License", "Tag":
		return mustJV(`{"name":"n"}`)
	case "ExternalDocumentation":
		return mustJV(`{"url":"http://e"}`)
	case "Parameter":
		return mustJV(`{"name":"p","in":"query","type":"string"}`)
	case "Items", "Header", "Schema":
		return mustJV(`{"type":"string"}`)
	case "Response":
		return mustJV(`{"description":"d"}`)
	case "Operation":
		return mustJV(`{"responses":{"200":{"description":"d"}}}`)
	case "SecurityScheme":
		return mustJV(`{"type":"basic"}`)
	case "StringOrArray":
		return jStr("string")
	case "SchemaOrBool":
		return jBool(true)
	case "SchemaOrArray", "SchemaOrStringArray":
		return baseDoc("Schema")
	case "SchemaProperties":
		return mustJV(`{"a":{"type":"string"}}`)
	case "Ref":
		return mustJV(`{"$ref":"#/definitions/x"}`)
	case "SecurityDefinitions":
		return mustJV(`{"a":{"type":"basic"}}`)
	}
	return jObj()
}

var securityFlavours = []string{`{"type":"basic"}`, `{"type":"apiKey","name":"k","in":"header"}`,
	`{"type":"oauth2","flow":"implicit","authorizationUrl":"http://a","scopes":{"r":"read"}}`,
	`{"type":"oauth2","flow":"password","tokenUrl":"http://t","scopes":{"r":"read"}}`,
	`{"type":"oauth2","flow":"application","tokenUrl":"http://t","scopes":{"r":"read"}}`,
	`{"type":"oauth2","flow":"accessCode","authorizationUrl":"http://a","tokenUrl":"http://t","scopes":{"r":"read"}}`}

// kindMinDocs lists the minimal documents of a kind; the first `primary` ones are also used in keyword pairs.
func kindMinDocs(kind string) (docs []*jv, primary int) {
	switch kind {
	case "Schema":
		return []*jv{baseDoc(kind), jObj()}, 2
	case "StringOrArray":
		return []*jv{jStr("string"), jArr(jStr("string"), jStr("null"))}, 2
	case "SchemaOrBool":
		return []*jv{jBool(true), jBool(false), baseDoc("Schema"), jObj()}, 3
	case "SchemaOrArray":
		return []*jv{baseDoc("Schema"), jArr(baseDoc("Schema")), jArr(baseDoc("Schema"), jObj()), jArr()}, 2
	case "SchemaOrStringArray":
		return []*jv{baseDoc("Schema"), jArr(jStr("a")), jArr(jStr("a"), jStr("b"))}, 2
	case "SchemaProperties":
		docs = []*jv{baseDoc(kind), mustJV(`{"b":{"type":"string"},"a":{}}`), mustJV(`{"b":{"x-order":1},"a":{"x-order":0},"c":{}}`),
			mustJV(`{"b":{"x-order":1},"a":{"x-order":1}}`), mustJV(`{"b":{"x-order":1.5},"a":{"x-order":"1"},"c":{"x-order":1}}`)}
		for _, n := range append(append([]string{}, plainNames...), escapeNames...) {
			docs = append(docs, jObj(mem(n, jObj())))
		}
		return docs, 1
	case "Ref":
		for _, r := range canonicalRefs {
			docs = append(docs, jObj(mem("$ref", jStr(r))))
		}
		return append(docs, jObj()), 1
	case "SecurityScheme":
		for _, f := range securityFlavours {
			docs = append(docs, mustJV(f))
		}
		return docs, 1
	case "Paths":
		// every name of the pools as a path key and as an extension key, and keys that hold the text of a pointer escape
		// (a pointer token spells them "~00", "~01"), alone and next to the key a second unescaping would turn them into
		docs = []*jv{baseDoc(kind)}
		pi := `{"get":{"responses":{"200":{"description":"d"}}}}`
		for _, n := range append(append([]string{}, plainNames...), escapeNames...) {
			docs = append(docs, jObj(mem("/"+n, mustJV(pi))), jObj(mem("x-"+n, mustJV(`{"k":1}`))))
		}
		for _, pair := range [][2]string{{"a~1b", "a/b"}, {"v~0", "v~"}, {"~01", "~1"}, {"~00", "~0"}, {"p~0~1q", "p~/q"}} {
			docs = append(docs, jObj(mem("/"+pair[0], mustJV(pi))),
				jObj(mem("/"+pair[0], mustJV(pi)), mem("/"+pair[1], mustJV(`{"put":{"responses":{"204":{"description":"other"}}}}`))),
				jObj(mem("x-"+pair[0], mustJV(`{"k":1}`)), mem("x-"+pair[1], mustJV(`{"k":2}`))))
		}
		return docs, 1
	case "SecurityDefinitions":
		for _, f := range securityFlavours {
			docs = append(docs, jObj(mem("a", mustJV(f))))
		}
		return docs, 1
	}
	return []*jv{baseDoc(kind)}, 1
}

var minPayloads = []string{`0`, `false`, `""`, `[]`, `{}`, `"a"`, `1.5`, `true`, `[null]`, `{"a":null}`, `[0,false,"",[],{}]`}

func minVals(kw *kwSpec) (vals []*jv, primary int) {
	switch kw.ft.class {
	case "str":
		s := "a"
		if c, ok := stringChoices[kw.name]; ok {
			s = c[0]
		}
		switch kw.special {
		case "ref":
			s = canonicalRefs[0]
		case "schema-url":
			s = draft4
		}
		return []*jv{jStr(s)}, 1
	case "bool":
		return []*jv{jBool(true)}, 1
	case "f64":
		return []*jv{jNum("0"), jNum("1.5"), jNum("-1")}, 2
	case "i64":
		return []*jv{jNum("0"), jNum("1")}, 2
	case "any":
		for _, p := range minPayloads {
			vals = append(vals, mustJV(p))
		}
		return vals, 5
	case "anys":
		return []*jv{mustJV(`[0,false,"",null,[],{}]`), mustJV(`["a"]`)}, 2
	case "strs":
		return []*jv{mustJV(`["a"]`), mustJV(`["a","b"]`)}, 2
	case "security":
		return []*jv{mustJV(`[{"k":["s"]}]`), mustJV(`[{"k":[]}]`), mustJV(`[{}]`)}, 2
	case "strmap":
		return []*jv{mustJV(`{"a":"b"}`), mustJV(`{"a":""}`)}, 1
	case "anymap":
		return []*jv{mustJV(`{"application/json":{"k":1}}`), mustJV(`{"a":0,"b":"","c":[],"d":{},"e":false}`)}, 2
	case "kind":
		return kindMinDocs(kw.ft.kind)
	case "slice":
		d, _ := kindMinDocs(kw.ft.kind)
		vals = []*jv{jArr(d[0].clone())}
		if len(d) > 1 {
			vals = append(vals, jArr(d[0].clone(), d[1].clone()))
		}
		return vals, 1
	case "map":
		d, _ := kindMinDocs(kw.ft.kind)
		for _, x := range d {
			vals = append(vals, jObj(mem("a", x.clone())))
		}
		return vals, 1
	}
	panic("harness: no minimal value for " + kw.name)
}

// cdoc is one generated document together with what it is meant to exercise.
type cdoc struct {
	kind  string
	doc   *jv
	nf    bool // in the normal form of C01
	phase int
	tags  []string
}

func withMember(base *jv, k string, v *jv) *jv {
	d := base.clone()
	d.set(k, v.clone())
	return d
}

func phase1(r *rng, emit func(cdoc)) {
	for _, kind := range kindNames {
		ki := kindTable[kind]
		if unionKinds[kind] {
			docs, _ := kindMinDocs(kind)
			for _, d := range docs {
				emit(cdoc{kind: kind, doc: d, nf: true, phase: 1, tags: []string{"phase1", "single"}})
			}
			continue
		}
		base := baseDoc(kind)
		emit(cdoc{kind: kind, doc: base, nf: true, phase: 1, tags: []string{"phase1", "base"}})
		if len(base.m) > 0 {
			emit(cdoc{kind: kind, doc: jObj(), nf: false, phase: 1, tags: []string{"phase1", "empty-object"}})
		}
		type prim struct {
			kw   *kwSpec
			vals []*jv
		}
		var prims []prim
		for _, kw := range ki.kws {
			vals, np := minVals(kw)
			prims = append(prims, prim{kw, vals[:np]})
			for _, v := range vals {
				tags := []string{"phase1", "single", "kw:" + kw.name}
				if kw.special != "" {
					tags = append(tags, kw.special)
				}
				if (kw.ft.class == "f64" || kw.ft.class == "i64") && v.s == "0" {
					tags = append(tags, "zero-validation")
				}
				if v.t == 'a' && len(v.a) == 0 && kw.ft.class == "kind" {
					tags = append(tags, "empty-tuple")
				}
				emit(cdoc{kind: kind, doc: withMember(base, kw.name, v), nf: true, phase: 1, tags: tags})
				if len(base.m) > 0 && base.get(kw.name) == nil {
					emit(cdoc{kind: kind, doc: jObj(mem(kw.name, v.clone())), nf: false, phase: 1, tags: append([]string{"bare"}, tags...)})
				}
			}
		}
		if ki.ext { // the prefix of a vendor extension is matched whatever its case
			emit(cdoc{kind: kind, doc: withMember(base, "X-Foo", jNum("1")), nf: true, phase: 1, tags: []string{"phase1", "single", "ext", "ext-uppercase"}})
			// object-valued: on a responses object every member that is not a lower-case x- key is first read as a response
			emit(cdoc{kind: kind, doc: withMember(base, "X-Rate-Limit", mustJV(`{"a":[1,{"b":null}],"description":"d"}`)), nf: true, phase: 1, tags: []string{"phase1", "single", "ext", "ext-uppercase", "ext-object"}})
			emit(cdoc{kind: kind, doc: withMember(base, "x-rate-limit", mustJV(`{"a":[1,{"b":null}],"description":"d"}`)), nf: true, phase: 1, tags: []string{"phase1", "single", "ext", "ext-object"}})
			// extension names that differ in letter case only are different members: none may be lost or merged by the encoder
			cv := withMember(base, "x-rank", mustJV(`{"n":1}`))
			cv.set("X-Rank", mustJV(`{"n":2}`))
			cv.set("x-RANK", mustJV(`{"n":3}`))
			emit(cdoc{kind: kind, doc: cv, nf: false, phase: 1, tags: []string{"phase1", "ext", "ext-case-variants"}})
		}
		if ki.ext {
			// an extension named after a keyword of the kind ("x-nullable" next to "nullable", "x-example", "x-deprecated", ...) is an
			// extension like any other: it survives as it is and leaves the keyword alone
			for _, kw := range ki.kws {
				if kw.special != "" || strings.HasPrefix(kw.name, "x-") {
					continue
				}
				emit(cdoc{kind: kind, doc: withMember(base, "x-"+kw.name, mustJV(`true`)), nf: true, phase: 1, tags: []string{"phase1", "single", "ext", "ext-named-after-keyword"}})
			}
			for _, n := range []string{"x-nullable", "x-isnullable", "x-omitempty", "x-go-name", "x-go-type", "x-example", "x-deprecated", "x-readOnly", "x-required"} {
				emit(cdoc{kind: kind, doc: withMember(base, n, mustJV(`true`)), nf: true, phase: 1, tags: []string{"phase1", "single", "ext", "ext-well-known"}})
			}
		}
		if kind == "Schema" {
			// keywords of later JSON-Schema drafts that Swagger 2.0 does not model: unknown keywords like any other, whatever they hold
			for _, n := range []string{"contains", "propertyNames", "if", "then", "else", "const", "$defs", "dependentSchemas", "unevaluatedProperties", "examples", "$id", "$comment",
				"deprecated", "writeOnly", "contentEncoding", "contentMediaType", "minContains", "dependentRequired", "prefixItems", "$anchor"} {
				for _, v := range []string{`{"type":"string"}`, `true`, `[{"type":"string"}]`, `{"$ref":"#/definitions/x"}`, `"text"`, `7`} {
					emit(cdoc{kind: kind, doc: withMember(base, n, mustJV(v)), nf: true, phase: 1, tags: []string{"phase1", "single", "unknown-kw", "later-draft-keyword"}})
				}
			}
		}
		for _, kw := range ki.kws { // a required string may be empty
			if kw.ft.class == "str" && isRequired(ki, kw.name) {
				emit(cdoc{kind: kind, doc: withMember(base, kw.name, jStr("")), nf: true, phase: 1, tags: []string{"phase1", "single", "kw:" + kw.name, "empty-required"}})
			}
		}
		for i := 0; i < len(prims); i++ {
			for j := i + 1; j < len(prims); j++ {
				a, b := prims[i], prims[j]
				d := withMember(base, a.kw.name, a.vals[r.intn(len(a.vals))])
				d.set(b.kw.name, b.vals[r.intn(len(b.vals))].clone())
				emit(cdoc{kind: kind, doc: d, nf: true, phase: 1, tags: []string{"phase1", "pair", "kw:" + a.kw.name, "kw:" + b.kw.name}})
			}
		}
	}
}

// ---------------------------------------------------------------------------------------------
// normal-form documents grown top-down (phase 2)

const maxDepth = 5

type docGen struct {
	r      *rng
	budget int
	tags   map[string]bool
	// what a document may contain is decided once per document, so that the inputs of the known
	// findings (unescaped property names, $schema, upper-case X-, empty required strings, x-order)
	// stay a minority and do not mask everything else
	escNames, schemaURL, upperExt, emptyReq, xorder bool
}

func newDocGen(r *rng, budget int) *docGen {
	g := &docGen{r: r, budget: budget, tags: map[string]bool{}}
	g.escNames, g.schemaURL, g.upperExt = r.chance(1, 3), r.chance(1, 4), r.chance(1, 12)
	g.emptyReq, g.xorder = r.chance(1, 8), r.chance(1, 2)
	return g
}

func (g *docGen) tag(t string) { g.tags[t] = true }

func (g *docGen) str(kw string) *jv {
	if c, ok := stringChoices[kw]; ok {
		return jStr(g.r.pick(c))
	}
	return jStr(g.r.pick(niceStrings))
}

func fmtFloat(f float64) string { return strconv.FormatFloat(f, 'f', -1, 64) }

func (g *docGen) f64() *jv {
	switch g.r.intn(8) {
	case 0, 1, 2:
		g.tag("zero-validation")
		return jNum("0")
	case 3:
		return jNum(g.r.pick([]string{"1", "-1", "100", "4503599627370496", "9007199254740991", "-9007199254740991"}))
	case 4:
		return jNum(fmtFloat(float64(int64(g.r.intn(2001))-1000) / 2))
	case 5:
		return jNum(fmtFloat(float64(int64(g.r.intn(4001))-2000) / 4))
	case 6:
		return jInt(int64(g.r.next()>>11) - (1 << 52))
	}
	return jInt(int64(g.r.intn(1000)))
}

func (g *docGen) i64() *jv {
	switch g.r.intn(6) {
	case 0, 1:
		g.tag("zero-validation")
		return jNum("0")
	case 2:
		return jNum(g.r.pick([]string{"1", "2", "10", "255", "9007199254740991", "-1"}))
	}
	return jInt(int64(g.r.intn(1 << 31)))
}

var payloadKeys = []string{"a", "b", "k", "", "x-y", "é", "a\"b", "0", "n\\n", "Key"}

// payload is free-form JSON; null is allowed inside arrays and objects, not at the top.
func (g *docGen) payload(depth int, allowNull bool) *jv {
	n := 12
	if depth >= 3 {
		n = 8
	}
	if allowNull && g.r.chance(1, 6) {
		return jNull()
	}
	switch g.r.intn(n) {
	case 0:
		return jNum("0")
	case 1:
		return jBool(false)
	case 2:
		return jStr("")
	case 3:
		return jBool(true)
	case 4:
		return jStr(g.r.pick(niceStrings))
	case 5:
		return g.f64()
	case 6:
		return jArr()
	case 7:
		return jObj()
	case 8, 9:
		out := jArr()
		for i := g.r.intn(4); i >= 0; i-- {
			out.a = append(out.a, g.payload(depth+1, true))
		}
		return out
	}
	out := jObj()
	for _, k := range g.names(payloadKeys, 1+g.r.intn(3)) {
		out.m = append(out.m, jmem{k, g.payload(depth+1, true)})
	}
	return out
}

// names draws k distinct names (distinct also up to letter case).
func (g *docGen) names(from []string, k int) []string {
	var out []string
	seen := map[string]bool{}
	for tries := 0; len(out) < k && tries < 4*k+4; tries++ {
		n := g.r.pick(from)
		if l := strings.ToLower(n); !seen[l] {
			seen[l] = true
			out = append(out, n)
		}
	}
	return out
}

// mapNames draws the keys of a name-keyed map; escPct is the share of names that need escaping.
func (g *docGen) mapNames(k, escPct int) []string {
	var out []string
	seen := map[string]bool{}
	for tries := 0; len(out) < k && tries < 4*k+4; tries++ {
		var n string
		if g.escNames && g.r.intn(100) < escPct {
			n = g.r.pick(escapeNames)
			g.tag("weird-name")
		} else {
			n = g.r.pick(plainNames)
		}
		if !seen[n] {
			seen[n] = true
			out = append(out, n)
		}
	}
	return out
}

func (g *docGen) extMembers(o *jv) {
	g.tag("ext")
	prefix := "x-"
	if g.upperExt && g.r.chance(1, 2) {
		prefix = "X-"
		g.tag("ext-uppercase")
	}
	for _, s := range g.names(extSuffixes, 1+g.r.intn(3)) {
		o.m = append(o.m, jmem{prefix + s, g.payload(0, false)})
	}
}

func (g *docGen) byType(ft ftype, kw, owner string, depth int) *jv {
	switch ft.class {
	case "str":
		return g.str(kw)
	case "bool":
		return jBool(true)
	case "f64":
		return g.f64()
	case "i64":
		return g.i64()
	case "any":
		return g.payload(0, false)
	case "anys":
		out := jArr()
		for i := g.r.intn(4); i >= 0; i-- {
			out.a = append(out.a, g.payload(1, true))
		}
		return out
	case "strs":
		out := jArr()
		for i := g.r.intn(3); i >= 0; i-- {
			out.a = append(out.a, g.str(kw))
		}
		return out
	case "security":
		out := jArr()
		for i := g.r.intn(2); i >= 0; i-- {
			req := jObj()
			for _, n := range g.names([]string{"basic", "key", "oauth", "é", "a\"b"}, 1+g.r.intn(2)) {
				sc := jArr()
				for j := g.r.intn(3); j > 0; j-- {
					sc.a = append(sc.a, jStr(g.r.pick([]string{"read", "write", "a:b", ""})))
				}
				req.m = append(req.m, jmem{n, sc})
			}
			out.a = append(out.a, req)
		}
		return out
	case "strmap":
		out := jObj()
		for _, n := range g.mapNames(1+g.r.intn(3), 20) {
			out.m = append(out.m, jmem{n, jStr(g.r.pick(niceStrings))})
		}
		return out
	case "anymap":
		out := jObj()
		for _, n := range g.names(mimeTypes, 1+g.r.intn(2)) {
			out.m = append(out.m, jmem{n, g.payload(0, false)})
		}
		return out
	case "kind":
		return g.kind(ft.kind, depth+1)
	case "slice":
		out := jArr()
		for i := g.r.intn(3); i >= 0; i-- {
			out.a = append(out.a, g.kind(ft.kind, depth+1))
		}
		return out
	case "map":
		out := jObj()
		var names []string
		if kw == "headers" {
			names = g.names([]string{"X-Rate-Limit", "Content-Type", "x-a", "é", "a\"b", "ETag"}, 1+g.r.intn(2))
		} else {
			names = g.mapNames(1+g.r.intn(3), 20)
		}
		for _, n := range names {
			out.m = append(out.m, jmem{n, g.kind(ft.kind, depth+1)})
		}
		return out
	}
	panic("harness: byType " + ft.class)
}

func (g *docGen) kind(kind string, depth int) *jv {
	if depth > maxDepth || g.budget <= 0 {
		return baseDoc(kind)
	}
	switch kind {
	case "StringOrArray":
		if g.r.chance(3, 4) {
			return jStr(g.r.pick(jsonTypes))
		}
		out := jArr()
		for _, n := range g.names(jsonTypes, 2+g.r.intn(2)) {
			out.a = append(out.a, jStr(n))
		}
		return out
	case "SchemaOrBool":
		if g.r.chance(1, 3) {
			return jBool(g.r.chance(1, 2))
		}
		return g.object("Schema", depth)
	case "SchemaOrArray":
		if g.r.chance(2, 3) {
			return g.object("Schema", depth)
		}
		out := jArr()
		for i := g.r.intn(3); i >= 0; i-- {
			out.a = append(out.a, g.object("Schema", depth))
		}
		return out
	case "SchemaOrStringArray":
		if g.r.chance(1, 2) {
			return g.object("Schema", depth)
		}
		out := jArr()
		for _, n := range g.names(plainNames, 1+g.r.intn(3)) {
			out.a = append(out.a, jStr(n))
		}
		return out
	case "SchemaProperties":
		return g.properties(depth, 8)
	case "Ref":
		return jObj(mem("$ref", jStr(g.r.pick(canonicalRefs))))
	case "SecurityDefinitions":
		return g.byType(ftype{"map", "SecurityScheme"}, "securityDefinitions", kind, depth-1)
	}
	return g.object(kind, depth)
}

// properties draws a property map; its members may carry x-order extensions.
func (g *docGen) properties(depth, escPct int) *jv {
	out := jObj()
	ordered := g.xorder && g.r.chance(2, 3)
	for _, n := range g.mapNames(1+g.r.intn(6), escPct) {
		s := g.object("Schema", depth)
		if ordered {
			if xo := g.r.pick(xorderValues); xo != "" {
				g.tag("x-order")
				s.set("x-order", mustJV(xo))
			}
		}
		out.m = append(out.m, jmem{n, s})
	}
	return out
}

func (g *docGen) object(kind string, depth int) *jv {
	if depth > maxDepth || g.budget <= 0 {
		return baseDoc(kind)
	}
	g.budget--
	ki := kindTable[kind]
	o := jObj()
	for _, kw := range ki.kws {
		req := isRequired(ki, kw.name)
		if !req && !g.r.chance(1, 2) || kw.special == "schema-url" && !g.schemaURL {
			continue
		}
		if !req && kw.ft.nested() && (depth >= maxDepth || g.budget <= 0) {
			continue
		}
		switch kw.special {
		case "ext":
			g.extMembers(o)
		case "ref":
			g.tag("ref")
			o.m = append(o.m, jmem{"$ref", jStr(g.r.pick(canonicalRefs))})
		case "schema-url":
			g.tag("schema-url")
			o.m = append(o.m, jmem{"$schema", jStr(draft4)})
		case "unknown":
			if g.r.chance(1, 2) {
				g.tag("unknown-kw")
				for _, n := range g.names(unknownNames, 1+g.r.intn(2)) {
					o.m = append(o.m, jmem{n, g.payload(0, false)})
				}
			}
		case "path":
			for _, n := range g.mapNames(1+g.r.intn(3), 20) {
				o.m = append(o.m, jmem{"/" + n, g.kind("PathItem", depth+1)})
			}
		case "status":
			for _, n := range g.names(statusCodes, 1+g.r.intn(2)) {
				o.m = append(o.m, jmem{n, g.kind("Response", depth+1)})
			}
		default:
			var v *jv
			switch {
			case kw.ft.class == "str" && req && g.emptyReq && g.r.chance(1, 3):
				g.tag("empty-required")
				v = jStr("")
			case kw.name == "patternProperties":
				v = g.properties(depth+1, 25)
			case kw.name == "type" && kind == "Schema" && g.r.chance(1, 8):
				v = jStr("Weird type")
			default:
				v = g.byType(kw.ft, kw.name, kind, depth)
			}
			o.m = append(o.m, jmem{kw.name, v})
		}
	}
	if kind == "SecurityScheme" {
		// the flavour decides which members the encoder always writes
		if t := o.get("type"); t != nil && t.s != "" {
			t.s = g.r.pick([]string{"basic", "apiKey", "oauth2"})
			f := o.get("flow")
			if t.s == "oauth2" && f != nil && (f.s == "implicit" || f.s == "accessCode") && o.get("authorizationUrl") == nil {
				o.m = append(o.m, jmem{"authorizationUrl", g.str("authorizationUrl")})
			}
		}
	}
	for i := len(o.m) - 1; i > 0; i-- { // member order is irrelevant to a decoder: shuffle it
		j := g.r.intn(i + 1)
		o.m[i], o.m[j] = o.m[j], o.m[i]
	}
	return o
}

var kindWeight = map[string]int{"Schema": 5, "Swagger": 2, "Operation": 2, "Parameter": 2, "Response": 2, "SchemaProperties": 2}

func phase2(r *rng, n int, emit func(cdoc)) {
	total := 0
	for _, k := range kindNames {
		total += 1 + kindWeight[k]
	}
	for _, kind := range kindNames {
		share := (n*(1+kindWeight[kind]) + total - 1) / total
		kr := r.fork(uint64(len(kind)) + uint64(kind[0])<<8)
		for i := 0; i < share; i++ {
			var d *jv
			var g *docGen
			for budget := 2 + kr.intn(14); ; budget /= 2 {
				g = newDocGen(kr.fork(uint64(i)), budget)
				d = g.kind(kind, 0)
				if len(d.bytes()) < 5000 || budget == 0 {
					break
				}
			}
			tags := []string{"phase2"}
			if d.t == 'o' && !unionKinds[kind] {
				for _, m := range d.m {
					if ex := kwLower[strings.ToLower(m.k)]; ex[m.k] {
						g.tag("kw:" + m.k)
					}
				}
			}
			for t := range g.tags {
				tags = append(tags, t)
			}
			sort.Strings(tags[1:])
			emit(cdoc{kind: kind, doc: d, nf: true, phase: 2, tags: tags})
		}
	}
}

// ---------------------------------------------------------------------------------------------
// one structure-aware mutation of a phase-2 document (phase 3)

func collectNodes(j *jv, objs, nums *[]*jv) {
	switch j.t {
	case '#':
		*nums = append(*nums, j)
	case 'a':
		for _, x := range j.a {
			collectNodes(x, objs, nums)
		}
	case 'o':
		if len(j.m) > 0 {
			*objs = append(*objs, j)
		}
		for _, m := range j.m {
			collectNodes(m.v, objs, nums)
		}
	}
}

func typeClass(j *jv) byte {
	if j.t == 't' || j.t == 'f' {
		return 'b'
	}
	return j.t
}

var otherTypeValues = []string{`null`, `true`, `1`, `"s"`, `["a"]`, `{"a":1}`}
var extremeNumbers = []string{"1e21", "1e-7", "-0", "9007199254740993", "1.5", "-1e308", "1E2", "0.0", "18446744073709551616"}
var mutationKinds = []string{"type", "null", "empty", "dup", "casefold", "number", "ref", "deep"}

func caseFold(r *rng, k string) string {
	if strings.HasPrefix(k, "x-") {
		return "X-" + k[2:]
	}
	switch r.intn(3) {
	case 0:
		return strings.ToUpper(k)
	case 1:
		if k != "" && k[0] < 0x80 {
			return strings.ToUpper(k[:1]) + k[1:]
		}
	}
	b := []byte(k)
	for i := range b {
		if i%2 == 1 && b[i] >= 'a' && b[i] <= 'z' {
			b[i] -= 32
		}
	}
	return string(b)
}

func deepAllOf(n int, core *jv) *jv {
	d := core
	for i := 0; i < n; i++ {
		d = jObj(mem("allOf", jArr(d)))
	}
	return d
}

// mutate returns the mutants of d for one mutation kind.
func mutate(r *rng, d *jv, mk string) []*jv {
	c := d.clone()
	var objs, nums []*jv
	collectNodes(c, &objs, &nums)
	if len(objs) == 0 { // a scalar or empty document: only its own type can change
		var out []*jv
		for _, o := range otherTypeValues {
			if v := mustJV(o); typeClass(v) != typeClass(c) {
				out = append(out, v)
			}
		}
		return out
	}
	o := objs[r.intn(len(objs))]
	i := r.intn(len(o.m))
	switch mk {
	case "type":
		var out []*jv
		old := o.m[i].v
		for _, ot := range otherTypeValues {
			if v := mustJV(ot); typeClass(v) != typeClass(old) {
				o.m[i].v = v
				out = append(out, c.clone())
			}
		}
		return out
	case "null":
		if v := o.m[i].v; v.t == 'a' && r.chance(1, 2) {
			v.a = append(v.a, jNull())
		} else {
			o.m[i].v = jNull()
		}
	case "empty":
		for try := 0; try < 8; try++ {
			if v := o.m[i].v; v.t == 'a' || v.t == 'o' || v.t == 's' {
				break
			}
			o = objs[r.intn(len(objs))]
			i = r.intn(len(o.m))
		}
		switch v := o.m[i].v; v.t {
		case 'a':
			v.a = nil
		case 'o':
			v.m = nil
		case 's':
			v.s = ""
		default:
			o.m[i].v = jObj()
		}
	case "dup":
		old := o.m[i].v
		var nv *jv
		if r.chance(1, 2) {
			nv = mustJV(otherTypeValues[r.intn(len(otherTypeValues))])
		} else {
			nv = newDocGen(r, 3).payload(1, false)
		}
		if bytes.Equal(nv.bytes(), old.bytes()) {
			nv = jArr(old.clone())
		}
		at := r.intn(len(o.m) + 1)
		o.m = append(o.m[:at], append([]jmem{{o.m[i].k, nv}}, o.m[at:]...)...)
	case "casefold":
		for try := 0; try < 8 && caseFold(r, o.m[i].k) == o.m[i].k; try++ {
			o = objs[r.intn(len(objs))]
			i = r.intn(len(o.m))
		}
		k := caseFold(r, o.m[i].k)
		if r.chance(1, 2) {
			o.m[i].k = k
		} else {
			o.m = append(o.m, jmem{k, o.m[i].v.clone()})
		}
	case "number":
		lit := r.pick(extremeNumbers)
		if len(nums) > 0 {
			nums[r.intn(len(nums))].s = lit
		} else {
			o.set(r.pick([]string{"maximum", "maxLength", "minItems", "multipleOf", "x-order"}), jNum(lit))
		}
	case "ref":
		o.set("$ref", jStr(r.pick(oddRefs)))
	case "deep":
		if r.chance(1, 2) {
			return []*jv{deepAllOf(200, c)}
		}
		o.set(r.pick([]string{"allOf", "schema", "items", "not"}), deepAllOf(200, jObj(mem("type", jStr("string")))))
	}
	return []*jv{c}
}

var wrongTypeValues = []string{`null`, `true`, `false`, `1`, `"s"`, `""`, `["a"]`, `[]`, `{"a":1}`, `{}`, `[""]`, `[null]`, `[null,"a"]`}

// phase3Systematic gives every keyword of every kind a value of every JSON type (small witnesses).
func phase3Systematic(emit func(cdoc)) {
	for _, kind := range kindNames {
		base := baseDoc(kind)
		for _, kw := range kindTable[kind].kws {
			for _, w := range wrongTypeValues {
				emit(cdoc{kind: kind, doc: withMember(base, kw.name, mustJV(w)), phase: 3, tags: []string{"phase3", "mutation:type", "systematic", "kw:" + kw.name}})
			}
			_ = kw
		}
		if kind == "Responses" {
			// response names that parse as numbers without being three digits, or whose canonical rendering is shorter than
			// their spelling: whatever the decoder makes of them, a second pass must not change it again
			for _, n := range []string{"020", "007", "000", "+20", "-07", "-20", "20", "2000", "+200", "0200", "1e2", " 200", "7", "99", "1000", "-1", "0", "42"} {
				emit(cdoc{kind: kind, doc: jObj(mem(n, mustJV(`{"description":"d"}`)), mem("default", mustJV(`{"description":"x"}`))), phase: 3, tags: []string{"phase3", "mutation:edge-name", "systematic", "status-spelling"}})
			}
		}
		// member names at the edge of what the decoders test for ("x-" prefix, "$ref", "/" prefix, the empty name)
		for _, n := range []string{"x", "X", "x-", "X-", "-", "", "$", "/", "$ref ", "xx"} {
			emit(cdoc{kind: kind, doc: withMember(base, n, jNum("1")), phase: 3, tags: []string{"phase3", "mutation:edge-name", "systematic"}})
		}
		for _, kw := range kindTable[kind].kws {
			if kw.special == "schema-url" { // the same spellings where a URL is expected ($schema is parsed, and printed back, as a URL)
				for _, o := range oddRefs {
					emit(cdoc{kind: kind, doc: withMember(base, kw.name, jStr(o)), phase: 3, tags: []string{"phase3", "mutation:schema-url", "systematic", "kw:" + kw.name}})
				}
			}
			if urlTextKeywords[kw.name] && kw.special == "" && kw.ft.class == "str" {
				// members whose value is the text of a URL (format: uri) but is kept as a plain string: every text survives as written,
				// whatever a URL parser would make of it
				for _, o := range oddURLTexts {
					emit(cdoc{kind: kind, doc: withMember(base, kw.name, jStr(o)), nf: true, phase: 2, tags: []string{"url-text", "systematic", "kw:" + kw.name}})
				}
			}
			if kw.special == "ref" {
				// a reference next to exactly one other member, nothing else (no member of the base document): present, and
				// present but empty
				for _, other := range kindTable[kind].kws {
					if other.special != "" {
						continue
					}
					vals, _ := minVals(other)
					refd := jObj(mem(kw.name, jStr(canonicalRefs[0])))
					d1 := refd.clone()
					d1.set(other.name, vals[0].clone())
					emit(cdoc{kind: kind, doc: d1, nf: kind == "Schema", phase: 2, tags: []string{"ref-with-one-member", "systematic", "kw:" + other.name}})
					for _, e := range []string{`{}`, `[]`, `""`, `null`, `false`, `0`} {
						d2 := refd.clone()
						d2.set(other.name, mustJV(e))
						emit(cdoc{kind: kind, doc: d2, phase: 3, tags: []string{"phase3", "ref-with-empty-member", "systematic", "kw:" + other.name}})
					}
				}
			}
			if kw.special == "ref" { // every odd spelling of a reference, on every kind that can hold one
				for _, o := range oddRefs {
					emit(cdoc{kind: kind, doc: withMember(base, kw.name, jStr(o)), phase: 3, tags: []string{"phase3", "mutation:ref", "systematic", "kw:" + kw.name}})
				}
			}
		}
		if unionKinds[kind] {
			for _, w := range wrongTypeValues {
				emit(cdoc{kind: kind, doc: mustJV(w), phase: 3, tags: []string{"phase3", "mutation:type", "systematic"}})
			}
		}
	}
}

func phase3(r *rng, bases []cdoc, n int, emit func(cdoc)) {
	phase3Systematic(emit)
	if len(bases) == 0 {
		return
	}
	for i := 0; i < n; i++ {
		b := bases[r.intn(len(bases))]
		mk := mutationKinds[i%len(mutationKinds)]
		for _, m := range mutate(r, b.doc, mk) {
			if len(m.bytes()) > 8000 {
				continue
			}
			emit(cdoc{kind: b.kind, doc: m, phase: 3, tags: []string{"phase3", "mutation:" + mk}})
		}
	}
}

// codecDocs is the document stream shared by the generator and the oracles.
func codecDocs(r *rng, n int, tier string) []cdoc {
	var docs []cdoc
	emit := func(d cdoc) {
		if xorderTie(d.doc, d.kind == "SchemaProperties") {
			d.tags = append(d.tags, "xorder-tie")
		}
		docs = append(docs, d)
	}
	phase1(r.fork(1), emit)
	p2 := len(docs)
	phase2(r.fork(2), n, emit)
	bases := append([]cdoc{}, docs[p2:]...)
	phase3(r.fork(3), bases, n/2, emit)
	return docs
}

// xorderInt is Extensions.GetInt("x-order") on a decoded schema object.
func xorderInt(s *jv) (int, bool) {
	if s.t != 'o' {
		return 0, false
	}
	var v *jv
	for _, m := range s.m {
		if m.k == "x-order" { // the lookup is by the lower-cased key only
			v = m.v
		}
	}
	if v == nil {
		return 0, false
	}
	switch v.t {
	case 's':
		if i, err := strconv.Atoi(v.s); err == nil {
			return i, true
		}
	case '#':
		if f, err := strconv.ParseFloat(v.s, 64); err == nil {
			return int(f), true
		}
	}
	return 0, false
}

// xorderTie tells whether two sibling properties carry the same integer x-order (their relative
// order in the output is then unspecified: a known finding).
func xorderTie(j *jv, isProps bool) bool {
	switch j.t {
	case 'a':
		for _, x := range j.a {
			if xorderTie(x, false) {
				return true
			}
		}
	case 'o':
		seen := map[int]bool{}
		for _, m := range j.m {
			if isProps {
				if i, ok := xorderInt(m.v); ok {
					if seen[i] {
						return true
					}
					seen[i] = true
				}
			}
			if xorderTie(m.v, !isProps && (m.k == "properties" || m.k == "patternProperties")) {
				return true
			}
		}
	}
	return false
}

// ---------------------------------------------------------------------------------------------
// running the implementation

func safeDecode(kind string, data []byte) (v interface{}, err error, pan string) {
	defer func() {
		if r := recover(); r != nil {
			pan = fmt.Sprint(r)
		}
	}()
	v = newKind(kind)
	err = json.Unmarshal(data, v)
	return
}

func safeEncode(v interface{}) (b []byte, err error, pan string) {
	defer func() {
		if r := recover(); r != nil {
			pan = fmt.Sprint(r)
		}
	}()
	b, err = json.Marshal(v)
	return
}

func goDec(kind string, data []byte) interface{} {
	v, err, pan := safeDecode(kind, data)
	switch {
	case pan != "":
		return orderedMap{{"panic", pan}}
	case err != nil:
		return orderedMap{{"err", true}}
	}
	return orderedMap{{"ok", goView(reflect.ValueOf(v).Elem())}}
}

func goEnc(v interface{}) interface{} {
	b, err, pan := safeEncode(v)
	switch {
	case pan != "":
		return orderedMap{{"panic", pan}}
	case err != nil:
		return orderedMap{{"err", true}}
	}
	return orderedMap{{"ok", json.RawMessage(b)}}
}

func goNorm(kind string, data []byte) interface{} {
	v, err, pan := safeDecode(kind, data)
	switch {
	case pan != "":
		return orderedMap{{"panic", pan}}
	case err != nil:
		return orderedMap{{"err", true}}
	}
	return goEnc(v)
}

func genCodecCases(r *rng, n int, tier string, cw *caseWriter) {
	count := func(op, kind string, tags []string) {
		cw.count(op + ":" + kind)
		for _, t := range tags {
			cw.count("tag:" + t)
		}
	}
	for _, d := range codecDocs(r, n, tier) {
		raw := json.RawMessage(d.doc.bytes())
		nt := d.doc.nonTrivial()
		// the Go view names every field of every nested struct: a few deep documents would give lines far above 20 kB
		if view, err := json.Marshal(goDec(d.kind, raw)); err == nil && len(view)+len(raw) < 19000 {
			cw.emit(orderedMap{{"op", "dec"}, {"kind", d.kind}, {"nt", nt}, {"tags", d.tags}, {"j", raw}, {"go", json.RawMessage(view)}})
			count("dec", d.kind, d.tags)
		} else {
			cw.count("skipped:dec-view-too-large")
		}
		cw.emit(orderedMap{{"op", "norm"}, {"kind", d.kind}, {"cmp", "ordered"}, {"nt", nt}, {"tags", d.tags}, {"j", raw}, {"go", goNorm(d.kind, raw)}})
		count("norm", d.kind, d.tags)
	}
	br := r.fork(4)
	for i := 0; i < n/2; i++ {
		kind := builderKinds[i%len(builderKinds)]
		b := buildValue(newRng(br.next()), kind)
		view := viewOf(b.v)
		tags := append([]string{"builder"}, b.tagList()...)
		cw.emit(orderedMap{{"op", "enc"}, {"kind", kind}, {"cmp", "ordered"}, {"nt", true}, {"tags", tags}, {"v", view}, {"go", goEnc(b.v)}})
		count("enc", kind, tags)
	}
}

func init() { generators["codec"] = genCodecCases }

// ---------------------------------------------------------------------------------------------
// values made through the builder API (never decoded)

type built struct {
	v    interface{}
	tags map[string]bool
}

func (b *built) tagList() []string {
	var out []string
	for t := range b.tags {
		out = append(out, t)
	}
	sort.Strings(out)
	return out
}

var builderKinds = []string{"Schema", "Parameter", "Header", "Items", "Response", "Operation", "SecurityScheme", "Schema",
	"Swagger", "Tag", "Info", "PathItem", "Responses", "Paths"}

type builder struct {
	r    *rng
	tags map[string]bool
}

type bcall struct {
	name string
	f    func()
}

// run performs up to max random calls out of the menu.
func (b *builder) run(max int, menu []bcall) {
	for k := b.r.intn(max + 1); k > 0; k-- {
		c := menu[b.r.intn(len(menu))]
		b.tags["b:"+c.name] = true
		c.f()
	}
}

var extKeys = []string{"x-foo", "X-Bar", "x-order", "X-ORDER", "foo", "Bar", "x-", "x", "x-é", "x-a b", "x-q\"", "description", "X-foo"}

func (b *builder) payload(depth int) interface{} {
	n := 15
	if depth >= 2 {
		n = 11
	}
	switch b.r.intn(n) {
	case 0:
		return nil
	case 1:
		return true
	case 2:
		return false
	case 3:
		return 0
	case 4:
		return floatChoices[b.r.intn(len(floatChoices))]
	case 5:
		return ""
	case 6, 7:
		return b.r.pick(niceStrings)
	case 8:
		return int64(b.r.intn(1 << 31))
	case 9:
		return []string{"a", "b"}
	case 10:
		if b.r.chance(1, 2) {
			return []interface{}{}
		}
		return map[string]interface{}{}
	case 11, 12:
		out := []interface{}{}
		for i := b.r.intn(3); i >= 0; i-- {
			out = append(out, b.payload(depth+1))
		}
		return out
	}
	out := map[string]interface{}{}
	for i := b.r.intn(3); i >= 0; i-- {
		out[b.r.pick(payloadKeys)] = b.payload(depth + 1)
	}
	return out
}

// ext draws an extension key (any case, also without the x- prefix) and its value. An x-order is
// given as JSON would give it (float64 or string): the ordering reads nothing else.
func (b *builder) ext() (string, interface{}) {
	k, v := b.r.pick(extKeys), b.payload(0)
	if strings.ToLower(k) == "x-order" {
		switch n := v.(type) {
		case int:
			v = float64(n)
		case int64:
			v = float64(n)
		}
	}
	return k, v
}

func (b *builder) payloads() []interface{} {
	var out []interface{}
	for i := b.r.intn(4); i > 0; i-- {
		out = append(out, b.payload(1))
	}
	return out
}

func (b *builder) name() string {
	if b.r.chance(15, 100) {
		return b.r.pick(escapeNames)
	}
	return b.r.pick(plainNames)
}

func (b *builder) strs(from []string) []string {
	var out []string
	for i := b.r.intn(3); i > 0; i-- {
		out = append(out, b.r.pick(from))
	}
	return out
}

func (b *builder) i64() int64   { return intChoices[b.r.intn(len(intChoices))] }
func (b *builder) f64() float64 { return floatChoices[b.r.intn(len(floatChoices))] }
func (b *builder) bit() bool    { return b.r.chance(1, 2) }
func (b *builder) tpe() string  { return b.r.pick(stringChoices["type"]) }
func (b *builder) fmt() string  { return b.r.pick([]string{"", "int32", "date-time"}) }

func (b *builder) schema(depth int) *spec.Schema {
	sub := func() *spec.Schema {
		if depth >= 2 {
			return spec.StringProperty()
		}
		return b.schema(depth + 1)
	}
	var s *spec.Schema
	ctor := b.r.intn(13)
	b.tags[fmt.Sprintf("b:ctor%d", ctor)] = true
	switch ctor {
	case 0, 1:
		s = new(spec.Schema)
	case 2:
		s = spec.StringProperty()
	case 3:
		s = spec.Int64Property()
	case 4:
		s = spec.BoolProperty()
	case 5:
		s = spec.DateTimeProperty()
	case 6:
		s = spec.Float64Property()
	case 7:
		s = spec.ArrayProperty(sub())
	case 8:
		s = spec.ArrayProperty(nil)
	case 9:
		s = spec.MapProperty(sub())
	case 10:
		s = spec.MapProperty(nil)
	case 11:
		s = spec.RefProperty(b.r.pick(canonicalRefs))
	default:
		s = spec.ComposedSchema(*sub(), *sub())
	}
	b.run(8, []bcall{
		{"WithID", func() { s.WithID(b.r.pick(stringChoices["id"])) }},
		{"WithTitle", func() { s.WithTitle(b.r.pick(niceStrings)) }},
		{"WithDescription", func() { s.WithDescription(b.r.pick(niceStrings)) }},
		{"SetProperty", func() {
			p := sub()
			if b.r.chance(1, 2) {
				p.AddExtension("x-order", []interface{}{0.0, 1.0, 1.0, 1.5, "1", "x", -1.0, true}[b.r.intn(8)])
			}
			s.SetProperty(b.name(), *p)
		}},
		{"WithProperties", func() { s.WithProperties(map[string]spec.Schema{b.name(): *sub(), b.name(): *sub()}) }},
		{"WithAllOf", func() { s.WithAllOf(*sub()) }},
		{"AddToAllOf", func() { s.AddToAllOf(*sub()) }},
		{"WithMaxProperties", func() { s.WithMaxProperties(b.i64()) }},
		{"WithMinProperties", func() { s.WithMinProperties(b.i64()) }},
		{"Typed", func() { s.Typed(b.r.pick(jsonTypes), b.fmt()) }},
		{"AddType", func() { s.AddType(b.r.pick(jsonTypes), b.fmt()) }},
		{"AsNullable", func() { s.AsNullable() }},
		{"CollectionOf", func() { s.CollectionOf(*sub()) }},
		{"WithDefault", func() { s.WithDefault(b.payload(0)) }},
		{"WithRequired", func() { s.WithRequired(b.strs(plainNames)...) }},
		{"AddRequired", func() { s.AddRequired(b.strs(plainNames)...) }},
		{"WithMaxLength", func() { s.WithMaxLength(b.i64()) }},
		{"WithMinLength", func() { s.WithMinLength(b.i64()) }},
		{"WithPattern", func() { s.WithPattern(b.r.pick(patChoices)) }},
		{"WithMultipleOf", func() { s.WithMultipleOf(b.f64()) }},
		{"WithMaximum", func() { s.WithMaximum(b.f64(), b.bit()) }},
		{"WithMinimum", func() { s.WithMinimum(b.f64(), b.bit()) }},
		{"WithEnum", func() { s.WithEnum(b.payloads()...) }},
		{"WithMaxItems", func() { s.WithMaxItems(b.i64()) }},
		{"WithMinItems", func() { s.WithMinItems(b.i64()) }},
		{"UniqueValues", func() { s.UniqueValues() }},
		{"AllowDuplicates", func() { s.AllowDuplicates() }},
		{"WithDiscriminator", func() { s.WithDiscriminator(b.r.pick(plainNames)) }},
		{"AsReadOnly", func() { s.AsReadOnly() }},
		{"AsWritable", func() { s.AsWritable() }},
		{"WithExample", func() { s.WithExample(b.payload(0)) }},
		{"WithExternalDocs", func() { s.WithExternalDocs(b.r.pick([]string{"", "d"}), b.r.pick([]string{"", "http://e"})) }},
		{"WithXMLName", func() { s.WithXMLName(b.r.pick(niceStrings)) }},
		{"WithXMLNamespace", func() { s.WithXMLNamespace("http://ns") }},
		{"WithXMLPrefix", func() { s.WithXMLPrefix("p") }},
		{"AsXMLAttribute", func() { s.AsXMLAttribute() }},
		{"AsXMLElement", func() { s.AsXMLElement() }},
		{"AsWrappedXML", func() { s.AsWrappedXML() }},
		{"AsUnwrappedXML", func() { s.AsUnwrappedXML() }},
		{"WithValidations", func() { s.WithValidations(genSV(b.r, b.r.intn(1<<15))) }},
		{"AddExtension", func() { s.AddExtension(b.ext()) }},
		{"AddExtension", func() { s.AddExtension(b.ext()) }},
	})
	return s
}

func (b *builder) items(depth int) *spec.Items {
	it := spec.NewItems()
	b.run(5, []bcall{
		{"Typed", func() { it.Typed(b.tpe(), b.fmt()) }},
		{"AsNullable", func() { it.AsNullable() }},
		{"CollectionOf", func() {
			if depth < 2 {
				it.CollectionOf(b.items(depth+1), b.r.pick(stringChoices["collectionFormat"]))
			} else {
				it.CollectionOf(nil, "")
			}
		}},
		{"WithDefault", func() { it.WithDefault(b.payload(0)) }},
		{"WithMaxLength", func() { it.WithMaxLength(b.i64()) }},
		{"WithMinLength", func() { it.WithMinLength(b.i64()) }},
		{"WithPattern", func() { it.WithPattern(b.r.pick(patChoices)) }},
		{"WithMultipleOf", func() { it.WithMultipleOf(b.f64()) }},
		{"WithMaximum", func() { it.WithMaximum(b.f64(), b.bit()) }},
		{"WithMinimum", func() { it.WithMinimum(b.f64(), b.bit()) }},
		{"WithEnum", func() { it.WithEnum(b.payloads()...) }},
		{"WithMaxItems", func() { it.WithMaxItems(b.i64()) }},
		{"WithMinItems", func() { it.WithMinItems(b.i64()) }},
		{"UniqueValues", func() { it.UniqueValues() }},
		{"AllowDuplicates", func() { it.AllowDuplicates() }},
		{"WithValidations", func() { it.WithValidations(genCommon(b.r, b.r.intn(1<<12))) }},
		{"AddExtension", func() { it.AddExtension(b.ext()) }},
	})
	return it
}

func (b *builder) header() *spec.Header {
	h := spec.ResponseHeader()
	b.run(6, []bcall{
		{"WithDescription", func() { h.WithDescription(b.r.pick(niceStrings)) }},
		{"Typed", func() { h.Typed(b.tpe(), b.fmt()) }},
		{"CollectionOf", func() { h.CollectionOf(b.items(1), b.r.pick(stringChoices["collectionFormat"])) }},
		{"WithDefault", func() { h.WithDefault(b.payload(0)) }},
		{"WithMaxLength", func() { h.WithMaxLength(b.i64()) }},
		{"WithMinLength", func() { h.WithMinLength(b.i64()) }},
		{"WithPattern", func() { h.WithPattern(b.r.pick(patChoices)) }},
		{"WithMultipleOf", func() { h.WithMultipleOf(b.f64()) }},
		{"WithMaximum", func() { h.WithMaximum(b.f64(), b.bit()) }},
		{"WithMinimum", func() { h.WithMinimum(b.f64(), b.bit()) }},
		{"WithEnum", func() { h.WithEnum(b.payloads()...) }},
		{"WithMaxItems", func() { h.WithMaxItems(b.i64()) }},
		{"WithMinItems", func() { h.WithMinItems(b.i64()) }},
		{"UniqueValues", func() { h.UniqueValues() }},
		{"AllowDuplicates", func() { h.AllowDuplicates() }},
		{"WithValidations", func() { h.WithValidations(genCommon(b.r, b.r.intn(1<<12))) }},
		{"AddExtension", func() { h.AddExtension(b.ext()) }},
		{"AddExtension", func() { h.AddExtension(b.ext()) }},
	})
	return h
}

func (b *builder) parameter() *spec.Parameter {
	var p *spec.Parameter
	n := b.r.pick(niceStrings)
	ctor := b.r.intn(8)
	b.tags[fmt.Sprintf("b:pctor%d", ctor)] = true
	switch ctor {
	case 0:
		p = spec.QueryParam(n)
	case 1:
		p = spec.HeaderParam(n)
	case 2:
		p = spec.PathParam(n)
	case 3:
		p = spec.BodyParam(n, b.schema(1))
	case 4:
		p = spec.FormDataParam(n)
	case 5:
		p = spec.FileParam(n)
	case 6:
		p = spec.SimpleArrayParam(n, b.tpe(), b.fmt())
	default:
		p = spec.ParamRef(b.r.pick(canonicalRefs))
	}
	b.run(6, []bcall{
		{"WithDescription", func() { p.WithDescription(b.r.pick(niceStrings)) }},
		{"Named", func() { p.Named(b.r.pick(niceStrings)) }},
		{"WithLocation", func() { p.WithLocation(b.r.pick(stringChoices["in"])) }},
		{"Typed", func() { p.Typed(b.tpe(), b.fmt()) }},
		{"CollectionOf", func() { p.CollectionOf(b.items(1), b.r.pick(stringChoices["collectionFormat"])) }},
		{"WithDefault", func() { p.WithDefault(b.payload(0)) }},
		{"AllowsEmptyValues", func() { p.AllowsEmptyValues() }},
		{"NoEmptyValues", func() { p.NoEmptyValues() }},
		{"AsOptional", func() { p.AsOptional() }},
		{"AsRequired", func() { p.AsRequired() }},
		{"WithMaxLength", func() { p.WithMaxLength(b.i64()) }},
		{"WithMinLength", func() { p.WithMinLength(b.i64()) }},
		{"WithPattern", func() { p.WithPattern(b.r.pick(patChoices)) }},
		{"WithMultipleOf", func() { p.WithMultipleOf(b.f64()) }},
		{"WithMaximum", func() { p.WithMaximum(b.f64(), b.bit()) }},
		{"WithMinimum", func() { p.WithMinimum(b.f64(), b.bit()) }},
		{"WithEnum", func() { p.WithEnum(b.payloads()...) }},
		{"WithMaxItems", func() { p.WithMaxItems(b.i64()) }},
		{"WithMinItems", func() { p.WithMinItems(b.i64()) }},
		{"UniqueValues", func() { p.UniqueValues() }},
		{"AllowDuplicates", func() { p.AllowDuplicates() }},
		{"WithValidations", func() { p.WithValidations(genCommon(b.r, b.r.intn(1<<12))) }},
		{"AddExtension", func() { p.AddExtension(b.ext()) }},
	})
	return p
}

func (b *builder) response() *spec.Response {
	var r *spec.Response
	if b.r.chance(1, 5) {
		b.tags["b:ResponseRef"] = true
		r = spec.ResponseRef(b.r.pick(canonicalRefs))
	} else {
		r = spec.NewResponse()
	}
	hn := []string{"X-Rate-Limit", "ETag", "é", "a\"b"}
	b.run(5, []bcall{
		{"WithDescription", func() { r.WithDescription(b.r.pick(niceStrings)) }},
		{"WithSchema", func() { r.WithSchema(b.schema(1)) }},
		{"AddHeader", func() { r.AddHeader(b.r.pick(hn), b.header()) }},
		{"AddHeader-nil", func() { r.AddHeader(b.r.pick(hn), nil) }},
		{"RemoveHeader", func() { r.RemoveHeader(b.r.pick(hn)) }},
		{"AddExample", func() { r.AddExample(b.r.pick(mimeTypes), b.payload(0)) }},
		{"AddExtension", func() { r.AddExtension(b.ext()) }},
	})
	return r
}

func (b *builder) operation() *spec.Operation {
	o := spec.NewOperation(b.r.pick([]string{"", "op", "get é"}))
	b.run(8, []bcall{
		{"WithID", func() { o.WithID(b.r.pick(niceStrings)) }},
		{"WithDescription", func() { o.WithDescription(b.r.pick(niceStrings)) }},
		{"WithSummary", func() { o.WithSummary(b.r.pick(niceStrings)) }},
		{"WithExternalDocs", func() { o.WithExternalDocs(b.r.pick([]string{"", "d"}), b.r.pick([]string{"", "http://e"})) }},
		{"Deprecate", func() { o.Deprecate() }},
		{"Undeprecate", func() { o.Undeprecate() }},
		{"WithConsumes", func() { o.WithConsumes(b.strs(mimeTypes)...) }},
		{"WithProduces", func() { o.WithProduces(b.strs(mimeTypes)...) }},
		{"WithTags", func() { o.WithTags(b.strs(niceStrings)...) }},
		{"AddParam", func() { o.AddParam(b.parameter()) }},
		{"AddParam-nil", func() { o.AddParam(nil) }},
		{"RemoveParam", func() { o.RemoveParam(b.r.pick(niceStrings), b.r.pick(stringChoices["in"])) }},
		{"SecuredWith", func() {
			o.SecuredWith(b.r.pick([]string{"basic", "oauth", "é"}), b.strs([]string{"read", "write"})...)
		}},
		{"WithDefaultResponse", func() { o.WithDefaultResponse(b.response()) }},
		{"RespondsWith", func() { o.RespondsWith([]int{200, 201, 404, 500, 0, -1, 99999}[b.r.intn(7)], b.response()) }},
		{"RespondsWith-nil", func() { o.RespondsWith([]int{200, 404, 0}[b.r.intn(3)], nil) }},
		{"AddExtension", func() { o.AddExtension(b.ext()) }},
	})
	return o
}

func (b *builder) security() *spec.SecurityScheme {
	var s *spec.SecurityScheme
	switch b.r.intn(6) {
	case 0:
		s = spec.BasicAuth()
	case 1:
		s = spec.APIKeyAuth(b.r.pick(niceStrings), b.r.pick([]string{"header", "query", ""}))
	case 2:
		s = spec.OAuth2Implicit(b.r.pick([]string{"http://a", ""}))
	case 3:
		s = spec.OAuth2Password(b.r.pick([]string{"http://t", ""}))
	case 4:
		s = spec.OAuth2Application("http://t")
	default:
		s = spec.OAuth2AccessToken(b.r.pick([]string{"http://a", ""}), "http://t")
	}
	b.run(4, []bcall{
		{"AddScope", func() { s.AddScope(b.r.pick([]string{"read", "write", "a:b", ""}), b.r.pick(niceStrings)) }},
		{"Description", func() { s.Description = b.r.pick(niceStrings) }},
		{"AddExtension", func() { s.AddExtension(b.ext()) }},
	})
	return s
}

func (b *builder) pathItem() *spec.PathItem {
	pi := &spec.PathItem{}
	b.run(4, []bcall{
		{"Get", func() { pi.Get = b.operation() }},
		{"Post", func() { pi.Post = b.operation() }},
		{"Parameters", func() { pi.Parameters = append(pi.Parameters, *b.parameter()) }},
		{"Ref", func() { pi.Ref = spec.MustCreateRef(b.r.pick(canonicalRefs)) }},
		{"AddExtension", func() { pi.AddExtension(b.ext()) }},
	})
	return pi
}

func (b *builder) paths() *spec.Paths {
	p := &spec.Paths{}
	b.run(4, []bcall{
		{"path", func() {
			if p.Paths == nil {
				p.Paths = map[string]spec.PathItem{}
			}
			p.Paths[b.r.pick([]string{"/", "/a", "/a/{id}", "/é", "/q\"", "noslash", ""})] = *b.pathItem()
		}},
		{"path-twins", func() {
			// keys that differ only in what an encoder might normalise away (the leading slash, letter case, a trailing
			// slash): each is a member of its own or is left out, none may take the place of another
			if p.Paths == nil {
				p.Paths = map[string]spec.PathItem{}
			}
			k := b.r.pick([]string{"pets", "a/{id}", "x-pets"})
			for i, key := range []string{k, "/" + k, "/" + strings.ToUpper(k), "/" + k + "/"} {
				pi := b.pathItem()
				pi.AddExtension("x-twin", float64(i))
				p.Paths[key] = *pi
			}
		}},
		{"AddExtension", func() { p.AddExtension(b.ext()) }},
	})
	return p
}

func buildValue(r *rng, kind string) *built {
	b := &builder{r: r, tags: map[string]bool{}}
	out := &built{tags: b.tags}
	switch kind {
	case "Schema":
		out.v = b.schema(0)
	case "Parameter":
		out.v = b.parameter()
	case "Header":
		out.v = b.header()
	case "Items":
		out.v = b.items(0)
	case "Response":
		out.v = b.response()
	case "Operation":
		out.v = b.operation()
	case "SecurityScheme":
		out.v = b.security()
	case "PathItem":
		out.v = b.pathItem()
	case "Paths":
		out.v = b.paths()
	case "Responses":
		o := b.operation()
		if o.Responses == nil {
			o.RespondsWith(200, b.response())
		}
		o.Responses.AddExtension(b.ext())
		out.v = o.Responses
	case "Tag":
		var ed *spec.ExternalDocumentation
		if b.bit() {
			ed = &spec.ExternalDocumentation{Description: b.r.pick([]string{"", "d"}), URL: b.r.pick([]string{"", "http://e"})}
		}
		t := spec.NewTag(b.r.pick(niceStrings), b.r.pick([]string{"", "d"}), ed)
		b.run(2, []bcall{{"AddExtension", func() { t.AddExtension(b.ext()) }}})
		out.v = &t
	case "Info":
		i := &spec.Info{InfoProps: spec.InfoProps{Title: b.r.pick([]string{"", "t"}), Version: b.r.pick([]string{"", "1"})}}
		b.run(3, []bcall{
			{"Contact", func() {
				i.Contact = &spec.ContactInfo{ContactInfoProps: spec.ContactInfoProps{Name: b.r.pick(niceStrings)}}
			}},
			{"License", func() {
				i.License = &spec.License{LicenseProps: spec.LicenseProps{Name: b.r.pick([]string{"", "MIT"})}}
			}},
			{"AddExtension", func() { i.AddExtension(b.ext()) }},
		})
		out.v = i
	case "Swagger":
		sw := &spec.Swagger{SwaggerProps: spec.SwaggerProps{Swagger: "2.0"}}
		b.run(6, []bcall{
			{"Info", func() { sw.Info = &spec.Info{InfoProps: spec.InfoProps{Title: "t", Version: "1"}} }},
			{"Paths", func() { sw.Paths = b.paths() }},
			{"Definitions", func() { sw.Definitions = spec.Definitions{b.name(): *b.schema(1)} }},
			{"Parameters", func() { sw.Parameters = map[string]spec.Parameter{b.name(): *b.parameter()} }},
			{"Responses", func() { sw.Responses = map[string]spec.Response{b.name(): *b.response()} }},
			{"SecurityDefinitions", func() { sw.SecurityDefinitions = spec.SecurityDefinitions{b.name(): b.security()} }},
			{"Security", func() { sw.Security = []map[string][]string{{"k": b.strs([]string{"read"})}} }},
			{"Tags", func() { sw.Tags = append(sw.Tags, spec.NewTag("n", "", nil)) }},
			{"AddExtension", func() { sw.AddExtension(b.ext()) }},
		})
		out.v = sw
	default:
		panic("harness: no builder for " + kind)
	}
	return out
}
