package main

import (
	"bytes"
	"encoding/gob"
	"encoding/json"
	"fmt"
	"reflect"
	"strings"
)

// C14: gob transport preserves the document (compared through the JSON encoding).

var gobKinds = map[string]bool{"Swagger": true, "Operation": true, "Parameter": true, "Schema": true, "Response": true, "Ref": true}

func gobRoundTrip(kind string, v interface{}) (out interface{}, err error, pan string) {
	defer func() {
		if r := recover(); r != nil {
			pan = fmt.Sprint(r)
		}
	}()
	var buf bytes.Buffer
	if err := gob.NewEncoder(&buf).Encode(v); err != nil {
		return nil, err, ""
	}
	nv := newKind(kind)
	if err := gob.NewDecoder(&buf).Decode(nv); err != nil {
		return nil, err, ""
	}
	return nv, nil, ""
}

// goGobNorm: decode JSON, gob round trip, encode JSON.
func goGobNorm(kind string, data []byte) interface{} {
	v, err, pan := safeDecode(kind, data)
	if pan != "" {
		return orderedMap{{"panic", pan}}
	}
	if err != nil {
		return orderedMap{{"err", true}}
	}
	w, err, pan := gobRoundTrip(kind, v)
	if pan != "" {
		return orderedMap{{"panic", pan}}
	}
	if err != nil {
		return orderedMap{{"err", true}, {"gob_error", err.Error()}}
	}
	b, err, pan := safeEncode(reflect.ValueOf(w).Elem().Interface())
	if pan != "" {
		return orderedMap{{"panic", pan}}
	}
	if err != nil {
		return orderedMap{{"err", true}}
	}
	return orderedMap{{"ok", json.RawMessage(b)}}
}

// gobExtraDocs: the three states of a security requirement list the property names - absent, empty, non-empty (with and
// without scopes) - on an operation, on the document, and on an operation inside the document.  (The empty list is not a
// normal-form value of C01, so the codec generators do not produce it.)
func gobExtraDocs() []cdoc {
	var out []cdoc
	op := func(sec string) string {
		m := `"responses":{"200":{"description":"d"}}`
		if sec != "" {
			m = `"security":` + sec + `,` + m
		}
		return `{` + m + `}`
	}
	// (and the other lists of an operation in their three states: absent, empty - which at operation level clears the document-wide
	// value -, non-empty)
	for _, k := range []string{"consumes", "produces", "tags", "schemes", "parameters"} {
		for _, v := range []string{`[]`, map[string]string{"consumes": `["application/json"]`, "produces": `["text/plain"]`, "tags": `["t"]`, "schemes": `["https"]`,
			"parameters": `[{"name":"q","in":"query","type":"string"}]`}[k]} {
			out = append(out, cdoc{kind: "Operation", doc: mustJV(`{"` + k + `":` + v + `,"responses":{"200":{"description":"d"}}}`), phase: 2, tags: []string{"gob-extra", "security-state", "list-state"}})
			out = append(out, cdoc{kind: "Swagger", doc: mustJV(`{"swagger":"2.0","info":{"title":"t","version":"1"},"paths":{"/a":{"get":{"` + k + `":` + v + `,"responses":{"200":{"description":"d"}}}}}}`),
				phase: 2, tags: []string{"gob-extra", "security-state", "list-state"}})
		}
	}
	secs := []string{"", `[]`, `[{}]`, `[{"k":[]}]`, `[{"k":["s"]},{}]`}
	for _, s := range secs {
		out = append(out, cdoc{kind: "Operation", doc: mustJV(op(s)), phase: 2, tags: []string{"gob-extra", "security-state"}})
		for _, t := range secs {
			top := ""
			if t != "" {
				top = `"security":` + t + `,`
			}
			out = append(out, cdoc{kind: "Swagger", doc: mustJV(`{"swagger":"2.0","info":{"title":"t","version":"1"},` + top + `"paths":{"/a":{"get":` + op(s) + `,"post":` + op(t) + `}}}`),
				phase: 2, tags: []string{"gob-extra", "security-state"}})
		}
	}
	return out
}

func isGobExtra(d cdoc) bool {
	for _, t := range d.tags {
		if t == "gob-extra" {
			return true
		}
	}
	return false
}

func genGobCases(r *rng, n int, tier string, cw *caseWriter) {
	for _, d := range append(gobExtraDocs(), codecDocs(r, n, tier)...) {
		if !gobKinds[d.kind] || (d.phase == 3 && !isRefSpelling(d)) {
			continue
		}
		data := d.doc.bytes()
		if len(data) > 20000 {
			continue
		}
		cw.emit(orderedMap{{"op", "gobnorm"}, {"kind", d.kind}, {"cmp", "ordered"}, {"nt", d.doc.nonTrivial()}, {"tags", d.tags},
			{"j", json.RawMessage(data)}, {"go", goGobNorm(d.kind, data)}})
		cw.count("gobnorm:" + d.kind)
	}
}

var validationKw = map[string]bool{"minimum": true, "maximum": true, "multipleOf": true, "maxLength": true, "minLength": true,
	"maxItems": true, "minItems": true, "maxProperties": true, "minProperties": true}

func classifyC14(kind string, d jdiff) string {
	last := ""
	if len(d.path) > 0 {
		last = d.path[len(d.path)-1]
	}
	isZero := func(v interface{}) bool { f, ok := v.(float64); return ok && f == 0 }
	emptyArr := func(v interface{}) bool { a, ok := v.([]interface{}); return ok && len(a) == 0 }
	switch {
	case validationKw[last] && isZero(d.in):
		return "zero-validation-lost"
	case emptyArr(d.in) && d.out == nil:
		return "empty-array-to-null"
	}
	return "gob:" + kind + ":" + shapePath(d.path)
}

func checkC14(in codecInput) []cfinding {
	doc := in.data()
	v, err, pan := safeDecode(in.Kind, doc)
	if pan != "" || err != nil {
		return nil
	}
	before, err, pan := safeEncode(v)
	if pan != "" || err != nil {
		return nil
	}
	w, err, pan := gobRoundTrip(in.Kind, v)
	if pan != "" {
		return []cfinding{{shape: "panic", what: "gob round trip panics: " + pan}}
	}
	if err != nil {
		return []cfinding{{shape: "gob-error:" + in.Kind, what: "gob encode/decode fails: " + err.Error()}}
	}
	after, err, pan := safeEncode(reflect.ValueOf(w).Elem().Interface())
	if pan != "" || err != nil {
		return []cfinding{{shape: "encode-after-gob:" + in.Kind, what: "the value does not encode after the gob round trip"}}
	}
	var a, b interface{}
	if json.Unmarshal(before, &a) != nil || json.Unmarshal(after, &b) != nil {
		return nil
	}
	var ds []jdiff
	allDiffs(a, b, nil, &ds)
	seen := map[string]bool{}
	var out []cfinding
	for _, d := range ds {
		sh := classifyC14(in.Kind, d)
		if !seen[sh] {
			seen[sh] = true
			out = append(out, cfinding{shape: sh, what: "JSON encoding after gob differs at /" + strings.Join(d.path, "/") + " (" + d.what + ")"})
		}
	}
	return out
}

func oracleC14(r *rng, n int, tier string) *oracleResult {
	t := newTally("C14")
	for _, d := range append(gobExtraDocs(), codecDocs(r, n, tier)...) {
		if !gobKinds[d.kind] || ((d.phase == 3 || !d.nf) && !isRefSpelling(d) && !isGobExtra(d)) {
			continue
		}
		in := docInput(d)
		t.eval(in, d.doc.nonTrivial(), checkC14(in))
	}
	return dedupFailures(t.res)
}

// isRefSpelling: the systematic documents that carry every odd spelling of a reference ("#", "", "//", ...): whatever such a
// document decodes to has to survive the transport like any other value.
func isRefSpelling(d cdoc) bool {
	for _, t := range d.tags {
		if t == "mutation:ref" {
			return true
		}
	}
	return false
}

func init() {
	generators["gob"] = genGobCases
	oracles["C14"] = oracleC14
	replays["C14"] = replayCodec("C14", checkC14)
}
