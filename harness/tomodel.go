package main

import (
	"encoding/json"
	"reflect"
)

// modelView renders a Go value the way the generated Coq records see it (translator/vals.go,
// coqType): modelled structs field by field under their Go field names; pointers, maps and
// interfaces as null-or-payload; []interface{} as null-or-array; everything else as its JSON
// encoding (an opaque payload the model only carries around).
func modelView(v reflect.Value, modelled map[string]bool) interface{} {
	switch v.Kind() {
	case reflect.Bool:
		return v.Bool()
	case reflect.String:
		return v.String()
	case reflect.Ptr, reflect.Map, reflect.Interface:
		if v.IsNil() {
			return nil
		}
		if v.Kind() == reflect.Interface {
			return modelView(v.Elem(), modelled)
		}
		return opaque(v)
	case reflect.Slice:
		if v.IsNil() {
			return nil
		}
		if v.Type().Elem().Kind() == reflect.Interface {
			out := make([]interface{}, v.Len())
			for i := range out {
				out[i] = opaque(v.Index(i))
			}
			return out
		}
		return opaque(v)
	case reflect.Struct:
		if modelled[v.Type().Name()] {
			m := orderedMap{}
			for i := 0; i < v.NumField(); i++ {
				m = append(m, kv{v.Type().Field(i).Name, modelView(v.Field(i), modelled)})
			}
			return m
		}
		return opaque(v)
	}
	return opaque(v)
}

func opaque(v reflect.Value) interface{} {
	b, err := json.Marshal(v.Interface())
	if err != nil {
		return map[string]interface{}{"marshal_error": err.Error()}
	}
	return json.RawMessage(b)
}

type kv struct {
	K string
	V interface{}
}

// orderedMap marshals as a JSON object keeping insertion order.
type orderedMap []kv

func (m orderedMap) MarshalJSON() ([]byte, error) {
	out := []byte{'{'}
	for i, e := range m {
		if i > 0 {
			out = append(out, ',')
		}
		k, _ := json.Marshal(e.K)
		v, err := json.Marshal(e.V)
		if err != nil {
			return nil, err
		}
		out = append(out, k...)
		out = append(out, ':')
		out = append(out, v...)
	}
	return append(out, '}'), nil
}
