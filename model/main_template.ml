(* Line-oriented driver around the extracted model: one JSON case per input line, one JSON
   verdict per output line.  MODEL and ENTRY are substituted by bin/check. *)
let explode (s : string) : char list =
  let rec go i acc = if i < 0 then acc else go (i - 1) (s.[i] :: acc) in
  go (String.length s - 1) []

let implode (l : char list) : string =
  let b = Buffer.create 256 in
  List.iter (Buffer.add_char b) l;
  Buffer.contents b

let () =
  try
    while true do
      let line = input_line stdin in
      if String.length line > 0 then begin
        print_string (implode (MODEL.ENTRY (explode line)));
        print_newline ()
      end
    done
  with End_of_file -> ()
