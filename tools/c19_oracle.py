#!/usr/bin/env python3-vt
"""C19 on the implementation: valid Swagger 2.0 documents (validated with python jsonschema against the
meta-schema shipped in /repo) must stay valid after decode/encode and after a successful expansion.
Writes an oracleResult JSON (same shape as the Go harness oracles)."""
import re
import argparse, json, os, subprocess, sys, tempfile
import jsonschema

ap = argparse.ArgumentParser()
ap.add_argument("--seed", type=int, default=1)
ap.add_argument("--n", type=int, default=200)
ap.add_argument("--harness", required=True)
ap.add_argument("--repo", default="/repo")
ap.add_argument("--out", required=True)
ap.add_argument("--replay")
a = ap.parse_args()

here = os.path.dirname(os.path.abspath(__file__))
swagger = json.load(open(os.path.join(a.repo, "schemas/v2/schema.json")))
draft4 = json.load(open(os.path.join(a.repo, "schemas/jsonschema-draft-04.json")))
try:
    from referencing import Registry, Resource
    from referencing.jsonschema import DRAFT4
    reg = Registry().with_resources([
        ("http://json-schema.org/draft-04/schema", Resource(contents=draft4, specification=DRAFT4)),
        ("http://swagger.io/v2/schema.json", Resource(contents=swagger, specification=DRAFT4))])
    validator = jsonschema.Draft4Validator(swagger, registry=reg)
except Exception:
    validator = jsonschema.Draft4Validator(swagger)


def errors(doc):
    return sorted(validator.iter_errors(doc), key=lambda e: list(e.absolute_path))


def empty_required_strings(doc, path=()):
    """paths of members that are empty strings"""
    out = []
    if isinstance(doc, dict):
        for k, v in doc.items():
            if v == "":
                out.append(path + (k,))
            out += empty_required_strings(v, path + (k,))
    elif isinstance(doc, list):
        for i, v in enumerate(doc):
            out += empty_required_strings(v, path + (i,))
    return out


def subtree(doc, path):
    cur = doc
    for p in path:
        try:
            if isinstance(cur, dict):
                if p in cur:
                    cur = cur[p]
                elif str(p).isdigit():   # status codes are re-keyed through an int
                    cands = [k for k in cur if k.isdigit() and int(k) == int(p)]
                    if not cands:
                        return None
                    cur = cur[cands[0]]
                else:
                    return None
            else:
                cur = cur[p]
        except Exception:
            return None
    return cur


def has_empty_string(x):
    if x == "":
        return True
    if isinstance(x, dict):
        return any(has_empty_string(v) for v in x.values())
    if isinstance(x, list):
        return any(has_empty_string(v) for v in x)
    return False


# string members that the package's structs declare with omitempty although the Swagger 2.0 schema requires them (finding F15)
F15_MEMBERS = {"swagger", "title", "version", "name", "in", "url", "type", "flow", "authorizationUrl", "tokenUrl"}


def classify(doc, out, stage):
    errs = errors(out)
    if not errs:
        return None
    e = errs[0]
    msg = e.message
    path = list(e.absolute_path)
    src = subtree(doc, path)
    inst = e.instance
    # F16: a three-digit status code with leading zeros comes back without them
    if "does not match any of the regexes" in msg and isinstance(src, dict) and any(k.isdigit() and k != str(int(k)) for k in src):
        return ("status-code-leading-zero", msg, path)
    # F17: a reference object whose $ref is the empty string gains a description
    if isinstance(inst, dict) and inst.get("$ref") == "":
        return ("empty-ref-reference-object", msg[:200], path)
    # F15: a required member that was present as an empty string was dropped (omitempty) - for the members that finding lists;
    # another member lost the same way is another failure
    def f15_shape():
        msgs = [msg] + [c.message for c in (e.context or [])]
        req = [m.group(1) for m in (re.match(r"^'([^']+)' is a required property$", x) for x in msgs) if m]
        lost = req
        if not lost and isinstance(src, dict) and isinstance(inst, dict):
            lost = [k for k, v in src.items() if v == "" and k not in inst]
        other = [k for k in lost if k not in F15_MEMBERS and isinstance(src, dict) and src.get(k) == ""]
        if other:
            return "required-empty-string-dropped:" + sorted(other)[0]
        return "required-empty-string-dropped"
    if src is not None and has_empty_string(src) and not has_empty_string(inst):
        return (f15_shape(), msg[:200], path)
    if src is not None and has_empty_string(src) and "required" in json.dumps([c.message for c in (e.context or [])] + [msg]):
        return (f15_shape(), msg[:200], path)
    keys = [str(p) if not isinstance(p, int) else "*" for p in path]
    return ("%s-invalid:%s" % (stage, "/".join(keys[-2:])), msg[:300], path)


def refs_well_founded(doc):
    """every $ref (outside vendor extensions) is a local pointer to an existing element of the section that fits its position"""
    ok = True

    def target(ref):
        if not ref.startswith("#/"):
            return None
        cur = doc
        for t in ref[2:].split("/"):
            t = t.replace("~1", "/").replace("~0", "~")
            if isinstance(cur, dict) and t in cur:
                cur = cur[t]
            elif isinstance(cur, list) and t.isdigit() and int(t) < len(cur):
                cur = cur[int(t)]
            else:
                return None
        return cur

    def chain_end(ref, hops=6):
        """the element a chain of reference objects ends at (None: dangling, too long or cyclic)"""
        t = target(ref)
        while isinstance(t, dict) and isinstance(t.get("$ref"), str) and hops > 0:
            t, hops = target(t["$ref"]), hops - 1
        return t if isinstance(t, dict) and "$ref" not in t else None

    def walk(x, where):
        nonlocal ok
        if isinstance(x, dict):
            r = x.get("$ref")
            if isinstance(r, str):
                sect = {"schema": "#/definitions/", "parameter": "#/parameters/", "response": "#/responses/"}.get(where)
                fits = sect is not None and r.startswith(sect)
                if where == "schema" and re.match(r"^#/(responses|parameters)/[^/]+/schema$", r):
                    fits = True    # the schema OF a shared response or body parameter is a schema too
                chained = where in ("parameter", "response") and (r.startswith("#/x-fragments/") or re.match(r"^#/paths/[^/]+/[a-z]+/parameters/\d+$", r))
                if chained:
                    if chain_end(r) is None:
                        ok = False
                elif not fits or not isinstance(target(r), dict) or "$ref" in target(r):
                    ok = False
            for k, v in x.items():
                if k.startswith("x-") or k in ("default", "example", "examples", "enum"):
                    continue
                w = where
                if k in ("parameters",):
                    w = "parameter"
                elif k in ("responses",):
                    w = "response"
                elif k in ("schema", "definitions", "items", "properties", "allOf", "additionalProperties"):
                    w = "schema" if where != "parameter_nonbody" else where
                walk(v, w)
        elif isinstance(x, list):
            for v in x:
                walk(v, where)
    walk(doc, "root")
    return ok


def with_refs(doc, rng):
    """a variant of a valid document in which operations and path items use shared parameters and responses by $ref, whose
    schemas refer — directly, through arrays and allOf — to self-recursive and mutually recursive definitions"""
    import copy
    d = copy.deepcopy(doc)
    defs = d.setdefault("definitions", {})
    defs["Node"] = {"type": "object", "properties": {"next": {"$ref": "#/definitions/Node"}, "v": {"type": "string"}}}
    defs["Ping"] = {"type": "object", "properties": {"pong": {"$ref": "#/definitions/Pong"}}}
    defs["Pong"] = {"type": "object", "properties": {"ping": {"$ref": "#/definitions/Ping"}}}
    defs["Leaf"] = {"type": "integer"}
    # the vendor extensions code generators commonly put on schemas, with their usual values: they must stay what they are
    defs["Leaf"].update({"x-nullable": True, "x-omitempty": False, "x-go-name": "Leaf", "x-order": 1, "x-isnullable": True})
    defs["Node"]["properties"]["v"].update({"x-nullable": True, "x-go-name": "V"})
    defs["Tagged"] = {"type": "object", "x-nullable": True, "x-go-type": {"type": "T", "import": {"package": "p"}}, "additionalProperties": True,
                      "properties": {"a": {"type": "string", "x-nullable": False}}}
    tgt = lambda: rng.choice(["Node", "Ping", "Pong", "Leaf", "Tagged"])
    sch = lambda: rng.choice([lambda: {"$ref": "#/definitions/" + tgt()},
                              lambda: {"type": "array", "items": {"$ref": "#/definitions/" + tgt()}},
                              lambda: {"allOf": [{"$ref": "#/definitions/" + tgt()}, {"type": "object"}]},
                              # a schema may also be named by a longer pointer: the schema OF a shared response or parameter,
                              # a property of a definition
                              lambda: {"$ref": rng.choice(["#/responses/Deep/schema", "#/parameters/BodyDeep/schema",
                                                           "#/definitions/Tagged/properties/a", "#/definitions/Node/properties/v"])},
                              lambda: {"type": "array", "items": {"$ref": rng.choice(["#/responses/Deep/schema", "#/parameters/BodyDeep/schema"])}}])()
    pars = d.setdefault("parameters", {})
    deep = lambda: {"type": "object", "properties": {"n": {"$ref": "#/definitions/" + rng.choice(["Node", "Leaf"])}, "s": {"type": "string"}}}
    pars["BodyDeep"] = {"in": "body", "name": "deep", "schema": deep()}
    d.setdefault("responses", {})["Deep"] = {"description": "deep", "schema": deep(), "headers": {"X-Rate": {"type": "integer"}}}
    pars["BodyRec"] = {"in": "body", "name": "body", "schema": {"$ref": "#/definitions/" + rng.choice(["Node", "Ping"])}}
    pars["BodyAny"] = {"in": "body", "name": "payload", "schema": sch()}
    pars["Q"] = {"in": "query", "name": "q", "type": "string"}
    resps = d.setdefault("responses", {})
    resps["Rec"] = {"description": "recursive", "schema": {"$ref": "#/definitions/" + rng.choice(["Node", "Pong"])}}
    resps["Any"] = {"description": "any", "schema": sch()}
    resps["Plain"] = {"description": "plain"}
    # a description is required but may be empty - also next to a schema that is a reference (to a recursive definition: it survives expansion)
    resps["Blank"] = {"description": "", "schema": {"$ref": "#/definitions/" + rng.choice(["Node", "Ping"])}}
    resps["BlankPlain"] = {"description": ""}
    used = False
    for p, item in (d.get("paths") or {}).items():
        if p.startswith("x-") or not isinstance(item, dict) or "$ref" in item:
            continue
        if rng.random() < 0.3:
            item["parameters"] = [{"$ref": "#/parameters/" + rng.choice(["BodyRec", "BodyAny", "Q"])}]
            used = True
        for m in ("get", "put", "post", "delete", "options", "head", "patch"):
            op = item.get(m)
            if not isinstance(op, dict):
                continue
            if rng.random() < 0.6:
                op["parameters"] = [{"$ref": "#/parameters/" + rng.choice(["BodyRec", "BodyAny", "Q"])}]
                used = True
            rs = op.get("responses")
            if isinstance(rs, dict) and rng.random() < 0.7:
                rs[rng.choice(["default", "200", "404", "default"])] = {"$ref": "#/responses/" + rng.choice(["Rec", "Any", "Plain", "Blank", "BlankPlain"])}
                used = True
    # chains: a reference object may be designated by a reference itself - a member of another parameters list, a fragment kept
    # under a vendor extension - and the chain ends at a real parameter or response
    import re
    frag = d.setdefault("x-fragments", {})
    frag["payload"] = {"$ref": "#/parameters/" + rng.choice(["BodyRec", "Q"])}
    frag["answer"] = {"$ref": "#/responses/" + rng.choice(["Rec", "Plain"])}
    for p, item in (d.get("paths") or {}).items():
        if p.startswith("x-") or not isinstance(item, dict) or "$ref" in item or not re.fullmatch(r"[/A-Za-z0-9_.-]*", p):
            continue
        for m in ("get", "put", "post", "delete", "options", "head", "patch"):
            op = item.get(m)
            if not isinstance(op, dict):
                continue
            ps = op.get("parameters")
            if isinstance(ps, list) and len(ps) == 1 and "$ref" in ps[0] and "parameters" not in item and rng.random() < 0.5:
                item["parameters"] = [{"$ref": "#/paths/" + p.replace("~", "~0").replace("/", "~1") + "/" + m + "/parameters/0"}]
            elif rng.random() < 0.3:
                # (instead of the parameters the operation had: the same parameter listed twice under two spellings would be a
                # duplicate after expansion, which the schema forbids for another reason)
                op["parameters"] = [{"$ref": "#/x-fragments/payload"}]
            rs = op.get("responses")
            if isinstance(rs, dict) and rng.random() < 0.3:
                rs["default"] = {"$ref": "#/x-fragments/answer"}
            # media types that are the same type in two spellings: two different strings, as far as the list (uniqueItems) goes
            if rng.random() < 0.3:
                op["produces"] = ["application/json; charset=utf-8", "application/json;charset=utf-8"]
            if rng.random() < 0.2:
                op["consumes"] = ["application/x-www-form-urlencoded", "Application/X-WWW-Form-Urlencoded", "text/plain; format=flowed; charset=utf-8", "text/plain;charset=utf-8;format=flowed"]
    return d if used else None


class Spelled(dict):
    """the same document, handed to the library as another text of the same JSON value (strings written with escapes)"""


def run_docs(docs):
    with tempfile.TemporaryDirectory(dir=os.path.join(here, "..", ".work")) as td:
        inp, outp = os.path.join(td, "in.jsonl"), os.path.join(td, "out.jsonl")
        with open(inp, "w") as f:
            for d in docs:
                f.write(json.dumps({"doc": d, "spell": isinstance(d, Spelled)}) + "\n")
        subprocess.run([a.harness, "apply", "c19", inp, outp], check=True, timeout=1800)
        return [json.loads(l) for l in open(outp)]


def check(docs):
    res = {"evaluations": 0, "distinct_nontrivial": 0, "stats": {}, "failures": [], "samples": []}
    seen = set()
    outs = run_docs(docs)
    per_shape = {}
    for d, o in zip(docs, outs):
        res["evaluations"] += 1
        key = json.dumps(d, sort_keys=True)
        if key not in seen:
            seen.add(key)
            if d.get("paths"):
                res["distinct_nontrivial"] += 1
        if "x-fragments" in d:
            t = json.dumps(d)
            res["stats"]["with_reference_chains"] = res["stats"].get("with_reference_chains", 0) + 1
            if "#/x-fragments/payload" in t[t.index('"paths"'):] if '"paths"' in t else False:
                res["stats"]["chain_through_fragment_used"] = res["stats"].get("chain_through_fragment_used", 0) + 1
            if "/parameters/0" in t:
                res["stats"]["chain_through_list_member_used"] = res["stats"].get("chain_through_list_member_used", 0) + 1
        fails = []
        if "panic" in o:
            fails.append(("panic", o["panic"], []))
        if "encode_err" in o:
            fails.append(("encode-error", "a schema-valid document decodes, but its value (or its successful expansion) does not encode: " + o["encode_err"], []))
        if "rt_err" in o:   # the document does not decode: the property says nothing about it
            res["stats"]["decode_error"] = res["stats"].get("decode_error", 0) + 1
        if "roundtrip" in o:
            c = classify(d, o["roundtrip"], "roundtrip")
            if c:
                fails.append(c)
        if "expanded" in o:
            c = classify(d, o["expanded"], "expand")
            if c:
                fails.append(c)
            res["stats"]["expanded_ok"] = res["stats"].get("expanded_ok", 0) + 1
        elif "ex_err" in o:
            res["stats"]["expand_error"] = res["stats"].get("expand_error", 0) + 1
        for shape, what, path in fails:
            k = "fail:" + shape
            res["stats"][k] = res["stats"].get(k, 0) + 1
            per_shape.setdefault(shape, 0)
            if per_shape[shape] < 1:
                per_shape[shape] += 1
                res["failures"].append({"property": "C19", "what": what + (" (document written with string escapes)" if isinstance(d, Spelled) else ""),
                                        "shape": shape, "input": {"doc": d, "spell": isinstance(d, Spelled)}, "observed": path})
    res["samples"] = [{"doc": docs[0]}] if docs else []
    return res


if a.replay:
    inp = json.load(open(a.replay))["input"]
    doc = Spelled(inp["doc"]) if inp.get("spell") else inp["doc"]
    r = check([doc])
    json.dump(r, open(a.out, "w"), indent=1)
    sys.exit(1 if r["failures"] else 0)

import random
rng = random.Random(a.seed)
with tempfile.TemporaryDirectory(dir=os.path.join(here, "..", ".work")) as td:
    cases = os.path.join(td, "valid.jsonl")
    subprocess.run([sys.executable, os.path.join(here, "validgen.py"), "--seed", str(a.seed), "--n", str(a.n), "--muts", "0", "--subs", "0",
                    "--out", cases], check=True, stdout=subprocess.DEVNULL, timeout=1800)
    docs = []
    for l in open(cases):
        c = json.loads(l)
        if c["kind"] == "swagger" and c["go"] is True and not errors(c["j"]) and refs_well_founded(c["j"]):
            docs.append(c["j"])
            v = with_refs(c["j"], rng)
            if v is not None and not errors(v) and refs_well_founded(v):
                docs.append(v)
                if len(docs) % 3 == 0:
                    docs.append(Spelled(v))
r = check(docs)
json.dump(r, open(a.out, "w"), indent=1)
