#!/usr/bin/env python3-vt
"""Seeded generator of Swagger 2.0 documents labelled by python's jsonschema, used to validate
the Coq model Spec.Valid.Valid (valid_swagger / valid_kind) against the real meta-schema.

  python3-vt validgen.py --seed S --n N --out cases.jsonl          generate
  python3-vt validgen.py --check /tmp/validwork/model_valid --in cases.jsonl   compare with the model

N is the number of base (schema-valid) documents.  Each base document is confirmed valid with
Draft4Validator before use, then receives several single-fault mutations; every case (base or
mutated, whole document or sub-document of a named definition) carries python's verdict:

  {"op":"valid","kind":K,"j":doc,"go":<python verdict>,"nt":true,"tags":[...]}

K is "swagger" for whole documents, otherwise a name under "definitions" of the meta-schema (or
"securityScheme" for the anonymous oneOf of the six security flavours); sub-kinds are validated
against {"$ref":"#/definitions/K","definitions":<swagger definitions>}.

The mutation engine is driven by the meta-schema itself: the instance is walked alongside the
schema (following $ref, properties, patternProperties, additionalProperties, items, allOf and the
matching branches of oneOf/anyOf), which yields "sites" (path, definition name, schema node); the
generic faults (drop a required member, unknown member, wrong type, value outside an enum,
duplicate in a uniqueItems array, empty a minItems array, ...) are applied where the schema node
has the corresponding keyword.  A few targeted faults (status codes, path keys, host, mixing body
and non-body members, ...) complete them.  Nothing is assumed about the outcome of a mutation:
python decides, and quite a few "faults" leave the document valid, which is the point.

Not generated on purpose (see the header of Valid.v): object keys or host values ending in "\\n"
(python's "$" also matches before a final newline, ECMA-262's does not), non-ASCII decimal digits
in a host port (python's \\d is Unicode), number literals with an exponent whose value is integral.
"""
import argparse
import collections
import copy
import json
import random
import re
import subprocess
import sys

import jsonschema
from jsonschema import Draft4Validator
from jsonschema import _utils as js_utils
from referencing import Registry, Resource
from referencing.jsonschema import DRAFT4

SWAGGER_SCHEMA = "/repo/schemas/v2/schema.json"
DRAFT4_SCHEMA = "/repo/schemas/jsonschema-draft-04.json"
DRAFT4_ID = "http://json-schema.org/draft-04/schema"

with open(SWAGGER_SCHEMA) as f:
    SW = json.load(f)
with open(DRAFT4_SCHEMA) as f:
    D4 = json.load(f)

# No network: both documents are preloaded, and a Registry without "retrieve" never fetches.
REGISTRY = Registry().with_resources([
    (DRAFT4_ID, Resource(contents=D4, specification=DRAFT4)),
    (DRAFT4_ID + "#", Resource(contents=D4, specification=DRAFT4)),
    ("http://swagger.io/v2/schema.json", Resource(contents=SW, specification=DRAFT4)),
])

ROOT_VALIDATOR = Draft4Validator(SW, registry=REGISTRY)
D4_VALIDATOR = Draft4Validator(D4, registry=REGISTRY)

SECURITY_FLAVOURS = ["basicAuthenticationSecurity", "apiKeySecurity", "oauth2ImplicitSecurity",
                     "oauth2PasswordSecurity", "oauth2ApplicationSecurity", "oauth2AccessCodeSecurity"]

# kinds known to the Coq model (Valid.kinds)
MODEL_KINDS = set("""swagger info contact license paths definitions parameterDefinitions responseDefinitions
externalDocs examples mimeType operation pathItem responses responseValue response headers header
vendorExtension bodyParameter headerParameterSubSchema queryParameterSubSchema formDataParameterSubSchema
pathParameterSubSchema nonBodyParameter parameter schema fileSchema primitivesItems security
securityRequirement xml tag securityDefinitions securityScheme basicAuthenticationSecurity apiKeySecurity
oauth2ImplicitSecurity oauth2PasswordSecurity oauth2ApplicationSecurity oauth2AccessCodeSecurity oauth2Scopes
mediaTypeList parametersList schemesList collectionFormat collectionFormatWithMulti title description default
multipleOf maximum exclusiveMaximum minimum exclusiveMinimum maxLength minLength pattern maxItems minItems
uniqueItems enum jsonReference""".split())

_kind_validators = {}


def kind_validator(kind):
    v = _kind_validators.get(kind)
    if v is None:
        if kind == "swagger":
            v = ROOT_VALIDATOR
        elif kind == "securityScheme":
            v = Draft4Validator({"oneOf": [{"$ref": "#/definitions/" + n} for n in SECURITY_FLAVOURS],
                                 "definitions": SW["definitions"]}, registry=REGISTRY)
        else:
            assert kind in SW["definitions"], kind
            v = Draft4Validator({"$ref": "#/definitions/" + kind, "definitions": SW["definitions"]},
                                registry=REGISTRY)
        _kind_validators[kind] = v
    return v


def py_valid(kind, inst):
    return kind_validator(kind).is_valid(inst)


# ---------------------------------------------------------------------------------------------
# generation of valid instances
# ---------------------------------------------------------------------------------------------
class Gen:
    def __init__(self, rng):
        self.r = rng

    # ----- atoms
    def chance(self, p):
        return self.r.random() < p

    def string(self):
        return self.r.choice(["", "", "a", "pet", "Pet store", "x-y", "x", "#/definitions/x", "200", "/",
                              "\u00e9t\u00e9", "\u4e2d", "tab\there", "q\"uote", "back\\slash", "\U0001F600",
                              "https://example.com/a?b=c#d", "user@example.com", "a b c", "0"])

    def ident(self):
        return self.r.choice(["a", "b", "pet", "petId", "Pet", "x", "id", "", "name", "limit", "x-ext", "$ref",
                              "type", "\u00fc", "A.B", "with space",
                              # characters a JSON writer must escape in ways of its own (not the ones another notation uses)
                              "bell\u0007", "\u0001", "del\u007f", "v\u000bt", "tag\U000e0001", "q\"b\\s", "line\u2028sep"])

    def number(self):
        return self.r.choice([0, 1, -1, 2, 10, 100, 65535, -7, 0.5, 1.5, -0.25, 2.0, 1.0, 0.0, 1e+20, 1e-05,
                              12345678901234567890, 3.14159])

    def nonneg_int(self):
        return self.r.choice([0, 0, 1, 2, 3, 10, 255, 1000000, 12345678901234567890])

    def pos_number(self):
        return self.r.choice([1, 2, 10, 0.5, 0.01, 1.5, 1e-05, 3, 2.0])

    def any(self, depth=2):
        k = self.r.randrange(8 if depth > 0 else 5)
        if k == 0:
            return None
        if k == 1:
            return self.chance(0.5)
        if k == 2:
            return self.number()
        if k in (3, 4):
            return self.string()
        if k in (5, 6):
            return [self.any(depth - 1) for _ in range(self.r.randrange(0, 3))]
        return {self.ident(): self.any(depth - 1) for _ in range(self.r.randrange(0, 3))}

    def uniq_list(self, f, lo, hi):
        out = []
        for _ in range(self.r.randint(lo, hi)):
            x = f()
            if js_utils.uniq(out + [x]):
                out.append(x)
        if len(out) < lo:
            out.append(f())
        return out

    def vendor(self, obj, p=0.2):
        """sprinkle vendor extensions"""
        while self.chance(p):
            obj[self.r.choice(["x-a", "x-", "x-nullable", "x-go-name", "x-\u00e9", "x-x-"])] = self.any(2)
        return obj

    def opt(self, obj, key, f, p=0.4):
        if self.chance(p):
            obj[key] = f()

    def ref(self, where="definitions"):
        return self.r.choice(["#/%s/x" % where, "#/%s/Pet" % where, "other.json#/%s/x" % where,
                              "http://example.com/s.json", "", "#", "#/%s/with%%20space" % where])

    def shuffle_keys(self, obj):
        items = list(obj.items())
        self.r.shuffle(items)
        return dict(items)

    # ----- small objects
    def external_docs(self):
        o = {"url": self.string()}
        self.opt(o, "description", self.string)
        return self.vendor(o)

    def xml(self):
        o = {}
        for k in ("name", "namespace", "prefix"):
            self.opt(o, k, self.string, 0.3)
        for k in ("attribute", "wrapped"):
            self.opt(o, k, lambda: self.chance(0.5), 0.3)
        return self.vendor(o)

    def tag(self):
        o = {"name": self.string()}
        self.opt(o, "description", self.string)
        self.opt(o, "externalDocs", self.external_docs, 0.3)
        return self.vendor(o)

    def contact(self):
        o = {}
        for k in ("name", "url", "email"):
            self.opt(o, k, self.string)
        return self.vendor(o)

    def license(self):
        o = {"name": self.string()}
        self.opt(o, "url", self.string)
        return self.vendor(o)

    def info(self):
        o = {"title": self.string(), "version": self.string()}
        self.opt(o, "description", self.string)
        self.opt(o, "termsOfService", self.string, 0.2)
        self.opt(o, "contact", self.contact, 0.4)
        self.opt(o, "license", self.license, 0.4)
        return self.shuffle_keys(self.vendor(o))

    def mime_list(self):
        return self.uniq_list(lambda: self.r.choice(["application/json", "application/xml", "text/plain", "",
                                                     "*/*", "not a mime",
                                                     "application/json;charset=utf-8", "Application/JSON", "application/json; Charset=utf-8"]), 0, 3)

    def schemes(self):
        return self.uniq_list(lambda: self.r.choice(["http", "https", "ws", "wss"]), 0, 4)

    # ----- schema
    def simple_type(self):
        return self.r.choice(["array", "boolean", "integer", "null", "number", "object", "string"])

    def schema(self, depth=2):
        o = {}
        if self.chance(0.25):
            o["$ref"] = self.ref()
            if self.chance(0.6):
                return o
        if self.chance(0.6):
            o["type"] = self.simple_type() if self.chance(0.8) else self.uniq_list(self.simple_type, 1, 3)
        self.opt(o, "format", self.string, 0.2)
        self.opt(o, "title", self.string, 0.15)
        self.opt(o, "description", self.string, 0.2)
        self.opt(o, "default", lambda: self.any(2), 0.15)
        self.opt(o, "multipleOf", self.pos_number, 0.1)
        for k in ("maximum", "minimum"):
            self.opt(o, k, self.number, 0.12)
        for k in ("exclusiveMaximum", "exclusiveMinimum", "uniqueItems", "readOnly"):
            self.opt(o, k, lambda: self.chance(0.5), 0.08)
        for k in ("maxLength", "minLength", "maxItems", "minItems", "maxProperties", "minProperties"):
            self.opt(o, k, self.nonneg_int, 0.08)
        self.opt(o, "pattern", lambda: self.r.choice(["^a+$", "", "[", "\\d+"]), 0.1)
        self.opt(o, "required", lambda: self.uniq_list(self.ident, 1, 3), 0.15)
        self.opt(o, "enum", lambda: self.uniq_list(lambda: self.any(1), 1, 4), 0.15)
        self.opt(o, "discriminator", self.string, 0.08)
        self.opt(o, "xml", self.xml, 0.1)
        self.opt(o, "externalDocs", self.external_docs, 0.08)
        self.opt(o, "example", lambda: self.any(2), 0.12)
        if depth > 0:
            if self.chance(0.2):
                o["additionalProperties"] = self.chance(0.5) if self.chance(0.4) else self.schema(depth - 1)
            if self.chance(0.25):
                o["items"] = (self.schema(depth - 1) if self.chance(0.7)
                              else [self.schema(depth - 1) for _ in range(self.r.randint(1, 2))])
            if self.chance(0.15):
                o["allOf"] = [self.schema(depth - 1) for _ in range(self.r.randint(1, 2))]
            if self.chance(0.35):
                o["properties"] = {self.ident(): self.schema(depth - 1) for _ in range(self.r.randint(0, 3))}
        else:
            self.opt(o, "additionalProperties", lambda: self.chance(0.5), 0.1)
        return self.shuffle_keys(self.vendor(o, 0.12))

    def file_schema(self):
        o = {"type": "file"}
        self.opt(o, "format", self.string, 0.2)
        self.opt(o, "title", self.string, 0.2)
        self.opt(o, "description", self.string, 0.2)
        self.opt(o, "default", lambda: self.any(1), 0.2)
        self.opt(o, "required", lambda: self.uniq_list(self.ident, 1, 2), 0.2)
        self.opt(o, "readOnly", lambda: self.chance(0.5), 0.2)
        self.opt(o, "externalDocs", self.external_docs, 0.1)
        self.opt(o, "example", lambda: self.any(1), 0.2)
        return self.shuffle_keys(self.vendor(o))

    # ----- simple (non-body) schemas
    def common(self, o, p=0.1):
        self.opt(o, "format", self.string, p * 2)
        self.opt(o, "default", lambda: self.any(1), p)
        for k in ("maximum", "minimum"):
            self.opt(o, k, self.number, p)
        for k in ("exclusiveMaximum", "exclusiveMinimum", "uniqueItems"):
            self.opt(o, k, lambda: self.chance(0.5), p)
        for k in ("maxLength", "minLength", "maxItems", "minItems"):
            self.opt(o, k, self.nonneg_int, p)
        self.opt(o, "pattern", self.string, p)
        self.opt(o, "enum", lambda: self.uniq_list(lambda: self.any(1), 1, 3), p)
        self.opt(o, "multipleOf", self.pos_number, p)
        return o

    def prim_type(self, extra=()):
        return self.r.choice(["string", "number", "integer", "boolean", "array"] + list(extra))

    def cf(self, multi=False):
        return self.r.choice(["csv", "ssv", "tsv", "pipes"] + (["multi"] if multi else []))

    def primitives_items(self, depth=2):
        o = {}
        self.opt(o, "type", self.prim_type, 0.85)
        if depth > 0 and (o.get("type") == "array" or self.chance(0.1)):
            o["items"] = self.primitives_items(depth - 1)
        self.opt(o, "collectionFormat", self.cf, 0.2)
        return self.shuffle_keys(self.vendor(self.common(o)))

    def header(self):
        o = {"type": self.prim_type()}
        if o["type"] == "array" or self.chance(0.1):
            o["items"] = self.primitives_items(1)
        self.opt(o, "collectionFormat", self.cf, 0.2)
        self.opt(o, "description", self.string, 0.3)
        return self.shuffle_keys(self.vendor(self.common(o)))

    def parameter(self, loc=None):
        loc = loc or self.r.choice(["body", "query", "header", "path", "formData"])
        o = {"name": self.ident(), "in": loc}
        self.opt(o, "description", self.string, 0.3)
        if loc == "body":
            o["schema"] = self.schema(2)
            self.opt(o, "required", lambda: self.chance(0.5), 0.4)
            return self.shuffle_keys(self.vendor(o))
        if loc == "path":
            o["required"] = True
        else:
            self.opt(o, "required", lambda: self.chance(0.5), 0.4)
        o["type"] = self.prim_type(("file",) if loc == "formData" else ())
        if o["type"] == "array" or self.chance(0.08):
            o["items"] = self.primitives_items(1)
        self.opt(o, "collectionFormat", lambda: self.cf(loc in ("query", "formData")), 0.3)
        if loc in ("query", "formData"):
            self.opt(o, "allowEmptyValue", lambda: self.chance(0.5), 0.2)
        return self.shuffle_keys(self.vendor(self.common(o)))

    def parameters_list(self, locs=None):
        def one():
            if self.chance(0.2):
                return {"$ref": self.ref("parameters")}
            return self.parameter(self.r.choice(locs) if locs else None)
        return self.uniq_list(one, 0, 3)

    # ----- responses
    def response(self):
        o = {"description": self.string()}
        if self.chance(0.6):
            o["schema"] = self.file_schema() if self.chance(0.2) else self.schema(2)
        if self.chance(0.3):
            o["headers"] = {self.ident(): self.header() for _ in range(self.r.randint(0, 2))}
        if self.chance(0.2):
            o["examples"] = {self.r.choice(["application/json", "text/plain", ""]): self.any(2)
                             for _ in range(self.r.randint(0, 2))}
        return self.shuffle_keys(self.vendor(o))

    def response_value(self):
        if self.chance(0.2):
            return {"$ref": self.ref("responses")}
        return self.response()

    def responses(self):
        o = {}
        for _ in range(self.r.randint(1, 3)):
            o[self.r.choice(["200", "201", "204", "400", "404", "500", "default", "000", "999"])] = self.response_value()
        return self.shuffle_keys(self.vendor(o))

    # ----- security
    def scopes(self):
        return {self.r.choice(["read", "write", "", "x-s", "a:b"]): self.string() for _ in range(self.r.randint(0, 2))}

    def security_scheme(self, flavour=None):
        flavour = flavour or self.r.choice(SECURITY_FLAVOURS)
        if flavour == "basicAuthenticationSecurity":
            o = {"type": "basic"}
        elif flavour == "apiKeySecurity":
            o = {"type": "apiKey", "name": self.string(), "in": self.r.choice(["header", "query"])}
        else:
            flow = {"oauth2ImplicitSecurity": "implicit", "oauth2PasswordSecurity": "password",
                    "oauth2ApplicationSecurity": "application", "oauth2AccessCodeSecurity": "accessCode"}[flavour]
            o = {"type": "oauth2", "flow": flow}
            if flow in ("implicit", "accessCode"):
                o["authorizationUrl"] = self.string()
            if flow in ("password", "application", "accessCode"):
                o["tokenUrl"] = self.string()
            self.opt(o, "scopes", self.scopes, 0.6)
        self.opt(o, "description", self.string, 0.3)
        return self.shuffle_keys(self.vendor(o))

    def security_requirement(self):
        return {self.ident(): self.uniq_list(lambda: self.r.choice(["read", "write", "", "admin"]), 0, 2)
                for _ in range(self.r.randint(0, 2))}

    def security(self):
        return self.uniq_list(self.security_requirement, 0, 3)

    # ----- operations, paths
    def operation(self):
        o = {"responses": self.responses()}
        self.opt(o, "tags", lambda: self.uniq_list(self.string, 0, 3), 0.3)
        self.opt(o, "summary", self.string, 0.2)
        self.opt(o, "description", self.string, 0.2)
        self.opt(o, "externalDocs", self.external_docs, 0.1)
        self.opt(o, "operationId", self.string, 0.3)
        self.opt(o, "produces", self.mime_list, 0.2)
        self.opt(o, "consumes", self.mime_list, 0.2)
        self.opt(o, "parameters", self.parameters_list, 0.6)
        self.opt(o, "schemes", self.schemes, 0.15)
        self.opt(o, "deprecated", lambda: self.chance(0.5), 0.15)
        self.opt(o, "security", self.security, 0.25)
        return self.shuffle_keys(self.vendor(o))

    def path_item(self):
        o = {}
        self.opt(o, "$ref", lambda: self.ref("paths"), 0.1)
        for m in self.r.sample(["get", "put", "post", "delete", "options", "head", "patch"], self.r.randint(0, 2)):
            o[m] = self.operation()
        self.opt(o, "parameters", self.parameters_list, 0.3)
        return self.shuffle_keys(self.vendor(o))

    def paths(self):
        o = {}
        for _ in range(self.r.randint(0, 3)):
            o[self.r.choice(["/", "/pets", "/pets/{petId}", "/a/b", "//", "/x-y", "/\u00e9"])] = self.path_item()
        return self.shuffle_keys(self.vendor(o))

    def host(self):
        return self.r.choice(["example.com", "localhost:8080", "a", "127.0.0.1:1", "[", "h\u00f4te", "a.b:00",
                              "api.example.com", "x\ty", "a\nb"])

    def swagger(self, force=None):
        """force: optional feature to guarantee (a security flavour or a parameter location)"""
        o = {"swagger": "2.0", "info": self.info(), "paths": self.paths()}
        self.opt(o, "host", self.host, 0.4)
        self.opt(o, "basePath", lambda: self.r.choice(["/", "/api", "/v1/", "//x", "/ "]), 0.4)
        self.opt(o, "schemes", self.schemes, 0.3)
        self.opt(o, "consumes", self.mime_list, 0.3)
        self.opt(o, "produces", self.mime_list, 0.3)
        self.opt(o, "definitions", lambda: {self.ident(): self.schema(2) for _ in range(self.r.randint(0, 3))}, 0.6)
        self.opt(o, "parameters", lambda: {self.ident(): self.parameter() for _ in range(self.r.randint(0, 3))}, 0.4)
        self.opt(o, "responses", lambda: {self.ident(): self.response() for _ in range(self.r.randint(0, 2))}, 0.4)
        self.opt(o, "security", self.security, 0.3)
        self.opt(o, "securityDefinitions",
                 lambda: {self.ident(): self.security_scheme() for _ in range(self.r.randint(0, 3))}, 0.5)
        self.opt(o, "tags", lambda: self.uniq_list(self.tag, 0, 3), 0.4)
        self.opt(o, "externalDocs", self.external_docs, 0.2)
        if force in SECURITY_FLAVOURS:
            o.setdefault("securityDefinitions", {})["forced"] = self.security_scheme(force)
        if o.get("securityDefinitions") and self.r.random() < 0.6:
            # requirements that NAME the declared schemes (any scope list is schema-valid against any scheme type)
            names = sorted(o["securityDefinitions"])
            def link(reqs):
                for i, rq in enumerate(reqs):
                    reqs[i] = {self.r.choice(names): v for v in rq.values()} or {self.r.choice(names): [self.r.choice(["read", "write"])]}
                if not reqs:
                    reqs.append({self.r.choice(names): [self.r.choice(["read", "write", "admin"])]})
                seen, keep = set(), []
                for rq in reqs:          # the schema wants unique items
                    k = json.dumps(rq, sort_keys=True)
                    if k not in seen:
                        seen.add(k)
                        keep.append(rq)
                reqs[:] = keep
            if "security" in o or self.r.random() < 0.5:
                link(o.setdefault("security", []))
            for item in o.get("paths", {}).values():
                if isinstance(item, dict):
                    for op in item.values():
                        if isinstance(op, dict) and "responses" in op and ("security" in op or self.r.random() < 0.3):
                            link(op.setdefault("security", []))
        elif force in ("body", "query", "header", "path", "formData"):
            item = o["paths"].setdefault("/forced", {})
            op = item.setdefault("get", self.operation())
            ps = op.setdefault("parameters", [])
            p = self.parameter(force)
            if js_utils.uniq(ps + [p]):
                ps.append(p)
        elif force == "fileResponse":
            item = o["paths"].setdefault("/forced", {})
            op = item.setdefault("post", self.operation())
            op["responses"]["200"] = {"description": self.string(), "schema": self.file_schema(),
                                      "headers": {"X-Rate": self.header()}}
        return self.shuffle_keys(self.vendor(o, 0.3))


FORCED = SECURITY_FLAVOURS + ["body", "query", "header", "path", "formData", "fileResponse", None, None]


# ---------------------------------------------------------------------------------------------
# walking an instance alongside the meta-schema
# ---------------------------------------------------------------------------------------------
Site = collections.namedtuple("Site", "path name node inst")


def resolve(doc, node):
    """follow $ref chains; returns (doc, node, name) where name is the last definition name crossed"""
    name = None
    while isinstance(node, dict) and "$ref" in node:
        ref = node["$ref"]
        if ref.startswith("#"):
            target_doc, ptr = doc, ref[1:]
        elif ref.startswith(DRAFT4_ID + "#"):
            target_doc, ptr = D4, ref[len(DRAFT4_ID) + 1:]
        else:
            raise ValueError(ref)
        node = target_doc
        parts = [p for p in ptr.split("/") if p]
        for p in parts:
            node = node[p]
        doc = target_doc
        if doc is SW and len(parts) == 2 and parts[0] == "definitions":
            name = parts[1]
    return doc, node, name


def branch_ok(doc, node, inst):
    v = ROOT_VALIDATOR if doc is SW else D4_VALIDATOR
    return v.evolve(schema=node).is_valid(inst)


def walk(doc, node, inst, path, name, out, depth=0):
    doc, node, n2 = resolve(doc, node)
    name = n2 or name
    if not isinstance(node, dict) or depth > 40:
        return
    if node is SW["definitions"]["securityDefinitions"]["additionalProperties"]:
        name = "securityScheme"      # the anonymous oneOf of the six flavours
    out.append(Site(path, name, node, inst))
    for sub in node.get("allOf", []):
        walk(doc, sub, inst, path, None, out, depth + 1)
    for kw in ("oneOf", "anyOf"):
        for sub in node.get(kw, []):
            rd, rn, _ = resolve(doc, sub)
            if branch_ok(rd, rn, inst):
                walk(doc, sub, inst, path, None, out, depth + 1)
    if isinstance(inst, dict):
        props = node.get("properties", {})
        pats = node.get("patternProperties", {})
        addl = node.get("additionalProperties")
        for k, v in inst.items():
            hit = False
            if k in props:
                hit = True
                walk(doc, props[k], v, path + (k,), None, out, depth + 1)
            for pat, sub in pats.items():
                if re.search(pat, k):
                    hit = True
                    walk(doc, sub, v, path + (k,), None, out, depth + 1)
            if not hit and isinstance(addl, dict):
                walk(doc, addl, v, path + (k,), None, out, depth + 1)
    if isinstance(inst, list):
        items = node.get("items")
        if isinstance(items, dict):
            for i, v in enumerate(inst):
                walk(doc, items, v, path + (i,), None, out, depth + 1)


def sites_of(inst):
    out = []
    walk(SW, SW, inst, (), "swagger", out)
    return out


def get_at(inst, path):
    for p in path:
        inst = inst[p]
    return inst


def set_at(inst, path, value):
    """returns the new root"""
    if not path:
        return value
    parent = get_at(inst, path[:-1])
    parent[path[-1]] = value
    return inst


def rename_key(obj, old, new):
    """rename preserving member order; None if it would collide"""
    if new in obj and new != old:
        return None
    items = [(new if k == old else k, v) for k, v in obj.items()]
    obj.clear()
    obj.update(items)
    return obj


# ---------------------------------------------------------------------------------------------
# mutations: each takes (rng, doc copy, sites) and returns (mutated doc, path of the fault) or None
# ---------------------------------------------------------------------------------------------
OTHER_TYPES = [None, True, False, 0, 1, 1.5, -1, "", "str", [], ["a"], {}, {"a": 1}, {"$ref": "#/definitions/x"}]


def pick(rng, sites, pred):
    c = [s for s in sites if pred(s)]
    return rng.choice(c) if c else None


def m_drop_required(rng, doc, sites):
    s = pick(rng, sites, lambda s: isinstance(s.inst, dict) and any(k in s.inst for k in s.node.get("required", [])))
    if not s:
        return None
    k = rng.choice([k for k in s.node["required"] if k in s.inst])
    del get_at(doc, s.path)[k]
    return doc, s.path


def m_drop_optional(rng, doc, sites):
    s = pick(rng, sites, lambda s: isinstance(s.inst, dict) and s.inst and "properties" in s.node)
    if not s:
        return None
    k = rng.choice(list(s.inst))
    del get_at(doc, s.path)[k]
    return doc, s.path


def m_add_unknown(rng, doc, sites):
    s = pick(rng, sites, lambda s: isinstance(s.inst, dict) and s.node.get("additionalProperties") is False)
    if not s:
        return None
    k = rng.choice(["unknown", "X-upper", "x", "x_", " x-lead", "xx-", "y-x-", "-x-", "oneOf", "anyOf", "not",
                    "definitions", "patternProperties", "id", "$schema", "nullable", "Description", "schemas",
                    "x-ok", "x-", "consumes", "example", "examples", "name", "in", "type", "schema", "items",
                    "$ref", "description", "required", "collectionFormat", "allowEmptyValue", "flow", "tokenUrl",
                    "authorizationUrl", "scopes", "default", "trace", "servers", "2000", "default"])
    obj = get_at(doc, s.path)
    if k in obj:
        return None
    obj[k] = rng.choice(OTHER_TYPES)
    return doc, s.path


def m_wrong_type(rng, doc, sites):
    s = pick(rng, sites, lambda s: s.path and isinstance(s.node.get("type"), str))
    if not s:
        return None
    return set_at(doc, s.path, copy.deepcopy(rng.choice(OTHER_TYPES))), s.path[:-1]


def m_wrong_type_any(rng, doc, sites):
    """replace any visited value (typed or not) by a value of a random type"""
    s = pick(rng, sites, lambda s: bool(s.path))
    if not s:
        return None
    return set_at(doc, s.path, copy.deepcopy(rng.choice(OTHER_TYPES))), s.path[:-1]


def m_bad_enum(rng, doc, sites):
    s = pick(rng, sites, lambda s: s.path and "enum" in s.node)
    if not s:
        return None
    cur = s.inst
    cands = ["", "nope", "multi", "file", "body", "query", "header", "path", "formData", "basic", "apiKey",
             "oauth2", "implicit", "password", "application", "accessCode", "2.0 ", "2", "3.0", 2.0, "csv ",
             "CSV", "HTTP", "ftp", "object", "null", "any", "String", "float", "cookie", False, None, 1,
             "string", "array", "https", "pipes", True]
    if isinstance(cur, str):
        cands += [cur.upper(), cur + " ", " " + cur, cur[:-1], cur + "s"]
    return set_at(doc, s.path, rng.choice(cands)), s.path[:-1]


def json_twin(rng, x):
    """a value equal to x under JSON equality but (when possible) a different literal"""
    if isinstance(x, bool) or x is None or isinstance(x, str):
        return x
    if isinstance(x, int):
        return float(x) if abs(x) < 2 ** 53 else x
    if isinstance(x, float):
        return int(x) if x.is_integer() and abs(x) < 2 ** 53 else x
    if isinstance(x, list):
        return [json_twin(rng, e) for e in x]
    items = [(k, json_twin(rng, v)) for k, v in x.items()]
    rng.shuffle(items)
    return dict(items)


def near_twin(rng, x):
    """a value that looks like x but is NOT JSON-equal (true/1, "1"/1, extra member ...) when possible"""
    if x is True:
        return 1
    if x is False:
        return 0
    if isinstance(x, (int, float)):
        return rng.choice([str(x), x + 1, bool(x)]) if x in (0, 1) else rng.choice([str(x), x + 1])
    if isinstance(x, str):
        return x + " "
    if x is None:
        return rng.choice([0, "", False])
    if isinstance(x, list):
        return x + [None] if rng.random() < 0.5 or not x else [near_twin(rng, x[0])] + x[1:]
    y = dict(x)
    if y and rng.random() < 0.6:
        k = rng.choice(list(y))
        y[k] = near_twin(rng, y[k])
    else:
        y["x-twin"] = None
    return y


def m_dup_unique(rng, doc, sites):
    s = pick(rng, sites, lambda s: isinstance(s.inst, list) and s.inst and s.node.get("uniqueItems") is True)
    if not s:
        return None
    lst = get_at(doc, s.path)
    x = copy.deepcopy(rng.choice(lst))
    mode = rng.randrange(3)
    y = x if mode == 0 else json_twin(rng, x) if mode == 1 else near_twin(rng, x)
    lst.insert(rng.randint(0, len(lst)), y)
    return doc, s.path


def m_empty_min_items(rng, doc, sites):
    s = pick(rng, sites, lambda s: isinstance(s.inst, list) and s.node.get("minItems", 0) >= 1)
    if not s:
        return None
    return set_at(doc, s.path, []), s.path[:-1]


def m_bad_number(rng, doc, sites):
    s = pick(rng, sites, lambda s: s.path and (
        s.node.get("type") in ("integer", "number") or
        any(sub.get("$ref", "").endswith("positiveInteger") for sub in s.node.get("allOf", []))))
    if not s:
        return None
    v = rng.choice([-1, 1.5, 1.0, 0.0, -0.0, 2.0, "1", True, None, 0, -0.5, 1e+20, 1e-05, 10 ** 30, -10 ** 30])
    return set_at(doc, s.path, v), s.path[:-1]


def named(sites, *names):
    return [s for s in sites if s.name in names and isinstance(s.inst, dict)]


def m_param_mix(rng, doc, sites):
    """members of the other parameter family / a changed location"""
    c = named(sites, "bodyParameter", "nonBodyParameter", "parameter")
    if not c:
        return None
    s = rng.choice(c)
    p = get_at(doc, s.path)
    mode = rng.randrange(6)
    if mode == 0:
        p.setdefault("schema", {"type": "string"})
    elif mode == 1:
        p.setdefault("type", "string")
    elif mode == 2:
        p["in"] = rng.choice(["body", "query", "header", "path", "formData", "cookie", "Query"])
    elif mode == 3:
        p["required"] = rng.choice([False, True, "true", 1, None])
    elif mode == 4:
        p["collectionFormat"] = rng.choice(["multi", "csv", "pipes", "tsv", "ssv", "Multi"])
    else:
        p["allowEmptyValue"] = rng.choice([True, False, "yes"])
    return doc, s.path


def m_path_required(rng, doc, sites):
    """the "required" member of a path parameter (must be present and true); parameters moved to or from path"""
    c = [s for s in named(sites, "nonBodyParameter") if "in" in s.inst]
    if not c:
        return None
    s = rng.choice([s for s in c if s.inst["in"] == "path"] or c)
    p = get_at(doc, s.path)
    if p["in"] == "path":
        mode = rng.randrange(3)
        if mode == 0:
            p["required"] = rng.choice([False, False, None, "true", 1, True])
        elif mode == 1:
            p.pop("required", None)
        else:
            p["in"] = rng.choice(["query", "header", "formData"])
            p["required"] = rng.choice([False, True])
    else:
        p["in"] = "path"
        if rng.random() < 0.3:
            p["required"] = True
    return doc, s.path


def m_second_branch(rng, doc, sites):
    """try to satisfy / confuse a second branch of a oneOf"""
    c = named(sites, "parameter", "bodyParameter", "nonBodyParameter", "response", "responseValue", "jsonReference",
              "schema", "fileSchema", *SECURITY_FLAVOURS)
    if not c:
        return None
    s = rng.choice(c)
    o = get_at(doc, s.path)
    mode = rng.randrange(5)
    if mode == 0:
        o.setdefault("$ref", "#/x")
    elif mode == 1:
        o.setdefault("description", "d")
    elif mode == 2 and "flow" in o:
        o["flow"] = rng.choice(["implicit", "password", "application", "accessCode"])
    elif mode == 3 and "type" in o:
        o["type"] = rng.choice(["file", "basic", "apiKey", "oauth2", "string", "object"])
    else:
        for k in ("tokenUrl", "authorizationUrl"):
            if rng.random() < 0.5:
                o.setdefault(k, "u")
            elif k in o and rng.random() < 0.5:
                del o[k]
    return doc, s.path


def m_bad_status(rng, doc, sites):
    c = [s for s in named(sites, "responses") if s.inst]
    if not c:
        return None
    s = rng.choice(c)
    o = get_at(doc, s.path)
    mode = rng.randrange(4)
    if mode == 0:
        old = rng.choice(list(o))
        new = rng.choice(["2000", "20", "2xx", "2XX", "Default", "default ", " 200", "200 ", "-20", "+20", "2.0",
                          "\u0662\u0660\u0660", "defaults", "", "x-200", "x-", "600", "099", "1e2", "0x1",
                          "\uff12\uff10\uff10"])
        if rename_key(o, old, new) is None:
            return None
    elif mode == 1:
        o.clear()
    elif mode == 2:
        for k in [k for k in o if not k.startswith("x-")]:
            del o[k]
        if rng.random() < 0.7:
            o["x-only"] = rng.choice([1, {"description": "d"}])
    else:
        o[rng.choice(list(o))] = rng.choice([{}, {"description": 1}, {"$ref": 1}, {"$ref": "#/r", "description": "d"},
                                             {"$ref": "#/r", "x-a": 1}, [], None, {"description": "d"}])
    return doc, s.path


def m_bad_path(rng, doc, sites):
    c = named(sites, "paths")
    if not c:
        return None
    s = rng.choice(c)
    o = get_at(doc, s.path)
    new = rng.choice(["pets", "", " /pets", "x/", "X-a", "x-/pets", "{id}", "\\pets", "/ok", "x-ok"])
    if o and rng.random() < 0.7:
        if rename_key(o, rng.choice(list(o)), new) is None:
            return None
    else:
        if new in o:
            return None
        o[new] = rng.choice([{}, {"get": {"responses": {"200": {"description": ""}}}}, 1, None, {"get": {}}])
    return doc, s.path


def m_host_basepath(rng, doc, sites):
    if rng.random() < 0.65:
        doc["host"] = rng.choice(["a/b", "a:b", "a:", "a:80", ":80", "", "a b", "{a}", "a}", "a\\b", "a:80:90",
                                  "a:8 0", "example.com", "a:-1", "a:80/", "a:0",
                                  "h\u00e9:1", "a\n:1", "a::1", "[::1]", "a:1a", 1, None, "http://a"])
    else:
        doc["basePath"] = rng.choice(["api", "", " /", "/", "\\", "x-/", "/\n", None, ["/"], "a/"])
    return doc, ()


def m_vendor_ext(rng, doc, sites):
    """add a vendor extension where the schema has the ^x- pattern (stays valid) or not (may not)"""
    s = pick(rng, sites, lambda s: isinstance(s.inst, dict) and s.name is not None)
    if not s:
        return None
    o = get_at(doc, s.path)
    k = rng.choice(["x-added", "x-", "x-\u00e9"])
    if k in o:
        return None
    o[k] = rng.choice(OTHER_TYPES)
    return doc, s.path


def m_schema_keyword(rng, doc, sites):
    c = named(sites, "schema")
    if not c:
        return None
    s = rng.choice(c)
    o = get_at(doc, s.path)
    k, v = rng.choice([
        ("type", "file"), ("type", ["string", "string"]), ("type", []), ("type", ["string", "file"]),
        ("type", ["null", "string"]), ("type", "any"), ("type", 1), ("type", [1]),
        ("additionalProperties", 1), ("additionalProperties", None), ("additionalProperties", {"type": "file"}),
        ("additionalProperties", {"additionalProperties": {"additionalProperties": 0}}),
        ("additionalProperties", {"x-a": 1}), ("additionalProperties", True), ("additionalProperties", []),
        ("items", []), ("items", [{}]), ("items", [{}, {"type": "file"}]), ("items", {"items": {"items": []}}),
        ("items", [[]]), ("items", True), ("items", {"$ref": 1}), ("items", [{}, {}]),
        ("allOf", []), ("allOf", {}), ("allOf", [{}]), ("allOf", [{"allOf": []}]), ("allOf", [1]), ("allOf", [{}, {}]),
        ("properties", []), ("properties", {"a": 1}), ("properties", {"a": {"properties": {"b": {"type": "file"}}}}),
        ("properties", {"x-a": 1}), ("properties", {"x-a": {}}), ("properties", {}), ("properties", None),
        ("required", []), ("required", ["a", "a"]), ("required", [1]), ("required", "a"), ("required", True),
        ("required", ["a", "b"]),
        ("enum", []), ("enum", [1, 1.0]), ("enum", [1, True]), ("enum", [0, False]), ("enum", [[1], [1.0]]),
        ("enum", [{"a": 1, "b": 2}, {"b": 2, "a": 1}]), ("enum", [{"a": 1}, {"a": True}]), ("enum", [None, None]),
        ("enum", ["1", 1]), ("enum", [[], {}]), ("enum", [{"a": [1, {"b": 0}]}, {"a": [1.0, {"b": -0.0}]}]),
        ("enum", [100, 1e2]), ("enum", [[True], [1]]), ("enum", [{"a": 1}, {"a": 1, "b": None}]), ("enum", "a"),
        ("enum", [[1, 2], [2, 1]]), ("enum", [{"a": {"b": 1, "c": 2}}, {"a": {"c": 2, "b": 1}}]),
        ("multipleOf", 0), ("multipleOf", -1), ("multipleOf", 0.0), ("multipleOf", "1"), ("multipleOf", 1e-05),
        ("multipleOf", True), ("multipleOf", -0.5),
        ("maxLength", -1), ("maxLength", 1.0), ("maxLength", 1.5), ("minLength", "0"), ("minItems", -0.0),
        ("maxItems", True), ("minProperties", -3), ("maxProperties", 2.0), ("minLength", 0), ("maxLength", 10 ** 20),
        ("maximum", "1"), ("minimum", None), ("maximum", True), ("exclusiveMaximum", 1), ("exclusiveMinimum", "true"),
        ("uniqueItems", 0), ("readOnly", "false"), ("discriminator", 1), ("pattern", 1), ("format", 1),
        ("title", 1), ("description", None), ("$ref", 1), ("$ref", None), ("$ref", "ok"),
        ("xml", {"name": 1}), ("xml", {"unknown": 1}), ("xml", {"x-a": 1}), ("xml", []), ("xml", {"wrapped": "true"}),
        ("externalDocs", {}), ("externalDocs", {"url": 1}), ("externalDocs", {"url": "", "extra": 1}),
        ("externalDocs", {"url": "", "x-extra": 1}), ("example", None), ("default", None),
    ])
    o[k] = copy.deepcopy(v)
    return doc, s.path


def m_simple_keyword(rng, doc, sites):
    """faults in items / header / non-body parameter keywords"""
    c = named(sites, "primitivesItems", "header", "nonBodyParameter", "headerParameterSubSchema",
              "queryParameterSubSchema", "formDataParameterSubSchema", "pathParameterSubSchema")
    if not c:
        return None
    s = rng.choice(c)
    o = get_at(doc, s.path)
    k, v = rng.choice([
        ("type", "file"), ("type", "object"), ("type", ["string"]), ("type", "null"), ("type", "array"),
        ("items", {}), ("items", {"type": "object"}), ("items", {"items": {"items": {"type": "file"}}}),
        ("items", []), ("items", {"$ref": "#/definitions/x"}), ("items", {"x-a": 1}), ("items", {"items": 1}),
        ("items", {"type": "array", "items": {"type": "array", "items": {"collectionFormat": "multi"}}}),
        ("items", {"collectionFormat": "pipes"}), ("items", None),
        ("collectionFormat", "multi"), ("collectionFormat", "csv"), ("collectionFormat", ""), ("collectionFormat", 1),
        ("enum", []), ("enum", [1, 1]), ("enum", ["a", "b"]), ("enum", [1, 1.0]), ("enum", [1, True]), ("enum", {}),
        ("multipleOf", 0), ("multipleOf", 2), ("maxLength", -1), ("maxLength", 2.0), ("minLength", 1.5),
        ("maxItems", "1"), ("minItems", 0), ("uniqueItems", "true"), ("pattern", 1), ("format", None),
        ("maximum", "1"), ("minimum", 1.5), ("exclusiveMaximum", None), ("exclusiveMinimum", True),
        ("default", None), ("description", 1), ("schema", {}), ("example", 1), ("$ref", "#/x"),
        ("required", True), ("required", False), ("name", 1), ("allowEmptyValue", True),
    ])
    o[k] = copy.deepcopy(v)
    return doc, s.path


def m_security_keyword(rng, doc, sites):
    c = named(sites, "securityRequirement", "oauth2Scopes", *SECURITY_FLAVOURS)
    if not c:
        return None
    s = rng.choice(c)
    o = get_at(doc, s.path)
    if s.name == "securityRequirement":
        o[rng.choice(["k", "x-k", ""])] = rng.choice([["a", "a"], ["a", "b"], [1], "a", None, [], {}, [["a"]]])
    elif s.name == "oauth2Scopes":
        o[rng.choice(["k", "x-k", ""])] = rng.choice([1, None, "ok", [], {}])
    else:
        k, v = rng.choice([("in", "cookie"), ("in", "header"), ("in", "body"), ("name", 1), ("scopes", []),
                           ("scopes", {"a": 1}), ("scopes", {"a": "b"}), ("scopes", {}), ("flow", "implicit"),
                           ("flow", "Implicit"), ("type", "oauth2"), ("type", "basic"), ("type", "apiKey"),
                           ("tokenUrl", 1), ("authorizationUrl", None), ("tokenUrl", "ok"), ("description", 1)])
        o[k] = v
    return doc, s.path


def m_reorder(rng, doc, sites):
    """shuffle the members of an object: never changes the verdict"""
    s = pick(rng, sites, lambda s: isinstance(s.inst, dict) and len(s.inst) > 1)
    if not s:
        return None
    o = get_at(doc, s.path)
    items = list(o.items())
    rng.shuffle(items)
    o.clear()
    o.update(items)
    return doc, s.path


MUTATIONS = [
    ("drop_required", m_drop_required, 3), ("drop_member", m_drop_optional, 1), ("add_unknown", m_add_unknown, 3),
    ("wrong_type", m_wrong_type, 3), ("replace_value", m_wrong_type_any, 2), ("bad_enum", m_bad_enum, 3),
    ("dup_unique", m_dup_unique, 3), ("empty_min_items", m_empty_min_items, 1), ("bad_number", m_bad_number, 2),
    ("param_mix", m_param_mix, 3), ("path_required", m_path_required, 1), ("second_oneof_branch", m_second_branch, 3), ("bad_status", m_bad_status, 3),
    ("bad_path_key", m_bad_path, 2), ("host_basepath", m_host_basepath, 2), ("vendor_ext", m_vendor_ext, 1),
    ("schema_keyword", m_schema_keyword, 4), ("simple_keyword", m_simple_keyword, 3),
    ("security_keyword", m_security_keyword, 2), ("reorder", m_reorder, 1),
]


# ---------------------------------------------------------------------------------------------
# case emission
# ---------------------------------------------------------------------------------------------
def case(kind, inst, tags):
    return {"op": "valid", "kind": kind, "j": inst, "go": py_valid(kind, inst), "nt": True, "tags": tags}


def named_sites_on(sites, path):
    """named sites whose path is a prefix of [path] (the enclosing definitions of a fault)"""
    out = []
    for s in sites:
        if s.name in MODEL_KINDS and s.name != "swagger" and path[:len(s.path)] == s.path:
            out.append(s)
    return out


LEAF_KINDS = """mimeType collectionFormat collectionFormatWithMulti title description default multipleOf maximum
exclusiveMaximum minimum exclusiveMinimum maxLength minLength pattern maxItems minItems uniqueItems enum
mediaTypeList schemesList security securityRequirement oauth2Scopes examples vendorExtension jsonReference
xml externalDocs contact license tag headers definitions parameterDefinitions responseDefinitions
securityDefinitions parametersList paths responses""".split()

LEAF_VALUES = OTHER_TYPES + [
    2.0, 1.0, 0.0, -0.0, -1.5, 1e+20, 1e-05, 10 ** 25, -10 ** 25, 0.5, "csv", "multi", "pipes", "http", "text/plain",
    [1, 1.0], [1, True], [0, False], ["a", "a"], ["a", "b"], [[], []], [{}, {}], [None], [{"a": 1}, {"a": 1.0}],
    [{"a": ["s"]}, {"a": ["s"], "b": []}], [{"a": ["s"]}, {"b": ["s"]}], ["http", "https"], ["http", "http"],
    ["http", "ftp"], [{"a": ["s", "s"]}], [{"a": "s"}], {"a": "s"}, {"a": ["s"]}, {"a": {}}, {"x-a": 1},
    {"$ref": ""}, {"$ref": "", "x-a": 1}, {"$ref": 1}, {"url": ""}, {"name": ""}, {"name": "", "x-": None},
    {"200": {"description": ""}}, {"/": {}}, {"x-a": {"description": ""}}, {"a": {"type": "string"}},
    {"a": {"description": ""}}, {"a": {"type": "basic"}}, {"a": {"name": "", "in": "query", "type": "string"}},
    [{"$ref": ""}], [{"$ref": ""}, {"$ref": ""}], [{"name": "", "in": "query", "type": "string"}],
    [{"name": "", "in": "body", "schema": {}}, {"in": "body", "schema": {}, "name": ""}],
]


def leaf_cases(rng, count):
    """direct instances for the small definitions, whose faults are otherwise only seen from their parent"""
    out = []
    for _ in range(count):
        kind = rng.choice(LEAF_KINDS)
        out.append(case(kind, copy.deepcopy(rng.choice(LEAF_VALUES)), ["mut:leaf_value", "sub"]))
    return out


def generate(seed, n, out, muts_per_doc=6, sub_per_doc=4):
    rng = random.Random(seed)
    g = Gen(rng)
    weights = [w for _, _, w in MUTATIONS]
    ncases = 0
    with open(out, "w") as f:
        def emit(c):
            nonlocal ncases
            # the instance must survive a JSON round trip unchanged (no NaN, no lone surrogates)
            f.write(json.dumps(c) + "\n")
            ncases += 1

        for c in leaf_cases(rng, 4 * n):
            emit(c)
        i = 0
        attempts = 0
        while i < n:
            attempts += 1
            force = FORCED[attempts % len(FORCED)]
            doc = g.swagger(force)
            if not ROOT_VALIDATOR.is_valid(doc):
                # the generator is meant to be valid by construction; anything else is its bug
                errs = sorted(ROOT_VALIDATOR.iter_errors(doc), key=lambda e: len(e.path))
                raise SystemExit("generator produced an invalid document: %s at %s" %
                                 (errs[0].message[:200], list(errs[0].path)))
            i += 1
            base_tags = ["base", "force:%s" % force]
            emit(case("swagger", doc, ["valid"] + base_tags))
            sites = sites_of(doc)
            # sub-documents of the valid document
            cands = [s for s in sites if s.name in MODEL_KINDS and s.name != "swagger"]
            rng.shuffle(cands)
            seen_kinds = set()
            k = 0
            for s in cands:
                if s.name in seen_kinds:
                    continue
                seen_kinds.add(s.name)
                emit(case(s.name, s.inst, ["valid", "sub"]))
                k += 1
                if k >= sub_per_doc:
                    break
            # single-fault mutations
            done = 0
            tries = 0
            while done < muts_per_doc and tries < 40:
                tries += 1
                name, fn, _ = rng.choices(MUTATIONS, weights)[0]
                d2 = copy.deepcopy(doc)
                s2 = sites_of(d2)
                res = fn(rng, d2, s2)
                if res is None:
                    continue
                d2, where = res
                done += 1
                emit(case("swagger", d2, ["mut:" + name]))
                # the enclosing named definitions of the fault, innermost first, as sub-kind cases
                try:
                    enclosing = named_sites_on(s2, tuple(where))
                    enclosing.sort(key=lambda s: -len(s.path))
                    used = set()
                    for s in enclosing:
                        if s.name in used:
                            continue
                        used.add(s.name)
                        try:
                            inst = get_at(d2, s.path)
                        except (KeyError, IndexError, TypeError):
                            continue
                        emit(case(s.name, inst, ["mut:" + name, "sub"]))
                        if len(used) >= 3:
                            break
                except Exception:
                    raise
    return ncases


# ---------------------------------------------------------------------------------------------
# comparison with the extracted model
# ---------------------------------------------------------------------------------------------
def check(binary, path, show=10):
    with open(path) as f:
        lines = [l for l in f if l.strip()]
    p = subprocess.run([binary], input="".join(lines), capture_output=True, text=True)
    outs = [l for l in p.stdout.split("\n") if l]
    if len(outs) != len(lines):
        raise SystemExit("model printed %d lines for %d cases (stderr: %s)" % (len(outs), len(lines), p.stderr[:300]))
    per_kind = collections.Counter()
    per_mut = collections.Counter()
    bad = []
    for l, o in zip(lines, outs):
        c = json.loads(l)
        try:
            m = json.loads(o)
        except ValueError:
            m = o
        tag = [t for t in c["tags"] if t == "valid" or t.startswith("mut:")][0]
        agree = (m is c["go"])
        per_kind[(c["kind"], c["go"], agree)] += 1
        per_mut[(tag, c["go"], agree)] += 1
        if not agree:
            bad.append((c, m))
    total = len(lines)
    print("cases: %d   agree: %d   disagree: %d" % (total, total - len(bad), len(bad)))

    def table(title, counter):
        print("\n%-32s %8s %8s %8s" % (title, "py:true", "py:false", "DISAGREE"))
        keys = sorted(set(k for k, _, _ in counter))
        for k in keys:
            t = sum(v for (kk, go, _), v in counter.items() if kk == k and go)
            fl = sum(v for (kk, go, _), v in counter.items() if kk == k and not go)
            d = sum(v for (kk, _, ag), v in counter.items() if kk == k and not ag)
            print("%-32s %8d %8d %8d" % (k, t, fl, d))

    table("kind", per_kind)
    table("origin", per_mut)
    for c, m in bad[:show]:
        print("\nDISAGREE kind=%s python=%s model=%s tags=%s" % (c["kind"], c["go"], m, c["tags"]))
        errs = sorted(kind_validator(c["kind"]).iter_errors(c["j"]), key=lambda e: len(e.path))
        for e in errs[:2]:
            print("   python: %s at %s" % (e.message[:160], list(e.path)))
        print("   j=%s" % json.dumps(c["j"])[:1500])
    return len(bad)


def main():
    ap = argparse.ArgumentParser()
    ap.add_argument("--seed", type=int, default=1)
    ap.add_argument("--n", type=int, default=200, help="number of base (valid) documents")
    ap.add_argument("--out")
    ap.add_argument("--muts", type=int, default=6, help="mutations per base document")
    ap.add_argument("--subs", type=int, default=4, help="sub-kind cases per base document")
    ap.add_argument("--check", metavar="MODEL_BINARY")
    ap.add_argument("--in", dest="inp")
    a = ap.parse_args()
    if a.out:
        n = generate(a.seed, a.n, a.out, a.muts, a.subs)
        print("wrote %d cases to %s" % (n, a.out))
    if a.check:
        sys.exit(1 if check(a.check, a.inp or a.out) else 0)


if __name__ == "__main__":
    main()
