#!/usr/bin/env python3
"""C05 on the implementation: Resolve*WithBase / ResolveRef return exactly the designated sub-document.
Independent reading of "designated": RFC 3986 resolution of the URI part (urllib), RFC 6901 evaluation of the
percent-decoded fragment; the expected typed decoding is computed by the extracted Coq codec model.
Input cases come from the harness generator (op resolve / resolve_ref). Writes an oracleResult JSON."""
import argparse, json, os, subprocess, sys, urllib.parse, collections

ap = argparse.ArgumentParser()
ap.add_argument("--seed", type=int, default=1)
ap.add_argument("--n", type=int, default=100)
ap.add_argument("--harness", required=True)
ap.add_argument("--model", required=True)   # extracted codec model (norm)
ap.add_argument("--out", required=True)
ap.add_argument("--work", required=True)
ap.add_argument("--replay")
a = ap.parse_args()


def ptr_get(doc, frag):
    frag = urllib.parse.unquote(frag)
    if frag == "":
        return True, doc
    if not frag.startswith("/"):
        return True, doc          # not a pointer: jsonpointer yields the whole document
    cur = doc
    for t in frag[1:].split("/"):
        t = t.replace("~1", "/").replace("~0", "~")
        if isinstance(cur, dict) and t in cur:
            cur = cur[t]
        elif isinstance(cur, list) and t.isdigit() and int(t) < len(cur):
            cur = cur[int(t)]
        else:
            return False, None
    return True, cur


def designated(docs, base, ref, missing):
    full = urllib.parse.urljoin(base, ref)
    url, _, frag = full.partition("#")
    if url.lower().startswith("file:") and "?" in url:
        url = url.split("?", 1)[0]   # a local file has no query: file:///x.json?v=1 is a spelling of file:///x.json
    if url in missing or url not in docs:
        return False, None
    return ptr_get(docs[url], frag)


def norm_batch(items):
    """items: list of (kind, json) -> list of model results"""
    inp = "".join(json.dumps({"op": "norm", "kind": k, "j": j}) + "\n" for k, j in items)
    out = subprocess.run([a.model], input=inp.encode(), capture_output=True, timeout=1800).stdout.decode().split("\n")
    return [json.loads(l) for l in out if l.strip()]


def canon(x):
    if isinstance(x, dict):
        return {k: canon(v) for k, v in x.items()}
    if isinstance(x, list):
        return [canon(v) for v in x]
    if isinstance(x, (int, float)) and not isinstance(x, bool):
        return float(x)
    return x


def check(cases):
    res = {"evaluations": 0, "distinct_nontrivial": 0, "stats": collections.Counter(), "failures": [], "samples": []}
    want = []
    for c in cases:
        ok, tgt = designated(c["docs"], c["root"], c["ref"], set(c.get("missing") or []))
        want.append((ok and isinstance(tgt, dict), tgt))
    normed = norm_batch([(c["kind"], w[1]) for c, w in zip(cases, want) if w[0]])
    it = iter(normed)
    seen = set()
    per_shape = collections.Counter()
    groups = collections.defaultdict(dict)
    for c, (ok, tgt) in zip(cases, want):
        res["evaluations"] += 1
        key = (json.dumps(c["docs"], sort_keys=True), c["root"], c["ref"], c["kind"], c["op"])
        if key not in seen:
            seen.add(key)
            res["distinct_nontrivial"] += 1
        g = c["go"]
        res["stats"]["%s:%s:%s" % (c["op"], c.get("root_mode"), "err" if g.get("err") else "ok")] += 1
        exp = next(it) if ok else None
        shape = what = None
        unions = any(c["ref"].endswith(s) for s in ("/items", "/additionalProperties", "/additionalItems")) or "/dependencies/" in c["ref"] or c["ref"].rstrip("#") == ""
        if g.get("panic"):
            shape, what = "panic", "resolution panics"
        elif exp is not None and "unsupported" in exp:
            res["stats"]["outside-model"] += 1
        elif ok and exp is not None and "ok" in exp:
            if g.get("err"):
                if c["op"] == "resolve_ref" and c.get("root_mode") == "typed":
                    shape, what = "resolve-ref-typed-root-error", "ResolveRef with a typed root fails on a reference the generic root resolves"
                else:
                    shape, what = "spurious-error", "a reference that designates an object is not resolved"
            elif canon(g.get("out")) != canon(exp["ok"]):
                shape, what = "wrong-subdocument", "the result is not the typed decoding of the designated sub-document"
        elif not ok or (exp is not None and "err" in exp):
            if not g.get("err"):
                shape, what = "zero-value-without-error", "a reference that designates nothing (or no object) yields a value and a nil error"
        groups[key][c.get("root_mode")] = (bool(g.get("err")), json.dumps(canon(g.get("out")), sort_keys=True))
        if shape:
            res["stats"]["fail:" + shape] += 1
            if per_shape[shape] < 1:
                per_shape[shape] += 1
                res["failures"].append({"property": "C05", "what": what, "shape": shape, "input": c,
                                        "observed": g, "expected": exp})
    for key, modes in groups.items():
        if len(set(modes.values())) > 1 and key[4] == "resolve":
            res["stats"]["fail:roots-disagree"] += 1
            if per_shape["roots-disagree"] < 1:
                per_shape["roots-disagree"] += 1
                res["failures"].append({"property": "C05", "what": "typed, generic and by-location roots give different answers", "shape": "roots-disagree",
                                        "input": {"docs": json.loads(key[0]), "root": key[1], "ref": key[2], "kind": key[3]}, "observed": {k: v for k, v in modes.items()}})
    res["stats"] = dict(res["stats"])
    for c in cases[:1]:
        res["samples"].append({k: c[k] for k in ("op", "kind", "root", "ref", "root_mode") if k in c})
    return res


if a.replay:
    c = json.load(open(a.replay))["input"]
    if "go" not in c:
        print("replay needs a recorded case with its observation", file=sys.stderr)
        sys.exit(2)
    # re-run the implementation on this input
    tmp = os.path.join(a.work, "c05-replay.jsonl")
    open(tmp, "w").write(json.dumps(c) + "\n")
    out = os.path.join(a.work, "c05-replay.out.jsonl")
    subprocess.run([a.harness, "apply", "resolve", tmp, out], check=True, timeout=600)
    cases = [json.loads(l) for l in open(out)]
    r = check(cases)
    json.dump(r, open(a.out, "w"), indent=1)
    sys.exit(1 if r["failures"] else 0)

os.makedirs(a.work, exist_ok=True)
cases_path = os.path.join(a.work, "c05-cases.jsonl")
subprocess.run([a.harness, "gen", "expand", "-seed", str(a.seed), "-n", str(a.n), "-out", cases_path], check=True,
               stdout=subprocess.DEVNULL, timeout=1800)
cases = []
for l in open(cases_path):
    if '"op":"resolve' in l[:60]:
        cases.append(json.loads(l))
r = check(cases)
json.dump(r, open(a.out, "w"), indent=1)
