"""Registry of the properties and model clusters the orchestrator knows (bin/check)."""

CLUSTERS = {
    # name -> extraction file (coq/theories/Extract), extracted module, entry point
    "vals": {"extract": "ExtractVals.v", "ml": "model_vals", "entry": "main_vals"},
    "url": {"extract": "ExtractUrl.v", "ml": "model_url", "entry": "main_url"},
    "codec": {"extract": "ExtractCodec.v", "ml": "model_codec", "entry": "main_codec", "ops": ["norm", "gobnorm"]},
    "expand": {"extract": "ExtractExpand.v", "ml": "model_expand", "entry": "main_expand", "ops": ["expand_spec"]},
    "valid": {"extract": "ExtractValid.v", "ml": "model_valid", "entry": "main_valid"},
}

COMMON_TB = [
    "extraction to OCaml with ExtrOcamlBasic + ExtrOcamlString only (no Extract Constant/Inductive of our own); OCaml 4.13.1; model/main_template.ml; cross-checked on every run: a sample of the cases (40 quick / 400 thorough) is evaluated inside Coq with vm_compute and compared with the extracted program's output, string for string",
    "harness (Go): generators, model view of Go values, comparison of projected observables (bin/check: canon/compare)",
]

def _codec_input(c):
    return {"kind": c["kind"], "doc": c["j"]} if c.get("op") == "norm" else None


def _c12_input(c):
    return {"ref": c["a"], "base": c["b"]} if c.get("op") == "normalize_uri" else None


def _c13_input(c):
    return {"ref": c["a"]} if c.get("op") == "new_ref" else None


PROPS = {
    "C20": {
        "props": "theories/Props/C20.v",
        "gens": [("vals", "Vals/Gen_Vals.v")],
        "cluster": "vals", "gen": "vals",
        "n": {"quick": 300, "thorough": 3000},
        "oracle_n": {"quick": 300, "thorough": 20000},
        "rule": "correspondence: every presence subset of the 12 simple-schema keywords through every accessor/clear "
                "(4096 x 6), a stratified (quick) or complete (thorough) sweep of the 2^15 schema-validation subsets, random "
                "carriers with surrounding fields; oracle: all 2^15 subsets + random; non-trivial = at least one validation present; "
                "distinct = distinct (operation, inputs)",
        "trusted_base": COMMON_TB + [
            "translator/vals.go (Go AST -> Gallina for the accessor fragment); cross-checked by running Gen_Vals.v (extracted) against the Go accessors",
            "Go's promotion of methods and fields through embedded structs (Parameter/Header/Items -> CommonValidations)",
        ],
        "level_text": "Every statement of the property is a Coq theorem (Props/C20.v, 17 theorems, closed under the global context) "
                      "about Gallina definitions that the translator regenerates from validations.go/schema.go/parameter.go/header.go/items.go "
                      "on every run, for all validation sets, all callback counts and all clear orders; the regenerated model is additionally "
                      "run (extracted) against the Go accessors on all presence subsets.",
        "level_note": "Trusted: Coq kernel; the translator's reading of the supported Go fragment (aborts on anything else); Go's embedding "
                      "semantics; values behind pointers are opaque. Not modelled: aliasing of the pointers handed to callbacks.",
        "technique": "Coq proof over a model regenerated from source (translator) + differential run of the extracted model",
        "assumptions": ["callbacks are pure observers (they do not mutate the carrier while it is being cleared)",
                        "values behind pointers/maps/interfaces are opaque payloads; only nil-ness and identity matter to the accessors"],
    },
    "C11": {
        "extra_oracles": ["C11e2e"],
        "props": "theories/Props/C11.v", "cluster": "url", "gen": "url",
        "n": {"quick": 1500, "thorough": 20000}, "oracle_n": {"quick": 900, "thorough": 20000}, "extra_oracle_n": {"quick": 900, "thorough": 3000},
        "rule": "correspondence: the url cluster (normalizeBase on ~40 random compositions of the spelling rewrites per location x 9 "
                "locations + hand-picked edge strings; path.Clean/Dir/Join exhaustively over <=4 segments of {a,.,..,'',b.c}; "
                "normalizeURI, jsonreference.New, rebase/denormalize streams shared with C12/C13); oracle: normalizeBase equal on "
                "equivalent spellings, idempotent, canonical; non-trivial = spelling differs from the canonical location",
        "trusted_base": COMMON_TB + ["Base/Url.v is a hand-written model of net/url Parse/String (subset: no userinfo, IPv6, opaque), "
                                     "package path and normalizer.go; tied to the code by the differential run only",
                                     "filepath.Abs = Clean/Join with the working directory (non-Windows)"],
        "level_text": "Coq theorems (Props/C11.v): normalizeBase on parsed URLs is idempotent and yields scheme + absolute cleaned "
                      "path + no fragment (+ no query for files); path.Clean is idempotent on absolute paths (strings); inserting './', "
                      "'//' or 'x/../' at any position never changes the cleaned path (all paths, all positions). The string<->URL "
                      "conversion (net/url) is modelled and run against the implementation, not proved.",
        "level_note": "Partial: theorems are on parsed URLs and segment lists; parse/print of net/url is validated by the differential "
                      "run (tens of thousands of strings per run) — see DESIGN.md section 9. End-to-end equality of expansion results "
                      "under respelling is checked on the implementation by the C02 harness stream.",
        "technique": "Coq proof about a hand-written executable model + differential run of the extracted model against Go",
        "assumptions": ["the process working directory is absolute", "inputs outside the modelled URL grammar are reported as unsupported and counted"],
    },
    "C12": {
        "case_to_input": _c12_input,
        "props": "theories/Props/C12.v", "cluster": "url", "gen": "url",
        "n": {"quick": 1500, "thorough": 20000}, "oracle_n": {"quick": 2000, "thorough": 50000},
        "rule": "correspondence: normalizeURI on every reference of <=2 (quick) / <=4 (thorough) directory segments over "
                "{a, b.c, ., .., %20x, é} + file name, relative and root-relative, with/without fragment, against 9 bases; the model's "
                "RFC 3986 resolver against net/url.ResolveReference; oracle: normalizeURI vs ResolveReference on the implementation "
                "(exhaustive <=3 segments + random longer ones with escapes); non-trivial = non-empty reference",
        "trusted_base": COMMON_TB + ["Base/Url.v (hand model of net/url + path + normalizeURI) and Base/Rfc3986.v (RFC 3986 5.2 written from "
                                     "the RFC text) — both run against the implementation / net/url.ResolveReference"],
        "level_text": "Coq theorems (Props/C12.v): on segment lists, RFC 3986 remove_dot_segments and Go's Clean compute the same path "
                      "for every in-scope reference (unbounded: any length, any number of . and .., climbing above the root); the "
                      "string-level Go model and the string-level RFC transcription coincide with the segment machines on a bounded "
                      "domain proved by evaluation (bound in the statement); escape/unescape round trip.",
        "level_note": "Partial: the unbounded theorem is on segment lists; strings are linked by a bounded evaluation proof and by the "
                      "differential run. Known finding F12 (escapes decoding to '/' or '.') is carved out and listed.",
        "technique": "Coq proof (segment-level, unbounded) + bounded evaluation proof + differential run",
        "assumptions": ["base locations are canonical (output of normalizeBase)"],
    },
    "C13": {
        "case_to_input": _c13_input,
        "props": "theories/Props/C13.v", "cluster": "url", "gen": "url",
        "n": {"quick": 1500, "thorough": 20000}, "oracle_n": {"quick": 1500, "thorough": 30000},
        "rule": "correspondence: jsonreference.New/String/flags on every string of <=3 (quick) / <=4 (thorough) tokens from an "
                "18-token URL alphabet + random structured references; oracle: print/parse idempotence, flags, JSON and gob round "
                "trips, JSON shape on the implementation; non-trivial = non-empty string",
        "trusted_base": COMMON_TB + ["Base/Url.v: hand model of url.Parse/String and jsonreference (v0.21.0) New/NormalizeURL"],
        "level_text": "Coq theorems (Props/C13.v): canonicalisation of a parsed URL is idempotent for hosts with at most one port; the "
                      "five flags, IsCanonical and IsRoot are functions of the canonical URL; creating a reference from a reference's URL "
                      "gives the same reference; escape/unescape round trip. JSON/gob codecs and the string<->URL conversion are "
                      "checked on the implementation (oracle) and by the differential run."
                      ' The JSON text written for {"$ref": text} is read back as that object whatever the text holds (quotes, backslashes).',
        "level_note": "Partial: proved on parsed URLs; net/url's string conversion, the JSON and gob codecs of Ref are validated by "
                      "running model and implementation, not proved.",
        "technique": "Coq proof about a hand-written executable model + differential run + property oracle on the implementation",
        "assumptions": ["authority is a host with at most one port (the property's quantifier)"],
    },
    "C01": {
        "case_to_input": _codec_input,
        "props": "theories/Props/C01.v", "gens": [("tables", "Codec/Gen_Tables.v")], "cluster": "codec", "gen": "codec",
        "n": {"quick": 1200, "thorough": 12000}, "oracle_n": {"quick": 600, "thorough": 8000},
        "out_of_scope_shapes": {"responses-uppercase-extension": "X-Foo is not a vendor extension (the pattern is ^x-): outside the vocabulary"},
        "rule": "correspondence: norm (= json.Marshal after json.Unmarshal) for 24 kinds on every keyword alone and every pair of keywords, "
                "random normal-form documents (depth <= 5, nasty member names, free-form payloads, zero validations) and single-fault "
                "mutations of them; member ORDER of the output is compared; oracle: decode/encode equals the input as a JSON value on "
                "normal-form documents; non-trivial = at least one member; distinct = distinct (kind, document)",
        "trusted_base": COMMON_TB + ["translator/tables.go: struct tags, named types, parts of (Un)MarshalJSON bodies, keyword sets of the two shipped meta-schemas",
                                     "Codec/Codec.v: hand model of encoding/json's generic rules and of the package's irregular codecs (Schema, Response, SecurityScheme, Paths, Responses, unions), run against the implementation"],
        "level_text": "Coq theorems over tables regenerated from /repo (Props/C01.v): every keyword of the Swagger 2.0 and draft-4 meta-schemas, `$ref` and the "
                      "^x- extensions are decodable AND encodable for each of the 13 kinds (coverage), every listed kind carries extensions both "
                      "ways, decoded parts = encoded parts, the hand-transcribed codecs still have the transcribed part structure. UNBOUNDED, for the free-form "
                      "positions (Codec/PayloadFacts.v): a payload in normal form (member names strictly increasing at every level) comes back with its exact "
                      "value whatever its size and nesting, and every payload the codec emits is in that normal form; a value in normal form for a field type built from "
                      "string/bool/float64/int64/interface{}/StringOrArray by slices and string-keyed maps (Codec/TypedFacts.v; 89 of the 201 encoded fields) comes back exactly as it was. The full "
                      "round-trip statement for the typed kinds is kept as C01_statement and is NOT proved generically; it is checked by the differential run and the oracle.",
        "level_note": "Partial: table-level obligations are proofs (vm_compute over generated tables, closed under the global context); the semantic round trip "
                      "for all documents is tied by the differential run (norm model vs Go, 0 mismatches required) — see DESIGN.md sections 4 and 9.",
        "technique": "Coq obligations over tables regenerated from source + differential run of the extracted codec model + property oracle",
        "assumptions": ["numbers are compared as float64 values", "documents have no duplicate member names in the compared stream (duplicates are exercised for totality only)"],
    },
    "C06": {
        "case_to_input": _codec_input,
        "props": "theories/Props/C06.v", "gens": [("tables", "Codec/Gen_Tables.v")], "cluster": "codec", "gen": "codec",
        "n": {"quick": 1200, "thorough": 12000}, "oracle_n": {"quick": 400, "thorough": 4000},
        "rule": "as C01 (member order compared, x-order values incl. ties, strings, non-integers); oracle: 20 encodings after re-decoding "
                "byte-identical, no duplicate member in any object (token walk), output re-decodable, builder-made values (AddExtension with "
                "arbitrary keys, SetProperty, ...) re-parse to what they encode; non-trivial = at least one member",
        "trusted_base": COMMON_TB + ["translator/tables.go", "Codec/Codec.v (order_items = OrderSchemaItems.Less + sort.Sort, sort_members = encoding/json's sorted map keys)"],
        "level_text": "Coq theorems (Props/C06.v), unbounded: for every iteration order of a map (any permutation of its entries) the encoder's member "
                      "sequence is the same — sorted keys for maps; for schema properties the (x-order as GetInt reads it, name) order is a strict "
                      "total order, the output is a sorted permutation and is unique (ties, numeric strings, truncated floats included); no two "
                      "parts of a kind emit the same name and no field can collide with an extension (tables regenerated from /repo)."
                      ' TEXT LEVEL, UNBOUNDED (Base/JsonRoundTrip.v): parse_json (print_json j) = Some (canon j) for every JSON tree - the strings and member names the model writes are escaped in the way its reader undoes; and over tables regenerated from the source: every member an alternative rendering (anonymous struct literal in a MarshalJSON) declares is filled.',
        "level_note": "Partial: builder-API values (non x- keys in Extensions etc.) are covered by the oracle on the implementation only; string escaping "
                      "of leaf values is encoding/json's (trusted).",
        "technique": "Coq proof (sorting uniqueness, total order) + table obligations + differential run + oracle",
        "assumptions": ["sort.Sort returns a sorted permutation when Less is a strict total order on the elements"],
    },
    "C07": {
        "case_to_input": _codec_input,
        "props": "theories/Props/C07.v", "gens": [("tables", "Codec/Gen_Tables.v")], "cluster": "codec", "gen": "codec",
        "n": {"quick": 1200, "thorough": 12000}, "oracle_n": {"quick": 150, "thorough": 2000},
        "rule": "as C01, with the mutation stream (wrong types, nulls, empty containers, duplicates, case-folded names, extreme numbers, odd $ref "
                "strings, deep nesting); oracle: every document into every kind as decode target: no panic/hang, encode twice byte-identical; raw "
                "byte stream for totality; non-trivial = non-empty document",
        "trusted_base": COMMON_TB + ["Codec/Codec.v", "encoding/json validates bytes before any UnmarshalJSON of the package runs (bytes -> tree is the standard library's)"],
        "level_text": "Coq: the model of decode-then-encode is a structural recursion on the JSON tree accepted by the guard checker (total on every tree, "
                      "every kind); UNBOUNDED for the free-form positions (Codec/PayloadFacts.v: default, example, enum entries, extension values, unknown keywords): "
                      "for every JSON value, duplicates and any nesting included, the encoding of a payload is a fixed point (norm_any is idempotent, its result "
                      "strictly sorted at every level) and the vendor extensions of an encoded object are read back as written (ext_members idempotent); "
                      "UNBOUNDED for the union kinds and the container field types (Codec/TypedFacts.v): StringOrArray (`type`) for every JSON value, SchemaOrBool and "
                      "SchemaOrStringArray for every value that is not an object, and every field whose Go type is built from string/bool/float64/int64/interface{}/"
                      "StringOrArray by slices and string-keyed maps (89 of the 201 encoded fields of the regenerated tables) are normalised idempotently; "
                      "fixed-point examples by evaluation; the known non-fixed point (F4b) as a refutation witness. The full idempotence "
                      "statement C07_statement for the typed kinds is not proved generically; it is checked by the oracle on the implementation (all kinds x all documents)."
                      ' TEXT LEVEL: reading what the model wrote never fails and returns a fixed point of writing-and-reading (canon idempotent).',
        "level_note": "Partial: idempotence is proved for free-form payloads, extensions, the union kinds and the scalar/slice/map field types; for the struct kinds as wholes (Schema, Parameter, Operation, ...: omitempty, parts, F4b) it rests on the oracle and the differential run; panics/stack exhaustion are runtime behaviour the model cannot exhibit (oracle runs with a watchdog).",
        "technique": "Coq totality by structural recursion + evaluation witnesses + differential run + oracle",
        "assumptions": ["member names that case-fold onto a keyword are only checked for totality (the property's exception)"],
    },
    "C19": {
        "props": "theories/Props/C19.v", "gens": [("tables", "Codec/Gen_Tables.v")], "cluster": "valid",
        "gen": "valid", "gen_cmd": ["python3-vt", "{root}/tools/validgen.py", "--seed", "{seed}", "--n", "{n}", "--out", "{out}"],
        "oracle_cmd": ["python3-vt", "{root}/tools/c19_oracle.py", "--seed", "{seed}", "--n", "{n}", "--harness", "{harness}", "--repo", "{repo}", "--out", "{out}"],
        "replay_cmd": ["python3-vt", "{root}/tools/c19_oracle.py", "--replay", "{path}", "--harness", "{harness}", "--repo", "{repo}", "--out", "{out}"],
        "n": {"quick": 60, "thorough": 600}, "oracle_n": {"quick": 500, "thorough": 5000},
        "rule": "correspondence: the Coq predicate valid_kind against python jsonschema (Draft4Validator on the shipped schemas/v2/schema.json) on "
                "generated valid Swagger documents, single-fault mutations of them and sub-kind cases (63 kinds); oracle: documents confirmed "
                "valid by python (with well-founded local $refs) are decoded/encoded and fully expanded by the implementation and the outputs "
                "validated by python; non-trivial = document has paths; distinct = distinct documents",
        "trusted_base": COMMON_TB + ["python jsonschema 4.x (reference validator) and tools/validgen.py, tools/c19_oracle.py",
                                     "Valid/Valid.v: hand transcription of the Swagger 2.0 meta-schema (format keywords not enforced)"],
        "level_text": "Coq theorems (Props/C19.v) about the transcribed meta-schema: dropping any non-required member keeps every closed-object kind "
                      "valid (what decode/encode does to optional empty members), with instances for info/tag/operation; the oneOf alternatives "
                      "(response|reference, body|non-body parameter) are exclusive, so replacing a reference by a valid element keeps exactly one "
                      "alternative; F15 as a refutation witness. The end-to-end statements (norm and expand preserve validity of every document) are "
                      "NOT proved; they are checked on the implementation with the reference validator.",
        "level_note": "Partial (DESIGN.md section 9): valid_swagger is a hand transcription validated against jsonschema on ~10^4 cases per run; the "
                      "preservation theorems are per-kind lemmas, not the whole-document theorem.",
        "technique": "Coq lemmas about a transcribed meta-schema + differential run against python jsonschema + validation of the implementation's outputs",
        "assumptions": ["format keywords are not enforced (python's default)", "references are well-founded: local, to an existing element of the section that fits the position"],
    },
    "C05": {
        "props": "theories/Props/C05.v", "gens": [("tables", "Codec/Gen_Tables.v")], "cluster": "expand", "gen": "expand", "ops": ["resolve"],
        "oracle_cmd": ["python3", "{root}/tools/c05_oracle.py", "--seed", "{seed}", "--n", "{n}", "--harness", "{harness}", "--model", "{root}/.work/bin/model_codec", "--out", "{out}", "--work", "{root}/.work/runs/C05"],
        "replay_cmd": ["python3", "{root}/tools/c05_oracle.py", "--replay", "{path}", "--harness", "{harness}", "--model", "{root}/.work/bin/model_codec", "--out", "{out}", "--work", "{root}/.work/runs/C05"],
        "needs_models": ["codec"],
        "n": {"quick": 60, "thorough": 600}, "oracle_n": {"quick": 60, "thorough": 600},
        "rule": "correspondence: Resolve{Ref,Parameter,Response,PathItem,Items}WithBase on every referable position of generated multi-document "
                "graphs through every spelling of its pointer (raw, ~-escaped, percent-escaped), targets in root/sibling/sub/parent-directory "
                "documents and absolute URLs, dangling documents and pointers, three ways of supplying the root (typed, generic, location): "
                "error flag and result compared with the model's resolve; oracle: an independent reading of 'designated' (RFC 3986 via urllib, "
                "RFC 6901 pointer) decoded by the extracted codec model; the three roots must agree; non-trivial: all; distinct = (graph, ref, kind)",
        "trusted_base": COMMON_TB + ["Expand/Expand.v: resolve / load / ptr_get transcribed from resolveRef, load and jsonpointer v0.21.1",
                                     "tools/c05_oracle.py (urllib's RFC 3986 join, a 15-line RFC 6901 evaluator)"],
        "level_text": "Coq theorems (Props/C05.v): a successful resolution is the typed decoding of exactly the object the pointer designates in the document normalizeURI designates — never a value for a missing or non-object target; for EVERY kind and every way of supplying the root (typed, generic, location only) and whatever the cache holds, a successful resolution returns sem_target_k (reference resolved against the base, document served there, pointer evaluated, value read as the kind) — hence the same answer however the root is supplied (Expand/ExpandElem.v: resolve_sem_k); the way the root is supplied cannot matter for references with a URI part; ~0/~1 escaping is undone exactly; resolution needs no fuel. The model's resolve agrees with the implementation on thousands of (graph, ref, kind, root mode) cases per run.",
        "level_note": "Partial: equality of typed-root lookups (JSONLookup) with generic lookups is property C15; it is assumed here. F13 (ResolveRef on a typed root at union positions) was repaired (fix commit ce2a398).",
        "technique": "Coq proof about the resolver model + differential run + independent oracle",
        "assumptions": ["the typed root is observed through its JSON encoding (C15)"],
    },
    "C15": {
        "props": "theories/Props/C15.v", "gens": [("tables", "Codec/Gen_Tables.v")], "cluster": "codec", "gen": "codec",
        "n": {"quick": 600, "thorough": 6000}, "oracle_n": {"quick": 400, "thorough": 4000},
        "out_of_scope_shapes": {"contact-license-extension": "contact and license objects are not among the kinds the property lists",
                                "externaldocs-xml-extension": "externalDocs and xml objects are not among the kinds the property lists"},
        "rule": "correspondence: the codec cluster (the encoding the pointers are evaluated on is the model's norm); oracle: EVERY pointer into the "
                "encoding of every generated normal-form document (13 kinds; thousands per document; tokens needing ~0/~1, array indices, status "
                "codes, default responses, extension members, unknown schema keywords) evaluated by jsonpointer on the typed value and on the "
                "generic decoding; non-trivial = document with at least one pointer; distinct = distinct (kind, document)",
        "trusted_base": COMMON_TB + ["translator/tables.go: the sources each JSONLookup consults (map index, literal comparison, GetForToken part), struct tables",
                                     "jsonpointer v0.21.1 and swag's name provider (struct lookup by JSON name)"],
        "level_text": "Coq theorem over tables regenerated from /repo (Props/C15.v): for the 11 kinds with a hand-written JSONLookup, every member name the "
                      "encoder can emit (other than $ref and the F18 gap $schema) is served by a source the lookup consults, and no name is served by two "
                      "sources. The value-level statement (C15_statement) is not proved; the oracle evaluates every pointer of every generated document on "
                      "the implementation.",
        "level_note": "Partial: table-level proof + exhaustive pointer enumeration on the implementation; the dispatch of jsonpointer.GetForToken and the name provider are modelled only through the tables.",
        "technique": "Coq obligation over tables regenerated from source + exhaustive pointer oracle on the implementation",
        "assumptions": ["pointers are taken from the JSON encoding (the property's quantifier)"],
    },
    "C14": {
        "case_to_input": lambda c: {"kind": c["kind"], "doc": c["j"]} if c.get("op") == "gobnorm" else None,
        "props": "theories/Props/C14.v", "gens": [("tables", "Codec/Gen_Tables.v")], "cluster": "codec", "gen": "gob",
        "n": {"quick": 800, "thorough": 8000}, "oracle_n": {"quick": 500, "thorough": 6000},
        "rule": "correspondence: decode, REAL gob round trip, encode, for Swagger/Operation/Parameter/Schema/Response/Ref on every keyword alone, every "
                "pair and random normal-form documents with payloads biased to null, [], {}, nested mixtures and zero-valued validations, against "
                "the model's norm in gob mode (member order compared); oracle: JSON encoding before and after the round trip equal as values; "
                "non-trivial = at least one member; distinct = distinct (kind, document)",
        "trusted_base": COMMON_TB + ["Codec/Codec.v gob mode: a model of what encoding/gob transmits for the package's types (a library, not formalised): tied by the differential run only"],
        "level_text": "Coq (Props/C14.v): the transport rules are part of the executable codec model; unbounded lemmas: a free-form payload without an "
                      "empty array is unchanged at any depth, a non-zero validation is never dropped; evaluation witnesses for the security "
                      "requirement states, references and unions; the two lossy shapes (F6) as refutation witnesses. The statement for all "
                      "documents (C14_statement) is not proved generically; the model agrees with real gob round trips on every generated case.",
        "level_note": "Partial: encoding/gob is modelled, not verified; the transport theorem is proved for free-form payloads, non-zero validations and every scalar/slice/map field type (C14_simple_field_types_survive_gob), not for the struct kinds as wholes.",
        "technique": "Coq lemmas about a hand model of the gob transport + differential run against real gob round trips + oracle",
        "assumptions": ["gob.Register state of the package as at init"],
    },
    "C02": {
        "props": "theories/Props/C02.v", "gens": [("tables", "Codec/Gen_Tables.v")], "cluster": "expand", "gen": "expand", "ops": ["expand_spec"],
        "n": {"quick": 120, "thorough": 1500}, "oracle_n": {"quick": 150, "thorough": 3000},
        "rule": 'correspondence: ExpandSpec on generated multi-document reference graphs (1-5 documents in the same/sub/parent directories and an http host; local, sibling, ./ ../, root-relative and absolute refs; nested-pointer and whole-document targets; escaped names; refs at every sub-schema keyword; parameters/responses/path items by $ref; cycles of every small topology; all option combinations) + a bounded-exhaustive sample of graphs over <=3 definitions x <=2 documents; oracle: an independent dereferencer (harness/refgraph.go: RFC 3986 resolution against the containing document, JSON pointer evaluation) unfolds every schema, parameter, response and path item of input and output to depth 6 and compares them position by position, with AbsoluteCircularRef on and off; non-trivial = graph with at least one $ref whose expansion succeeds',
        "trusted_base": COMMON_TB + ["Expand/Expand.v: hand model of expander.go / schema_loader.go / resolver.go on JSON trees (base-path threading, parent stack, memo of circular refs, resolver roots, deref chains, rebasing, SkipSchemas/ContinueOnError/AbsoluteCircularRef, cache and loader log); abstractions: sub-schemas visited in JSON member order, `#/` refs into the live root read the original root (outputs on cyclic graphs compared through unfoldings)",
                                     "Expand/ExpandSim.v: the definition of meaning (sem_target / chases / sim) is part of the statement; it reads a target through the typed decoding (norm ... Schema) as resolveRef does",
                                     "correspondence scope: every generated graph except those with schema ids and prefix-sibling documents (the areas of the open findings F9, F10, F10b), which are judged by the oracle only; multi-hop parameter/response/path-item chains and imported circular schemas are compared since the repairs of F7 and F8",
                                     "harness/refgraph.go: the oracle's own dereferencer (independent of the library's resolver)",
                                     "Codec/Codec.v (typed decoding of every resolved target) and Base/Url.v (normalizeURI, rebase)"],
        "level_text": 'Coq theorems (Props/C02.v over Expand/ExpandSim.v, ExpandSimCheck.v), unbounded: meaning is defined relationally (chases: "$ref replaces its holder", resolved against the containing document; sim n: level-by-level comparison; bisimilar = all n). Proved for every document store, state (cache and memo, i.e. every history of earlier expansions and every visiting order), parent stack, fuel, SkipSchemas and AbsoluteCircularRef setting: a successful schema walk returns a value that, read at the root location, is bisimilar to its input read in its own document; resolveRef computes the document-relative target whatever root the resolver holds (resolver/base coherence is an invariant maintained by transitiveResolver); the graph hypotheses are decided by a verified checker (check_nodes_sound) and discharged by computation on a concrete cross-document cyclic graph. ELEMENT LEVEL (Expand/ExpandElem.v): the $ref chains of parameters/responses/path items (deref) are followed hop by hop in the document each hop lands in — holder, base and resolver root returned are those of the end of the chain, resolver and base coherent (the repaired defect F7 made this false) — and an expanded parameter/response has the members of the end of its chain with a bisimilar schema; discharged on a chain crossing two documents. SPECIFICATION LEVEL (Expand/ExpandChain.v, ExpandSpecSim.v): the chains of a well-formed element graph are followed to their end (the shared memo only ever holds references of the schema graph; a rank decreases along a chain), and the whole of ExpandSpec (expand_spec, the function the differential run executes) — lists of parameters, maps of responses, operations, path items, the four sections, the state invariant threaded from call to call — returns the input document with every definition, shared parameter, shared response and path item replaced by an element of the same meaning, names and order kept, vendor extensions and everything else untouched; hypotheses decided by five verified checkers and discharged on a two-document specification (C02_spec_example).',
        "level_note": 'Partial: (1) the theorems cover ExpandSpec in strict, full mode (SkipSchemas is C09, ContinueOnError rests on correspondence + oracle); circular chains of parameters/responses/path items are outside the hypotheses (they denote nothing); the single-element entry points (C10) are tied to the same core by the correspondence; (2) hypotheses carve out schema ids (F10/F10b), string-prefix sibling documents (F9) and ContinueOnError; (3) two URL-algebra facts (a kept-resolver reference stays in its document; the rendered text of a kept reference resolves back to the same target) are decided per graph by the checker, not proved for all URLs.',
        "technique": "Coq proof (bisimulation by induction on fuel and tree size) about a hand-written executable model of the expander + differential run (exact on acyclic graphs, unfoldings on cyclic ones) + property oracle with an independent dereferencer on the implementation",
        "assumptions": ["loader is a function of the URL during one call", "the root document is served at its own location with the content the caller passes"],
    },
    "C03": {
        "props": "theories/Props/C03.v", "gens": [("tables", "Codec/Gen_Tables.v")], "cluster": "expand", "gen": "expand", "ops": ["expand_spec"], "extra_oracles": ["C03cyc"],
        "n": {"quick": 120, "thorough": 1500}, "oracle_n": {"quick": 150, "thorough": 3000},
        "rule": 'correspondence: ExpandSpec on generated multi-document reference graphs (1-5 documents in the same/sub/parent directories and an http host; local, sibling, ./ ../, root-relative and absolute refs; nested-pointer and whole-document targets; escaped names; refs at every sub-schema keyword; parameters/responses/path items by $ref; cycles of every small topology; fault injection; all option combinations) + a bounded-exhaustive sample of graphs over <=3 definitions x <=2 documents; oracle: every remaining $ref resolves from the root location to a node on a cycle of the input graph (SCCs of canonical refs); acyclic => no $ref and byte-identical reruns; rendering of kept refs; non-trivial = graph with at least one $ref',
        "trusted_base": COMMON_TB + ["Expand/Expand.v: hand model of expander.go / schema_loader.go / resolver.go on JSON trees (base-path threading, parent stack, memo of circular refs, resolver roots, deref chains, rebasing, SkipSchemas/ContinueOnError/AbsoluteCircularRef, cache and loader log); abstractions: sub-schemas visited in JSON member order, `#/` refs into the live root read the original root (outputs on cyclic graphs compared through unfoldings)",
                                     "correspondence scope: every generated graph except those with schema ids and prefix-sibling documents (the areas of the open findings F9, F10, F10b), which are judged by the oracle only; multi-hop parameter/response/path-item chains and imported circular schemas are compared since the repairs of F7 and F8",
                                     "Codec/Codec.v (typed decoding of every resolved target) and Base/Url.v (normalizeURI, rebase)"],
        "level_text": 'Coq theorems (Props/C03.v over Expand/ExpandCycle.v), unbounded: GRAPH LEVEL — for every store, state, stack, fuel and AbsoluteCircularRef setting (strict, full mode), every `$ref` a successful schema expansion leaves behind, at any depth, is the rendering of a canonical reference that lies on a cycle of the input reference graph (invariants: every reference on the parent stack has a holder whose target reaches the current position; the memo only holds references on cycles); an acyclic graph therefore ends `$ref`-free; acyclicity is decided by a rank every edge decreases; graph hypotheses decided by the verified checker and discharged by computation on a cyclic and an acyclic two-document graph. SPECIFICATION LEVEL (Expand/ExpandSpecSim.v): whatever ExpandSpec (expand_spec, the function the differential run executes) returns on a checked graph, every `$ref` left at a schema position of a definition, a shared parameter or response, a path item or an operation is the rendering of a reference on a cycle of the schema graph, and parameters, responses and path items come out as the ends of their chains, without `$ref`; when the schema graph is acyclic (rank_check, canon_check) every schema of the output is ref-free — discharged on an acyclic two-document specification (C03_acyclic_spec_example). PER REFERENCE — kept exactly when on the stack or in the memo; the memo only receives stack members; rendering of a kept reference; a non-circular reference is always followed.',
        "level_note": 'Partial: the theorems cover ExpandSpec in strict, full mode under the well-formedness hypotheses of C02 (no ids, no prefix-sibling documents, no circular chains of parameters/responses/path items); "resolves from the root location" for the rendered text is the per-graph URL check of C02 (G_render), not proved for all URLs; determinism of reruns (the implementation iterates Go maps; the model is a function) rests on the oracle.',
        "technique": "Coq proof about a hand-written executable model of the expander + differential run (exact on acyclic graphs, unfoldings on cyclic ones) + property oracle on the implementation",
        "assumptions": ["loader is a function of the URL during one call", "documents are in normal form (reference objects carry only $ref)"],
    },
    "C04": {
        "props": "theories/Props/C04.v", "gens": [("tables", "Codec/Gen_Tables.v")], "cluster": "expand", "gen": "expand", "ops": ["expand_spec"], "extra_oracles": ["C04ids", "C04spell", "C04ptr", "C04tail"],
        "n": {"quick": 120, "thorough": 1500}, "oracle_n": {"quick": 150, "thorough": 3000},
        "rule": 'correspondence: ExpandSpec on generated multi-document reference graphs (1-5 documents in the same/sub/parent directories and an http host; local, sibling, ./ ../, root-relative and absolute refs; nested-pointer and whole-document targets; escaped names; refs at every sub-schema keyword; parameters/responses/path items by $ref; cycles of every small topology; fault injection; all option combinations) + a bounded-exhaustive sample of graphs over <=3 definitions x <=2 documents; oracle: every entry point x the four SkipSchemas/ContinueOnError combinations returns within a time limit without panic, in a killable worker for graphs with ids; non-trivial: all',
        "trusted_base": COMMON_TB + ["Expand/Expand.v: hand model of expander.go / schema_loader.go / resolver.go on JSON trees (base-path threading, parent stack, memo of circular refs, resolver roots, deref chains, rebasing, SkipSchemas/ContinueOnError/AbsoluteCircularRef, cache and loader log); abstractions: sub-schemas visited in JSON member order, `#/` refs into the live root read the original root (outputs on cyclic graphs compared through unfoldings)",
                                     "correspondence scope: every generated graph except those with schema ids and prefix-sibling documents (the areas of the open findings F9, F10, F10b), which are judged by the oracle only; multi-hop parameter/response/path-item chains and imported circular schemas are compared since the repairs of F7 and F8",
                                     "Codec/Codec.v (typed decoding of every resolved target) and Base/Url.v (normalizeURI, rebase)"],
        "level_text": 'Coq theorems (Props/C04.v), unbounded: the tree walk is a structural recursion (guard-checked: it cannot diverge or get stuck); running out of fuel d requires d pairwise distinct canonical references nested in one another, all distinct from those on the stack (pigeonhole on the parent stack); RELATIVE TO THE REFERENCE GRAPH (Expand/ExpandTermG.v) those are references of the graph, so fuel above the number of references of a finite graph is never exhausted — from every consistent state, stack, resolver root, skip/abs setting (strict mode), and with every reference resolvable the expansion RETURNS A RESULT (ExpandComplete.v); the same pigeonhole for the $ref chains of parameters/responses/path items (deref), absolute and relative to the element graph; the composition over operations, path items and the four sections of ExpandSpec consumes no fuel; chains of a well-formed resolvable element graph RETURN with fuel above the rank of their first hop (deref_succeeds), and ExpandSpec AS A WHOLE returns a document on every checked, resolvable graph from every consistent state (C04_expand_spec_returns: neither OutOfFuel nor a step outside the model). Discharged on the cyclic two-document graph: 5 references, fuel 6 suffices from any state; and on the two-document specification of C08_spec_example.',
        "level_note": 'Partial for the runtime half: stack exhaustion and panics are behaviour of the Go runtime that a functional model cannot exhibit; they are covered by the oracle (watchdog worker). The bound is relative to a finite graph satisfying the C02 hypotheses (no ids: F10, a relative-directory id on a cycle makes the set of references infinite and the expansion diverge, is an open finding). An earlier version of the bound quantified over ALL canonical references, a hypothesis no finite list satisfies; it was replaced (DESIGN.md section 12).',
        "technique": "Coq proof about a hand-written executable model of the expander + differential run (exact on acyclic graphs, unfoldings on cyclic ones) + property oracle on the implementation",
        "assumptions": ["loader is a function of the URL during one call", "documents are in normal form (reference objects carry only $ref)"],
    },
    "C08": {
        "extra_oracles": ["C08root", "C08sibling"], "props": "theories/Props/C08.v", "gens": [("tables", "Codec/Gen_Tables.v")], "cluster": "expand", "gen": "expand", "ops": ["expand_spec"],
        "n": {"quick": 120, "thorough": 1500}, "oracle_n": {"quick": 150, "thorough": 3000},
        "rule": 'correspondence: ExpandSpec on generated multi-document reference graphs (1-5 documents in the same/sub/parent directories and an http host; local, sibling, ./ ../, root-relative and absolute refs; nested-pointer and whole-document targets; escaped names; refs at every sub-schema keyword; parameters/responses/path items by $ref; cycles of every small topology; fault injection; all option combinations) + a bounded-exhaustive sample of graphs over <=3 definitions x <=2 documents; oracle: for every graph with injected faults (missing documents, dangling pointers, ill-typed targets) strict mode errs iff a reference that has to be followed is unresolvable; continue mode: no error, unresolvable schema refs verbatim, the rest equal to the strict expansion of the repaired graph',
        "trusted_base": COMMON_TB + ["Expand/Expand.v: hand model of expander.go / schema_loader.go / resolver.go on JSON trees (base-path threading, parent stack, memo of circular refs, resolver roots, deref chains, rebasing, SkipSchemas/ContinueOnError/AbsoluteCircularRef, cache and loader log); abstractions: sub-schemas visited in JSON member order, `#/` refs into the live root read the original root (outputs on cyclic graphs compared through unfoldings)",
                                     "correspondence scope: every generated graph except those with schema ids and prefix-sibling documents (the areas of the open findings F9, F10, F10b), which are judged by the oracle only; multi-hop parameter/response/path-item chains and imported circular schemas are compared since the repairs of F7 and F8",
                                     "Codec/Codec.v (typed decoding of every resolved target) and Base/Url.v (normalizeURI, rebase)"],
        "level_text": 'Coq theorems (Props/C08.v): strict mode turns an unresolvable schema reference into an error; continue mode leaves it verbatim (missing document/pointer) and returns no error; errors of the traversal always come from a child / a failed follow / a failed resolution / an unnormalisable URL (never invented), and a failing child stops the fold (never swallowed); NO SPURIOUS ERROR (Expand/ExpandComplete.v): when every reference of the graph is resolvable the schema expansion with fuel above the number of references returns a result from every consistent state; FOR THE WHOLE OF ExpandSpec (Expand/ExpandChain.v, ExpandSpecSim.v: C08_expand_spec_no_spurious_error): on a checked graph in which every schema reference and every hop of every parameter/response/path-item chain designates an object, ExpandSpec returns a document — not an error — from every consistent state, AbsoluteCircularRef on or off, for every fuel above the number of references and the length of the chains (discharged on a two-document specification for every state); in continue mode the reference is left verbatim also when the target is ill-typed (the repaired defect F22: fix commit 2784181).',
        "level_note": 'Partial: the converse at document level (an unresolvable reference that HAS TO be followed yields an error) is proved per reference (esr_strict: the error of a failed resolution is passed on, never swallowed) and checked by the oracle for whole documents; ContinueOnError at the level of parameters/responses/path items is covered by correspondence + oracle.',
        "technique": "Coq proof about a hand-written executable model of the expander + differential run (exact on acyclic graphs, unfoldings on cyclic ones) + property oracle on the implementation",
        "assumptions": ["loader is a function of the URL during one call", "documents are in normal form (reference objects carry only $ref)"],
    },
    "C09": {
        "props": "theories/Props/C09.v", "gens": [("tables", "Codec/Gen_Tables.v")], "cluster": "expand", "gen": "expand", "ops": ["expand_spec"],
        "n": {"quick": 120, "thorough": 1500}, "oracle_n": {"quick": 150, "thorough": 3000},
        "rule": 'correspondence: ExpandSpec on generated multi-document reference graphs (1-5 documents in the same/sub/parent directories and an http host; local, sibling, ./ ../, root-relative and absolute refs; nested-pointer and whole-document targets; escaped names; refs at every sub-schema keyword; parameters/responses/path items by $ref; cycles of every small topology; fault injection; all option combinations) + a bounded-exhaustive sample of graphs over <=3 definitions x <=2 documents; oracle: SkipSchemas: no parameter/response/path-item position holds a $ref, definitions equal, every schema $ref designates from the root the same canonical target as before, skip-then-full equals direct full (unfoldings)',
        "trusted_base": COMMON_TB + ["Expand/Expand.v: hand model of expander.go / schema_loader.go / resolver.go on JSON trees (base-path threading, parent stack, memo of circular refs, resolver roots, deref chains, rebasing, SkipSchemas/ContinueOnError/AbsoluteCircularRef, cache and loader log); abstractions: sub-schemas visited in JSON member order, `#/` refs into the live root read the original root (outputs on cyclic graphs compared through unfoldings)",
                                     "correspondence scope: every generated graph except those with schema ids and prefix-sibling documents (the areas of the open findings F9, F10, F10b), which are judged by the oracle only; multi-hop parameter/response/path-item chains and imported circular schemas are compared since the repairs of F7 and F8",
                                     "Codec/Codec.v (typed decoding of every resolved target) and Base/Url.v (normalizeURI, rebase)"],
        "level_text": 'Coq theorems (Props/C09.v): with SkipSchemas a schema holding a $ref is finished at once — nothing resolved, followed or loaded, state untouched, only the text rebased to the root-relative rendering of its canonical target; the definitions section comes out exactly as it went in; no fuel is needed for schema refs; MEANING: the bisimulation theorem of C02 holds in skip mode — every schema that comes out of a SkipSchemas walk is bisimilar, read at the root location, to what went in read in its own document (graph hypotheses decided by the verified checker, which checks the rendering used by skip mode; discharged on a schema of the second document of the example graph). THE WHOLE OF ExpandSpec IN SKIP MODE (Expand/ExpandSpecSim.v: C09_expand_spec_skip_preserves_meaning): on a checked graph, from every consistent state, the document returned has the definitions section of the input, every shared parameter, shared response and path item replaced by the end of its chain (no `$ref` left on it), the parameters and responses of operations likewise, every schema below them bisimilar to that of the input when read at the root location; the schema walk leaves the state exactly as it was (walk_skip_state); discharged on the two-document specification.',
        "level_note": 'Partial: that the rebased text designates the same target is decided per graph by the checker (G_render), not for all URLs (it fails for prefix-sibling documents, F9); the skip-then-full equality is checked by the oracle.',
        "technique": "Coq proof about a hand-written executable model of the expander + differential run (exact on acyclic graphs, unfoldings on cyclic ones) + property oracle on the implementation",
        "assumptions": ["loader is a function of the URL during one call", "documents are in normal form (reference objects carry only $ref)"],
    },
    "C10": {
        "extra_oracles": ["C10shared", "C10typed"],
        "props": "theories/Props/C10.v", "gens": [("tables", "Codec/Gen_Tables.v")], "cluster": "expand", "gen": "expand", "ops": ["expand_spec", "expand_schema", "expand_param", "expand_response"],
        "n": {"quick": 120, "thorough": 1500}, "oracle_n": {"quick": 100, "thorough": 2000},
        "rule": "correspondence: ExpandSpec on generated multi-document reference graphs (1-5 documents in the same/sub/parent directories and an http host; local, sibling, ./ ../, root-relative and absolute refs; nested-pointer and whole-document targets; escaped names; refs at every sub-schema keyword; parameters/responses/path items by $ref; cycles of every small topology; fault injection; all option combinations) + a bounded-exhaustive sample of graphs over <=3 definitions x <=2 documents; oracle: every definition/parameter/response of every root through each entry point (typed root, generic root, nil root + base location): the result's unfolding equals the element's unfolding in the root; root and caller options serialised before and after are unchanged",
        "trusted_base": COMMON_TB + ["Expand/Expand.v: hand model of expander.go / schema_loader.go / resolver.go on JSON trees (base-path threading, parent stack, memo of circular refs, resolver roots, deref chains, rebasing, SkipSchemas/ContinueOnError/AbsoluteCircularRef, cache and loader log); abstractions: sub-schemas visited in JSON member order, `#/` refs into the live root read the original root (outputs on cyclic graphs compared through unfoldings)",
                                     "correspondence scope: every generated graph except those with schema ids and prefix-sibling documents (the areas of the open findings F9, F10, F10b), which are judged by the oracle only; multi-hop parameter/response/path-item chains and imported circular schemas are compared since the repairs of F7 and F8",
                                     "Codec/Codec.v (typed decoding of every resolved target) and Base/Url.v (normalizeURI, rebase)"],
        "level_text": "Coq theorems (Props/C10.v): the entry points are set-up code around the same core: they terminate under the same pigeonhole bound, read `#/` references in the supplied root (cached under the pseudo location), keep the cache discipline, and INHERIT THE MEANING THEOREMS of C02: ExpandSchemaWithBasePath and ExpandSchema(root) return a schema bisimilar to the element in its context whenever the initial cache is consistent with the loader; ExpandParameter/ExpandResponse against a base location return the end of the element's $ref chain with a bisimilar schema; discharged on the example graph. Non-modification of root and options cannot be exhibited by a functional model and is checked on the implementation.",
        "level_note": 'Partial (aliasing): root/options mutation is a runtime property (oracle: before/after serialisation). ELEMENT ENTRY POINTS WITHOUT SIDE CONDITIONS (C10_element_with_base_sound, C10_element_with_root_sound over Expand/ExpandChain.v, ExpandSpecSim.v): on a checked graph, from whatever consistent cache the caller supplies, what ExpandParameter/ExpandResponse (against a location) and Expand{Parameter,Response}WithRoot (against a supplied root) return is the end of the chain of the element with a schema that is bisimilar when read at the root location and whose remaining refs lie on cycles; that the chain is followed to its end is now proved, not assumed.',
        "technique": "Coq proof about a hand-written executable model of the expander + differential run (exact on acyclic graphs, unfoldings on cyclic ones) + property oracle on the implementation",
        "assumptions": ["loader is a function of the URL during one call", "documents are in normal form (reference objects carry only $ref)"],
    },
    "C18": {
        "extra_oracles": ["C18null", "C18scoped"],
        "props": "theories/Props/C18.v", "gens": [("tables", "Codec/Gen_Tables.v")], "cluster": "expand", "gen": "expand", "ops": ["expand_spec"],
        "n": {"quick": 120, "thorough": 1500}, "oracle_n": {"quick": 150, "thorough": 3000},
        "rule": 'correspondence: ExpandSpec on generated multi-document reference graphs (1-5 documents in the same/sub/parent directories and an http host; local, sibling, ./ ../, root-relative and absolute refs; nested-pointer and whole-document targets; escaped names; refs at every sub-schema keyword; parameters/responses/path items by $ref; cycles of every small topology; fault injection; all option combinations) + a bounded-exhaustive sample of graphs over <=3 definitions x <=2 documents; oracle: nil / fresh / pre-loaded (every subset) / reused caches give identical outputs; loader log without duplicates; pre-loaded documents never requested',
        "trusted_base": COMMON_TB + ["Expand/Expand.v: hand model of expander.go / schema_loader.go / resolver.go on JSON trees (base-path threading, parent stack, memo of circular refs, resolver roots, deref chains, rebasing, SkipSchemas/ContinueOnError/AbsoluteCircularRef, cache and loader log); abstractions: sub-schemas visited in JSON member order, `#/` refs into the live root read the original root (outputs on cyclic graphs compared through unfoldings)",
                                     "correspondence scope: every generated graph except those with schema ids and prefix-sibling documents (the areas of the open findings F9, F10, F10b), which are judged by the oracle only; multi-hop parameter/response/path-item chains and imported circular schemas are compared since the repairs of F7 and F8",
                                     "Codec/Codec.v (typed decoding of every resolved target) and Base/Url.v (normalizeURI, rebase)"],
        "level_text": 'Coq theorems (Props/C18.v), unbounded: (1) at every point of an expansion (also at an error), for every supplied cache: each document the loader served was requested exactly once, none of them was in the supplied cache, all are now cached, nothing was evicted — an invariant carried through the whole traversal by induction on fuel and tree size; (2) TRANSPARENCY (Expand/ExpandCache.v): two runs of the schema expansion from states with the same memo but arbitrary caches consistent with the loader (empty, pre-loaded, reused) and arbitrary coherent resolver roots return the same JSON and the same memo — for every store, stack, fuel and skip/abs setting in strict mode, graph hypotheses decided by the verified checker; discharged on the cyclic two-document graph (empty cache vs everything pre-loaded).',
        "level_note": 'Partial: byte-for-byte transparency is proved for the schema walk when both runs succeed; for ExpandSpec as a whole (parameters, responses, path items, the four sections) it is proved up to meaning (both results are related to the input by spec_rel, whatever the two caches hold) and checked byte for byte by the oracle; refused requests may be repeated (not cached, as in the code).',
        "technique": "Coq proof about a hand-written executable model of the expander + differential run (exact on acyclic graphs, unfoldings on cyclic ones) + property oracle on the implementation",
        "assumptions": ["loader is a function of the URL during one call", "documents are in normal form (reference objects carry only $ref)"],
    },
    "C16": {
        "extra_oracles": ["C16meta"],
        "props": "theories/Props/C16.v", "gens": [("globals", "Cache/Gen_Globals.v")],
        "n": {"quick": 30, "thorough": 300}, "oracle_n": {"quick": 30, "thorough": 300},
        "rule": "oracle: histories of 2-30 calls (expansions and resolutions over 3 roots that share locations, document contents changed between calls, interleaved with expansions of the two meta-schemas): every outcome equals the same call made first; caller options unchanged; meta-schemas still resolve and equal the embedded files; non-trivial = history of >= 2 calls; distinct = distinct histories",
        "trusted_base": ["translator/globals.go: package-level variables and their writers, cache hand-over of the exported entry points", "harness (Go) oracle", "sync.Once runs its function once"],
        "level_text": "Coq theorems (Props/C16.v): over the inventory regenerated from /repo, the only writers of package-level state are the one-time cache initialiser, the clone in cacheOrDefault, the asset readers and the logger set-up, and every entry point hands a caller cache through cacheOrDefault; under that discipline (state machine of cacheOrDefault) the package-level cache is the built-in one after ANY history and a call without a caller cache computes what it computes as the first call of a process — for all histories.",
        "level_note": "Partial (sharing below the clone): the two meta-schema values are shared by every clone; a write through them is a runtime aliasing bug the model cannot exhibit — covered by the oracle's histories.",
        "technique": "Coq obligations over an inventory regenerated from source + state-machine proof over all histories + history oracle on the implementation",
        "assumptions": ["sync.Once"],
    },
    "C17": {
        "extra_oracles": ["C17meta", "C17typed"],
        "props": "theories/Props/C17.v", "gens": [("globals", "Cache/Gen_Globals.v")],
        "n": {"quick": 60, "thorough": 600}, "oracle_n": {"quick": 60, "thorough": 600},
        "race": True,
        "rule": "oracle (binary built with -race): N in {2,8,32} goroutines x mixes of ExpandSpec on distinct roots, ExpandSchema, Resolve*, json.Marshal and pointer lookups on one shared read-only document, and one shared ResolutionCache: every result equals its sequential reference, no race report, no deadlock (watchdog); non-trivial = >= 2 goroutines; distinct = distinct (mix, graph)",
        "trusted_base": ["translator/globals.go: lock/unlock/access events of simpleCache's methods, package-level writers", "Go's race detector and scheduler", "sync.RWMutex gives atomic critical sections"],
        "level_text": "Coq theorems (Props/C17.v): (1) lock discipline of simpleCache over the source: every store access of Get/Set inside a matching critical section, writes under the exclusive lock; (2) for any number of goroutines, any adaptive programs and ANY schedule of atomic Get/Load/Set steps on one shared cache consistent with the loader, every goroutine obtains exactly its solo documents and the cache stays consistent; (3) no package-level state is written by entry points.",
        "level_note": "PARTIAL by nature: data races and deadlocks are properties of Go's memory model and runtime that no Gallina model can exhibit; the theorem assumes atomic Get/Set, which the lock-discipline obligation and the -race stress run support. If this is held to be a switch of technique, C17 is the property to move to not_applicable.",
        "technique": "Coq proof over all interleavings of atomic cache operations + lock-discipline obligation from source + -race stress oracle",
        "assumptions": ["Get/Set are atomic (RWMutex)", "the loader is deterministic"],
    },
}
