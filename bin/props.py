"""Registry of the properties and model clusters the orchestrator knows (bin/check)."""

CLUSTERS = {
    # name -> extraction file (coq/theories/Extract), extracted module, entry point
    "vals": {"extract": "ExtractVals.v", "ml": "model_vals", "entry": "main_vals"},
}

COMMON_TB = [
    "extraction to OCaml with ExtrOcamlBasic + ExtrOcamlString only (no Extract Constant/Inductive of our own); OCaml 4.13.1; model/main_template.ml",
    "harness (Go): generators, model view of Go values, comparison of projected observables (bin/check: canon/compare)",
]

PROPS = {
    "C20": {
        "props": "theories/Props/C20.v",
        "gens": [("vals", "Vals/Gen_Vals.v")],
        "cluster": "vals", "gen": "vals",
        "n": {"quick": 300, "thorough": 3000},
        "oracle_n": {"quick": 300, "thorough": 20000},
        "rule": "correspondence: every presence subset of the 12 simple-schema keywords through every accessor/clear "
                "(4096 x 6), a stratified (quick) or complete (thorough) sweep of the 2^15 schema-validation subsets, random "
                "carriers with surrounding fields; oracle: all 2^15 subsets + random; non-trivial = at least one validation present; "
                "distinct = distinct (operation, inputs)",
        "trusted_base": COMMON_TB + [
            "translator/vals.go (Go AST -> Gallina for the accessor fragment); cross-checked by running Gen_Vals.v (extracted) against the Go accessors",
            "Go's promotion of methods and fields through embedded structs (Parameter/Header/Items -> CommonValidations)",
        ],
        "level_text": "Every statement of the property is a Coq theorem (Props/C20.v, 17 theorems, closed under the global context) "
                      "about Gallina definitions that the translator regenerates from validations.go/schema.go/parameter.go/header.go/items.go "
                      "on every run, for all validation sets, all callback counts and all clear orders; the regenerated model is additionally "
                      "run (extracted) against the Go accessors on all presence subsets.",
        "level_note": "Trusted: Coq kernel; the translator's reading of the supported Go fragment (aborts on anything else); Go's embedding "
                      "semantics; values behind pointers are opaque. Not modelled: aliasing of the pointers handed to callbacks.",
        "technique": "Coq proof over a model regenerated from source (translator) + differential run of the extracted model",
        "assumptions": ["callbacks are pure observers (they do not mutate the carrier while it is being cleared)",
                        "values behind pointers/maps/interfaces are opaque payloads; only nil-ness and identity matter to the accessors"],
    },
}
