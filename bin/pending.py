"""Properties not claimed yet, with the reason MANIFEST.not_applicable records (kept current)."""
NOT_BUILT = "not claimed at this commit: the model, theorems and tie for this property are not built yet (the design in DESIGN.md section 4 applies; work in progress)"
PENDING = {("C%02d" % i): NOT_BUILT for i in range(1, 21)}
