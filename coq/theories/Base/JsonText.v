(* The printer and the parser of JSON texts (Base/Json.v) agree: what is printed is read back as the same tree.
   Strings first: every string, whatever bytes it holds, is written with escapes that the reader undoes. *)
From Coq Require Import List String Ascii ZArith Bool Arith Lia.
From Spec Require Import Base.Json.
Import ListNotations.
Local Open Scope char_scope.

Lemma sweep (P : ascii -> bool) : forallb (fun n => P (ascii_of_nat n)) (seq 0 256) = true -> forall c, P c = true.
Proof.
  intros H c. rewrite forallb_forall in H.
  specialize (H (nat_of_ascii c)). rewrite ascii_nat_embedding in H. apply H.
  apply in_seq. pose proof (nat_ascii_bounded c). lia.
Qed.

Lemma l2s_s2l s : l2s (s2l s) = s.
Proof. apply string_of_list_ascii_of_string. Qed.
Lemma s2l_l2s l : s2l (l2s l) = l.
Proof. apply list_ascii_of_string_of_list_ascii. Qed.

(* ---------- one character ---------- *)
Definition hex4_tail (a b c d : ascii) : option N :=
  match p_hex4 [a; b; c; d] with Some (cp, _) => Some cp | None => None end.
Lemma p_hex4_tail a b c d r : p_hex4 (a :: b :: c :: d :: r) = match hex4_tail a b c d with Some cp => Some (cp, r) | None => None end.
Proof. unfold hex4_tail, p_hex4. destruct (hex_val a), (hex_val b), (hex_val c), (hex_val d); reflexivity. Qed.

Definition ctl_char_ok (c : ascii) : bool :=
  let n := nat_of_ascii c in
  if Nat.ltb n 32 then
    match hex4_tail "0" "0" (hex_char (Nat.div n 16)) (hex_char (Nat.modulo n 16)) with
    | Some cp => N.eqb cp (N.of_nat n) && negb (N.leb 55296 cp && N.ltb cp 56320)%N
                 && match utf8 cp with [x] => Ascii.eqb x c | _ => false end
    | None => false
    end
  else true.
Lemma ctl_chars_ok : forall c, ctl_char_ok c = true.
Proof. refine (sweep _ _). vm_compute. reflexivity. Qed.

Definition code_is (k : nat) (c : ascii) : bool := implb (Nat.eqb (nat_of_ascii c) k) (Ascii.eqb c (ascii_of_nat k)).
Lemma code_34 : forall c, code_is 34 c = true. Proof. refine (sweep _ _). vm_compute. reflexivity. Qed.
Lemma code_92 : forall c, code_is 92 c = true. Proof. refine (sweep _ _). vm_compute. reflexivity. Qed.
Lemma code_elim k c : code_is k c = true -> Nat.eqb (nat_of_ascii c) k = true -> c = ascii_of_nat k.
Proof. unfold code_is. intros H E. rewrite E in H. cbn in H. apply Ascii.eqb_eq, H. Qed.

(* ---------- strings ---------- *)
Lemma p_str_q f r acc : p_str (S f) ("\" :: """" :: r) acc = p_str f r ("""" :: acc).
Proof. reflexivity. Qed.
Lemma p_str_b f r acc : p_str (S f) ("\" :: "\" :: r) acc = p_str f r ("\" :: acc).
Proof. reflexivity. Qed.
Lemma p_str_u f r acc : p_str (S f) ("\" :: "u" :: r) acc =
  match p_hex4 r with
  | Some (cp, r'') =>
      if (N.leb 55296 cp && N.ltb cp 56320)%N then
        match r'' with
        | b1 :: b2 :: r3 =>
            if Nat.eqb (nat_of_ascii b1) 92 && Nat.eqb (nat_of_ascii b2) 117 then
              match p_hex4 r3 with
              | Some (lo, r4) => p_str f r4 (rev (utf8 (65536 + (cp - 55296) * 1024 + (lo - 56320))%N) ++ acc)
              | None => None
              end
            else None
        | _ => None
        end
      else p_str f r'' (rev (utf8 cp) ++ acc)
  | None => None
  end.
Proof. reflexivity. Qed.
Lemma p_str_end f r acc : p_str (S f) ("""" :: r) acc = Some (l2s (rev acc), r).
Proof. reflexivity. Qed.
Lemma p_str_plain f c r acc : Nat.eqb (nat_of_ascii c) 34 = false -> Nat.eqb (nat_of_ascii c) 92 = false ->
  Nat.ltb (nat_of_ascii c) 32 = false -> p_str (S f) (c :: r) acc = p_str f r (c :: acc).
Proof. intros A B C. cbn [p_str]. rewrite A, B, C. reflexivity. Qed.

Theorem p_str_esc : forall s f acc rest, List.length s < f ->
  p_str f (esc_chars s ++ """" :: rest) acc = Some (l2s (rev acc ++ s), rest).
Proof.
  induction s as [|c s IH]; intros f acc rest Hf.
  - destruct f as [|f]; [inversion Hf|]. cbn [esc_chars app]. rewrite p_str_end, app_nil_r. reflexivity.
  - destruct f as [|f]; [inversion Hf|]. cbn [List.length] in Hf. assert (Hf' : List.length s < f) by lia.
    assert (R : forall a, rev (a :: acc) ++ s = rev acc ++ a :: s) by (intros a; cbn [rev]; rewrite <- app_assoc; reflexivity).
    cbn [esc_chars].
    destruct (Nat.eqb (nat_of_ascii c) 34) eqn:E34.
    { pose proof (code_elim 34 c (code_34 c) E34) as ->. cbn [app]. rewrite p_str_q, IH by exact Hf'. rewrite R. reflexivity. }
    destruct (Nat.eqb (nat_of_ascii c) 92) eqn:E92.
    { pose proof (code_elim 92 c (code_92 c) E92) as ->. cbn [app]. rewrite p_str_b, IH by exact Hf'. rewrite R. reflexivity. }
    destruct (Nat.ltb (nat_of_ascii c) 32) eqn:E32.
    { pose proof (ctl_chars_ok c) as H. unfold ctl_char_ok in H. rewrite E32 in H.
      cbn [app]. rewrite p_str_u, p_hex4_tail.
      destruct (hex4_tail "0" "0" (hex_char (nat_of_ascii c / 16)) (hex_char (nat_of_ascii c mod 16))) as [cp|]; [|discriminate].
      apply andb_prop in H. destruct H as [H H3]. apply andb_prop in H. destruct H as [H1 H2].
      apply negb_true_iff in H2. rewrite H2.
      destruct (utf8 cp) as [|x [|? ?]]; try discriminate. apply Ascii.eqb_eq in H3. subst x.
      cbn [rev app]. rewrite IH by exact Hf'. rewrite R. reflexivity. }
    cbn [app]. rewrite p_str_plain, IH by assumption. rewrite R. reflexivity.
Qed.

Theorem quoted_string_reads_back s rest :
  p_str (S (List.length (esc_chars (s2l s) ++ """" :: rest))) (esc_chars (s2l s) ++ """" :: rest) [] = Some (s, rest).
Proof.
  rewrite p_str_esc.
  - cbn [rev app]. rewrite l2s_s2l. reflexivity.
  - rewrite app_length. cbn [List.length].
    assert (L : forall l, List.length l <= List.length (esc_chars l)).
    { induction l as [|c l IHl]; [cbn; lia|]. cbn [esc_chars].
      destruct (Nat.eqb _ 34); [cbn [List.length]; lia|]. destruct (Nat.eqb _ 92); [cbn [List.length]; lia|].
      destruct (Nat.ltb _ 32); cbn [List.length]; lia. }
    specialize (L (s2l s)). lia.
Qed.
