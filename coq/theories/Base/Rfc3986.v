(* RFC 3986 section 5.2 (reference resolution), written from the RFC's own wording — an independent
   definition, not a transcription of the Go code.  Definitions only. *)
From Coq Require Import List String Ascii Bool Arith.
From Spec Require Import Base.Json Base.Url.
Import ListNotations.
Local Open Scope char_scope.

(* 5.2.4 remove_dot_segments, on the input buffer / output buffer of the RFC text.
   [out] is the output buffer reversed. *)
Fixpoint drop_last_segment (out : chars) : chars :=   (* remove the last segment and its preceding "/" *)
  match out with
  | [] => []
  | c :: r => if ceq c "/" then r else drop_last_segment r
  end.

Fixpoint take_segment (s : chars) (first : bool) : chars * chars :=
  (* the first path segment, including the initial "/" if any, up to but not including the next "/" *)
  match s with
  | [] => ([], [])
  | c :: r => if ceq c "/" && negb first then ([], s)
              else let '(a, b) := take_segment r false in (c :: a, b)
  end.

Fixpoint rds (fuel : nat) (inp out : chars) : chars :=
  match fuel with
  | O => rev out
  | S f =>
      match inp with
      | [] => rev out
      | _ =>
          (* A *)
          if has_prefix ["."; "."; "/"] inp then rds f (skipn 3 inp) out
          else if has_prefix ["."; "/"] inp then rds f (skipn 2 inp) out
          (* B *)
          else if has_prefix ["/"; "."; "/"] inp then rds f (skipn 2 inp) out
          else if chars_eqb inp ["/"; "."] then rds f ["/"] out
          (* C *)
          else if has_prefix ["/"; "."; "."; "/"] inp then rds f (skipn 3 inp) (drop_last_segment out)
          else if chars_eqb inp ["/"; "."; "."] then rds f ["/"] (drop_last_segment out)
          (* D *)
          else if chars_eqb inp ["."] || chars_eqb inp ["."; "."] then rds f [] out
          (* E *)
          else let '(sg, rest) := take_segment inp true in rds f rest (rev sg ++ out)
      end
  end.
Definition remove_dot_segments (p : chars) : chars := rds (S (List.length p)) p [].

(* 5.2.3 merge *)
Definition merge (base_has_authority : bool) (bpath rpath : chars) : chars :=
  if base_has_authority && negb (nonempty bpath) then "/" :: rpath
  else last_slash_prefix bpath ++ rpath.

(* 5.2.2 transform references, on parsed components (net/url's component split is reused: the
   RFC's own component regexp gives the same five components on the inputs in scope).  Paths are
   the components as written (percent-encoded), as the RFC prescribes. *)
Definition with_raw_path (sch host : chars) (raw : chars) (fq : bool) (q frag rawfrag : chars) (omit : bool) : url :=
  match unesc raw with
  | Some p => mkUrl sch host p (if chars_eqb raw (escape EPath p) then [] else raw) fq q frag rawfrag omit
  | None => mkUrl sch host raw [] fq q frag rawfrag omit
  end.

Definition rfc_transform (b r : url) : url :=
  let q_defined := u_forceq r || nonempty (u_query r) in
  let rp := escaped_path r in
  let bp := escaped_path b in
  if nonempty (u_scheme r) then
    with_raw_path (u_scheme r) (u_host r) (remove_dot_segments rp) (u_forceq r) (u_query r) (u_frag r) (u_rawfrag r) (u_omithost r)
  else if nonempty (u_host r) then
    with_raw_path (u_scheme b) (u_host r) (remove_dot_segments rp) (u_forceq r) (u_query r) (u_frag r) (u_rawfrag r) false
  else if negb (nonempty rp) then
    if q_defined then with_raw_path (u_scheme b) (u_host b) bp (u_forceq r) (u_query r) (u_frag r) (u_rawfrag r) (u_omithost b)
    else with_raw_path (u_scheme b) (u_host b) bp (u_forceq b) (u_query b) (u_frag r) (u_rawfrag r) (u_omithost b)
  else if is_abs rp then
    with_raw_path (u_scheme b) (u_host b) (remove_dot_segments rp) (u_forceq r) (u_query r) (u_frag r) (u_rawfrag r) (u_omithost b)
  else
    with_raw_path (u_scheme b) (u_host b) (remove_dot_segments (merge (nonempty (u_host b)) bp rp))
                  (u_forceq r) (u_query r) (u_frag r) (u_rawfrag r) (u_omithost b).

Definition rfc_resolve_str (refp base : chars) : presult chars :=
  match parse_url refp, parse_url base with
  | POk r, POk b => POk (print_url (clear_omit (rfc_transform b r)))
  | PUnsupported, _ | _, PUnsupported => PUnsupported
  | _, _ => PErr
  end.

(* ---------- the same algorithm on segment lists (what the theorems are stated on) ----------
   An absolute path "/s1/s2/.../sn" is the list [s1; ...; sn]; the output is again such a list.
   Rules B, C and E of 5.2.4 per segment; [trail] records that the output must end with "/"
   (a trailing "." or ".." segment). *)
Fixpoint rds_segs (segs : list seg) (st : list seg) : list seg * bool :=
  match segs with
  | [] => (rev st, false)
  | [s] => if seg_eqb s dot then (rev st, true)
           else if seg_eqb s dotdot then (rev (tl st), true)
           else (rev (s :: st), false)
  | s :: r => if seg_eqb s dot then rds_segs r st
              else if seg_eqb s dotdot then rds_segs r (tl st)
              else rds_segs r (s :: st)
  end.
