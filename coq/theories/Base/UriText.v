(* normalizeURI on texts is RFC 3986 reference resolution, unbounded: for every canonical plain base location
   scheme://host/b1/.../bn/file (or file:///...) and every relative reference r1/.../rm#fragment with non-empty plain
   segments ending in a proper name - any number of segments, "." and ".." anywhere before the last, climbing above the
   root included - the URL normalizeURI returns is, character for character, the one RFC 3986 5.2 prescribes. *)
From Coq Require Import List String Ascii Bool Arith Lia.
From Spec Require Import Base.Json Base.Url Base.Rfc3986 Base.UrlFacts Base.UrlText Base.PathText Base.JoinClean.
Import ListNotations.
Local Open Scope char_scope.

Definition plainseg (s : seg) : Prop := forallb plain s = true /\ s <> [].

Lemma plainseg_ok s : plainseg s -> okseg s.
Proof. intros [H N]. split; [apply plain_noslash_list, H | exact N]. Qed.

Lemma plainsegs_ok l : Forall plainseg l -> Forall okseg l.
Proof. intros H. apply Forall_forall. intros x Hx. rewrite Forall_forall in H. apply plainseg_ok, H, Hx. Qed.

Lemma flat_pchar l : Forall plainseg l -> forallb pchar (flat l) = true.
Proof.
  induction l as [|s r IH]; intros H; [reflexivity|]. inversion H as [|? ? [Hs _] Hr]; subst.
  change (flat (s :: r)) with ("/" :: s ++ flat r). cbn [forallb]. change (pchar "/") with true. cbn [andb].
  apply forallb_app_t; [apply (forallb_imp plain pchar); [apply plain_p|exact Hs] | apply IH, Hr].
Qed.

Lemma abs_path_pchar l : Forall plainseg l -> forallb pchar (abs_path_of l) = true.
Proof. intros H. destruct l as [|s r]; [reflexivity|]. rewrite <- flat_abs by discriminate. apply flat_pchar, H. Qed.

Lemma join_pchar l : Forall plainseg l -> forallb pchar (join_with "/" l) = true.
Proof.
  intros H. destruct l as [|s r]; [reflexivity|].
  pose proof (flat_pchar (s :: r) H) as F. rewrite <- (join_flat (s :: r)) in F by discriminate.
  cbn [forallb] in F. apply andb_true_iff in F. destruct F as [_ F]. exact F.
Qed.

(* ---------- the non-rooted machine never outputs "." ---------- *)
Lemma run_false_ok : forall rs sf, stk_ok sf -> stk_ok (run_segs false rs sf).
Proof.
  induction rs as [|s r IH]; intros sf H; [exact H|]. cbn [run_segs].
  destruct (seg_eqb s [] || seg_eqb s dot) eqn:E1; [apply IH, H|].
  destruct (seg_eqb s dotdot) eqn:E2.
  - apply chars_eqb_eq in E2. subst s. destruct sf as [|top sf'].
    + apply IH. constructor; [left; reflexivity|constructor].
    + inversion H; subst. destruct (seg_eqb top dotdot); apply IH; [constructor; [left; reflexivity|exact H] | assumption].
  - apply IH. constructor; [|exact H]. right. unfold proper, special.
    apply orb_false_iff in E1. destruct E1 as [A B]. rewrite A, B, E2. reflexivity.
Qed.

Lemma clean_false_ok rs : stk_ok (clean_segs false rs []).
Proof. rewrite clean_run. apply Forall_rev. apply run_false_ok. constructor. Qed.

Lemma join_not_dot cs : Forall no_slash cs -> stk_ok cs -> chars_eqb (join_with "/" cs) dot = false.
Proof.
  intros Hn Hs. apply chars_eqb_neq. intros E.
  destruct cs as [|s r]; [discriminate|]. destruct r as [|s2 r'].
  - cbn [join_with] in E. subst s. inversion Hs as [|? ? [X|X] _]; subst; [discriminate|]. cbv in X. discriminate.
  - assert (M : mem_char "/" (join_with "/" (s :: s2 :: r')) = true) by (cbn [join_with]; apply mem_char_mid).
    rewrite E in M. cbv in M. discriminate.
Qed.

(* ---------- the theorem ---------- *)
Section Master.
Variables (sch h : chars) (om : bool) (bs : list seg) (file : seg) (rs : list seg) (f : chars).
Let bp := flat (bs ++ [file]).
Let rp := join_with "/" rs.
Let b := mkUrl sch h bp [] false [] [] [] om.
Let r0 := mkUrl [] [] rp [] false [] f [] false.
Hypothesis Hb : wf_plain b = true.
Hypothesis Hbs : Forall plainseg bs.
Hypothesis Pbs : Forall proper bs.
Hypothesis Hfile : plainseg file.
Hypothesis Hrs : Forall plainseg rs.
Hypothesis Nrs : rs <> [].
Hypothesis Prs : proper (last rs []).
Hypothesis Hf : forallb pchar f = true.

Let cs := clean_segs false rs [].
Let crp := join_with "/" cs.

Lemma rp_facts : forallb pchar rp = true /\ is_abs rp = false /\ rp <> [].
Proof.
  destruct (join_not_abs rs (plainsegs_ok rs Hrs) Nrs) as [A N]. repeat split; [apply join_pchar, Hrs | exact A | exact N].
Qed.

Lemma cs_facts : Forall plainseg cs /\ cs <> [] /\ clean rp = crp /\ chars_eqb crp dot = false /\ is_abs crp = false /\ crp <> [].
Proof.
  assert (K : Forall plainseg cs) by (apply clean_segs_keeps; [exact Hrs|constructor]).
  assert (N : cs <> []) by (apply clean_segs_last_proper_any; assumption).
  destruct (join_not_abs cs (plainsegs_ok cs K) N) as [A NE].
  repeat split; try assumption.
  - apply clean_rel_text; [apply plainsegs_ok, Hrs | exact Nrs | exact Prs].
  - apply join_not_dot; [apply okseg_no_slash, plainsegs_ok, K | apply clean_false_ok].
Qed.

Lemma wf_r0 : wf_plain r0 = true.
Proof.
  destruct rp_facts as [P [A N]]. unfold wf_plain, r0.
  cbn [u_scheme u_host u_path u_query u_frag u_rawpath u_rawfrag u_forceq u_omithost forallb is_nil nonempty negb andb orb].
  rewrite P, Hf. cbn [andb].
  assert (X : has_prefix ["/"; "/"] rp = false).
  { destruct rp as [|c t]; [reflexivity|]. cbn [is_abs] in A. cbn [has_prefix]. destruct c as [[] [] [] [] [] [] [] []]; try reflexivity; discriminate. }
  rewrite X. reflexivity.
Qed.

Let r := set_path r0 crp.

Lemma wf_r : wf_plain r = true.
Proof.
  destruct cs_facts as [K [N [_ [_ [A NE]]]]]. unfold wf_plain, r, r0, set_path.
  cbn [u_scheme u_host u_path u_query u_frag u_rawpath u_rawfrag u_forceq u_omithost forallb is_nil nonempty negb andb orb].
  rewrite (join_pchar cs K : forallb pchar crp = true), Hf. cbn [andb].
  assert (X : has_prefix ["/"; "/"] crp = false).
  { destruct crp as [|c t]; [reflexivity|]. cbn [is_abs] in A. cbn [has_prefix]. destruct c as [[] [] [] [] [] [] [] []]; try reflexivity; discriminate. }
  rewrite X. reflexivity.
Qed.

Lemma bp_facts : is_abs bp = true /\ nonempty bp = true /\ dir bp = abs_path_of bs /\ forallb pchar bp = true.
Proof.
  unfold bp. rewrite flat_app. change (flat [file]) with ("/" :: file ++ []). rewrite app_nil_r.
  destruct Hfile as [Hf1 Hf2].
  repeat split.
  - destruct bs; reflexivity.
  - destruct bs; reflexivity.
  - apply dir_of_file; [apply plainsegs_ok, Hbs | exact Pbs | apply plain_noslash_list, Hf1].
  - apply forallb_app_t; [apply flat_pchar, Hbs|]. cbn [forallb]. change (pchar "/") with true. cbn [andb].
    apply (forallb_imp plain pchar); [apply plain_p | exact Hf1].
Qed.

(* the path both sides compute *)
Let P := join2 (dir bp) rp.

Lemma P_is_rfc : remove_dot_segments (merge (nonempty h) bp rp) = P.
Proof.
  destruct bp_facts as [_ [NE _]].
  assert (M : merge (nonempty h) bp rp = merge true bp rp).
  { unfold merge. rewrite NE. cbn [negb]. rewrite !andb_false_r. reflexivity. }
  rewrite M. unfold P, bp, rp. symmetry.
  apply go_join_is_rfc_merge; try assumption; try (apply plainsegs_ok; assumption). apply plainseg_ok, Hfile.
Qed.

Lemma P_is_go : join2 (dir bp) crp = P.
Proof.
  destruct bp_facts as [_ [_ [D _]]]. destruct cs_facts as [_ [_ [C _]]].
  unfold P. rewrite D, <- C. unfold rp.
  apply join_of_cleaned_ref; [apply plainsegs_ok, Hbs | apply plainsegs_ok, Hrs | exact Nrs | exact Prs].
Qed.

Lemma P_pchar : forallb pchar P = true.
Proof.
  destruct bp_facts as [_ [_ [D _]]]. destruct rp_facts as [_ [_ N]].
  unfold P. rewrite D. unfold rp.
  rewrite join2_abs_text; [| apply plainsegs_ok, Hbs | apply okseg_no_slash, plainsegs_ok, Hrs | exact Nrs | exact N].
  apply abs_path_pchar. apply clean_segs_keeps; [apply Forall_app; split; assumption | constructor].
Qed.

Theorem normalize_uri_is_rfc_on_text :
  normalize_uri (print_url r0) (print_url b) = rfc_resolve_str (print_url r0) (print_url b).
Proof.
  destruct cs_facts as [K [N [C [ND [A NE]]]]]. destruct bp_facts as [BA [BN [BD BP]]].
  unfold normalize_uri, rfc_resolve_str, parse_or_empty, parse_url_spec.
  rewrite (parse_print_plain r0 wf_r0), (parse_print_plain b Hb).
  (* the reference as normalizeURI prepares it *)
  assert (R : drop_file_query (clean_path_field (clear_omit r0)) = r).
  { unfold clean_path_field, clear_omit, r0, r, set_path, drop_file_query.
    cbn [u_scheme u_host u_path u_rawpath u_forceq u_query u_frag u_rawfrag u_omithost].
    fold rp. rewrite C, ND. change (chars_eqb [] (s2l "file")) with false. cbv iota. reflexivity. }
  rewrite R. unfold new_ref. rewrite (parse_print_plain r wf_r).
  assert (NC : is_canonical (ref_of_url r) = false) by reflexivity.
  rewrite NC.
  assert (PA : is_abs (u_path r) = false) by exact A.
  assert (PN : nonempty (u_path r) = true) by (unfold r, set_path; cbn [u_path]; destruct crp; [contradiction|reflexivity]).
  rewrite PA, PN.
  change (u_path (clear_omit b)) with bp. change (u_path r) with crp. rewrite P_is_go.
  (* the RFC side *)
  unfold rfc_transform.
  change (nonempty (u_scheme r0)) with false. change (nonempty (u_host r0)) with false. cbv iota.
  assert (E0 : escaped_path r0 = rp) by (apply escaped_path_plain; [reflexivity | apply rp_facts]).
  assert (Eb : escaped_path b = bp) by (apply escaped_path_plain; [reflexivity | exact BP]).
  rewrite E0, Eb. destruct rp_facts as [_ [RA RN]].
  assert (RNE : nonempty rp = true) by (destruct rp; [contradiction|reflexivity]).
  rewrite RNE, RA. cbn [negb]. cbv iota.
  change (u_host b) with h. rewrite P_is_rfc.
  unfold with_raw_path. rewrite (unesc_id P (p_nopct P P_pchar)), (p_esc_path P P_pchar), chars_eqb_refl.
  reflexivity.
Qed.
End Master.

(* non-vacuity: a file base and an http base with a port; a reference that climbs, with dots, and a pointer fragment *)
Example uri_text_example :
  let bs := [s2l "r"; s2l "a"] in let file := s2l "root.json" in
  let rs := [dotdot; s2l "b"; dot; dotdot; dotdot; dotdot; s2l "c.json"] in let f := s2l "/definitions/x" in
  let b := mkUrl (s2l "file") [] (flat (bs ++ [file])) [] false [] [] [] false in
  wf_plain b = true /\ Forall plainseg bs /\ Forall proper bs /\ plainseg file /\ Forall plainseg rs /\ proper (last rs [])
  /\ forallb pchar f = true
  /\ print_url b = s2l "file:///r/a/root.json"
  /\ print_url (mkUrl [] [] (join_with "/" rs) [] false [] f [] false) = s2l "../b/./../../../c.json#/definitions/x"
  /\ normalize_uri (s2l "../b/./../../../c.json#/definitions/x") (s2l "file:///r/a/root.json") = POk (s2l "file:///c.json#/definitions/x").
Proof.
  cbv zeta. repeat split; try reflexivity; try discriminate; repeat constructor; try reflexivity; try discriminate.
Qed.
Example uri_text_example_http :
  let bs := [s2l "api"] in let file := s2l "swagger.json" in let rs := [s2l "models"; s2l "pet.json"] in
  let b := mkUrl (s2l "https") (s2l "h.example.com") (flat (bs ++ [file])) [] false [] [] [] false in
  wf_plain b = true /\ print_url b = s2l "https://h.example.com/api/swagger.json"
  /\ normalize_uri (s2l "models/pet.json") (print_url b) = POk (s2l "https://h.example.com/api/models/pet.json").
Proof. cbv zeta. repeat split; reflexivity. Qed.
