(* Insertion sort under a strict order that is total on the elements at hand: the result is a sorted
   permutation, and it is THE sorted permutation — so it does not depend on the order of the input
   (Go's randomised map iteration).  Generic; instantiated for member names and schema properties. *)
From Coq Require Import List Bool Arith Permutation Sorted.
Import ListNotations.

Section Sort.
Variable A : Type.
Variable lt : A -> A -> bool.

Fixpoint insert (x : A) (l : list A) : list A :=
  match l with
  | [] => [x]
  | y :: r => if lt y x then y :: insert x r else x :: l
  end.
Definition isort (l : list A) : list A := fold_right insert [] l.

Definition ltP (a b : A) : Prop := lt a b = true.

Lemma insert_perm x l : Permutation (x :: l) (insert x l).
Proof.
  induction l as [|y r IH]; simpl; [apply Permutation_refl|].
  destruct (lt y x); [|apply Permutation_refl].
  eapply perm_trans; [apply perm_swap|]. apply perm_skip. exact IH.
Qed.

Lemma isort_perm l : Permutation l (isort l).
Proof.
  induction l as [|x r IH]; simpl; [constructor|].
  eapply perm_trans; [apply perm_skip; exact IH|]. apply insert_perm.
Qed.

(* the order is strict and total on a set of elements S *)
Variable S : A -> Prop.
Hypothesis lt_trans : forall a b c, S a -> S b -> S c -> ltP a b -> ltP b c -> ltP a c.
Hypothesis lt_irrefl : forall a, S a -> ~ ltP a a.
Hypothesis lt_total : forall a b, S a -> S b -> a <> b -> ltP a b \/ ltP b a.

Lemma insert_sorted x l : S x -> Forall S l -> ~ In x l ->
  StronglySorted ltP l -> StronglySorted ltP (insert x l).
Proof.
  intros Sx. induction l as [|y r IH]; intros HS Hn Hs; simpl.
  - repeat constructor.
  - inversion HS as [|? ? Sy Sr]; subst. inversion Hs as [|? ? Hsr Hy]; subst.
    destruct (lt y x) eqn:E.
    + constructor.
      * apply IH; [exact Sr| intro; apply Hn; right; assumption | exact Hsr].
      * apply (Permutation_Forall (insert_perm x r)). constructor; [exact E|exact Hy].
    + constructor; [exact Hs|].
      assert (Hxy : ltP x y).
      { destruct (lt_total x y Sx Sy) as [H|H]; [intro; subst; apply Hn; left; reflexivity|exact H|].
        unfold ltP in H. congruence. }
      constructor; [exact Hxy|].
      rewrite Forall_forall in *. intros z Hz. apply (lt_trans x y z); auto.
Qed.

Lemma isort_sorted l : Forall S l -> NoDup l -> StronglySorted ltP (isort l).
Proof.
  induction l as [|x r IH]; intros HS Hn; simpl; [constructor|].
  inversion HS; subst. inversion Hn; subst.
  apply insert_sorted; auto.
  - apply (Permutation_Forall (isort_perm r)). assumption.
  - intro Hin. apply (Permutation_in _ (Permutation_sym (isort_perm r))) in Hin. contradiction.
Qed.

(* a strictly sorted list is determined by its set of elements *)
Lemma sorted_unique : forall l1 l2, Forall S l1 -> Forall S l2 ->
  StronglySorted ltP l1 -> StronglySorted ltP l2 ->
  (forall x, In x l1 <-> In x l2) -> l1 = l2.
Proof.
  induction l1 as [|a r1 IH]; intros l2 S1 S2 H1 H2 Hin.
  - destruct l2 as [|b r2]; [reflexivity|]. exfalso. apply (Hin b). left. reflexivity.
  - destruct l2 as [|b r2]; [exfalso; apply (Hin a); left; reflexivity|].
    inversion S1 as [|? ? Sa Sr1]; subst. inversion S2 as [|? ? Sb Sr2]; subst.
    inversion H1 as [|? ? Hs1 Ha]; subst. inversion H2 as [|? ? Hs2 Hb]; subst.
    rewrite Forall_forall in Ha, Hb.
    assert (Eab : a = b).
    { destruct (proj1 (Hin a) (or_introl eq_refl)) as [E|Ia]; [symmetry; exact E|].
      destruct (proj2 (Hin b) (or_introl eq_refl)) as [E|Ib]; [exact E|].
      exfalso. apply (lt_irrefl a Sa). apply (lt_trans a b a Sa Sb Sa); [apply Ha; exact Ib|apply Hb; exact Ia]. }
    subst b. f_equal. apply IH; auto.
    intros x. split; intros Hx.
    + destruct (proj1 (Hin x) (or_intror Hx)) as [E|H]; [|exact H].
      subst x. exfalso. apply (lt_irrefl a Sa). apply Ha. exact Hx.
    + destruct (proj2 (Hin x) (or_intror Hx)) as [E|H]; [|exact H].
      subst x. exfalso. apply (lt_irrefl a Sa). apply Hb. exact Hx.
Qed.

(* the sort does not depend on the order in which the elements arrive *)
Theorem isort_order_independent l l' : Forall S l -> NoDup l -> Permutation l l' -> isort l = isort l'.
Proof.
  intros HS Hn Hp.
  assert (HS' : Forall S l') by (apply (Permutation_Forall Hp); exact HS).
  assert (Hn' : NoDup l') by (apply (Permutation_NoDup Hp); exact Hn).
  apply sorted_unique.
  - apply (Permutation_Forall (isort_perm l)). exact HS.
  - apply (Permutation_Forall (isort_perm l')). exact HS'.
  - apply isort_sorted; assumption.
  - apply isort_sorted; assumption.
  - intros x. split; intros Hx.
    + apply (Permutation_in _ (isort_perm l')). apply (Permutation_in _ Hp).
      apply (Permutation_in _ (Permutation_sym (isort_perm l))). exact Hx.
    + apply (Permutation_in _ (isort_perm l)). apply (Permutation_in _ (Permutation_sym Hp)).
      apply (Permutation_in _ (Permutation_sym (isort_perm l'))). exact Hx.
Qed.
End Sort.
