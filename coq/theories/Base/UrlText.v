(* Strings <-> URLs: on the unbounded class of "plain" URLs (letters, digits, - _ . ~ in every component, "/" in
   paths and fragments, "=" "&" "/" in queries; any length, any number of segments) printing and parsing are
   inverse to each other, so the theorems about parsed URLs (canonicalisation, flags) transfer to reference TEXTS. *)
From Coq Require Import List String Ascii Bool Arith Lia.
From Spec Require Import Base.Json Base.Url Base.UrlFacts.
Import ListNotations.
Local Open Scope char_scope.

Definition plain (c : ascii) : bool := is_alnum c || mem_char c ["-"; "_"; "."; "~"].
Definition pchar (c : ascii) : bool := plain c || ceq c "/".
Definition qchar (c : ascii) : bool := plain c || mem_char c ["="; "&"; "/"].
Definition schar (c : ascii) : bool := is_alpha c && ceq (lower c) c.
Definition ctl (c : ascii) : bool := Nat.ltb (an c) 32 || Nat.eqb (an c) 127.

(* facts about single characters are checked on all 256 of them *)
Lemma sweep (P : ascii -> bool) : forallb (fun n => P (ascii_of_nat n)) (seq 0 256) = true -> forall c, P c = true.
Proof.
  intros H c. rewrite forallb_forall in H.
  specialize (H (nat_of_ascii c)). rewrite ascii_nat_embedding in H. apply H.
  apply in_seq. pose proof (nat_ascii_bounded c). lia.
Qed.
Lemma impl_elim a b : implb a b = true -> a = true -> b = true.
Proof. destruct a, b; cbn; congruence. Qed.
Ltac by_sweep := let c := fresh "c" in intros c; apply impl_elim; revert c; refine (sweep _ _); vm_compute; reflexivity.

Definition delim_free (c : ascii) : bool :=
  negb (ctl c) && negb (ceq c "#") && negb (ceq c "?") && negb (ceq c ":") && negb (ceq c "%")
  && negb (ceq c "@") && negb (ceq c "[") && negb (ceq c "]").

Lemma q_delim : forall c, qchar c = true -> delim_free c = true. Proof. by_sweep. Qed.
Lemma p_delim : forall c, pchar c = true -> delim_free c = true. Proof. by_sweep. Qed.
Lemma s_delim : forall c, schar c = true -> delim_free c = true. Proof. by_sweep. Qed.
Lemma plain_p : forall c, plain c = true -> pchar c = true. Proof. by_sweep. Qed.
Lemma plain_q : forall c, plain c = true -> qchar c = true. Proof. by_sweep. Qed.
Lemma plain_delim : forall c, plain c = true -> delim_free c = true. Proof. by_sweep. Qed.
Lemma plain_noslash : forall c, plain c = true -> negb (ceq c "/") = true. Proof. by_sweep. Qed.
Lemma plain_host : forall c, plain c = true -> negb (should_escape c EHost) = true. Proof. by_sweep. Qed.
Lemma p_noesc_path : forall c, pchar c = true -> negb (should_escape c EPath) = true. Proof. by_sweep. Qed.
Lemma p_noesc_frag : forall c, pchar c = true -> negb (should_escape c EFragment) = true. Proof. by_sweep. Qed.
Lemma s_is_alpha : forall c, schar c = true -> is_alpha c = true. Proof. by_sweep. Qed.
Lemma s_lower : forall c, schar c = true -> ceq (lower c) c = true. Proof. by_sweep. Qed.
Lemma s_plain : forall c, schar c = true -> plain c = true. Proof. by_sweep. Qed.
Lemma alpha_nocolon : forall c, is_alpha c = true -> negb (ceq c ":") = true. Proof. by_sweep. Qed.
Lemma q_noslashes_ok : forall c, qchar c = true -> negb (ceq c "?") = true. Proof. by_sweep. Qed.

(* ---------- lists ---------- *)
Lemma forallb_imp {A} (f g : A -> bool) l : (forall x, f x = true -> g x = true) -> forallb f l = true -> forallb g l = true.
Proof. intros I H. rewrite forallb_forall in *. intros x Hx. apply I, H, Hx. Qed.

Lemma not_mem c f l : (forall x, f x = true -> ceq x c = false) -> forallb f l = true -> mem_char c l = false.
Proof.
  intros I H. unfold mem_char. induction l as [|x r IH]; [reflexivity|].
  cbn [forallb] in H. apply andb_true_iff in H. destruct H as [H1 H2]. cbn [existsb].
  rewrite (IH H2), orb_false_r. unfold ceq in *. rewrite Ascii.eqb_sym. apply I, H1.
Qed.

Lemma delim_parts c : delim_free c = true ->
  ctl c = false /\ ceq c "#" = false /\ ceq c "?" = false /\ ceq c ":" = false /\ ceq c "%" = false
  /\ ceq c "@" = false /\ ceq c "[" = false /\ ceq c "]" = false.
Proof. unfold delim_free. intros H. repeat (apply andb_true_iff in H; destruct H as [H ?]).
  repeat split; apply negb_true_iff; assumption. Qed.

Lemma cut_app c a b : mem_char c a = false -> cut c (a ++ c :: b) = (a, Some b).
Proof.
  induction a as [|x r IH]; intros H.
  - cbn [app cut]. rewrite ceq_refl. reflexivity.
  - unfold mem_char in H. cbn [existsb] in H. apply orb_false_iff in H. destruct H as [H1 H2].
    cbn [app cut]. unfold ceq in *. rewrite Ascii.eqb_sym, H1. unfold mem_char in IH. rewrite (IH H2). reflexivity.
Qed.

Lemma mem_char_app c a b : mem_char c (a ++ b) = mem_char c a || mem_char c b.
Proof. unfold mem_char. apply existsb_app. Qed.

Lemma has_ctl_app a b : has_ctl (a ++ b) = has_ctl a || has_ctl b.
Proof. unfold has_ctl. apply existsb_app. Qed.

Lemma no_ctl f l : (forall x, f x = true -> ctl x = false) -> forallb f l = true -> has_ctl l = false.
Proof.
  intros I H. unfold has_ctl. induction l as [|x r IH]; [reflexivity|].
  cbn [forallb] in H. apply andb_true_iff in H. destruct H as [H1 H2]. cbn [existsb].
  rewrite (IH H2), orb_false_r. apply (I x H1).
Qed.

Lemma unescape_id : forall s fuel, mem_char "%" s = false -> List.length s < fuel -> unescape fuel s = Some s.
Proof.
  induction s as [|c r IH]; intros fuel H L; (destruct fuel as [|f]; [cbn in L; lia|]); [reflexivity|].
  unfold mem_char in H. cbn [existsb] in H. apply orb_false_iff in H. destruct H as [H1 H2].
  cbn [List.length] in L. assert (E : unescape f r = Some r) by (apply IH; [exact H2 | lia]).
  cbn [unescape]. destruct (ceq "%" c) eqn:C; [unfold ceq in *; congruence|].
  destruct c as [[] [] [] [] [] [] [] []]; try (rewrite E; reflexivity); cbn in C; discriminate.
Qed.

Lemma unesc_id s : mem_char "%" s = false -> unesc s = Some s.
Proof. intros H. unfold unesc. apply unescape_id; [exact H | lia]. Qed.

Lemma escape_id m f s : (forall c, f c = true -> should_escape c m = false) -> forallb f s = true -> escape m s = s.
Proof.
  intros I H. induction s as [|c r IH]; [reflexivity|].
  cbn [forallb] in H. apply andb_true_iff in H. destruct H as [H1 H2].
  cbn [escape]. rewrite (I c H1), (IH H2). reflexivity.
Qed.

(* ---------- the scheme scanner ---------- *)
Lemma get_scheme_some rest whole : forall sch acc first, forallb is_alpha sch = true -> (sch = [] -> first = false) ->
  get_scheme_go (sch ++ ":" :: rest) acc first whole = Some (rev acc ++ sch, rest).
Proof.
  induction sch as [|c r IH]; intros acc first A F.
  - cbn [app get_scheme_go]. rewrite (F eq_refl). rewrite app_nil_r. reflexivity.
  - cbn [forallb] in A. apply andb_true_iff in A. destruct A as [A1 A2].
    cbn [app get_scheme_go]. rewrite A1. rewrite IH; [|exact A2|reflexivity].
    cbn [rev]. rewrite <- app_assoc. reflexivity.
Qed.

Lemma get_scheme_none whole : forall s acc first, mem_char ":" s = false -> get_scheme_go s acc first whole = Some ([], whole).
Proof.
  induction s as [|c r IH]; intros acc first H; [reflexivity|].
  unfold mem_char in H. cbn [existsb] in H. apply orb_false_iff in H. destruct H as [H1 H2].
  cbn [get_scheme_go]. destruct (is_alpha c); [apply IH, H2|].
  destruct (is_digit c || mem_char c ["+"; "-"; "."]); [destruct first; [reflexivity | apply IH, H2]|].
  unfold ceq in *. rewrite Ascii.eqb_sym, H1. reflexivity.
Qed.

Lemma has_suffix_q_last X : has_suffix ["?"] (X ++ ["?"]) = true.
Proof. unfold has_suffix. rewrite rev_app_distr. reflexivity. Qed.

Lemma count_char_app c a b : count_char c (a ++ b) = count_char c a + count_char c b.
Proof. unfold count_char. rewrite filter_app, app_length. reflexivity. Qed.

Lemma count_char_0 c s : mem_char c s = false -> count_char c s = 0.
Proof.
  unfold mem_char, count_char. induction s as [|x r IH]; intros H; [reflexivity|].
  cbn [existsb] in H. apply orb_false_iff in H. destruct H as [H1 H2]. cbn [filter].
  unfold ceq in *. rewrite H1. apply IH, H2.
Qed.

Lemma has_suffix_q_false a q : q <> [] -> mem_char "?" q = false -> has_suffix ["?"] (a ++ "?" :: q) = false.
Proof.
  intros N H. unfold has_suffix. rewrite rev_app_distr. cbn [rev].
  destruct (rev q) as [|c r] eqn:E.
  - apply (f_equal (@rev ascii)) in E. rewrite rev_involutive in E. cbn in E. contradiction.
  - assert (M : mem_char "?" (rev q) = false) by (rewrite mem_char_rev; exact H).
    rewrite E in M. unfold mem_char in M. cbn [existsb] in M. apply orb_false_iff in M. destruct M as [M _].
    rewrite <- !app_assoc. cbn [app has_prefix]. unfold ceq in *. rewrite M. reflexivity.
Qed.

(* ---------- url.Parse in two stages ---------- *)
Definition split_query (rest0 : chars) : chars * bool * chars :=
  if has_suffix ["?"] rest0 && Nat.eqb (count_char "?" rest0) 1 then (removelast rest0, true, [])
  else match cut "?" rest0 with (a, Some q) => (a, false, q) | (a, None) => (a, false, []) end.

Definition parse_tail (sch rest1 : chars) (forceq : bool) (query frag_raw : chars) : presult url :=
  if negb (is_abs rest1) && negb (match sch with [] => true | _ => false end) then PUnsupported
  else if negb (is_abs rest1) && mem_char ":" (fst (cut "/" rest1)) then PErr
  else
    let '(host_r, rest2) :=
      if has_prefix ["/"; "/"] rest1 && (negb (match sch with [] => true | _ => false end) || negb (has_prefix ["/"; "/"; "/"] rest1))
      then let body := skipn 2 rest1 in
           let '(auth, tl) := cut "/" body in
           (parse_host auth, match tl with Some t => "/" :: t | None => [] end)
      else (POk [], rest1) in
    match host_r with
    | PErr => PErr
    | PUnsupported => PUnsupported
    | POk host =>
        match unesc rest2, unesc frag_raw with
        | Some path, Some frag =>
            let rawpath := if chars_eqb rest2 (escape EPath path) then [] else rest2 in
            let rawfrag := if chars_eqb frag_raw (escape EFragment frag) then [] else frag_raw in
            let omit := nonempty sch && negb (has_prefix ["/"; "/"] rest1) && is_abs rest1 in
            POk (mkUrl sch host path rawpath forceq query frag rawfrag omit)
        | _, _ => PErr
        end
    end.

Lemma parse_url_stages raw u fr sch0 rest0 rest1 forceq query :
  has_ctl raw = false -> cut "#" raw = (u, fr) -> get_scheme_go u [] true u = Some (sch0, rest0) ->
  split_query rest0 = (rest1, forceq, query) ->
  parse_url raw = parse_tail (map lower sch0) rest1 forceq query (match fr with Some f => f | None => [] end).
Proof.
  intros C Hc Hs Hq. unfold parse_url. rewrite C, Hc. cbv beta iota. rewrite Hs. cbv beta iota zeta.
  unfold split_query in Hq.
  destruct (has_suffix ["?"] rest0 && Nat.eqb (count_char "?" rest0) 1).
  - injection Hq as <- <- <-. reflexivity.
  - destruct (cut "?" rest0) as [a [q|]]; injection Hq as <- <- <-; reflexivity.
Qed.

(* ---------- the second stage on the three shapes a printed plain URL can have ---------- *)
Lemma mem_cut_fst c d : forall s, mem_char c s = false -> mem_char c (fst (cut d s)) = false.
Proof.
  induction s as [|x r IH]; intros H; [reflexivity|].
  unfold mem_char in H. cbn [existsb] in H. apply orb_false_iff in H. destruct H as [H1 H2].
  cbn [cut]. destruct (ceq x d); [reflexivity|]. destruct (cut d r) as [a b] eqn:E. cbn [fst] in *.
  unfold mem_char. cbn [existsb]. rewrite H1. apply IH, H2.
Qed.

Lemma p_nocolon s : forallb pchar s = true -> mem_char ":" s = false.
Proof. apply not_mem. intros x H. apply p_delim, delim_parts in H. tauto. Qed.
Lemma p_nopct s : forallb pchar s = true -> mem_char "%" s = false.
Proof. apply not_mem. intros x H. apply p_delim, delim_parts in H. tauto. Qed.
Lemma p_esc_path s : forallb pchar s = true -> escape EPath s = s.
Proof. apply escape_id. intros c H. apply negb_true_iff, p_noesc_path, H. Qed.
Lemma p_esc_frag s : forallb pchar s = true -> escape EFragment s = s.
Proof. apply escape_id. intros c H. apply negb_true_iff, p_noesc_frag, H. Qed.

Lemma tail_local p forceq q f : forallb pchar p = true -> forallb pchar f = true -> has_prefix ["/"; "/"] p = false ->
  parse_tail [] p forceq q f = POk (mkUrl [] [] p [] forceq q f [] false).
Proof.
  intros Hp Hf N. unfold parse_tail. cbn [negb]. rewrite andb_false_r.
  rewrite (mem_cut_fst ":" "/" p (p_nocolon p Hp)), andb_false_r. rewrite N. cbn [andb].
  cbv beta iota. rewrite (unesc_id p (p_nopct p Hp)), (unesc_id f (p_nopct f Hf)).
  rewrite (p_esc_path p Hp), (p_esc_frag f Hf), !chars_eqb_refl. reflexivity.
Qed.

Lemma plain_host_ok h : forallb plain h = true -> parse_host h = POk h.
Proof.
  intros H. unfold parse_host.
  assert (D : forall c, mem_char c ["@"; "["; "]"; "%"; ":"] = true -> mem_char c h = false).
  { intros c Hc. apply (not_mem c plain); [|exact H]. intros x Hx. apply plain_delim, delim_parts in Hx.
    unfold mem_char in Hc. cbn [existsb] in Hc. unfold ceq in *.
    repeat (apply orb_true_iff in Hc; destruct Hc as [Hc|Hc]); try discriminate;
      apply Ascii.eqb_eq in Hc; subst c; tauto. }
  rewrite (D "@" eq_refl), (D "[" eq_refl), (D "]" eq_refl), (D "%" eq_refl). cbn [orb].
  assert (E : existsb (fun c => Nat.ltb (an c) 128 && should_escape c EHost) h = false).
  { clear D. induction h as [|c r IH]; [reflexivity|]. cbn [forallb] in H. apply andb_true_iff in H. destruct H as [H1 H2].
    cbn [existsb]. rewrite (IH H2), orb_false_r. apply plain_host, negb_true_iff in H1. rewrite H1. apply andb_false_r. }
  rewrite E. rewrite (split_last_colon_none h (D ":" eq_refl)). reflexivity.
Qed.

Lemma plain_noslash_list h : forallb plain h = true -> mem_char "/" h = false.
Proof. apply not_mem. intros x H. apply negb_true_iff, plain_noslash, H. Qed.

(* "//" host path, where the path is empty or starts with "/" *)
Lemma tail_auth sch h p forceq q f : forallb plain h = true -> forallb pchar p = true -> forallb pchar f = true ->
  (p = [] \/ is_abs p = true) -> (sch <> [] \/ h <> []) ->
  parse_tail sch ("/" :: "/" :: h ++ p) forceq q f = POk (mkUrl sch h p [] forceq q f [] false).
Proof.
  intros Hh Hp Hf Sp Sh. unfold parse_tail.
  change (is_abs ("/" :: "/" :: h ++ p)) with true. cbn [negb andb].
  change (has_prefix ["/"; "/"] ("/" :: "/" :: h ++ p)) with true. cbn [andb].
  assert (G : (negb match sch with [] => true | _ :: _ => false end || negb (has_prefix ["/"; "/"; "/"] ("/" :: "/" :: h ++ p))) = true).
  { destruct sch as [|s0 sch']; [|reflexivity]. destruct Sh as [Sh|Sh]; [contradiction|].
    destruct h as [|c h']; [contradiction|]. cbn [forallb] in Hh. apply andb_true_iff in Hh. destruct Hh as [H1 _].
    apply plain_noslash in H1. apply negb_true_iff in H1. cbn [app has_prefix negb orb]. rewrite !ceq_refl. cbn [andb].
    unfold ceq in *. rewrite Ascii.eqb_sym, H1. reflexivity. }
  rewrite G. cbn [skipn].
  destruct Sp as [Sp|Sp].
  - subst p. rewrite app_nil_r. rewrite (cut_none "/" h (plain_noslash_list h Hh)). cbv beta iota.
    rewrite (plain_host_ok h Hh). rewrite (unesc_id f (p_nopct f Hf)), (p_esc_frag f Hf), chars_eqb_refl.
    rewrite andb_false_r. reflexivity.
  - destruct p as [|c t]; [discriminate|]. destruct c as [[] [] [] [] [] [] [] []]; try discriminate Sp.
    rewrite (cut_app "/" h t (plain_noslash_list h Hh)). cbv beta iota. rewrite (plain_host_ok h Hh).
    rewrite (unesc_id _ (p_nopct _ Hp)), (unesc_id f (p_nopct f Hf)).
    rewrite (p_esc_path _ Hp), (p_esc_frag f Hf), !chars_eqb_refl.
    rewrite andb_false_r. reflexivity.
Qed.

(* scheme ":" path, the path absolute and not starting with "//" (OmitHost) *)
Lemma tail_omit sch p forceq q f : sch <> [] -> forallb pchar p = true -> forallb pchar f = true ->
  is_abs p = true -> has_prefix ["/"; "/"] p = false ->
  parse_tail sch p forceq q f = POk (mkUrl sch [] p [] forceq q f [] true).
Proof.
  intros S Hp Hf A N. unfold parse_tail. rewrite A, N. cbn [negb andb].
  cbv beta iota. rewrite (unesc_id p (p_nopct p Hp)), (unesc_id f (p_nopct f Hf)).
  rewrite (p_esc_path p Hp), (p_esc_frag f Hf), !chars_eqb_refl.
  destruct sch; [contradiction|]. reflexivity.
Qed.

(* ---------- the first stage on an assembled text ---------- *)
Definition qpart (fq : bool) (q : chars) : chars := if fq || nonempty q then "?" :: q else [].
Definition fpart (f : chars) : chars := if nonempty f then "#" :: f else [].
Definition spart (sch : chars) : chars := if nonempty sch then sch ++ [":"] else [].

Lemma q_noq s : forallb qchar s = true -> mem_char "?" s = false.
Proof. apply not_mem. intros x H. apply q_delim, delim_parts in H. tauto. Qed.
Lemma p_noq s : forallb pchar s = true -> mem_char "?" s = false.
Proof. apply not_mem. intros x H. apply p_delim, delim_parts in H. tauto. Qed.
Lemma q_nohash s : forallb qchar s = true -> mem_char "#" s = false.
Proof. apply not_mem. intros x H. apply q_delim, delim_parts in H. tauto. Qed.
Lemma p_nohash s : forallb pchar s = true -> mem_char "#" s = false.
Proof. apply not_mem. intros x H. apply p_delim, delim_parts in H. tauto. Qed.
Lemma s_nohash s : forallb schar s = true -> mem_char "#" s = false.
Proof. apply not_mem. intros x H. apply s_delim, delim_parts in H. tauto. Qed.
Lemma q_nocolon s : forallb qchar s = true -> mem_char ":" s = false.
Proof. apply not_mem. intros x H. apply q_delim, delim_parts in H. tauto. Qed.
Lemma q_noctl s : forallb qchar s = true -> has_ctl s = false.
Proof. apply no_ctl. intros x H. apply q_delim, delim_parts in H. tauto. Qed.
Lemma p_noctl s : forallb pchar s = true -> has_ctl s = false.
Proof. apply no_ctl. intros x H. apply p_delim, delim_parts in H. tauto. Qed.
Lemma s_noctl s : forallb schar s = true -> has_ctl s = false.
Proof. apply no_ctl. intros x H. apply s_delim, delim_parts in H. tauto. Qed.

Lemma s_lower_list s : forallb schar s = true -> map lower s = s.
Proof.
  induction s as [|c r IH]; intros H; [reflexivity|]. cbn [forallb] in H. apply andb_true_iff in H. destruct H as [H1 H2].
  cbn [map]. rewrite (IH H2). f_equal. apply ceq_eq, s_lower, H1.
Qed.

Lemma split_query_assembled body fq q : forallb pchar body = true -> forallb qchar q = true -> (fq = true -> q = []) ->
  split_query (body ++ qpart fq q) = (body, fq, q).
Proof.
  intros Hb Hq F. unfold split_query, qpart. destruct fq.
  - rewrite (F eq_refl). cbn [orb]. rewrite has_suffix_q_last, count_char_app, (count_char_0 "?" body (p_noq body Hb)).
    cbn. rewrite removelast_last. reflexivity.
  - cbn [orb]. destruct q as [|c r].
    + cbn [nonempty]. rewrite app_nil_r, (count_char_0 "?" body (p_noq body Hb)). cbn [Nat.eqb]. rewrite andb_false_r.
      rewrite (cut_none "?" body (p_noq body Hb)). reflexivity.
    + cbn [nonempty]. rewrite (has_suffix_q_false body (c :: r)); [|discriminate|apply q_noq, Hq]. cbn [andb].
      rewrite (cut_app "?" body (c :: r) (p_noq body Hb)). reflexivity.
Qed.

Lemma qpart_props fq q : forallb qchar q = true ->
  mem_char "#" (qpart fq q) = false /\ mem_char ":" (qpart fq q) = false /\ has_ctl (qpart fq q) = false.
Proof.
  intros H. unfold qpart. destruct (fq || nonempty q); [|repeat split; reflexivity].
  repeat split.
  - unfold mem_char. cbn [existsb]. change (ceq "#" "?") with false. cbn [orb]. apply q_nohash, H.
  - unfold mem_char. cbn [existsb]. change (ceq ":" "?") with false. cbn [orb]. apply q_nocolon, H.
  - unfold has_ctl. cbn [existsb]. change (Nat.ltb (an "?") 32 || Nat.eqb (an "?") 127) with false. cbn [orb]. apply q_noctl, H.
Qed.

Lemma parse_assembled sch body fq q f :
  forallb schar sch = true -> forallb pchar body = true -> forallb qchar q = true -> forallb pchar f = true ->
  (fq = true -> q = []) ->
  parse_url (spart sch ++ body ++ qpart fq q ++ fpart f) = parse_tail sch body fq q f.
Proof.
  intros Hs Hb Hq Hf F.
  destruct (qpart_props fq q Hq) as [Q1 [Q2 Q3]].
  set (A := spart sch ++ body ++ qpart fq q).
  assert (A1 : mem_char "#" A = false).
  { unfold A, spart. rewrite !mem_char_app, (p_nohash body Hb), Q1.
    destruct (nonempty sch); [|reflexivity]. rewrite mem_char_app, (s_nohash sch Hs). reflexivity. }
  assert (A2 : has_ctl A = false).
  { unfold A, spart. rewrite !has_ctl_app, (p_noctl body Hb), Q3.
    destruct (nonempty sch); [|reflexivity]. rewrite has_ctl_app, (s_noctl sch Hs). reflexivity. }
  assert (C : has_ctl (A ++ fpart f) = false /\ cut "#" (A ++ fpart f) = (A, if nonempty f then Some f else None)).
  { unfold fpart. destruct f as [|c r]; cbn [nonempty].
    - rewrite app_nil_r. split; [exact A2 | apply cut_none, A1].
    - split; [|apply cut_app, A1]. rewrite has_ctl_app, A2. unfold has_ctl. cbn [existsb orb].
      change (Nat.ltb (an "#") 32 || Nat.eqb (an "#") 127) with false. cbn [orb]. apply (p_noctl (c :: r) Hf). }
  destruct C as [C1 C2].
  assert (S : get_scheme_go A [] true A = Some (sch, body ++ qpart fq q)).
  { unfold A, spart. destruct sch as [|s0 sch'] eqn:E; cbn [nonempty].
    - cbn [app]. apply get_scheme_none. rewrite mem_char_app, (p_nocolon body Hb), Q2. reflexivity.
    - rewrite <- E in *. rewrite <- app_assoc. cbn [app].
      rewrite (get_scheme_some (body ++ qpart fq q) (sch ++ ":" :: body ++ qpart fq q) sch [] true).
      + reflexivity.
      + apply (forallb_imp schar is_alpha); [apply s_is_alpha | exact Hs].
      + intros Z. rewrite Z in E. discriminate. }
  replace (spart sch ++ body ++ qpart fq q ++ fpart f) with (A ++ fpart f) by (unfold A; rewrite <- !app_assoc; reflexivity).
  rewrite (parse_url_stages (A ++ fpart f) A (if nonempty f then Some f else None) sch (body ++ qpart fq q) body fq q C1 C2 S
            (split_query_assembled body fq q Hb Hq F)).
  rewrite (s_lower_list sch Hs). destruct f; reflexivity.
Qed.

(* ---------- plain URLs ---------- *)
Definition is_nil (s : chars) : bool := negb (nonempty s).
Definition wf_plain (u : url) : bool :=
  forallb schar (u_scheme u) && forallb plain (u_host u) && forallb pchar (u_path u)
  && forallb qchar (u_query u) && forallb pchar (u_frag u)
  && is_nil (u_rawpath u) && is_nil (u_rawfrag u)
  && negb (has_prefix ["/"; "/"] (u_path u))
  && (negb (u_forceq u) || is_nil (u_query u))
  && match u_scheme u, u_host u with
     | [], [] => negb (u_omithost u)
     | _ :: _, [] => is_abs (u_path u)
     | _, _ :: _ => negb (u_omithost u) && (is_nil (u_path u) || is_abs (u_path u))
     end.

Lemma is_nil_eq s : is_nil s = true -> s = [].
Proof. destruct s; [reflexivity|discriminate]. Qed.

Lemma escaped_path_plain u : u_rawpath u = [] -> forallb pchar (u_path u) = true -> escaped_path u = u_path u.
Proof.
  intros R H. unfold escaped_path. rewrite R. destruct (chars_eqb (u_path u) ["*"]) eqn:E.
  - apply chars_eqb_eq in E. symmetry. exact E.
  - apply p_esc_path, H.
Qed.

Lemma escaped_frag_plain u : u_rawfrag u = [] -> forallb pchar (u_frag u) = true -> escaped_frag u = u_frag u.
Proof. intros R H. unfold escaped_frag. rewrite R. apply p_esc_frag, H. Qed.

Lemma plain_esc_host h : forallb plain h = true -> escape EHost h = h.
Proof. apply escape_id. intros c H. apply negb_true_iff, plain_host, H. Qed.

Lemma forallb_app_t {A} (f : A -> bool) a b : forallb f a = true -> forallb f b = true -> forallb f (a ++ b) = true.
Proof. intros. rewrite forallb_app. apply andb_true_iff. split; assumption. Qed.

Theorem parse_print_plain u : wf_plain u = true -> parse_url (print_url u) = POk u.
Proof.
  destruct u as [sch h p rp fq q f rf om]. unfold wf_plain. cbn [u_scheme u_host u_path u_rawpath u_forceq u_query u_frag u_rawfrag u_omithost].
  intros W. repeat (apply andb_true_iff in W; destruct W as [W ?]).
  match goal with H : is_nil rp = true |- _ => apply is_nil_eq in H; subst rp end.
  match goal with H : is_nil rf = true |- _ => apply is_nil_eq in H; subst rf end.
  match goal with H : negb (has_prefix _ p) = true |- _ => apply negb_true_iff in H; rename H into NP end.
  match goal with H : forallb pchar p = true |- _ => rename H into Hp end.
  match goal with H : forallb pchar f = true |- _ => rename H into Hf end.
  match goal with H : forallb qchar q = true |- _ => rename H into Hq end.
  match goal with H : forallb plain h = true |- _ => rename H into Hh end.
  match goal with H : (negb fq || is_nil q) = true |- _ => rename H into HF end.
  rename W into Hs.
  assert (F : fq = true -> q = []).
  { intros ->. cbn [negb orb] in HF. apply is_nil_eq, HF. }
  assert (PR : forall body,
     print_url (mkUrl sch h p [] fq q f [] om) = (spart sch ++ body) ++ p ++ qpart fq q ++ fpart f ->
     forallb pchar (body ++ p) = true ->
     parse_url (print_url (mkUrl sch h p [] fq q f [] om)) = parse_tail sch (body ++ p) fq q f).
  { intros body -> Hb. rewrite <- app_assoc. rewrite (app_assoc body p).
    apply parse_assembled; assumption. }
  assert (EP : escaped_path (mkUrl sch h p [] fq q f [] om) = p) by (apply escaped_path_plain; [reflexivity|exact Hp]).
  assert (EF : escaped_frag (mkUrl sch h p [] fq q f [] om) = f) by (apply escaped_frag_plain; [reflexivity|exact Hf]).
  assert (NC : mem_char ":" (fst (cut "/" p)) = false) by (apply mem_cut_fst, p_nocolon, Hp).
  assert (HB : forall hh, forallb plain hh = true -> forallb pchar (("/" :: "/" :: hh) ++ p) = true).
  { intros hh Hhh. cbn [app forallb]. change (pchar "/") with true. cbn [andb].
    apply forallb_app_t; [|exact Hp]. apply (forallb_imp plain pchar); [apply plain_p | exact Hhh]. }
  destruct sch as [|s0 sch'], h as [|h0 h'].
  - (* path-only text *)
    match goal with H : negb om = true |- _ => apply negb_true_iff in H; subst om end.
    assert (X : print_url (mkUrl [] [] p [] fq q f [] false) = (spart [] ++ []) ++ p ++ qpart fq q ++ fpart f).
    { unfold print_url. rewrite EP, EF. cbn [u_scheme u_host u_path u_forceq u_query u_frag u_omithost nonempty orb andb app negb].
      rewrite ?andb_false_r. cbv iota. rewrite NC. unfold spart, qpart, fpart. reflexivity. }
    rewrite (PR [] X Hp). cbn [app]. apply tail_local; assumption.
  - (* "//host/path" *)
    match goal with H : (negb om && _) = true |- _ => apply andb_true_iff in H; destruct H as [O SP] end.
    apply negb_true_iff in O. subst om.
    assert (Sp : p = [] \/ is_abs p = true).
    { apply orb_true_iff in SP. destruct SP as [SP|SP]; [left; apply is_nil_eq, SP | right; exact SP]. }
    assert (X : print_url (mkUrl [] (h0 :: h') p [] fq q f [] false) = (spart [] ++ "/" :: "/" :: h0 :: h') ++ p ++ qpart fq q ++ fpart f).
    { unfold print_url. rewrite EP, EF. cbn [u_scheme u_host u_path u_forceq u_query u_frag u_omithost nonempty orb andb app negb].
      rewrite (plain_esc_host (h0 :: h') Hh).
      destruct Sp as [->|Sp]; [|rewrite Sp]; cbn [negb andb orb]; rewrite ?andb_false_r; cbn [nonempty is_abs negb andb app]; cbv iota; unfold spart, qpart, fpart; cbn [nonempty app]; rewrite <- ?app_assoc; cbn [app]; rewrite <- ?app_assoc; reflexivity. }
    rewrite (PR _ X (HB _ Hh)).
    change (("/" :: "/" :: h0 :: h') ++ p) with ("/" :: "/" :: (h0 :: h') ++ p).
    apply tail_auth; try assumption. right. discriminate.
  - (* scheme, no host: "scheme:/path" or "scheme:///path" *)
    match goal with H : is_abs p = true |- _ => rename H into Ap end.
    destruct om.
    + assert (X : print_url (mkUrl (s0 :: sch') [] p [] fq q f [] true) = (spart (s0 :: sch') ++ []) ++ p ++ qpart fq q ++ fpart f).
      { unfold print_url. rewrite EP, EF. cbn [u_scheme u_host u_path u_forceq u_query u_frag u_omithost nonempty orb andb app negb].
        rewrite ?Ap. cbn [negb andb orb]; rewrite ?andb_false_r; cbn [nonempty is_abs negb andb app]; cbv iota; unfold spart, qpart, fpart; cbn [nonempty app]; rewrite <- ?app_assoc; cbn [app]; rewrite <- ?app_assoc; reflexivity. }
      rewrite (PR [] X Hp). cbn [app]. apply tail_omit; try assumption. discriminate.
    + assert (X : print_url (mkUrl (s0 :: sch') [] p [] fq q f [] false) = (spart (s0 :: sch') ++ ["/"; "/"]) ++ p ++ qpart fq q ++ fpart f).
      { unfold print_url. rewrite EP, EF. cbn [u_scheme u_host u_path u_forceq u_query u_frag u_omithost nonempty orb andb app negb escape].
        destruct p as [|c t]; [discriminate|]. cbn [nonempty]. rewrite ?Ap. cbn [negb andb orb]; rewrite ?andb_false_r; cbn [nonempty is_abs negb andb app]; cbv iota; unfold spart, qpart, fpart; cbn [nonempty app]; rewrite <- ?app_assoc; cbn [app]; rewrite <- ?app_assoc; reflexivity. }
      rewrite (PR _ X (HB [] eq_refl)).
      change (["/"; "/"] ++ p) with ("/" :: "/" :: [] ++ p). apply tail_auth; try assumption; [right; exact Ap | left; discriminate].
  - (* scheme and host *)
    match goal with H : (negb om && _) = true |- _ => apply andb_true_iff in H; destruct H as [O SP] end.
    apply negb_true_iff in O. subst om.
    assert (Sp : p = [] \/ is_abs p = true).
    { apply orb_true_iff in SP. destruct SP as [SP|SP]; [left; apply is_nil_eq, SP | right; exact SP]. }
    assert (X : print_url (mkUrl (s0 :: sch') (h0 :: h') p [] fq q f [] false) = (spart (s0 :: sch') ++ "/" :: "/" :: h0 :: h') ++ p ++ qpart fq q ++ fpart f).
    { unfold print_url. rewrite EP, EF. cbn [u_scheme u_host u_path u_forceq u_query u_frag u_omithost nonempty orb andb app negb].
      rewrite (plain_esc_host (h0 :: h') Hh).
      destruct Sp as [->|Sp]; [|rewrite Sp]; cbn [negb andb orb]; rewrite ?andb_false_r; cbn [nonempty is_abs negb andb app]; cbv iota; unfold spart, qpart, fpart; cbn [nonempty app]; rewrite <- ?app_assoc; cbn [app]; rewrite <- ?app_assoc; reflexivity. }
    rewrite (PR _ X (HB _ Hh)).
    change (("/" :: "/" :: h0 :: h') ++ p) with ("/" :: "/" :: (h0 :: h') ++ p).
    apply tail_auth; try assumption. left. discriminate.
Qed.

(* ---------- references as texts ---------- *)
(* the canonical text of a reference parses back to the very same reference: URL, flags and all *)
Theorem ref_text_roundtrip u : one_port (map lower (u_host u)) = true -> wf_plain (normalize_url u) = true ->
  new_ref (ref_string (ref_of_url u)) = POk (ref_of_url u).
Proof.
  intros O W. unfold ref_string. change (r_url (ref_of_url u)) with (normalize_url u).
  unfold new_ref. rewrite (parse_print_plain _ W). f_equal.
  apply flags_function. apply normalize_url_idem, O.
Qed.

(* the classification is a function of the canonical TEXT: two references that print the same text are the same reference *)
Theorem flags_function_of_text u1 u2 :
  one_port (map lower (u_host u1)) = true -> wf_plain (normalize_url u1) = true ->
  one_port (map lower (u_host u2)) = true -> wf_plain (normalize_url u2) = true ->
  ref_string (ref_of_url u1) = ref_string (ref_of_url u2) -> ref_of_url u1 = ref_of_url u2.
Proof.
  intros O1 W1 O2 W2 E.
  pose proof (ref_text_roundtrip u1 O1 W1) as R1. pose proof (ref_text_roundtrip u2 O2 W2) as R2.
  rewrite E in R1. rewrite R1 in R2.
  apply (f_equal (fun x => match x with POk r => r | _ => ref_of_url u1 end)) in R2. exact R2.
Qed.

(* starting from a text, in any spelling (scheme and host in any case, default port, duplicate slashes): if what it
   canonicalises to is plain, then printing the reference read from it and reading the print gives the same reference *)
Theorem text_canonicalisation_idempotent s u : parse_url s = POk u ->
  one_port (map lower (u_host u)) = true -> wf_plain (normalize_url u) = true ->
  new_ref s = POk (ref_of_url u) /\ new_ref (ref_string (ref_of_url u)) = POk (ref_of_url u).
Proof.
  intros P O W. split; [unfold new_ref; rewrite P; reflexivity | apply ref_text_roundtrip; assumption].
Qed.

(* non-vacuity: a spelling with an upper-case scheme and host, the default port and duplicate slashes *)
Example text_example :
  match parse_url (s2l "HTTP://Host.Example.COM:80//a//b-c/d.json?x=1&y=2#/definitions/a~1b") with
  | POk u => one_port (map lower (u_host u)) = true /\ wf_plain (normalize_url u) = true
             /\ ref_string (ref_of_url u) = s2l "http://host.example.com/a/b-c/d.json?x=1&y=2#/definitions/a~1b"
  | _ => False
  end.
Proof. vm_compute. repeat split. Qed.
Example text_example_local :
  match parse_url (s2l "sub/dir/other.json#/definitions/x") with
  | POk u => one_port (map lower (u_host u)) = true /\ wf_plain (normalize_url u) = true
  | _ => False
  end.
Proof. vm_compute. repeat split. Qed.
Example text_example_file :
  match parse_url (s2l "file:///a/b.json#/p") with
  | POk u => wf_plain (normalize_url u) = true /\ ref_string (ref_of_url u) = s2l "file:///a/b.json#/p"
  | _ => False
  end.
Proof. vm_compute. repeat split. Qed.

(* ---------- normalizeBase on texts ---------- *)
Lemma parse_or_empty_omit s u : parse_or_empty s = POk u -> u_omithost u = false.
Proof.
  unfold parse_or_empty. destruct (parse_url s) as [v| |]; intros H; try discriminate; injection H as <-; reflexivity.
Qed.

Lemma nb_rec_omit cwd u : u_omithost u = false -> u_omithost (nb_rec cwd u) = false.
Proof.
  intros H. unfold nb_rec.
  destruct (nonempty (u_scheme (clean_path_field (set_frag u []))) &&
            (is_abs (u_path (clean_path_field (set_frag u []))) ||
             negb (chars_eqb (u_scheme (clean_path_field (set_frag u []))) (s2l "file")))); [|reflexivity].
  unfold drop_file_query. destruct (chars_eqb (u_scheme (clean_path_field (set_frag u []))) (s2l "file")); exact H.
Qed.

Lemma clear_omit_id v : u_omithost v = false -> clear_omit v = v.
Proof. destruct v. cbn. intros ->. reflexivity. Qed.

(* the location normalizeBase prints is a fixed point of normalizeBase — as TEXT: normalising the canonical location again
   returns it character for character (whenever it is plain: no escapes needed) *)
Theorem normalize_base_text_idempotent cwd inp u : is_abs cwd = true -> parse_or_empty inp = POk u ->
  (u_path u = [] \/ is_abs (u_path u) = true \/ u_scheme u = []) ->
  wf_plain (nb_rec cwd u) = true ->
  exists t, normalize_base cwd inp = POk t /\ normalize_base cwd t = POk t.
Proof.
  intros Hc P Sh W. exists (print_url (nb_rec cwd u)). split; [apply normalize_base_is_nb, P|].
  assert (O : u_omithost (nb_rec cwd u) = false) by (apply nb_rec_omit, (parse_or_empty_omit inp), P).
  rewrite (normalize_base_is_nb cwd (print_url (nb_rec cwd u)) (nb_rec cwd u)).
  - rewrite nb_rec_idem; [reflexivity | exact Hc | exact Sh].
  - unfold parse_or_empty. rewrite (parse_print_plain _ W), (clear_omit_id _ O). reflexivity.
Qed.

Example normalize_base_text_example :
  let cwd := s2l "/w/d" in
  match parse_or_empty (s2l "FILE:/r/./a/x/../root.json#/definitions/x") with
  | POk u => (u_path u = [] \/ is_abs (u_path u) = true \/ u_scheme u = []) /\ wf_plain (nb_rec cwd u) = true
             /\ print_url (nb_rec cwd u) = s2l "file:///r/a/root.json"
  | _ => False
  end.
Proof. vm_compute. split; [right; left; reflexivity | split; reflexivity]. Qed.
