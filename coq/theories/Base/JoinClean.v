From Coq Require Import List String Ascii Bool Arith Lia.
From Spec Require Import Base.Json Base.Url Base.Rfc3986 Base.UrlFacts Base.PathText.
Import ListNotations.
Local Open Scope char_scope.

(* what the stack of the non-rooted machine holds: ".." (at the bottom) and proper segments *)
Definition stk_ok (sf : list seg) : Prop := Forall (fun x => x = dotdot \/ proper x) sf.

Lemma proper_dotdot_false : proper dotdot -> False.
Proof. unfold proper, special. cbn. discriminate. Qed.

(* path.Clean of the relative part before path.Join changes nothing: for every prefix already on the (rooted) stack *)
Lemma clean_rel_then_abs : forall rs sf st, stk_ok sf ->
  clean_segs true (clean_segs false rs sf) st = clean_segs true (rev sf ++ rs) st.
Proof.
  induction rs as [|s r IH]; intros sf st Hsf.
  - cbn [clean_segs]. rewrite app_nil_r. reflexivity.
  - rewrite (clean_segs_cons false s r sf).
    destruct (seg_eqb s [] || seg_eqb s dot) eqn:E1.
    + rewrite IH by exact Hsf. apply orb_true_iff in E1. destruct E1 as [E|E]; apply chars_eqb_eq in E; subst s.
      * symmetry. apply insert_empty.
      * symmetry. apply insert_dot.
    + destruct (seg_eqb s dotdot) eqn:E2.
      * apply chars_eqb_eq in E2. subst s.
        destruct sf as [|top sf'].
        -- rewrite IH by (constructor; [left; reflexivity|constructor]). reflexivity.
        -- inversion Hsf as [|? ? Ht Hsf']; subst.
           destruct (seg_eqb top dotdot) eqn:E3.
           ++ rewrite IH by (constructor; [left; reflexivity|exact Hsf]).
              cbn [rev]. rewrite <- !app_assoc. reflexivity.
           ++ rewrite IH by exact Hsf'. destruct Ht as [Ht|Ht]; [subst top; cbv in E3; discriminate|].
              cbn [rev]. rewrite <- app_assoc. cbn [app]. symmetry. apply insert_updown. exact Ht.
      * rewrite IH.
        -- cbn [rev]. rewrite <- app_assoc. reflexivity.
        -- constructor; [|exact Hsf]. right. unfold proper, special.
           apply orb_false_iff in E1. destruct E1 as [A B]. rewrite A, B, E2. reflexivity.
Qed.

Corollary clean_rel_prefix bs rs : clean_segs true (bs ++ clean_segs false rs []) [] = clean_segs true (bs ++ rs) [].
Proof.
  rewrite !clean_run, !run_app, <- !clean_run. apply (clean_rel_then_abs rs [] _). constructor.
Qed.

(* ---------- the same on texts ---------- *)
Lemma clean_segs_keeps (P : seg -> Prop) rooted : forall segs st, Forall P segs -> Forall P st -> Forall P (clean_segs rooted segs st).
Proof.
  induction segs as [|s r IH]; intros st Hs Hst.
  - cbn [clean_segs]. apply Forall_rev, Hst.
  - inversion Hs as [|? ? H1 Hr]; subst. rewrite clean_segs_cons.
    destruct (seg_eqb s [] || seg_eqb s dot); [apply IH; assumption|].
    destruct (seg_eqb s dotdot).
    + destruct st as [|top st'].
      * destruct rooted; apply IH; try assumption. constructor; [assumption|constructor].
      * inversion Hst; subst. destruct (seg_eqb top dotdot); apply IH; try assumption. constructor; assumption.
    + apply IH; [assumption|constructor; assumption].
Qed.

Lemma clean_segs_last_proper_any rooted : forall segs st, segs <> [] -> proper (last segs []) -> clean_segs rooted segs st <> [].
Proof.
  induction segs as [|s r IH]; intros st N P; [contradiction|].
  destruct r as [|s2 r'].
  - cbn [last] in P. destruct (special_cases s P) as [E1 [E2 E3]].
    rewrite clean_segs_cons, E1, E2, E3. cbn [orb clean_segs]. intros X.
    apply (f_equal (@List.length seg)) in X. rewrite rev_length in X. cbn in X. discriminate.
  - assert (P' : proper (last (s2 :: r') [])) by exact P.
    rewrite clean_segs_cons.
    destruct (seg_eqb s [] || seg_eqb s dot); [apply IH; [discriminate|exact P']|].
    destruct (seg_eqb s dotdot).
    + destruct st as [|top st']; [destruct rooted; apply IH; try discriminate; exact P'|].
      destruct (seg_eqb top dotdot); apply IH; try discriminate; exact P'.
    + apply IH; [discriminate|exact P'].
Qed.

Lemma join_not_abs rs : Forall okseg rs -> rs <> [] -> is_abs (join_with "/" rs) = false /\ join_with "/" rs <> [].
Proof.
  intros H N. destruct rs as [|s r]; [contradiction|]. inversion H as [|? ? [Hs Hn] _]; subst.
  destruct s as [|c s']; [contradiction|].
  assert (C : ceq c "/" = false).
  { unfold mem_char in Hs. cbn [existsb] in Hs. apply orb_false_iff in Hs. destruct Hs as [Hs _]. unfold ceq in *. rewrite Ascii.eqb_sym. exact Hs. }
  destruct r; cbn [join_with app is_abs]; (split; [|discriminate]);
    destruct c as [[] [] [] [] [] [] [] []]; try reflexivity; cbv in C; discriminate.
Qed.

(* path.Clean of a relative path text *)
Lemma clean_rel_text rs : Forall okseg rs -> rs <> [] -> proper (last rs []) ->
  clean (join_with "/" rs) = join_with "/" (clean_segs false rs []).
Proof.
  intros H N P. destruct (join_not_abs rs H N) as [A NE]. unfold clean.
  destruct (join_with "/" rs) as [|c t] eqn:E; [contradiction|]. cbv zeta. rewrite A. rewrite <- E.
  rewrite (split_join "/" rs N (okseg_no_slash rs H)).
  pose proof (clean_segs_last_proper_any false rs [] N P) as Q.
  destruct (clean_segs false rs []); [contradiction|reflexivity].
Qed.

Lemma join2_abs_text bs xs : Forall okseg bs -> Forall no_slash xs -> xs <> [] -> join_with "/" xs <> [] ->
  join2 (abs_path_of bs) (join_with "/" xs) = abs_path_of (clean_segs true (bs ++ xs) []).
Proof.
  intros Hb Hx Nx NJ. unfold join2.
  destruct (abs_path_of bs) as [|a0 ar] eqn:EA; [destruct bs; discriminate|].
  destruct (join_with "/" xs) as [|j0 jr] eqn:EJ; [contradiction|]. rewrite <- EA, <- EJ.
  destruct bs as [|b0 br].
  - cbn [abs_path_of app]. rewrite (join_flat xs Nx). change ("/" :: flat xs) with (flat ([] :: xs)).
    rewrite clean_flat; [|constructor; [reflexivity|exact Hx]|discriminate].
    rewrite clean_segs_cons. change (seg_eqb [] [] || seg_eqb [] dot) with true. cbv iota. reflexivity.
  - rewrite <- (flat_abs (b0 :: br)) by discriminate. rewrite (join_flat xs Nx), <- flat_app.
    rewrite clean_flat; [reflexivity | apply Forall_app; split; [apply okseg_no_slash, Hb|exact Hx] | discriminate].
Qed.

(* path.Join(dir, path.Clean(ref)) = path.Join(dir, ref): what normalizeURI computes (it cleans the reference first) is the
   join of the uncleaned reference *)
Theorem join_of_cleaned_ref bs rs : Forall okseg bs -> Forall okseg rs -> rs <> [] -> proper (last rs []) ->
  join2 (abs_path_of bs) (clean (join_with "/" rs)) = join2 (abs_path_of bs) (join_with "/" rs).
Proof.
  intros Hb Hr N P. rewrite (clean_rel_text rs Hr N P).
  pose proof (clean_segs_last_proper_any false rs [] N P) as Q.
  assert (K : Forall no_slash (clean_segs false rs [])) by (apply clean_segs_keeps; [apply okseg_no_slash, Hr|constructor]).
  assert (KN : Forall (fun s => s <> []) (clean_segs false rs [])).
  { apply clean_segs_keeps; [|constructor]. apply Forall_forall. intros x Hx. rewrite Forall_forall in Hr. destruct (Hr x Hx) as [_ Z]. exact Z. }
  assert (NJ : join_with "/" (clean_segs false rs []) <> []).
  { destruct (clean_segs false rs []) as [|s r]; [contradiction|]. inversion KN; subst.
    destruct r; cbn [join_with]; [assumption|]. destruct s; [contradiction|discriminate]. }
  rewrite (join2_abs_text bs _ Hb K Q NJ).
  destruct (join_not_abs rs Hr N) as [_ NR].
  rewrite (join2_abs_text bs rs Hb (okseg_no_slash rs Hr) N NR).
  f_equal. apply clean_rel_prefix.
Qed.
