From Coq Require Import List String Ascii ZArith Bool Arith Lia.
From Spec Require Import Base.Json.
From Spec Require Import Base.JsonText.
Import ListNotations.
Local Open Scope char_scope.

(* ---------- digits ---------- *)
Lemma ten_cases d : (0 <= d < 10)%Z -> d = 0%Z \/ d = 1%Z \/ d = 2%Z \/ d = 3%Z \/ d = 4%Z \/ d = 5%Z \/ d = 6%Z \/ d = 7%Z \/ d = 8%Z \/ d = 9%Z.
Proof. lia. Qed.
Ltac ten d H := destruct (ten_cases d H) as [->|[->|[->|[->|[->|[->|[->|[->|[->| ->]]]]]]]]].

Lemma digit_val_char d : (0 <= d < 10)%Z -> digit_val (digit_char d) = Some d.
Proof. intros H. ten d H; reflexivity. Qed.

Definition is_term (c : ascii) : bool := Ascii.eqb c "," || Ascii.eqb c "]" || Ascii.eqb c "}".
Definition ends_ok (rest : chars) : bool := match rest with [] => true | c :: _ => is_term c end.
Lemma term_cases c : is_term c = true -> c = "," \/ c = "]" \/ c = "}".
Proof.
  unfold is_term. intros H. apply orb_prop in H. destruct H as [H|H]; [apply orb_prop in H; destruct H as [H|H]|];
    apply Ascii.eqb_eq in H; auto.
Qed.

Lemma pos_digits_app f : forall n acc rest, pos_digits f n acc ++ rest = pos_digits f n (acc ++ rest).
Proof.
  induction f as [|f IH]; intros n acc rest; [reflexivity|]. cbn [pos_digits].
  destruct (Z.ltb n 10); [reflexivity|]. rewrite IH. reflexivity.
Qed.

Lemma pos_digits_head f : forall n acc, (0 <= n)%Z -> exists d tl, (0 <= d < 10)%Z /\ pos_digits (S f) n acc = digit_char d :: tl.
Proof.
  induction f as [|f IH]; intros n acc Hn; cbn [pos_digits]; destruct (Z.ltb_spec n 10).
  - exists n, acc. split; [lia|reflexivity].
  - exists (Z.rem n 10), acc. split; [|reflexivity]. rewrite Z.rem_mod_nonneg by lia. apply Z.mod_pos_bound. lia.
  - exists n, acc. split; [lia|reflexivity].
  - apply IH. apply Z.quot_pos; lia.
Qed.

Lemma pos_digits_step f n acc : pos_digits (S f) n acc =
  if Z.ltb n 10 then digit_char n :: acc else pos_digits f (Z.quot n 10) (digit_char (Z.rem n 10) :: acc).
Proof. reflexivity. Qed.

Lemma pos_digits_read f : forall n, (0 <= n < 2 ^ Z.of_nat f)%Z ->
  exists k, (0 < k)%Z /\ forall acc a0 c0, p_digits (pos_digits (S f) n acc) a0 c0 = p_digits acc (a0 * 10 ^ k + n)%Z (c0 + k)%Z.
Proof.
  induction f as [|f IH]; intros n Hn.
  - assert (n = 0%Z) by (cbn in Hn; lia). subst n. exists 1%Z. split; [lia|]. intros acc a0 c0. cbn [pos_digits Z.ltb Z.compare p_digits].
    rewrite digit_val_char by lia. f_equal; lia.
  - destruct (Z.ltb_spec n 10) as [L|L].
    + exists 1%Z. split; [lia|]. intros acc a0 c0. rewrite pos_digits_step. destruct (Z.ltb_spec n 10); [|lia]. cbn [p_digits]. rewrite digit_val_char by lia. f_equal; lia.
    + assert (Q : (0 <= Z.quot n 10 < 2 ^ Z.of_nat f)%Z).
      { rewrite Z.quot_div_nonneg by lia. split; [apply Z.div_pos; lia|].
        rewrite Nat2Z.inj_succ, Z.pow_succ_r in Hn by lia. apply Z.div_lt_upper_bound; lia. }
      destruct (IH (Z.quot n 10) Q) as (k & Hk & E).
      exists (k + 1)%Z. split; [lia|]. intros acc a0 c0. rewrite pos_digits_step. destruct (Z.ltb_spec n 10); [lia|]. rewrite E. cbn [p_digits].
      assert (R : (0 <= Z.rem n 10 < 10)%Z) by (rewrite Z.rem_mod_nonneg by lia; apply Z.mod_pos_bound; lia).
      rewrite digit_val_char by exact R. f_equal; [|lia].
      rewrite Z.pow_add_r by lia. pose proof (Z.quot_rem' n 10) as QR. lia.
Qed.

Lemma p_digits_stop rest a c : ends_ok rest = true -> p_digits rest a c = (a, c, rest).
Proof.
  destruct rest as [|x r]; [reflexivity|]. cbn [ends_ok]. intros H. destruct (term_cases x H) as [->|[->| ->]]; reflexivity.
Qed.

Definition abs_digits (n : Z) : chars := pos_digits (Z.to_nat (Z.log2 (Z.abs n)) + 2) (Z.abs n) [].

(* the digits of |n|, followed by anything *)
Lemma abs_digits_read n : exists k, (0 < k)%Z /\ forall rest,
  p_digits (abs_digits n ++ rest) 0 0 = p_digits rest (Z.abs n) k.
Proof.
  unfold abs_digits. set (a := Z.abs n). assert (Ha : (0 <= a)%Z) by apply Z.abs_nonneg.
  replace (Z.to_nat (Z.log2 a) + 2) with (S (S (Z.to_nat (Z.log2 a)))) by lia.
  assert (B : (0 <= a < 2 ^ Z.of_nat (S (Z.to_nat (Z.log2 a))))%Z).
  { split; [exact Ha|]. rewrite Nat2Z.inj_succ, Z2Nat.id by apply Z.log2_nonneg.
    destruct (Z.eq_dec a 0) as [->|NZ]; [cbn; lia|]. apply Z.log2_spec. lia. }
  destruct (pos_digits_read _ a B) as (k & Hk & E). exists k. split; [exact Hk|]. intros rest.
  rewrite pos_digits_app. cbn [app]. rewrite E. f_equal; lia.
Qed.
Lemma abs_digits_head n : exists d tl, (0 <= d < 10)%Z /\ abs_digits n = digit_char d :: tl.
Proof.
  unfold abs_digits. replace (Z.to_nat (Z.log2 (Z.abs n)) + 2) with (S (S (Z.to_nat (Z.log2 (Z.abs n))))) by lia.
  apply pos_digits_head, Z.abs_nonneg.
Qed.

(* ---------- numbers ---------- *)
Definition p_num_body (neg : bool) (s1 : chars) : option (json * chars) :=
  let '(ip, icnt, s2) := p_digits s1 0%Z 0%Z in
  if Z.eqb icnt 0 then None else
  let '(m, fcnt, s3) :=
    match s2 with
    | "." :: r => let '(v, c, r') := p_digits r ip 0%Z in (v, c, r')
    | _ => (ip, 0%Z, s2)
    end in
  let bad_frac := match s2 with "." :: _ => Z.eqb fcnt 0 | _ => false end in
  if bad_frac then None else
  let '(ex, s4, bad_exp) :=
    match s3 with
    | c :: r =>
        if (Nat.eqb (nat_of_ascii c) 101 || Nat.eqb (nat_of_ascii c) 69)%bool then
          let '(eneg, r1) := match r with "-" :: t => (true, t) | "+" :: t => (false, t) | _ => (false, r) end in
          let '(ev, ecnt, r2) := p_digits r1 0%Z 0%Z in
          ((if eneg then (- ev)%Z else ev), r2, Z.eqb ecnt 0)
        else (0%Z, s3, false)
    | [] => (0%Z, s3, false)
    end in
  if bad_exp then None else
  Some (JNum (if neg then (- m)%Z else m) (ex - fcnt)%Z, s4).

Lemma p_num_minus r : p_num ("-" :: r) = p_num_body true r.
Proof. reflexivity. Qed.
Lemma p_num_digit d r : (0 <= d < 10)%Z -> p_num (digit_char d :: r) = p_num_body false (digit_char d :: r).
Proof. intros H. ten d H; reflexivity. Qed.

Definition print_num (a b : Z) : chars := if Z.eqb b 0 then z_chars a else z_chars a ++ "e" :: z_chars b.

Lemma z_chars_abs n : z_chars n = if Z.ltb n 0 then "-" :: abs_digits n else abs_digits n.
Proof. reflexivity. Qed.

Lemma signed a neg : neg = Z.ltb a 0 -> (if neg then (- Z.abs a)%Z else Z.abs a) = a.
Proof. intros ->. destruct (Z.ltb_spec a 0); lia. Qed.

(* the tail after the mantissa: nothing, or an exponent *)
Lemma body_no_exp neg a rest : ends_ok rest = true ->
  p_num_body neg (abs_digits a ++ rest) = Some (JNum (if neg then (- Z.abs a)%Z else Z.abs a) 0, rest).
Proof.
  intros Hr. unfold p_num_body. destruct (abs_digits_read a) as (k & Hk & E). rewrite E, (p_digits_stop _ _ _ Hr).
  destruct (Z.eqb_spec k 0); [lia|].
  destruct rest as [|x r]; [reflexivity|]. cbn [ends_ok] in Hr. destruct (term_cases x Hr) as [->|[->| ->]]; reflexivity.
Qed.

Lemma sign_split s : (exists d tl, (0 <= d < 10)%Z /\ s = digit_char d :: tl) ->
  (match s with "-" :: t => (true, t) | "+" :: t => (false, t) | _ => (false, s) end) = (false, s).
Proof. intros (d & tl & H & ->). ten d H; reflexivity. Qed.

Lemma body_exp neg a b rest : ends_ok rest = true ->
  p_num_body neg (abs_digits a ++ "e" :: z_chars b ++ rest) = Some (JNum (if neg then (- Z.abs a)%Z else Z.abs a) b, rest).
Proof.
  intros Hr. unfold p_num_body. destruct (abs_digits_read a) as (k & Hk & E). rewrite E.
  change (p_digits ("e" :: z_chars b ++ rest) (Z.abs a) k) with (Z.abs a, k, "e" :: z_chars b ++ rest).
  destruct (Z.eqb_spec k 0); [lia|].
  cbv beta iota. change (nat_of_ascii "e") with 101. cbn [Nat.eqb orb].
  rewrite z_chars_abs. destruct (abs_digits_read b) as (k2 & Hk2 & E2).
  destruct (Z.ltb_spec b 0) as [L|L].
  - cbn [app]. rewrite E2, (p_digits_stop _ _ _ Hr). destruct (Z.eqb_spec k2 0); [lia|].
    destruct (Z.eqb_spec k 0); [lia|]. replace (- Z.abs b - 0)%Z with b by lia. reflexivity.
  - rewrite sign_split.
    + rewrite E2, (p_digits_stop _ _ _ Hr). destruct (Z.eqb_spec k2 0); [lia|].
      destruct (Z.eqb_spec k 0); [lia|]. replace (Z.abs b - 0)%Z with b by lia. reflexivity.
    + destruct (abs_digits_head b) as (d & tl & Hd & Eh). exists d, (tl ++ rest). split; [exact Hd|]. rewrite Eh. reflexivity.
Qed.

Theorem p_num_print a b rest : ends_ok rest = true -> p_num (print_num a b ++ rest) = Some (JNum a b, rest).
Proof.
  intros Hr. unfold print_num. destruct (Z.eqb_spec b 0) as [->|NB].
  - rewrite z_chars_abs. destruct (Z.ltb_spec a 0) as [L|L].
    + cbn [app]. rewrite p_num_minus, body_no_exp by exact Hr. replace (- Z.abs a)%Z with a by lia. reflexivity.
    + destruct (abs_digits_head a) as (d & tl & Hd & Eh). pose proof (body_no_exp false a rest Hr) as B.
      rewrite Eh in *. cbn [app] in *. rewrite p_num_digit by exact Hd. rewrite B. replace (Z.abs a) with a by lia. reflexivity.
  - rewrite <- app_assoc. cbn [app]. rewrite (z_chars_abs a). destruct (Z.ltb_spec a 0) as [L|L].
    + cbn [app]. rewrite p_num_minus, body_exp by exact Hr. replace (- Z.abs a)%Z with a by lia. reflexivity.
    + destruct (abs_digits_head a) as (d & tl & Hd & Eh). pose proof (body_exp false a b rest Hr) as B.
      rewrite Eh in *. cbn [app] in *. rewrite p_num_digit by exact Hd. rewrite B. replace (Z.abs a) with a by lia. reflexivity.
Qed.

Lemma num_chars_print m e : num_chars m e = print_num (fst (num_norm m e)) (snd (num_norm m e)).
Proof. unfold num_chars, print_num. destruct (num_norm m e). reflexivity. Qed.
