From Coq Require Import List String Ascii ZArith Bool Arith Lia.
From Spec Require Import Base.Json.
From Spec Require Import Base.JsonText Base.JsonNum.
Import ListNotations.
Local Open Scope char_scope.

(* ---------- induction on trees, with the children at hand ---------- *)
Section TreeInd.
  Variable P : json -> Prop.
  Hypothesis Hnull : P JNull.
  Hypothesis Hbool : forall b, P (JBool b).
  Hypothesis Hnum : forall m e, P (JNum m e).
  Hypothesis Hstr : forall s, P (JStr s).
  Hypothesis Harr : forall l, Forall P l -> P (JArr l).
  Hypothesis Hobj : forall m, Forall (fun kv => P (snd kv)) m -> P (JObj m).
  Fixpoint json_tree_ind (j : json) : P j :=
    match j with
    | JNull => Hnull
    | JBool b => Hbool b
    | JNum m e => Hnum m e
    | JStr s => Hstr s
    | JArr l => Harr l ((fix go (l : list json) : Forall P l :=
                           match l with [] => Forall_nil _ | x :: r => Forall_cons x (json_tree_ind x) (go r) end) l)
    | JObj m => Hobj m ((fix go (m : list (string * json)) : Forall (fun kv => P (snd kv)) m :=
                           match m with [] => Forall_nil _ | kv :: r => Forall_cons kv (json_tree_ind (snd kv)) (go r) end) m)
    end.
End TreeInd.

(* what the reader hands back: the same tree, numbers in the form the printer writes them *)
Fixpoint canon (j : json) : json :=
  match j with
  | JNum m e => JNum (fst (num_norm m e)) (snd (num_norm m e))
  | JArr l => JArr (map canon l)
  | JObj m => JObj (map (fun kv => (fst kv, canon (snd kv))) m)
  | x => x
  end.

(* fuel that is enough *)
Fixpoint need (j : json) : nat :=
  match j with
  | JArr l => S (list_sum (map (fun x => S (need x)) l))
  | JObj m => S (list_sum (map (fun kv => S (need (snd kv))) m))
  | _ => 1
  end.

(* ---------- the printed form, piece by piece ---------- *)
Fixpoint arr_tail (l : list json) : chars :=
  match l with [] => ["]"] | x :: r => "," :: print_chars x ++ arr_tail r end.
Fixpoint obj_tail (m : list (string * json)) : chars :=
  match m with [] => ["}"] | (k, x) :: r => "," :: quote_chars k ++ ":" :: print_chars x ++ obj_tail r end.

Lemma print_arr l : print_chars (JArr l) = "[" :: match l with [] => ["]"] | x :: r => print_chars x ++ arr_tail r end.
Proof.
  cbn [print_chars]. f_equal. destruct l as [|x r]; [reflexivity|]. cbn [app]. f_equal.
  induction r as [|y r IH]; [reflexivity|]. cbn [arr_tail app]. rewrite <- IH. reflexivity.
Qed.
Lemma print_obj m : print_chars (JObj m) =
  "{" :: match m with [] => ["}"] | (k, x) :: r => quote_chars k ++ ":" :: print_chars x ++ obj_tail r end.
Proof.
  cbn [print_chars]. f_equal. destruct m as [|[k x] r]; [reflexivity|]. cbn [app]. f_equal. f_equal. f_equal.
  induction r as [|[k' y] r IH]; [reflexivity|]. cbn [obj_tail app]. rewrite <- IH. reflexivity.
Qed.

Definition value_heads : list ascii := ["n"; "t"; "f"; """"; "["; "{"; "-"; "0"; "1"; "2"; "3"; "4"; "5"; "6"; "7"; "8"; "9"].
Definition num_heads : list ascii := ["-"; "0"; "1"; "2"; "3"; "4"; "5"; "6"; "7"; "8"; "9"].

Lemma digit_head d : (0 <= d < 10)%Z -> In (digit_char d) num_heads.
Proof. intros H. ten d H; cbn; tauto. Qed.
Lemma print_num_head a b : exists c tl, print_num a b = c :: tl /\ In c num_heads.
Proof.
  unfold print_num. destruct (abs_digits_head a) as (d & tl & Hd & Eh).
  destruct (Z.eqb b 0); rewrite z_chars_abs; destruct (Z.ltb a 0); rewrite ?Eh; cbn [app]; eexists; eexists; (split; [reflexivity|]);
    try (apply digit_head, Hd); cbn; tauto.
Qed.
Lemma num_heads_value c : In c num_heads -> In c value_heads.
Proof. cbn. tauto. Qed.
Lemma print_head j : exists c tl, print_chars j = c :: tl /\ In c value_heads.
Proof.
  destruct j as [|[]|m e|s|l|m].
  - eexists; eexists; split; [reflexivity|cbn; tauto].
  - eexists; eexists; split; [reflexivity|cbn; tauto].
  - eexists; eexists; split; [reflexivity|cbn; tauto].
  - cbn [print_chars]. rewrite num_chars_print. destruct (print_num_head (fst (num_norm m e)) (snd (num_norm m e))) as (c & tl & E & I).
    exists c, tl. split; [exact E|apply num_heads_value, I].
  - eexists; eexists; split; [reflexivity|cbn; tauto].
  - rewrite print_arr. eexists; eexists; split; [reflexivity|cbn; tauto].
  - rewrite print_obj. eexists; eexists; split; [reflexivity|cbn; tauto].
Qed.

(* ---------- the reader, step by step ---------- *)
Lemma pv_null n r : pv (S n) ("n" :: "u" :: "l" :: "l" :: r) = Some (JNull, r). Proof. reflexivity. Qed.
Lemma pv_true n r : pv (S n) ("t" :: "r" :: "u" :: "e" :: r) = Some (JBool true, r). Proof. reflexivity. Qed.
Lemma pv_false n r : pv (S n) ("f" :: "a" :: "l" :: "s" :: "e" :: r) = Some (JBool false, r). Proof. reflexivity. Qed.
Lemma pv_str n r : pv (S n) ("""" :: r) =
  match p_str (S (List.length r)) r [] with Some (str, r') => Some (JStr str, r') | None => None end.
Proof. reflexivity. Qed.
Lemma pv_num n c tl : In c num_heads -> pv (S n) (c :: tl) = p_num (c :: tl).
Proof. intros H. cbn in H. repeat (destruct H as [<-|H]; [reflexivity|]). destruct H. Qed.
Lemma pv_arr_empty n r : pv (S n) ("[" :: "]" :: r) = Some (JArr [], r). Proof. reflexivity. Qed.
Lemma pv_obj_empty n r : pv (S n) ("{" :: "}" :: r) = Some (JObj [], r). Proof. reflexivity. Qed.
Lemma pv_arr n c tl : In c value_heads -> pv (S n) ("[" :: c :: tl) = parr n (c :: tl) [].
Proof. intros H. cbn in H. repeat (destruct H as [<-|H]; [reflexivity|]). destruct H. Qed.
Lemma pv_obj n tl : pv (S n) ("{" :: """" :: tl) = pobj n ("""" :: tl) []. Proof. reflexivity. Qed.

Lemma parr_comma n s acc v X : pv n s = Some (v, "," :: X) -> parr (S n) s acc = parr n X (v :: acc).
Proof. intros H. cbn [parr]. rewrite H. reflexivity. Qed.
Lemma parr_close n s acc v X : pv n s = Some (v, "]" :: X) -> parr (S n) s acc = Some (JArr (rev (v :: acc)), X).
Proof. intros H. cbn [parr]. rewrite H. reflexivity. Qed.

Lemma pobj_step n r acc : pobj (S n) ("""" :: r) acc =
  match p_str (S (List.length r)) r [] with
  | Some (k, r1) =>
      match skip_ws r1 with
      | ":" :: r2 =>
          match pv n r2 with
          | Some (v, r3) =>
              match skip_ws r3 with
              | "," :: r4 => pobj n r4 ((k, v) :: acc)
              | "}" :: r4 => Some (JObj (rev ((k, v) :: acc)), r4)
              | _ => None
              end
          | None => None
          end
      | _ => None
      end
  | None => None
  end.
Proof. reflexivity. Qed.
Lemma pobj_comma n k X acc v Y : pv n X = Some (v, "," :: Y) ->
  pobj (S n) (quote_chars k ++ ":" :: X) acc = pobj n Y ((k, v) :: acc).
Proof.
  intros H. unfold quote_chars. cbn [app]. rewrite <- app_assoc. cbn [app]. rewrite pobj_step, quoted_string_reads_back.
  change (skip_ws (":" :: X)) with (":" :: X). cbv iota. rewrite H. reflexivity.
Qed.
Lemma pobj_close n k X acc v Y : pv n X = Some (v, "}" :: Y) ->
  pobj (S n) (quote_chars k ++ ":" :: X) acc = Some (JObj (rev ((k, v) :: acc)), Y).
Proof.
  intros H. unfold quote_chars. cbn [app]. rewrite <- app_assoc. cbn [app]. rewrite pobj_step, quoted_string_reads_back.
  change (skip_ws (":" :: X)) with (":" :: X). cbv iota. rewrite H. reflexivity.
Qed.
