From Coq Require Import List String Ascii ZArith Bool Arith Lia.
From Spec Require Import Base.Json.
From Spec Require Import Base.JsonText Base.JsonNum Base.JsonTree.
Import ListNotations.
Local Open Scope char_scope.

Definition reads_back (j : json) : Prop :=
  forall n rest, need j <= n -> ends_ok rest = true -> pv n (print_chars j ++ rest) = Some (canon j, rest).

Lemma arr_tail_ends l rest : ends_ok (arr_tail l ++ rest) = true.
Proof. destruct l; reflexivity. Qed.
Lemma obj_tail_ends m rest : ends_ok (obj_tail m ++ rest) = true.
Proof. destruct m as [|[k x] r]; reflexivity. Qed.

Definition sum_need (l : list json) : nat := list_sum (map (fun x => S (need x)) l).
Definition sum_need_o (m : list (string * json)) : nat := list_sum (map (fun kv => S (need (snd kv))) m).

Lemma parr_reads : forall l x acc n rest, reads_back x -> Forall reads_back l -> sum_need (x :: l) <= n -> ends_ok rest = true ->
  parr n (print_chars x ++ arr_tail l ++ rest) acc = Some (JArr (rev acc ++ canon x :: map canon l), rest).
Proof.
  induction l as [|y l IH]; intros x acc n rest Hx Hl Hn Hr; unfold sum_need in Hn; cbn [map list_sum fold_right] in Hn;
    (destruct n as [|n]; [lia|]).
  - cbn [arr_tail app]. erewrite parr_close; [reflexivity|]. apply Hx; [lia|reflexivity].
  - cbn [arr_tail]. rewrite <- !app_comm_cons.
    rewrite (parr_comma n _ acc (canon x) ((print_chars y ++ arr_tail l) ++ rest)) by (apply Hx; [lia|reflexivity]).
    rewrite <- app_assoc. rewrite IH.
    + cbn [rev map]. rewrite <- app_assoc. reflexivity.
    + inversion Hl; assumption.
    + inversion Hl; assumption.
    + unfold sum_need. cbn [map list_sum fold_right]. lia.
    + exact Hr.
Qed.

Lemma pobj_reads : forall m k x acc n rest, reads_back x -> Forall (fun kv => reads_back (snd kv)) m ->
  sum_need_o ((k, x) :: m) <= n -> ends_ok rest = true ->
  pobj n (quote_chars k ++ ":" :: print_chars x ++ obj_tail m ++ rest) acc =
  Some (JObj (rev acc ++ (k, canon x) :: map (fun kv => (fst kv, canon (snd kv))) m), rest).
Proof.
  induction m as [|[k' y] m IH]; intros k x acc n rest Hx Hm Hn Hr; unfold sum_need_o in Hn; cbn [map list_sum fold_right snd] in Hn;
    (destruct n as [|n]; [lia|]).
  - cbn [obj_tail app]. erewrite pobj_close; [reflexivity|]. apply Hx; [lia|reflexivity].
  - cbn [obj_tail]. rewrite <- !app_comm_cons.
    rewrite (pobj_comma n k _ acc (canon x) ((quote_chars k' ++ ":" :: print_chars y ++ obj_tail m) ++ rest)) by (apply Hx; [lia|reflexivity]).
    rewrite <- !app_assoc. rewrite <- app_comm_cons. rewrite <- app_assoc. rewrite IH.
    + cbn [rev map fst snd]. rewrite <- app_assoc. reflexivity.
    + inversion Hm; assumption.
    + inversion Hm; assumption.
    + unfold sum_need_o. cbn [map list_sum fold_right snd]. lia.
    + exact Hr.
Qed.

Theorem every_tree_reads_back : forall j, reads_back j.
Proof.
  induction j as [ |b|m e|s|l IHl|m IHm] using json_tree_ind; intros n rest Hn Hr; cbn [need] in Hn; (destruct n as [|n]; [lia|]).
  - reflexivity.
  - destruct b; reflexivity.
  - cbn [print_chars canon]. rewrite num_chars_print.
    destruct (print_num_head (fst (num_norm m e)) (snd (num_norm m e))) as (c & tl & E & I).
    pose proof (p_num_print (fst (num_norm m e)) (snd (num_norm m e)) rest Hr) as P.
    rewrite E in *. cbn [app] in *. rewrite pv_num by exact I. exact P.
  - cbn [print_chars canon]. unfold quote_chars. cbn [app]. rewrite <- app_assoc. cbn [app].
    rewrite pv_str, quoted_string_reads_back. reflexivity.
  - rewrite print_arr. destruct l as [|x l]; [reflexivity|].
    destruct (print_head x) as (c & tl & E & I). cbn [app].
    assert (E2 : print_chars x ++ arr_tail l = c :: (tl ++ arr_tail l)) by (rewrite E; reflexivity).
    rewrite <- app_assoc. pose proof (parr_reads l x [] n rest) as P. rewrite app_assoc in P. rewrite app_assoc.
    rewrite E2 in *. cbn [app] in *. rewrite pv_arr by exact I.
    rewrite P; [reflexivity| | | |exact Hr].
    + inversion IHl; assumption.
    + inversion IHl; assumption.
    + unfold sum_need. cbn [map list_sum fold_right] in *. lia.
  - rewrite print_obj. destruct m as [|[k x] m]; [reflexivity|].
    cbn [app]. rewrite <- !app_assoc. rewrite <- app_comm_cons. rewrite <- app_assoc.
    pose proof (pobj_reads m k x [] n rest) as P.
    unfold quote_chars in *. cbn [app] in *. rewrite pv_obj.
    rewrite P; [reflexivity| | | |exact Hr].
    + inversion IHm; assumption.
    + inversion IHm; assumption.
    + unfold sum_need_o. cbn [map list_sum fold_right snd] in *. lia.
Qed.

(* the fuel the reader gives itself is enough *)
Lemma need_le_length : forall j, need j <= List.length (print_chars j).
Proof.
  induction j as [ |b|m e|s|l IHl|m IHm] using json_tree_ind.
  - cbn; lia.
  - destruct b; cbn; lia.
  - cbn [need]. destruct (print_head (JNum m e)) as (c & tl & E & _). rewrite E. cbn [List.length]. lia.
  - cbn [need print_chars]. unfold quote_chars. cbn [List.length]. lia.
  - rewrite print_arr. cbn [need List.length]. destruct l as [|x l]; [cbn; lia|].
    rewrite app_length. cbn [map list_sum fold_right]. inversion IHl as [|? ? Hx Hl]; subst.
    assert (T : list_sum (map (fun x => S (need x)) l) < List.length (arr_tail l)).
    { clear -Hl. induction Hl as [|y l Hy Hl IH]; [cbn; lia|]. cbn [map list_sum fold_right arr_tail List.length]. rewrite app_length. cbn beta in *. unfold list_sum in *. lia. }
    cbn beta in *. unfold list_sum in *. lia.
  - rewrite print_obj. cbn [need List.length]. destruct m as [|[k x] m]; [cbn; lia|].
    rewrite !app_length. cbn [map list_sum fold_right snd List.length]. rewrite app_length. inversion IHm as [|? ? Hx Hm]; subst. cbn [snd] in Hx.
    assert (T : list_sum (map (fun kv => S (need (snd kv))) m) < List.length (obj_tail m)).
    { clear -Hm. induction Hm as [|[k' y] m Hy Hm IH]; [cbn; lia|]. cbn [map list_sum fold_right obj_tail List.length snd] in *.
      rewrite app_length. cbn [List.length]. rewrite app_length. cbn beta in *. unfold list_sum in *. lia. }
    cbn beta in *. unfold list_sum in *. lia.
Qed.

Theorem parse_print : forall j, parse_json (print_json j) = Some (canon j).
Proof.
  intros j. unfold parse_json, print_json. rewrite s2l_l2s.
  pose proof (every_tree_reads_back j (2 * List.length (print_chars j) + 2) []) as H.
  rewrite app_nil_r in H. rewrite H; [reflexivity| |reflexivity].
  pose proof (need_le_length j). lia.
Qed.

(* a tree whose numbers are written the way the printer writes them comes back as it is *)
Fixpoint nums_normal (j : json) : Prop :=
  match j with
  | JNum m e => num_norm m e = (m, e)
  | JArr l => (fix go (l : list json) : Prop := match l with [] => True | x :: r => nums_normal x /\ go r end) l
  | JObj m => (fix go (m : list (string * json)) : Prop := match m with [] => True | kv :: r => nums_normal (snd kv) /\ go r end) m
  | _ => True
  end.
Lemma canon_normal : forall j, nums_normal j -> canon j = j.
Proof.
  induction j as [ |b|m e|s|l IHl|m IHm] using json_tree_ind; intros H; try reflexivity.
  - cbn in *. rewrite H. reflexivity.
  - cbn [canon]. f_equal. induction IHl as [|x l Hx Hl IH]; [reflexivity|]. destruct H as [H1 H2]. cbn [map]. rewrite Hx, IH by assumption. reflexivity.
  - cbn [canon]. f_equal. induction IHm as [|[k x] m Hx Hm IH]; [reflexivity|]. destruct H as [H1 H2]. cbn [map fst snd] in *. rewrite Hx, IH by assumption. reflexivity.
Qed.
Theorem parse_print_exact : forall j, nums_normal j -> parse_json (print_json j) = Some j.
Proof. intros j H. rewrite parse_print, canon_normal by exact H. reflexivity. Qed.

Example parse_print_example :
  let j := JObj [("a\""b", JArr [JNum 100 0; JNum (-15) (-1); JStr "x\y"; JNull]); ("", JObj []); ("k", JBool true)]%string in
  parse_json (print_json j) = Some (canon j) /\ print_json j = "{""a\\\""b"":[1e2,-15e-1,""x\\y"",null],"""":{},""k"":true}"%string.
Proof. vm_compute. split; reflexivity. Qed.

(* ---------- the normal form of numbers is stable: reading what was written is idempotent ---------- *)
Lemma strip10_step f m e : strip10 (S f) m e =
  if Z.eqb m 0 then (0%Z, 0%Z) else if Z.eqb (Z.rem m 10) 0 then strip10 f (Z.quot m 10) (e + 1)%Z else (m, e).
Proof. reflexivity. Qed.

Lemma strip10_done : forall f m e, m <> 0%Z -> (Z.abs m < 2 ^ Z.of_nat f)%Z ->
  exists a b, strip10 f m e = (a, b) /\ a <> 0%Z /\ Z.rem a 10 <> 0%Z.
Proof.
  induction f as [|f IH]; intros m e Hm Hb.
  - cbn in Hb. lia.
  - rewrite strip10_step. destruct (Z.eqb_spec m 0) as [|_]; [contradiction|].
    destruct (Z.eqb_spec (Z.rem m 10) 0) as [R|R].
    + assert (Q : Z.quot m 10 <> 0%Z).
      { intros Q. pose proof (Z.quot_rem' m 10). lia. }
      apply IH; [exact Q|]. rewrite Nat2Z.inj_succ, Z.pow_succ_r in Hb by lia.
      pose proof (Z.quot_rem' m 10) as QR. rewrite R in QR.
      assert (Z.abs m = 10 * Z.abs (Z.quot m 10))%Z by lia. lia.
    + exists m, e. auto.
Qed.

Lemma num_norm_idem m e : num_norm (fst (num_norm m e)) (snd (num_norm m e)) = num_norm m e.
Proof.
  destruct (Z.eq_dec m 0) as [->|Hm].
  - reflexivity.
  - unfold num_norm at 2 3 4. 
    destruct (strip10_done (Z.to_nat (Z.log2 (Z.abs m)) + 1) m e Hm) as (a & b & E & Ha & Hr).
    { replace (Z.of_nat (Z.to_nat (Z.log2 (Z.abs m)) + 1)) with (Z.succ (Z.log2 (Z.abs m))).
      - apply Z.log2_spec. lia.
      - pose proof (Z.log2_nonneg (Z.abs m)). lia. }
    rewrite E. cbn [fst snd]. unfold num_norm.
    replace (Z.to_nat (Z.log2 (Z.abs a)) + 1) with (S (Z.to_nat (Z.log2 (Z.abs a)))) by lia.
    rewrite strip10_step. destruct (Z.eqb_spec a 0); [contradiction|]. destruct (Z.eqb_spec (Z.rem a 10) 0); [contradiction|]. reflexivity.
Qed.

Lemma canon_nums_normal : forall j, nums_normal (canon j).
Proof.
  induction j as [ |b|m e|s|l IHl|m IHm] using json_tree_ind; try exact I.
  - cbn [canon nums_normal]. rewrite num_norm_idem. destruct (num_norm m e); reflexivity.
  - cbn [canon nums_normal]. induction IHl as [|x l Hx Hl IH]; [exact I|]. cbn [map]. split; assumption.
  - cbn [canon nums_normal]. induction IHm as [|[k x] m Hx Hm IH]; [exact I|]. cbn [map snd] in *. split; assumption.
Qed.

Theorem canon_idem j : canon (canon j) = canon j.
Proof. apply canon_normal, canon_nums_normal. Qed.

(* what the reader returns is a fixed point of writing and reading: a second pass changes nothing *)
Theorem text_normalisation_is_idempotent j j' :
  parse_json (print_json j) = Some j' -> parse_json (print_json j') = Some j'.
Proof. rewrite parse_print. intros H. inversion H. subst j'. rewrite parse_print, canon_idem. reflexivity. Qed.
