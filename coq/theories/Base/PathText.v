(* RFC 3986 5.2.4 (remove_dot_segments, on characters) and Go's path.Clean (on characters) compute the same TEXT on every
   absolute path whose segments are non-empty and whose last segment is a proper name - any number of segments, any
   characters in them, any number of "." and ".." anywhere before the last.  (The segment-level theorem is rds_segs_is_clean;
   this file links both character-level functions to their segment machines.) *)
From Coq Require Import List String Ascii Bool Arith Lia.
From Spec Require Import Base.Json Base.Url Base.Rfc3986 Base.UrlFacts.
Import ListNotations.
Local Open Scope char_scope.

Definition flat (segs : list seg) : chars := flat_map (fun s => "/" :: s) segs.
Definition okseg (s : seg) : Prop := mem_char "/" s = false /\ s <> [].

Lemma flat_app a b : flat (a ++ b) = flat a ++ flat b.
Proof. unfold flat. apply flat_map_app. Qed.

Lemma flat_abs segs : segs <> [] -> flat segs = abs_path_of segs.
Proof.
  destruct segs as [|s r]; [contradiction|]. intros _. unfold abs_path_of. cbn [flat flat_map app]. f_equal.
  revert s. induction r as [|s2 r IH]; intros s; [cbn; apply app_nil_r|].
  cbn [flat_map join_with app]. f_equal. f_equal. apply IH.
Qed.

(* ---------- take_segment, drop_last_segment ---------- *)
Lemma take_segment_noslash : forall s rest, mem_char "/" s = false -> (rest = [] \/ exists t, rest = "/" :: t) ->
  take_segment (s ++ rest) false = (s, rest).
Proof.
  induction s as [|c r IH]; intros rest H R.
  - cbn [app]. destruct R as [->|[t ->]]; reflexivity.
  - unfold mem_char in H. cbn [existsb] in H. apply orb_false_iff in H. destruct H as [H1 H2].
    cbn [app take_segment]. unfold ceq in *. rewrite Ascii.eqb_sym, H1. cbn [andb].
    unfold mem_char in IH. rewrite (IH rest H2 R). reflexivity.
Qed.

Lemma take_segment_first s rest : mem_char "/" s = false -> (rest = [] \/ exists t, rest = "/" :: t) ->
  take_segment ("/" :: s ++ rest) true = ("/" :: s, rest).
Proof. intros H R. cbn [take_segment]. rewrite andb_false_r. rewrite (take_segment_noslash s rest H R). reflexivity. Qed.

Lemma drop_last_rev s out : mem_char "/" s = false -> drop_last_segment (rev ("/" :: s) ++ out) = out.
Proof.
  intros H. cbn [rev]. rewrite <- app_assoc. cbn [app].
  assert (M : mem_char "/" (rev s) = false) by (rewrite mem_char_rev; exact H).
  induction (rev s) as [|c r IH]; [cbn; reflexivity|].
  unfold mem_char in M. cbn [existsb] in M. apply orb_false_iff in M. destruct M as [M1 M2].
  cbn [app drop_last_segment]. unfold ceq in *. rewrite Ascii.eqb_sym, M1. apply IH. exact M2.
Qed.

(* the output buffer (reversed characters) that corresponds to a stack of segments (most recent first) *)
Definition outbuf (st : list seg) : chars := rev (flat (rev st)).

Lemma outbuf_cons s st : outbuf (s :: st) = rev ("/" :: s) ++ outbuf st.
Proof. unfold outbuf. cbn [rev]. rewrite flat_app, rev_app_distr. cbn [flat flat_map]. rewrite app_nil_r. reflexivity. Qed.

Lemma outbuf_drop st : Forall (fun s => mem_char "/" s = false) st -> drop_last_segment (outbuf st) = outbuf (tl st).
Proof.
  destruct st as [|s st']; intros H; [reflexivity|]. inversion H; subst. rewrite outbuf_cons. cbn [tl]. apply drop_last_rev. assumption.
Qed.

(* ---------- which rule of 5.2.4 fires on "/" s rest ---------- *)
Definition rest_ok (rest : chars) : Prop := rest = [] \/ exists t, rest = "/" :: t.

Lemma has_prefix_seg : forall p s rest, mem_char "/" p = false -> mem_char "/" s = false -> rest_ok rest ->
  has_prefix (p ++ ["/"]) (s ++ rest) = true -> s = p.
Proof.
  induction p as [|x p IH]; intros s rest Hp Hs R H.
  - destruct s as [|c s']; [reflexivity|]. cbn [app has_prefix] in H. apply andb_true_iff in H. destruct H as [H _].
    apply ceq_eq in H. subst c. unfold mem_char in Hs. cbn [existsb] in Hs. rewrite ceq_refl in Hs. discriminate.
  - unfold mem_char in Hp. cbn [existsb] in Hp. apply orb_false_iff in Hp. destruct Hp as [Hp1 Hp2].
    destruct s as [|c s'].
    + cbn [app] in H. destruct R as [->|[t ->]]; [discriminate|].
      cbn [has_prefix] in H. apply andb_true_iff in H. destruct H as [H _]. apply ceq_eq in H. subst x.
      rewrite ceq_refl in Hp1. discriminate.
    + unfold mem_char in Hs. cbn [existsb] in Hs. apply orb_false_iff in Hs. destruct Hs as [_ Hs2].
      cbn [app has_prefix] in H. apply andb_true_iff in H. destruct H as [H1 H2]. apply ceq_eq in H1. subst c.
      f_equal. apply (IH s' rest); assumption.
Qed.

Lemma mem_char_mid c a b : mem_char c (a ++ c :: b) = true.
Proof. unfold mem_char. rewrite existsb_app. cbn [existsb]. rewrite ceq_refl. cbn. apply orb_true_r. Qed.

Lemma chars_eqb_seg p s rest : mem_char "/" p = false -> rest_ok rest -> chars_eqb (s ++ rest) p = true -> rest = [] /\ s = p.
Proof.
  intros Hp R H. apply chars_eqb_eq in H. destruct R as [->|[t ->]].
  - rewrite app_nil_r in H. split; [reflexivity|exact H].
  - exfalso. rewrite <- H in Hp. rewrite mem_char_mid in Hp. discriminate.
Qed.

Lemma rds_unfold f c inp out :
  rds (S f) (c :: inp) out =
  let inp := c :: inp in
  if has_prefix ["."; "."; "/"] inp then rds f (skipn 3 inp) out
  else if has_prefix ["."; "/"] inp then rds f (skipn 2 inp) out
  else if has_prefix ["/"; "."; "/"] inp then rds f (skipn 2 inp) out
  else if chars_eqb inp ["/"; "."] then rds f ["/"] out
  else if has_prefix ["/"; "."; "."; "/"] inp then rds f (skipn 3 inp) (drop_last_segment out)
  else if chars_eqb inp ["/"; "."; "."] then rds f ["/"] (drop_last_segment out)
  else if chars_eqb inp ["."] || chars_eqb inp ["."; "."] then rds f [] out
  else let '(sg, rest) := take_segment inp true in rds f rest (rev sg ++ out).
Proof. reflexivity. Qed.

(* a "." segment followed by more *)
Lemma rds_dot f t out : rds (S f) ("/" :: "." :: "/" :: t) out = rds f ("/" :: t) out.
Proof. reflexivity. Qed.

(* a ".." segment followed by more *)
Lemma rds_dotdot f t out : rds (S f) ("/" :: "." :: "." :: "/" :: t) out = rds f ("/" :: t) (drop_last_segment out).
Proof. reflexivity. Qed.

(* any other segment is moved to the output buffer *)
Lemma rds_seg f s rest out : mem_char "/" s = false -> s <> [] -> rest_ok rest ->
  seg_eqb s dot = false -> seg_eqb s dotdot = false ->
  rds (S f) ("/" :: s ++ rest) out = rds f rest (rev ("/" :: s) ++ out).
Proof.
  intros Hs Hn R D DD. rewrite rds_unfold. cbv zeta.
  change (has_prefix ["."; "."; "/"] ("/" :: s ++ rest)) with false.
  change (has_prefix ["."; "/"] ("/" :: s ++ rest)) with false. cbv iota.
  assert (B1 : has_prefix ["/"; "."; "/"] ("/" :: s ++ rest) = false).
  { destruct (has_prefix ["/"; "."; "/"] ("/" :: s ++ rest)) eqn:E; [|reflexivity].
    cbn [has_prefix] in E. rewrite ceq_refl in E. cbn [andb] in E.
    assert (X : s = dot) by (apply (has_prefix_seg dot s rest); [reflexivity | exact Hs | exact R | exact E]).
    subst s. discriminate. }
  assert (B2 : chars_eqb ("/" :: s ++ rest) ["/"; "."] = false).
  { destruct (chars_eqb ("/" :: s ++ rest) ["/"; "."]) eqn:E; [|reflexivity].
    cbn [chars_eqb] in E. rewrite ceq_refl in E. cbn [andb] in E.
    destruct (chars_eqb_seg dot s rest eq_refl R E) as [_ X]. subst s. discriminate. }
  assert (C1 : has_prefix ["/"; "."; "."; "/"] ("/" :: s ++ rest) = false).
  { destruct (has_prefix ["/"; "."; "."; "/"] ("/" :: s ++ rest)) eqn:E; [|reflexivity].
    cbn [has_prefix] in E. rewrite ceq_refl in E. cbn [andb] in E.
    assert (X : s = dotdot) by (apply (has_prefix_seg dotdot s rest); [reflexivity | exact Hs | exact R | exact E]).
    subst s. discriminate. }
  assert (C2 : chars_eqb ("/" :: s ++ rest) ["/"; "."; "."] = false).
  { destruct (chars_eqb ("/" :: s ++ rest) ["/"; "."; "."]) eqn:E; [|reflexivity].
    cbn [chars_eqb] in E. rewrite ceq_refl in E. cbn [andb] in E.
    destruct (chars_eqb_seg dotdot s rest eq_refl R E) as [_ X]. subst s. discriminate. }
  rewrite B1, B2, C1, C2.
  change (chars_eqb ("/" :: s ++ rest) ["."] || chars_eqb ("/" :: s ++ rest) ["."; "."]) with false. cbv iota.
  rewrite (take_segment_first s rest Hs R). reflexivity.
Qed.

(* ---------- remove_dot_segments on characters = rds_segs on segments ---------- *)
Lemma rds_nil fuel out : rds fuel [] out = rev out.
Proof. destruct fuel; reflexivity. Qed.

Lemma rest_ok_flat segs : rest_ok (flat segs).
Proof. destruct segs as [|s r]; [left; reflexivity | right; eexists; reflexivity]. Qed.

Lemma Forall_tl {A} (P : A -> Prop) l : Forall P l -> Forall P (tl l).
Proof. destruct l; intros H; [exact H | inversion H; assumption]. Qed.

Theorem rds_flat : forall segs st fuel,
  Forall okseg segs -> Forall (fun s => mem_char "/" s = false) st ->
  (segs <> [] -> proper (last segs [])) -> List.length (flat segs) < fuel ->
  rds fuel (flat segs) (outbuf st) = flat (fst (rds_segs segs st)).
Proof.
  induction segs as [|s r IH]; intros st fuel Hs Hst Hl Hf.
  - cbn [flat flat_map]. rewrite rds_nil. unfold outbuf. rewrite rev_involutive. reflexivity.
  - inversion Hs as [|? ? [Hs1 Hs2] Hr]; subst.
    destruct fuel as [|f]; [cbn in Hf; lia|].
    destruct r as [|s2 r'].
    + (* the last segment: a proper name *)
      assert (P : proper s) by (apply Hl; discriminate).
      destruct (special_cases s P) as [_ [E2 E3]].
      change (flat [s]) with ("/" :: s ++ flat []). rewrite (rds_seg f s (flat []) _ Hs1 Hs2 (rest_ok_flat []) E2 E3).
      cbn [flat flat_map]. rewrite rds_nil. rewrite <- outbuf_cons. unfold outbuf. rewrite rev_involutive.
      cbn [rds_segs]. rewrite E2, E3. reflexivity.
    + assert (Hl' : s2 :: r' <> [] -> proper (last (s2 :: r') [])) by (intros _; apply Hl; discriminate).
      assert (Hf' : List.length (flat (s2 :: r')) < f).
      { change (flat (s :: s2 :: r')) with ("/" :: s ++ flat (s2 :: r')) in Hf. cbn [List.length] in Hf. rewrite app_length in Hf.
        destruct s; [contradiction|]. cbn [List.length] in Hf. lia. }
      rewrite rds_segs_cons.
      destruct (seg_eqb s dot) eqn:E2.
      * apply chars_eqb_eq in E2. subst s.
        change (flat (dot :: s2 :: r')) with ("/" :: "." :: "/" :: (s2 ++ flat r')). rewrite rds_dot.
        change ("/" :: s2 ++ flat r') with (flat (s2 :: r')). apply IH; assumption.
      * destruct (seg_eqb s dotdot) eqn:E3.
        -- apply chars_eqb_eq in E3. subst s.
           change (flat (dotdot :: s2 :: r')) with ("/" :: "." :: "." :: "/" :: (s2 ++ flat r')). rewrite rds_dotdot.
           change ("/" :: s2 ++ flat r') with (flat (s2 :: r')). rewrite (outbuf_drop st Hst).
           apply IH; try assumption. apply Forall_tl, Hst.
        -- change (flat (s :: s2 :: r')) with ("/" :: s ++ flat (s2 :: r')).
           rewrite (rds_seg f s (flat (s2 :: r')) _ Hs1 Hs2 (rest_ok_flat _) E2 E3). rewrite <- outbuf_cons.
           apply IH; try assumption. constructor; assumption.
Qed.

Corollary remove_dot_segments_flat segs : Forall okseg segs -> segs <> [] -> proper (last segs []) ->
  remove_dot_segments (flat segs) = flat (fst (rds_segs segs [])).
Proof.
  intros Hs Hn Hl. unfold remove_dot_segments.
  apply (rds_flat segs [] (S (List.length (flat segs)))); [exact Hs | constructor | intros _; exact Hl | lia].
Qed.

(* ---------- path.Clean on characters = clean_segs on segments ---------- *)
Lemma okseg_no_slash segs : Forall okseg segs -> Forall no_slash segs.
Proof. intros H. apply Forall_forall. intros x Hx. rewrite Forall_forall in H. destruct (H x Hx) as [Q _]. exact Q. Qed.

Lemma split_flat_cons : forall r s, mem_char "/" s = false -> Forall no_slash r -> split_on "/" (s ++ flat r) = s :: r.
Proof.
  induction r as [|s2 r IH]; intros s Hs Hr.
  - cbn [flat flat_map]. rewrite app_nil_r. apply split_single, Hs.
  - inversion Hr as [|? ? H1 Hr']; subst. change (flat (s2 :: r)) with ("/" :: s2 ++ flat r).
    rewrite (split_app_sep "/" s _ Hs). f_equal. apply IH; assumption.
Qed.

Lemma split_flat segs : Forall no_slash segs -> split_on "/" (flat segs) = [] :: segs.
Proof.
  destruct segs as [|s r]; intros H; [reflexivity|]. inversion H as [|? ? H1 Hr]; subst.
  change (flat (s :: r)) with ("/" :: s ++ flat r). cbn [split_on]. rewrite ceq_refl.
  rewrite (split_flat_cons r s H1 Hr). reflexivity.
Qed.

Lemma clean_flat segs : Forall no_slash segs -> segs <> [] -> clean (flat segs) = abs_path_of (clean_segs true segs []).
Proof.
  intros H N. destruct segs as [|s r]; [contradiction|].
  unfold clean. change (flat (s :: r)) with ("/" :: s ++ flat r). cbv iota.
  change (is_abs ("/" :: s ++ flat r)) with true.
  change ("/" :: s ++ flat r) with (flat (s :: r)). rewrite (split_flat _ H).
  rewrite clean_segs_cons. change (seg_eqb [] [] || seg_eqb [] dot) with true. cbv iota.
  unfold abs_path_of. destruct (clean_segs true (s :: r) []); reflexivity.
Qed.

Lemma clean_segs_last_proper : forall segs st, segs <> [] -> proper (last segs []) -> clean_segs true segs st <> [].
Proof.
  induction segs as [|s r IH]; intros st N P; [contradiction|].
  destruct r as [|s2 r'].
  - cbn [last] in P. destruct (special_cases s P) as [E1 [E2 E3]].
    rewrite clean_segs_cons, E1, E2, E3. cbn [orb clean_segs]. intros X.
    apply (f_equal (@List.length seg)) in X. rewrite rev_length in X. cbn in X. discriminate.
  - assert (P' : proper (last (s2 :: r') [])) by exact P.
    rewrite clean_segs_cons.
    destruct (seg_eqb s [] || seg_eqb s dot); [apply IH; [discriminate|exact P']|].
    destruct (seg_eqb s dotdot).
    + destruct st as [|top st']; [apply IH; [discriminate|exact P']|].
      destruct (seg_eqb top dotdot); apply IH; try discriminate; exact P'.
    + apply IH; [discriminate|exact P'].
Qed.

(* ---------- the two character-level functions agree ---------- *)
Theorem rfc_dot_removal_is_clean_on_text segs : Forall okseg segs -> segs <> [] -> proper (last segs []) ->
  remove_dot_segments (flat segs) = clean (flat segs).
Proof.
  intros H N P.
  rewrite (remove_dot_segments_flat segs H N P), (clean_flat segs (okseg_no_slash segs H) N).
  rewrite (rds_segs_is_clean segs []); [| constructor | | exact N | exact P].
  - cbn [fst]. apply flat_abs. apply clean_segs_last_proper; assumption.
  - apply Forall_forall. intros x Hx. rewrite Forall_forall in H. destruct (H x Hx) as [_ Q]. exact Q.
Qed.

(* non-vacuity: dots, double dots climbing above the root, an escaped blank, then a file name *)
Example path_text_example :
  let segs := [s2l "a"; dotdot; dotdot; s2l "%20x"; dot; s2l "b.c"; dotdot; s2l "f.json"] in
  Forall okseg segs /\ proper (last segs []) /\ flat segs = s2l "/a/../../%20x/./b.c/../f.json"
  /\ clean (flat segs) = s2l "/%20x/f.json".
Proof.
  cbv zeta. split; [|split; [|split]]; try reflexivity.
  repeat constructor; discriminate.
Qed.

(* ---------- the path computation of normalizeURI (path.Join(path.Dir(base), ref)) is RFC 3986's merge followed by
   remove_dot_segments, on texts: base path "/b1/.../bn/file" (a canonical location: proper segments), relative reference
   "r1/.../rm" with non-empty segments ending in a proper name, dots and double dots anywhere before it ---------- *)
Lemma last_slash_prefix_file : forall X file, mem_char "/" file = false -> last_slash_prefix (X ++ "/" :: file) = X ++ ["/"].
Proof.
  induction X as [|x X IH]; intros file H.
  - cbn [app last_slash_prefix]. rewrite H, ceq_refl. reflexivity.
  - cbn [app last_slash_prefix]. rewrite mem_char_mid. f_equal. apply IH, H.
Qed.

Lemma flat_nil_seg segs : flat (segs ++ [[]]) = flat segs ++ ["/"].
Proof. rewrite flat_app. reflexivity. Qed.

Lemma join_flat rs : rs <> [] -> "/" :: join_with "/" rs = flat rs.
Proof. intros N. rewrite (flat_abs rs N). destruct rs; [contradiction|reflexivity]. Qed.

Lemma proper_ok_no_slash bs : Forall okseg bs -> Forall no_slash (bs ++ [[]]).
Proof. intros H. apply Forall_app. split; [apply okseg_no_slash, H | constructor; [reflexivity|constructor]]. Qed.

Lemma dir_of_file bs file : Forall okseg bs -> Forall proper bs -> mem_char "/" file = false ->
  dir (flat bs ++ "/" :: file) = abs_path_of bs.
Proof.
  intros Hb Pb Hf. unfold dir. rewrite (last_slash_prefix_file _ file Hf). rewrite <- flat_nil_seg.
  rewrite clean_flat; [| apply proper_ok_no_slash, Hb | destruct bs; discriminate].
  rewrite (insert_empty true bs [] []). rewrite app_nil_r. rewrite (clean_segs_proper true bs [] Pb). reflexivity.
Qed.

Lemma last_app_ne {A} (a b : list A) d : b <> [] -> last (a ++ b) d = last b d.
Proof.
  intros N. induction a as [|x a IH]; [reflexivity|]. cbn [app]. destruct (a ++ b) eqn:E.
  - destruct a; [cbn in E; subst; contradiction|discriminate].
  - rewrite <- E in *. cbn [last]. rewrite E. rewrite <- E. exact IH.
Qed.

Theorem go_join_is_rfc_merge bs file rs :
  Forall okseg bs -> Forall proper bs -> okseg file ->
  Forall okseg rs -> rs <> [] -> proper (last rs []) ->
  let bp := flat (bs ++ [file]) in
  let rp := join_with "/" rs in
  join2 (dir bp) rp = remove_dot_segments (merge true bp rp).
Proof.
  intros Hb Pb [Hf _] Hr Nr Pl bp rp. unfold bp, rp.
  rewrite flat_app. change (flat [file]) with ("/" :: file ++ []). rewrite app_nil_r.
  rewrite (dir_of_file bs file Hb Pb Hf).
  assert (RN : join_with "/" rs <> []).
  { destruct rs as [|s r]; [contradiction|]. inversion Hr as [|? ? [_ Hs] _]; subst.
    destruct r; cbn [join_with]; [exact Hs|]. destruct s; [contradiction|discriminate]. }
  assert (M : merge true (flat bs ++ "/" :: file) (join_with "/" rs) = flat (bs ++ rs)).
  { unfold merge. assert (NE : nonempty (flat bs ++ "/" :: file) = true) by (destruct (flat bs); reflexivity).
    rewrite NE. cbn [negb andb]. rewrite (last_slash_prefix_file _ file Hf).
    rewrite <- app_assoc. cbn [app]. rewrite (join_flat rs Nr), flat_app. reflexivity. }
  rewrite M.
  assert (ALL : Forall okseg (bs ++ rs)) by (apply Forall_app; split; assumption).
  assert (NA : bs ++ rs <> []) by (destruct bs; [exact Nr|discriminate]).
  assert (LA : proper (last (bs ++ rs) [])) by (rewrite last_app_ne; assumption).
  rewrite (rfc_dot_removal_is_clean_on_text (bs ++ rs) ALL NA LA).
  unfold join2. destruct (abs_path_of bs) as [|a0 ar] eqn:EA; [destruct bs; discriminate|].
  destruct (join_with "/" rs) as [|j0 jr] eqn:EJ; [contradiction|]. rewrite <- EA, <- EJ.
  destruct bs as [|b0 br].
  - (* the base document sits in the root folder: "/" ++ "/" ++ rp *)
    cbn [abs_path_of app]. rewrite (join_flat rs Nr).
    change ("/" :: flat rs) with (flat ([] :: rs)).
    rewrite (clean_flat ([] :: rs)); [|constructor; [reflexivity|apply okseg_no_slash, Hr]|discriminate].
    rewrite clean_segs_cons. change (seg_eqb [] [] || seg_eqb [] dot) with true. cbv iota.
    rewrite (clean_flat rs (okseg_no_slash rs Hr) Nr). reflexivity.
  - rewrite <- (flat_abs (b0 :: br)) by discriminate. rewrite (join_flat rs Nr), <- flat_app. reflexivity.
Qed.

Example go_join_example :
  let bs := [s2l "r"; s2l "a%20b"] in let file := s2l "root.json" in
  let rs := [dotdot; dotdot; dotdot; s2l "x"; dot; s2l "other.json"] in
  Forall okseg bs /\ Forall proper bs /\ okseg file /\ Forall okseg rs /\ proper (last rs [])
  /\ join2 (dir (flat (bs ++ [file]))) (join_with "/" rs) = s2l "/x/other.json".
Proof. cbv zeta. repeat split; try reflexivity; try discriminate; repeat constructor; try discriminate. Qed.
