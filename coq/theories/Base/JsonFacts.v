(* Generic facts about JSON trees. *)
From Coq Require Import List String Arith Lia.
From Spec Require Import Base.Json.
Import ListNotations.

(* ---------- induction on the size of JSON trees ---------- *)
Fixpoint jsize (j : json) : nat :=
  match j with
  | JArr l => S ((fix go (l : list json) : nat := match l with [] => 0 | x :: r => jsize x + go r end) l)
  | JObj m => S ((fix go (m : list (string * json)) : nat := match m with [] => 0 | kv :: r => jsize (snd kv) + go r end) m)
  | _ => 1
  end.

Lemma jsize_elem l x : In x l -> jsize x < jsize (JArr l).
Proof.
  cbn [jsize]. induction l as [|y r IH]; intros H; [destruct H|].
  destruct H as [->|H]; [lia|]. specialize (IH H). lia.
Qed.
Lemma jsize_value m k x : In (k, x) m -> jsize x < jsize (JObj m).
Proof.
  cbn [jsize]. induction m as [|[k' y] r IH]; intros H; [destruct H|].
  destruct H as [E|H]; [inversion E; subst; cbn [snd]; lia|]. specialize (IH H). cbn [snd]. lia.
Qed.

