(* JSON trees, a parser from bytes and a printer to bytes.
   Definitions only.  The parser/printer are the glue through which the extracted model
   reads its cases and prints its verdicts; the theorems elsewhere are about [json] trees. *)
From Coq Require Import List String Ascii ZArith Bool.
Import ListNotations.
Local Open Scope char_scope.

(* A number is m * 10^e, kept as written ("100" = (100,0), "1e2" = (1,2), "1.50" = (150,-2)). *)
Inductive json :=
| JNull
| JBool (b : bool)
| JNum (m : Z) (e : Z)
| JStr (s : string)
| JArr (l : list json)
| JObj (m : list (string * json)).

Definition chars := list ascii.
Definition s2l (s : string) : chars := list_ascii_of_string s.
Definition l2s (l : chars) : string := string_of_list_ascii l.

(* ---------- association lists ---------- *)
Fixpoint assoc {A} (k : string) (l : list (string * A)) : option A :=
  match l with
  | [] => None
  | (k', v) :: r => if String.eqb k k' then Some v else assoc k r
  end.

Fixpoint upd {A} (k : string) (v : A) (l : list (string * A)) : list (string * A) :=
  match l with
  | [] => [(k, v)]
  | (k', v') :: r => if String.eqb k k' then (k, v) :: r else (k', v') :: upd k v r
  end.

Fixpoint remove_key {A} (k : string) (l : list (string * A)) : list (string * A) :=
  match l with
  | [] => []
  | (k', v) :: r => if String.eqb k k' then remove_key k r else (k', v) :: remove_key k r
  end.

Definition keys {A} (l : list (string * A)) : list string := map fst l.

Fixpoint mem_str (s : string) (l : list string) : bool :=
  match l with [] => false | x :: r => String.eqb s x || mem_str s r end.

Fixpoint nodup_str (l : list string) : bool :=
  match l with [] => true | x :: r => negb (mem_str x r) && nodup_str r end.

Definition jfield (k : string) (j : json) : option json :=
  match j with JObj m => assoc k m | _ => None end.

Definition jstr_of (j : json) : option string :=
  match j with JStr s => Some s | _ => None end.

(* ---------- numbers ---------- *)
Fixpoint strip10 (fuel : nat) (m e : Z) : Z * Z :=
  match fuel with
  | O => (m, e)
  | S f => if Z.eqb m 0 then (0%Z, 0%Z)
           else if Z.eqb (Z.rem m 10) 0 then strip10 f (Z.quot m 10) (e + 1)%Z else (m, e)
  end.
Definition num_norm (m e : Z) : Z * Z := strip10 (Z.to_nat (Z.log2 (Z.abs m)) + 1) m e.
Definition num_eqb (m1 e1 m2 e2 : Z) : bool :=
  let '(a, b) := num_norm m1 e1 in let '(c, d) := num_norm m2 e2 in Z.eqb a c && Z.eqb b d.

(* value of a number when it is an integer *)
Definition num_int (m e : Z) : option Z :=
  let '(a, b) := num_norm m e in if Z.leb 0 b then Some (a * Z.pow 10 b)%Z else None.

(* ---------- structural equality ---------- *)
Fixpoint json_eqb (a b : json) {struct a} : bool :=
  match a, b with
  | JNull, JNull => true
  | JBool x, JBool y => Bool.eqb x y
  | JNum m e, JNum m' e' => num_eqb m e m' e'
  | JStr s, JStr t => String.eqb s t
  | JArr l, JArr l' =>
      (fix go (l l' : list json) : bool :=
         match l, l' with
         | [], [] => true
         | x :: r, y :: r' => json_eqb x y && go r r'
         | _, _ => false
         end) l l'
  | JObj m, JObj m' =>
      (fix go (m m' : list (string * json)) : bool :=
         match m, m' with
         | [], [] => true
         | (k, x) :: r, (k', y) :: r' => String.eqb k k' && json_eqb x y && go r r'
         | _, _ => false
         end) m m'
  | _, _ => false
  end.

(* ---------- printer ---------- *)
Definition digit_char (n : Z) : ascii := ascii_of_nat (48 + Z.to_nat n).
Fixpoint pos_digits (fuel : nat) (n : Z) (acc : chars) : chars :=
  match fuel with
  | O => acc
  | S f => if Z.ltb n 10 then digit_char n :: acc
           else pos_digits f (Z.quot n 10) (digit_char (Z.rem n 10) :: acc)
  end.
Definition z_chars (n : Z) : chars :=
  let a := Z.abs n in
  let ds := pos_digits (Z.to_nat (Z.log2 a) + 2) a [] in
  if Z.ltb n 0 then "-" :: ds else ds.
Definition z_string (n : Z) : string := l2s (z_chars n).

Definition hex_char (n : nat) : ascii :=
  if Nat.ltb n 10 then ascii_of_nat (48 + n) else ascii_of_nat (87 + n).

Fixpoint esc_chars (s : chars) : chars :=
  match s with
  | [] => []
  | c :: r =>
      let n := nat_of_ascii c in
      if Nat.eqb n 34 then "\" :: """" :: esc_chars r
      else if Nat.eqb n 92 then "\" :: "\" :: esc_chars r
      else if Nat.ltb n 32 then
        "\" :: "u" :: "0" :: "0" :: hex_char (Nat.div n 16) :: hex_char (Nat.modulo n 16) :: esc_chars r
      else c :: esc_chars r
  end.
Definition quote_chars (s : string) : chars := """" :: esc_chars (s2l s) ++ [""""].

Definition num_chars (m e : Z) : chars :=
  let '(a, b) := num_norm m e in
  if Z.eqb b 0 then z_chars a else z_chars a ++ "e" :: z_chars b.

Fixpoint print_chars (j : json) : chars :=
  match j with
  | JNull => s2l "null"
  | JBool true => s2l "true"
  | JBool false => s2l "false"
  | JNum m e => num_chars m e
  | JStr s => quote_chars s
  | JArr l =>
      "[" :: (fix go (l : list json) (first : bool) : chars :=
                match l with
                | [] => ["]"]
                | x :: r => (if first then [] else [","]) ++ print_chars x ++ go r false
                end) l true
  | JObj m =>
      "{" :: (fix go (m : list (string * json)) (first : bool) : chars :=
                match m with
                | [] => ["}"]
                | (k, x) :: r =>
                    (if first then [] else [","]) ++ quote_chars k ++ ":" :: print_chars x ++ go r false
                end) m true
  end.
Definition print_json (j : json) : string := l2s (print_chars j).

(* ---------- parser ---------- *)
Definition is_ws (c : ascii) : bool :=
  let n := nat_of_ascii c in Nat.eqb n 32 || Nat.eqb n 9 || Nat.eqb n 10 || Nat.eqb n 13.
Fixpoint skip_ws (s : chars) : chars :=
  match s with c :: r => if is_ws c then skip_ws r else s | [] => [] end.

Definition digit_val (c : ascii) : option Z :=
  let n := nat_of_ascii c in
  if Nat.leb 48 n && Nat.leb n 57 then Some (Z.of_nat (n - 48)) else None.
Definition hex_val (c : ascii) : option nat :=
  let n := nat_of_ascii c in
  if Nat.leb 48 n && Nat.leb n 57 then Some (n - 48)
  else if Nat.leb 97 n && Nat.leb n 102 then Some (n - 87)
  else if Nat.leb 65 n && Nat.leb n 70 then Some (n - 55)
  else None.

(* digits: returns value, count, rest *)
Fixpoint p_digits (s : chars) (acc : Z) (cnt : Z) : Z * Z * chars :=
  match s with
  | c :: r => match digit_val c with
              | Some d => p_digits r (acc * 10 + d)%Z (cnt + 1)%Z
              | None => (acc, cnt, s)
              end
  | [] => (acc, cnt, [])
  end.

Definition p_num (s : chars) : option (json * chars) :=
  let '(neg, s1) := match s with "-" :: r => (true, r) | _ => (false, s) end in
  let '(ip, icnt, s2) := p_digits s1 0%Z 0%Z in
  if Z.eqb icnt 0 then None else
  let '(m, fcnt, s3) :=
    match s2 with
    | "." :: r => let '(v, c, r') := p_digits r ip 0%Z in (v, c, r')
    | _ => (ip, 0%Z, s2)
    end in
  let bad_frac := match s2 with "." :: _ => Z.eqb fcnt 0 | _ => false end in
  if bad_frac then None else
  let '(ex, s4, bad_exp) :=
    match s3 with
    | c :: r =>
        if (Nat.eqb (nat_of_ascii c) 101 || Nat.eqb (nat_of_ascii c) 69)%bool then
          let '(eneg, r1) := match r with "-" :: t => (true, t) | "+" :: t => (false, t) | _ => (false, r) end in
          let '(ev, ecnt, r2) := p_digits r1 0%Z 0%Z in
          ((if eneg then (- ev)%Z else ev), r2, Z.eqb ecnt 0)
        else (0%Z, s3, false)
    | [] => (0%Z, s3, false)
    end in
  if bad_exp then None else
  Some (JNum (if neg then (- m)%Z else m) (ex - fcnt)%Z, s4).

(* UTF-8 encoding of a code point *)
Definition aN (n : N) : ascii := ascii_of_N n.
Definition utf8 (cp : N) : chars :=
  (if N.ltb cp 128 then [aN cp]
   else if N.ltb cp 2048 then [aN (192 + N.div cp 64); aN (128 + N.modulo cp 64)]
   else if N.ltb cp 65536 then
     [aN (224 + N.div cp 4096); aN (128 + N.modulo (N.div cp 64) 64); aN (128 + N.modulo cp 64)]
   else
     [aN (240 + N.div cp 262144); aN (128 + N.modulo (N.div cp 4096) 64);
      aN (128 + N.modulo (N.div cp 64) 64); aN (128 + N.modulo cp 64)])%N.

Definition p_hex4 (s : chars) : option (N * chars) :=
  match s with
  | a :: b :: c :: d :: r =>
      match hex_val a, hex_val b, hex_val c, hex_val d with
      | Some x, Some y, Some z, Some w => Some (N.of_nat (((x * 16 + y) * 16 + z) * 16 + w), r)
      | _, _, _, _ => None
      end
  | _ => None
  end.

(* body of a string after the opening quote; fuel = length *)
Fixpoint p_str (fuel : nat) (s : chars) (acc : chars) : option (string * chars) :=
  match fuel with
  | O => None
  | S f =>
      match s with
      | [] => None
      | c :: r =>
          let n := nat_of_ascii c in
          if Nat.eqb n 34 then Some (l2s (rev acc), r)
          else if Nat.eqb n 92 then
            match r with
            | e :: r' =>
                let m := nat_of_ascii e in
                if Nat.eqb m 110 then p_str f r' (ascii_of_nat 10 :: acc)
                else if Nat.eqb m 116 then p_str f r' (ascii_of_nat 9 :: acc)
                else if Nat.eqb m 114 then p_str f r' (ascii_of_nat 13 :: acc)
                else if Nat.eqb m 98 then p_str f r' (ascii_of_nat 8 :: acc)
                else if Nat.eqb m 102 then p_str f r' (ascii_of_nat 12 :: acc)
                else if Nat.eqb m 117 then
                  match p_hex4 r' with
                  | Some (cp, r'') =>
                      if (N.leb 55296 cp && N.ltb cp 56320)%N then
                        match r'' with
                        | b1 :: b2 :: r3 =>
                            if Nat.eqb (nat_of_ascii b1) 92 && Nat.eqb (nat_of_ascii b2) 117 then
                              match p_hex4 r3 with
                              | Some (lo, r4) =>
                                  p_str f r4 (rev (utf8 (65536 + (cp - 55296) * 1024 + (lo - 56320))%N) ++ acc)
                              | None => None
                              end
                            else None
                        | _ => None
                        end
                      else p_str f r'' (rev (utf8 cp) ++ acc)
                  | None => None
                  end
                else if Nat.eqb m 34 || Nat.eqb m 92 || Nat.eqb m 47 then p_str f r' (e :: acc)
                else None
            | [] => None
            end
          else if Nat.ltb n 32 then None
          else p_str f r (c :: acc)
      end
  end.

Fixpoint pv (n : nat) (s : chars) {struct n} : option (json * chars) :=
  match n with
  | O => None
  | S n' =>
      match skip_ws s with
      | "n" :: "u" :: "l" :: "l" :: r => Some (JNull, r)
      | "t" :: "r" :: "u" :: "e" :: r => Some (JBool true, r)
      | "f" :: "a" :: "l" :: "s" :: "e" :: r => Some (JBool false, r)
      | """" :: r => match p_str (S (List.length r)) r [] with
                     | Some (str, r') => Some (JStr str, r')
                     | None => None
                     end
      | "[" :: r =>
          match skip_ws r with
          | "]" :: r' => Some (JArr [], r')
          | _ => parr n' r []
          end
      | "{" :: r =>
          match skip_ws r with
          | "}" :: r' => Some (JObj [], r')
          | _ => pobj n' r []
          end
      | c :: r => p_num (c :: r)
      | [] => None
      end
  end
with parr (n : nat) (s : chars) (acc : list json) {struct n} : option (json * chars) :=
  match n with
  | O => None
  | S n' =>
      match pv n' s with
      | Some (v, r) =>
          match skip_ws r with
          | "," :: r' => parr n' r' (v :: acc)
          | "]" :: r' => Some (JArr (rev (v :: acc)), r')
          | _ => None
          end
      | None => None
      end
  end
with pobj (n : nat) (s : chars) (acc : list (string * json)) {struct n} : option (json * chars) :=
  match n with
  | O => None
  | S n' =>
      match skip_ws s with
      | """" :: r =>
          match p_str (S (List.length r)) r [] with
          | Some (k, r1) =>
              match skip_ws r1 with
              | ":" :: r2 =>
                  match pv n' r2 with
                  | Some (v, r3) =>
                      match skip_ws r3 with
                      | "," :: r4 => pobj n' r4 ((k, v) :: acc)
                      | "}" :: r4 => Some (JObj (rev ((k, v) :: acc)), r4)
                      | _ => None
                      end
                  | None => None
                  end
              | _ => None
              end
          | None => None
          end
      | _ => None
      end
  end.

Definition parse_json (s : string) : option json :=
  let l := s2l s in
  match pv (2 * List.length l + 2) l with
  | Some (j, r) => match skip_ws r with [] => Some j | _ => None end
  | None => None
  end.

(* ---------- small helpers used by drivers ---------- *)
Definition jget_str (k : string) (j : json) : string :=
  match jfield k j with Some (JStr s) => s | _ => EmptyString end.
Definition jget (k : string) (j : json) : json :=
  match jfield k j with Some v => v | None => JNull end.
Definition jget_bool (k : string) (j : json) : bool :=
  match jfield k j with Some (JBool b) => b | _ => false end.
Definition jget_list (k : string) (j : json) : list json :=
  match jfield k j with Some (JArr l) => l | _ => [] end.
Definition jget_int (k : string) (j : json) : Z :=
  match jfield k j with Some (JNum m e) => match num_int m e with Some z => z | None => 0%Z end | _ => 0%Z end.
Definition jopt (o : option json) : json := match o with Some j => j | None => JNull end.
Definition jint (z : Z) : json := JNum z 0.
