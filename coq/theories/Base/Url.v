(* Executable model of the URL handling the package relies on:
   - package path: Clean, Dir, Join, IsAbs (as the segment-stack machine the Go documentation specifies)
   - net/url: Parse and String for URLs of the form [scheme ":"] ["//" host] path ["?" query] ["#" fragment]
     (no userinfo, no IPv6 literal, no opaque part: those inputs are reported as [PUnsupported])
   - jsonreference: New / String / the five flags / IsCanonical / IsRoot
   - normalizer.go: normalizeBase, normalizeURI, rebase, denormalizeRef
   Definitions only.  Validated against the implementation by the differential run (clusters "url"). *)
From Coq Require Import List String Ascii Bool Arith.
From Spec Require Import Base.Json.
Import ListNotations.
Local Open Scope char_scope.

(* ---------- characters and char lists ---------- *)
Definition an (c : ascii) : nat := nat_of_ascii c.
Definition is_alpha (c : ascii) : bool :=
  let n := an c in (Nat.leb 65 n && Nat.leb n 90) || (Nat.leb 97 n && Nat.leb n 122).
Definition is_digit (c : ascii) : bool := let n := an c in Nat.leb 48 n && Nat.leb n 57.
Definition is_alnum (c : ascii) : bool := is_alpha c || is_digit c.
Definition lower (c : ascii) : ascii :=
  let n := an c in if Nat.leb 65 n && Nat.leb n 90 then ascii_of_nat (n + 32) else c.
Definition ceq (a b : ascii) : bool := Ascii.eqb a b.
Definition mem_char (c : ascii) (l : chars) : bool := existsb (ceq c) l.

Fixpoint chars_eqb (a b : chars) : bool :=
  match a, b with
  | [], [] => true
  | x :: a', y :: b' => ceq x y && chars_eqb a' b'
  | _, _ => false
  end.

Fixpoint has_prefix (p s : chars) : bool :=
  match p, s with
  | [], _ => true
  | x :: p', y :: s' => ceq x y && has_prefix p' s'
  | _ :: _, [] => false
  end.
Definition drop_prefix (p s : chars) : chars :=   (* strings.TrimPrefix *)
  if has_prefix p s then skipn (List.length p) s else s.
Definition has_suffix (p s : chars) : bool := has_prefix (rev p) (rev s).

(* strings.Cut at the first occurrence of c *)
Fixpoint cut (c : ascii) (s : chars) : chars * option chars :=
  match s with
  | [] => ([], None)
  | x :: r => if ceq x c then ([], Some r)
              else let '(a, b) := cut c r in (x :: a, b)
  end.
Definition count_char (c : ascii) (s : chars) : nat := List.length (filter (ceq c) s).

(* split on c: always at least one piece *)
Fixpoint split_on (c : ascii) (s : chars) : list chars :=
  match s with
  | [] => [[]]
  | x :: r => if ceq x c then [] :: split_on c r
              else match split_on c r with
                   | p :: ps => (x :: p) :: ps
                   | [] => [[x]]
                   end
  end.
Fixpoint join_with (c : ascii) (l : list chars) : chars :=
  match l with
  | [] => []
  | [p] => p
  | p :: r => p ++ c :: join_with c r
  end.

(* ---------- package path ---------- *)
Definition seg := chars.
Definition dot : seg := ["."].
Definition dotdot : seg := ["."; "."].
Definition seg_eqb := chars_eqb.

(* the stack machine of path.Clean; [st] is the output stack, most recent segment first *)
Fixpoint clean_segs (rooted : bool) (segs : list seg) (st : list seg) : list seg :=
  match segs with
  | [] => rev st
  | s :: r =>
      if seg_eqb s [] || seg_eqb s dot then clean_segs rooted r st
      else if seg_eqb s dotdot then
        match st with
        | top :: st' => if seg_eqb top dotdot then clean_segs rooted r (s :: st)
                        else clean_segs rooted r st'
        | [] => if rooted then clean_segs rooted r [] else clean_segs rooted r [s]
        end
      else clean_segs rooted r (s :: st)
  end.

Definition is_abs (p : chars) : bool := match p with "/" :: _ => true | _ => false end.

Definition clean (p : chars) : chars :=
  match p with
  | [] => dot
  | _ =>
      let rooted := is_abs p in
      let out := clean_segs rooted (split_on "/" p) [] in
      match out, rooted with
      | [], true => ["/"]
      | [], false => dot
      | _, true => "/" :: join_with "/" out
      | _, false => join_with "/" out
      end
  end.

(* path.Split: everything up to and including the last slash *)
Fixpoint last_slash_prefix (s : chars) : chars :=
  match s with
  | [] => []
  | x :: r => if mem_char "/" r then x :: last_slash_prefix r
              else if ceq x "/" then [x] else []
  end.
Definition dir (p : chars) : chars := clean (last_slash_prefix p).

Definition join2 (a b : chars) : chars :=
  match a, b with
  | [], [] => []
  | [], _ => clean b
  | _, [] => clean a
  | _, _ => clean (a ++ "/" :: b)
  end.

(* ---------- net/url ---------- *)
Record url := mkUrl {
  u_scheme : chars; u_host : chars; u_path : chars; u_rawpath : chars;
  u_forceq : bool; u_query : chars; u_frag : chars; u_rawfrag : chars;
  u_omithost : bool (* scheme present, no "//": printed back without "//" unless cleared *) }.

Definition empty_url : url := mkUrl [] [] [] [] false [] [] [] false.

Inductive presult (A : Type) := POk (a : A) | PErr | PUnsupported.
Arguments POk {A}. Arguments PErr {A}. Arguments PUnsupported {A}.

Inductive emode := EPath | EFragment | EHost.

Definition should_escape (c : ascii) (m : emode) : bool :=
  if is_alnum c then false
  else if mem_char c ["-"; "_"; "."; "~"] then false
  else
    let host_ok := mem_char c ["!"; "$"; "&"; "'"; "("; ")"; "*"; "+"; ","; ";"; "="; ":"; "["; "]"; "<"; ">"; """"] in
    match m with
    | EHost => negb host_ok
    | EPath => if mem_char c ["$"; "&"; "+"; ","; "/"; ":"; ";"; "="; "@"] then false else true
    | EFragment =>
        if mem_char c ["$"; "&"; "+"; ","; "/"; ":"; ";"; "="; "?"; "@"] then false
        else if mem_char c ["!"; "("; ")"; "*"] then false else true
    end.

Definition hex_up (n : nat) : ascii := if Nat.ltb n 10 then ascii_of_nat (48 + n) else ascii_of_nat (55 + n).

Fixpoint escape (m : emode) (s : chars) : chars :=
  match s with
  | [] => []
  | c :: r => if should_escape c m then "%" :: hex_up (Nat.div (an c) 16) :: hex_up (Nat.modulo (an c) 16) :: escape m r
              else c :: escape m r
  end.

Fixpoint unescape (fuel : nat) (s : chars) : option chars :=
  match fuel with
  | O => Some []
  | S f =>
      match s with
      | [] => Some []
      | "%" :: a :: b :: r =>
          match hex_val a, hex_val b, unescape f r with
          | Some x, Some y, Some t => Some (ascii_of_nat (x * 16 + y) :: t)
          | _, _, _ => None
          end
      | "%" :: _ => None
      | c :: r => match unescape f r with Some t => Some (c :: t) | None => None end
      end
  end.
Definition unesc (s : chars) : option chars := unescape (S (List.length s)) s.

Definition valid_encoded (m : emode) (s : chars) : bool :=
  forallb (fun c =>
    if mem_char c ["!"; "$"; "&"; "'"; "("; ")"; "*"; "+"; ","; ";"; "="; ":"; "@"; "["; "]"; "%"] then true
    else negb (should_escape c m)) s.

Definition has_ctl (s : chars) : bool := existsb (fun c => Nat.ltb (an c) 32 || Nat.eqb (an c) 127) s.

(* scheme: Some (scheme, rest) / None on "missing protocol scheme" *)
Fixpoint get_scheme_go (s : chars) (acc : chars) (first : bool) (whole : chars) : option (chars * chars) :=
  match s with
  | [] => Some ([], whole)
  | c :: r =>
      if is_alpha c then get_scheme_go r (c :: acc) false whole
      else if is_digit c || mem_char c ["+"; "-"; "."] then
        if first then Some ([], whole) else get_scheme_go r (c :: acc) false whole
      else if ceq c ":" then
        if first then None else Some (rev acc, r)
      else Some ([], whole)
  end.

Definition nonempty (s : chars) : bool := match s with [] => false | _ => true end.
Definition all_digits (s : chars) : bool := forallb is_digit s.

(* text after the last ':' of a host, if any *)
Definition split_last_colon (h : chars) : option (chars * chars) :=
  match cut ":" (rev h) with
  | (p, Some hr) => Some (rev hr, rev p)
  | (_, None) => None
  end.

Definition parse_host (h : chars) : presult chars :=
  if mem_char "@" h || mem_char "[" h || mem_char "]" h || mem_char "%" h then PUnsupported
  else if existsb (fun c => Nat.ltb (an c) 128 && should_escape c EHost) h then PErr
  else match split_last_colon h with
       | Some (_, p) => if all_digits p then POk h else PErr
       | None => POk h
       end.

Definition parse_url (raw : chars) : presult url :=
  if has_ctl raw then PErr else
  let '(u, fr) := cut "#" raw in
  let frag_raw := match fr with Some f => f | None => [] end in
  match get_scheme_go u [] true u with
  | None => PErr
  | Some (sch0, rest0) =>
      let sch := map lower sch0 in
      let '(rest1, forceq, query) :=
        if has_suffix ["?"] rest0 && Nat.eqb (count_char "?" rest0) 1 then (removelast rest0, true, [])
        else match cut "?" rest0 with (a, Some q) => (a, false, q) | (a, None) => (a, false, []) end in
      if negb (is_abs rest1) && negb (match sch with [] => true | _ => false end) then PUnsupported (* opaque *)
      else if negb (is_abs rest1) && mem_char ":" (fst (cut "/" rest1)) then PErr
      else
        let '(host_r, rest2) :=
          if has_prefix ["/"; "/"] rest1 && (negb (match sch with [] => true | _ => false end) || negb (has_prefix ["/"; "/"; "/"] rest1))
          then let body := skipn 2 rest1 in
               let '(auth, tl) := cut "/" body in
               (parse_host auth, match tl with Some t => "/" :: t | None => [] end)
          else (POk [], rest1) in
        match host_r with
        | PErr => PErr
        | PUnsupported => PUnsupported
        | POk host =>
            match unesc rest2, unesc frag_raw with
            | Some path, Some frag =>
                let rawpath := if chars_eqb rest2 (escape EPath path) then [] else rest2 in
                let rawfrag := if chars_eqb frag_raw (escape EFragment frag) then [] else frag_raw in
                let omit := nonempty sch && negb (has_prefix ["/"; "/"] rest1) && is_abs rest1 in
                POk (mkUrl sch host path rawpath forceq query frag rawfrag omit)
            | _, _ => PErr
            end
        end
  end.

Definition escaped_path (u : url) : chars :=
  match u_rawpath u with
  | [] => if chars_eqb (u_path u) ["*"] then ["*"] else escape EPath (u_path u)
  | rp => if valid_encoded EPath rp then
            match unesc rp with
            | Some p => if chars_eqb p (u_path u) then rp else escape EPath (u_path u)
            | None => escape EPath (u_path u)
            end
          else escape EPath (u_path u)
  end.

Definition escaped_frag (u : url) : chars :=
  match u_rawfrag u with
  | [] => escape EFragment (u_frag u)
  | rf => if valid_encoded EFragment rf then
            match unesc rf with
            | Some f => if chars_eqb f (u_frag u) then rf else escape EFragment (u_frag u)
            | None => escape EFragment (u_frag u)
            end
          else escape EFragment (u_frag u)
  end.


(* URL.String with OmitHost = false, no user, no opaque *)
Definition print_url (u : url) : chars :=
  let p := escaped_path u in
  let head :=
    (if nonempty (u_scheme u) then u_scheme u ++ [":"] else []) ++
    (if nonempty (u_scheme u) || nonempty (u_host u) then
       if u_omithost u && negb (nonempty (u_host u)) then []
       else (if nonempty (u_host u) || nonempty (u_path u) then ["/"; "/"] else []) ++ escape EHost (u_host u)
     else []) in
  let head := if nonempty p && negb (is_abs p) && nonempty (u_host u) then head ++ ["/"] else head in
  let head := match head with
              | [] => if mem_char ":" (fst (cut "/" p)) then ["."; "/"] else []
              | _ => head
              end in
  head ++ p
  ++ (if u_forceq u || nonempty (u_query u) then "?" :: u_query u else [])
  ++ (if nonempty (u_frag u) then "#" :: escaped_frag u else []).

(* ---------- jsonreference ---------- *)
Definition starts_slash (s : chars) : bool := match s with c :: _ => ceq c "/" | [] => false end.
Fixpoint dedup_slashes (s : chars) : chars :=   (* regexp `/{2,}` replaced by "/" *)
  match s with
  | c :: r => if ceq c "/" && starts_slash r then dedup_slashes r else c :: dedup_slashes r
  | [] => []
  end.

Definition strip_default_port (sch host : chars) : chars :=
  match split_last_colon host with
  | Some (h, p) =>
      if nonempty p && all_digits p then
        if (chars_eqb sch (s2l "http") && chars_eqb p (s2l "80")) || (chars_eqb sch (s2l "https") && chars_eqb p (s2l "443"))
        then h else host
      else host
  | None => host
  end.

Definition normalize_url (u : url) : url :=
  let sch := map lower (u_scheme u) in
  let host := strip_default_port sch (map lower (u_host u)) in
  mkUrl sch host (dedup_slashes (u_path u)) [] (u_forceq u) (u_query u) (u_frag u) [] (u_omithost u).

Record ref := mkRef {
  r_url : url;
  has_full_url : bool; has_url_path_only : bool; has_fragment_only : bool;
  has_file_scheme : bool; has_full_file_path : bool }.

Definition ref_of_url (u0 : url) : ref :=
  let u := normalize_url u0 in
  let full := nonempty (u_scheme u) && nonempty (u_host u) in
  let ponly := negb full && nonempty (u_path u) in
  let fonly := negb full && negb (nonempty (u_path u)) && negb (nonempty (u_query u)) && nonempty (u_frag u) in
  mkRef u full ponly fonly (chars_eqb (u_scheme u) (s2l "file")) (is_abs (u_path u)).

Definition new_ref (s : chars) : presult ref :=
  match parse_url s with
  | POk u => POk (ref_of_url u)
  | PErr => PErr
  | PUnsupported => PUnsupported
  end.

Definition ref_string (r : ref) : chars := print_url (r_url r).
Definition is_canonical (r : ref) : bool :=
  (has_file_scheme r && has_full_file_path r) || (negb (has_file_scheme r) && has_full_url r).
Definition is_root (r : ref) : bool :=
  negb (is_canonical r) && negb (has_url_path_only r) && negb (nonempty (u_frag (r_url r))).

(* ---------- normalizer.go ---------- *)
Definition set_path (u : url) (p : chars) : url :=
  mkUrl (u_scheme u) (u_host u) p (u_rawpath u) (u_forceq u) (u_query u) (u_frag u) (u_rawfrag u) (u_omithost u).
Definition set_frag (u : url) (f : chars) : url :=
  mkUrl (u_scheme u) (u_host u) (u_path u) (u_rawpath u) (u_forceq u) (u_query u) f (u_rawfrag u) (u_omithost u).
(* spec.parseURL: url.Parse, then OmitHost := false *)
Definition clear_omit (u : url) : url :=
  mkUrl (u_scheme u) (u_host u) (u_path u) (u_rawpath u) (u_forceq u) (u_query u) (u_frag u) (u_rawfrag u) false.
Definition parse_url_spec (s : chars) : presult url :=
  match parse_url s with POk u => POk (clear_omit u) | PErr => PErr | PUnsupported => PUnsupported end.
Definition clean_path_field (u : url) : url :=
  let p := clean (u_path u) in set_path u (if chars_eqb p dot then [] else p).

(* filepath.Abs on a non-Windows system, with the working directory as a parameter *)
Definition abs_path (cwd p : chars) : chars :=
  if is_abs p then clean p else join2 cwd p.

(* parse, or "repair" to the empty URL as normalizer_nonwindows.go does *)
Definition parse_or_empty (s : chars) : presult url :=
  match parse_url s with
  | POk u => POk (clear_omit u)
  | PErr => POk empty_url
  | PUnsupported => PUnsupported
  end.

(* a query is irrelevant for a local file *)
Definition drop_file_query (u : url) : url :=
  if chars_eqb (u_scheme u) (s2l "file")
  then mkUrl (u_scheme u) (u_host u) (u_path u) (u_rawpath u) false [] (u_frag u) (u_rawfrag u) (u_omithost u)
  else u.

Definition normalize_base (cwd inp : chars) : presult chars :=
  match parse_or_empty inp with
  | POk u0 =>
      let u := clean_path_field (set_frag u0 []) in
      if nonempty (u_scheme u) && (is_abs (u_path u) || negb (chars_eqb (u_scheme u) (s2l "file")))
      then POk (print_url (drop_file_query u))
      else
        let u' := mkUrl (s2l "file") (u_host u) (abs_path cwd (u_path u)) (u_rawpath u) false [] [] (u_rawfrag u) false in
        POk (print_url u')
  | PErr => PErr
  | PUnsupported => PUnsupported
  end.

Definition normalize_uri (refp base : chars) : presult chars :=
  match parse_or_empty refp with
  | POk r0 =>
      let r := drop_file_query (clean_path_field r0) in      (* a local file has no query *)
      match new_ref (print_url r) with
      | POk rr =>
          if is_canonical rr then POk (print_url r)
          else match parse_url_spec base with
               | POk b =>
                   let b1 := if is_abs (u_path r) then set_path b (u_path r)
                             else if nonempty (u_path r) then set_path b (join2 (dir (u_path b)) (u_path r))
                             else b in
                   POk (print_url (set_frag b1 (u_frag r)))
               | PErr => PErr           (* the Go code would dereference a nil URL here *)
               | PUnsupported => PUnsupported
               end
      | PErr => PErr                    (* MustCreateRef would panic *)
      | PUnsupported => PUnsupported
      end
  | PErr => PErr
  | PUnsupported => PUnsupported
  end.

(* rebase(ref, v, notEqual) *)
Definition rebase (r : ref) (v : url) (not_equal : bool) : presult (ref * bool) :=
  let u := r_url r in
  if negb (chars_eqb (u_scheme u) (u_scheme v)) || negb (chars_eqb (u_host u) (u_host v)) then POk (r, false)
  else
    let doc_path := u_path v in
    let d := dir doc_path in
    let vpath := if chars_eqb d dot then [] else if has_suffix ["/"] d then d else d ++ ["/"] in
    let npath := if has_prefix doc_path (u_path u) then drop_prefix doc_path (u_path u)
                 else drop_prefix vpath (u_path u) in
    if not_equal && negb (nonempty npath) && negb (nonempty (u_frag u)) then POk (r, false)
    else
      let nb := if is_abs npath then mkUrl (u_scheme v) (u_host v) npath [] false [] (u_frag u) [] false
                else mkUrl [] [] npath [] false [] (u_frag u) [] false in
      match new_ref (print_url nb) with
      | POk r' => POk (r', true)
      | PErr => PErr
      | PUnsupported => PUnsupported
      end.

Definition denormalize_ref (r : ref) (orig_base id : chars) : presult ref :=
  if negb (nonempty (ref_string r)) || is_root r || has_fragment_only r then POk r
  else
    let try_id :=
      if nonempty id then
        match parse_url_spec id with
        | POk idu => match rebase r idu true with
                     | POk (r', true) => Some (POk r')
                     | POk (_, false) => None
                     | PErr => Some PErr
                     | PUnsupported => Some PUnsupported
                     end
        | _ => None
        end
      else None in
    match try_id with
    | Some res => res
    | None =>
        match parse_url_spec orig_base with
        | POk b => match rebase r b false with
                   | POk (r', _) => POk r'
                   | PErr => PErr
                   | PUnsupported => PUnsupported
                   end
        | PErr => PErr
        | PUnsupported => PUnsupported
        end
    end.

(* ---------- string-typed wrappers ---------- *)
Definition remote_uri (r : ref) : chars :=
  if nonempty (ref_string r) then print_url (set_frag (r_url r) []) else [].
