(* Facts about the path and URL models (used by Props/C11.v, C12.v, C13.v). *)
From Coq Require Import List String Ascii Bool Arith Lia.
From Spec Require Import Base.Json Base.Url Base.Rfc3986.
Import ListNotations.
Local Open Scope char_scope.

(* ---------- characters ---------- *)
Lemma ceq_eq a b : ceq a b = true <-> a = b.
Proof. unfold ceq. apply Ascii.eqb_eq. Qed.
Lemma ceq_refl a : ceq a a = true.
Proof. apply ceq_eq. reflexivity. Qed.

Lemma chars_eqb_eq a : forall b, chars_eqb a b = true <-> a = b.
Proof.
  induction a as [|x a IH]; intros [|y b]; simpl; split; intros H; try reflexivity; try discriminate.
  - apply andb_true_iff in H. destruct H as [H1 H2]. apply ceq_eq in H1. apply IH in H2. subst. reflexivity.
  - inversion H; subst. rewrite ceq_refl. simpl. apply IH. reflexivity.
Qed.
Lemma chars_eqb_refl a : chars_eqb a a = true.
Proof. apply chars_eqb_eq. reflexivity. Qed.
Lemma chars_eqb_neq a b : chars_eqb a b = false <-> a <> b.
Proof.
  split.
  - intros H E. apply chars_eqb_eq in E. congruence.
  - intros H. destruct (chars_eqb a b) eqn:E; [|reflexivity]. apply chars_eqb_eq in E. contradiction.
Qed.

(* ---------- what a proper segment is ---------- *)
Definition no_slash (s : seg) : Prop := mem_char "/" s = false.
Definition special (s : seg) : bool := seg_eqb s [] || seg_eqb s dot || seg_eqb s dotdot.
Definition proper (s : seg) : Prop := special s = false.

Lemma special_cases s : special s = false ->
  seg_eqb s [] = false /\ seg_eqb s dot = false /\ seg_eqb s dotdot = false.
Proof.
  unfold special. intros H. apply orb_false_iff in H. destruct H as [H H3].
  apply orb_false_iff in H. destruct H as [H1 H2]. auto.
Qed.

(* ---------- the stack machine ---------- *)
(* on proper segments the machine just pushes *)
Lemma clean_segs_proper rooted : forall segs st,
  Forall proper segs -> clean_segs rooted segs st = rev st ++ segs.
Proof.
  induction segs as [|s r IH]; intros st H; simpl.
  - rewrite app_nil_r. reflexivity.
  - inversion H as [|? ? Hs Hr]; subst.
    destruct (special_cases s Hs) as [E1 [E2 E3]]. rewrite E1, E2, E3. simpl.
    rewrite IH by exact Hr. simpl. rewrite <- app_assoc. reflexivity.
Qed.

(* rooted: the stack only ever holds proper segments, so the output is proper *)
Lemma clean_segs_rooted_out : forall segs st,
  Forall proper st -> Forall proper (clean_segs true segs st).
Proof.
  induction segs as [|s r IH]; intros st Hst; simpl.
  - apply Forall_rev. exact Hst.
  - destruct (seg_eqb s [] || seg_eqb s dot) eqn:E1; [apply IH; exact Hst|].
    destruct (seg_eqb s dotdot) eqn:E2.
    + destruct st as [|top st'].
      * apply IH. constructor.
      * inversion Hst as [|? ? Ht Hst']; subst.
        destruct (special_cases top Ht) as [_ [_ E3]]. rewrite E3. apply IH. exact Hst'.
    + apply IH. constructor; [|exact Hst]. unfold proper, special.
      apply orb_false_iff in E1. destruct E1 as [A B]. rewrite A, B, E2. reflexivity.
Qed.

Theorem clean_segs_rooted_idem segs :
  clean_segs true (clean_segs true segs []) [] = clean_segs true segs [].
Proof.
  rewrite clean_segs_proper; [reflexivity|]. apply clean_segs_rooted_out. constructor.
Qed.

(* spelling rewrites that do not change the result, at any position, for any stack *)
(* the machine processes a prefix then continues: state after a prefix *)
Fixpoint run_segs (rooted : bool) (segs : list seg) (st : list seg) : list seg :=
  match segs with
  | [] => st
  | s :: r =>
      if seg_eqb s [] || seg_eqb s dot then run_segs rooted r st
      else if seg_eqb s dotdot then
        match st with
        | top :: st' => if seg_eqb top dotdot then run_segs rooted r (s :: st) else run_segs rooted r st'
        | [] => if rooted then run_segs rooted r [] else run_segs rooted r [s]
        end
      else run_segs rooted r (s :: st)
  end.

Lemma clean_run rooted : forall segs st, clean_segs rooted segs st = rev (run_segs rooted segs st).
Proof.
  induction segs as [|s r IH]; intros st; simpl; [reflexivity|].
  destruct (seg_eqb s [] || seg_eqb s dot); [apply IH|].
  destruct (seg_eqb s dotdot).
  - destruct st as [|top st']; [destruct rooted; apply IH|].
    destruct (seg_eqb top dotdot); apply IH.
  - apply IH.
Qed.

Lemma run_app rooted : forall a b st, run_segs rooted (a ++ b) st = run_segs rooted b (run_segs rooted a st).
Proof.
  induction a as [|s r IH]; intros b st; simpl; [reflexivity|].
  destruct (seg_eqb s [] || seg_eqb s dot); [apply IH|].
  destruct (seg_eqb s dotdot).
  - destruct st as [|top st']; [destruct rooted; apply IH|].
    destruct (seg_eqb top dotdot); apply IH.
  - apply IH.
Qed.

Theorem insert_dot rooted a b st :
  clean_segs rooted (a ++ dot :: b) st = clean_segs rooted (a ++ b) st.
Proof. rewrite !clean_run, !run_app. simpl. reflexivity. Qed.

Theorem insert_empty rooted a b st :
  clean_segs rooted (a ++ [] :: b) st = clean_segs rooted (a ++ b) st.
Proof. rewrite !clean_run, !run_app. simpl. reflexivity. Qed.

Theorem insert_updown rooted x a b st : proper x ->
  clean_segs rooted (a ++ x :: dotdot :: b) st = clean_segs rooted (a ++ b) st.
Proof.
  intros Hx. rewrite !clean_run, !run_app. f_equal. simpl.
  destruct (special_cases x Hx) as [E1 [E2 E3]]. rewrite E1, E2, E3. simpl. try rewrite E3. reflexivity.
Qed.

(* ---------- split / join ---------- *)
Lemma split_on_nonempty c s : split_on c s <> [].
Proof.
  induction s as [|x r IH]; simpl; [discriminate|].
  destruct (ceq x c); [discriminate|]. destruct (split_on c r); [contradiction|discriminate].
Qed.

Lemma split_no_sep c : forall s, Forall (fun p => mem_char c p = false) (split_on c s).
Proof.
  induction s as [|x r IH]; simpl.
  - constructor; [reflexivity|constructor].
  - destruct (ceq x c) eqn:E.
    + constructor; [reflexivity|exact IH].
    + destruct (split_on c r) as [|p ps] eqn:Es.
      * constructor; [|constructor]. unfold mem_char. simpl. unfold ceq in *. rewrite Ascii.eqb_sym, E. reflexivity.
      * inversion IH; subst. constructor; [|assumption].
        unfold mem_char in *. simpl. unfold ceq in *. rewrite Ascii.eqb_sym, E. simpl. assumption.
Qed.

Lemma split_single c s : mem_char c s = false -> split_on c s = [s].
Proof.
  induction s as [|x r IH]; simpl; intros H; [reflexivity|].
  unfold mem_char in H. simpl in H. apply orb_false_iff in H. destruct H as [H1 H2].
  unfold ceq in *. rewrite Ascii.eqb_sym in H1. rewrite H1. unfold mem_char in IH. rewrite (IH H2). reflexivity.
Qed.

Lemma split_app_sep c s : forall t, mem_char c s = false ->
  split_on c (s ++ c :: t) = s :: split_on c t.
Proof.
  induction s as [|x r IH]; intros t H; simpl.
  - rewrite ceq_refl. reflexivity.
  - unfold mem_char in H. simpl in H. apply orb_false_iff in H. destruct H as [H1 H2].
    unfold ceq in *. rewrite Ascii.eqb_sym in H1. rewrite H1. unfold mem_char in IH. rewrite (IH t H2). reflexivity.
Qed.

Theorem split_join c : forall segs, segs <> [] -> Forall (fun p => mem_char c p = false) segs ->
  split_on c (join_with c segs) = segs.
Proof.
  induction segs as [|s r IH]; intros Hne H; [contradiction|].
  inversion H as [|? ? Hs Hr]; subst.
  destruct r as [|s2 r'].
  - simpl. apply split_single. exact Hs.
  - change (join_with c (s :: s2 :: r')) with (s ++ c :: join_with c (s2 :: r')).
    rewrite split_app_sep by exact Hs. rewrite IH; [reflexivity|discriminate|exact Hr].
Qed.

(* ---------- Clean on strings ---------- *)
Lemma proper_nonempty s : proper s -> s <> [].
Proof. intros H E. subst. discriminate H. Qed.

Lemma join_nonempty c segs : segs <> [] -> Forall proper segs -> join_with c segs <> [].
Proof.
  intros Hne H. destruct segs as [|s r]; [contradiction|]. inversion H; subst.
  destruct r; simpl; [apply proper_nonempty; assumption|].
  destruct s; [exfalso; eapply proper_nonempty; eauto|discriminate].
Qed.

(* the result of cleaning an absolute path *)
Definition clean_abs_out (p : chars) : list seg := clean_segs true (split_on "/" p) [].

Lemma clean_abs_shape p : is_abs p = true ->
  clean p = match clean_abs_out p with [] => ["/"] | out => "/" :: join_with "/" out end.
Proof.
  intros H. destruct p as [|c p]; [discriminate|]. unfold clean, clean_abs_out. rewrite H.
  destruct (clean_segs true (split_on "/" (c :: p)) []); reflexivity.
Qed.

Lemma clean_abs_out_proper p : Forall proper (clean_abs_out p).
Proof. apply clean_segs_rooted_out. constructor. Qed.

Lemma clean_abs_out_no_slash p : Forall no_slash (clean_abs_out p).
Proof.
  unfold clean_abs_out. rewrite clean_run.
  apply Forall_rev.
  assert (G : forall segs st, Forall no_slash segs -> Forall no_slash st -> Forall no_slash (run_segs true segs st)).
  { induction segs as [|s r IH]; intros st Hs Hst; simpl; [exact Hst|].
    inversion Hs; subst.
    destruct (seg_eqb s [] || seg_eqb s dot); [apply IH; assumption|].
    destruct (seg_eqb s dotdot).
    - destruct st as [|top st']; [apply IH; [assumption|constructor]|].
      inversion Hst; subst. destruct (seg_eqb top dotdot); apply IH; auto.
    - apply IH; auto. }
  apply G; [apply split_no_sep|constructor].
Qed.

Theorem clean_abs_idem p : is_abs p = true -> clean (clean p) = clean p.
Proof.
  intros H. rewrite (clean_abs_shape p H).
  pose proof (clean_abs_out_proper p) as Hp. pose proof (clean_abs_out_no_slash p) as Hn.
  destruct (clean_abs_out p) as [|s r] eqn:E.
  - reflexivity.
  - set (out := s :: r) in *.
    assert (Habs : is_abs ("/" :: join_with "/" out) = true) by reflexivity.
    rewrite (clean_abs_shape _ Habs). unfold clean_abs_out.
    change ("/" :: join_with "/" out) with ([] ++ "/" :: join_with "/" out).
    rewrite split_app_sep by reflexivity.
    rewrite split_join; [|discriminate|exact Hn].
    change (clean_segs true ([] :: out) []) with (clean_segs true out []).
    rewrite clean_segs_proper by exact Hp. reflexivity.
Qed.

Theorem clean_abs_is_abs p : is_abs p = true -> is_abs (clean p) = true.
Proof. intros H. rewrite (clean_abs_shape p H). destruct (clean_abs_out p); reflexivity. Qed.

(* ---------- escaping ---------- *)
Lemma hex_val_hex_up n : n < 16 -> hex_val (hex_up n) = Some n.
Proof.
  intros H. do 16 (destruct n as [|n]; [reflexivity|]). lia.
Qed.

Lemma ascii_split (c : ascii) : ascii_of_nat (Nat.div (an c) 16 * 16 + Nat.modulo (an c) 16) = c.
Proof.
  unfold an. rewrite Nat.mul_comm, <- Nat.div_mod by discriminate. apply ascii_nat_embedding.
Qed.

Lemma an_lt c : an c < 256.
Proof. unfold an. apply nat_ascii_bounded. Qed.

Lemma unescape_escape m : forall s fuel, List.length s < fuel -> unescape fuel (escape m s) = Some s.
Proof.
  induction s as [|c r IH]; intros fuel Hf.
  - destruct fuel; reflexivity.
  - destruct fuel as [|f]; [simpl in Hf; lia|]. simpl in Hf.
    cbn [escape]. destruct (should_escape c m) eqn:E.
    + assert (H1 : hex_val (hex_up (Nat.div (an c) 16)) = Some (Nat.div (an c) 16)).
      { apply hex_val_hex_up. pose proof (an_lt c). apply Nat.div_lt_upper_bound; lia. }
      assert (H2 : hex_val (hex_up (Nat.modulo (an c) 16)) = Some (Nat.modulo (an c) 16)).
      { apply hex_val_hex_up. apply Nat.mod_upper_bound. discriminate. }
      cbn [unescape]. rewrite H1, H2, IH by lia. rewrite ascii_split. reflexivity.
    + (* an unescaped character is never '%' *)
      assert (Hc : ceq c "%" = false).
      { destruct (ceq c "%") eqn:Ec; [|reflexivity]. apply ceq_eq in Ec. subst c.
        destruct m; discriminate E. }
      cbn [unescape].
      destruct c as [b0 b1 b2 b3 b4 b5 b6 b7].
      destruct b0, b1, b2, b3, b4, b5, b6, b7; try discriminate Hc; rewrite IH by lia; reflexivity.
Qed.

Theorem unesc_escape m s : unesc (escape m s) = Some s.
Proof.
  unfold unesc.
  assert (G : forall s fuel, List.length s < fuel -> unescape fuel (escape m s) = Some s) by apply unescape_escape.
  assert (L : List.length s <= List.length (escape m s)).
  { induction s as [|c r IHs]; simpl; [lia|]. destruct (should_escape c m); simpl; lia. }
  apply G. lia.
Qed.

(* ---------- RFC 3986 5.2.4 versus path.Clean, on segment lists ---------- *)
Lemma rds_segs_cons s s2 r st :
  rds_segs (s :: s2 :: r) st =
  if seg_eqb s dot then rds_segs (s2 :: r) st
  else if seg_eqb s dotdot then rds_segs (s2 :: r) (tl st)
  else rds_segs (s2 :: r) (s :: st).
Proof. reflexivity. Qed.

Lemma clean_segs_cons rooted s r st :
  clean_segs rooted (s :: r) st =
  if seg_eqb s [] || seg_eqb s dot then clean_segs rooted r st
  else if seg_eqb s dotdot then
    match st with
    | top :: st' => if seg_eqb top dotdot then clean_segs rooted r (s :: st) else clean_segs rooted r st'
    | [] => if rooted then clean_segs rooted r [] else clean_segs rooted r [s]
    end
  else clean_segs rooted r (s :: st).
Proof. reflexivity. Qed.

Lemma proper_not_dotdot s : proper s -> seg_eqb s dotdot = false.
Proof. intros H. apply special_cases in H. tauto. Qed.

Lemma run_rooted_proper : forall segs st, Forall proper st -> Forall proper (run_segs true segs st).
Proof.
  intros segs st H. apply Forall_rev in H.
  pose proof (clean_segs_rooted_out segs st) as G. rewrite clean_run in G.
  rewrite <- (rev_involutive (run_segs true segs st)). apply Forall_rev. apply G.
  rewrite <- (rev_involutive st). apply Forall_rev. exact H.
Qed.

Theorem rds_segs_is_clean : forall segs st,
  Forall proper st ->
  Forall (fun s => s <> []) segs ->
  segs <> [] -> proper (last segs []) ->
  rds_segs segs st = (clean_segs true segs st, false).
Proof.
  induction segs as [|s r IH]; intros st Hst Hne Hnn Hlast; [contradiction|].
  inversion Hne as [|? ? Hs Hr]; subst.
  destruct r as [|s2 r'].
  - (* s is the last segment: proper *)
    simpl in Hlast. destruct (special_cases s Hlast) as [E1 [E2 E3]].
    simpl. rewrite E1, E2, E3. simpl. reflexivity.
  - rewrite rds_segs_cons.
    assert (Hl : proper (last (s2 :: r') [])) by exact Hlast.
    assert (E1 : seg_eqb s [] = false) by (apply chars_eqb_neq; exact Hs).
    rewrite clean_segs_cons. rewrite E1. cbn [orb].
    destruct (seg_eqb s dot) eqn:E2.
    + apply IH; [exact Hst|exact Hr|discriminate|exact Hl].
    + destruct (seg_eqb s dotdot) eqn:E3.
      * destruct st as [|top st'].
        -- apply IH; [constructor|exact Hr|discriminate|exact Hl].
        -- inversion Hst as [|? ? Ht Hst']; subst. rewrite (proper_not_dotdot top Ht).
           apply IH; [exact Hst'|exact Hr|discriminate|exact Hl].
      * apply IH; [|exact Hr|discriminate|exact Hl].
        constructor; [|exact Hst]. unfold proper, special. rewrite E1, E2, E3. reflexivity.
Qed.

(* ---------- the string-level functions agree with the segment machines (bounded, by evaluation) ---------- *)
Definition proper_alpha : list seg := [s2l "a"; s2l "%20x"].
Definition seg_alpha : list seg := [s2l "a"; s2l "b.c"; dot; dotdot].
Definition file_alpha : list seg := [s2l "f.json"].

Fixpoint lists_upto (n : nat) (alpha : list seg) : list (list seg) :=
  match n with
  | O => [[]]
  | S k => [] :: flat_map (fun l => map (fun a => a :: l) alpha) (lists_upto k alpha)
  end.

Definition abs_path_of (segs : list seg) : chars :=
  match segs with [] => ["/"] | _ => "/" :: join_with "/" segs end.

(* base document "/bs.../root.json", relative reference "rs.../f" *)
Definition link_case (bs rs : list seg) (f : seg) : bool :=
  let bp := abs_path_of (bs ++ [s2l "root.json"]) in
  let rp := join_with "/" (rs ++ [f]) in
  let all := bs ++ rs ++ [f] in
  chars_eqb (join2 (dir bp) rp) (abs_path_of (clean_segs true all []))
  && chars_eqb (remove_dot_segments (merge true bp rp)) (abs_path_of (fst (rds_segs all [])))
  && chars_eqb (join2 (dir bp) rp) (remove_dot_segments (merge true bp rp))
  (* root-relative reference *)
  && chars_eqb (clean ("/" :: rp)) (remove_dot_segments ("/" :: rp)).

Definition link_all : bool :=
  forallb (fun bs => forallb (fun rs => forallb (fun f => link_case bs rs f) file_alpha)
                             (lists_upto 3 seg_alpha))
          (lists_upto 2 proper_alpha).

Lemma link_all_true : link_all = true.
Proof. vm_compute. reflexivity. Qed.

Theorem link_bounded bs rs f :
  In bs (lists_upto 2 proper_alpha) -> In rs (lists_upto 3 seg_alpha) -> In f file_alpha ->
  link_case bs rs f = true.
Proof.
  intros Hb Hr Hf. pose proof link_all_true as H. unfold link_all in H.
  rewrite forallb_forall in H. specialize (H bs Hb).
  rewrite forallb_forall in H. specialize (H rs Hr).
  rewrite forallb_forall in H. exact (H f Hf).
Qed.

(* ---------- jsonreference normalisation ---------- *)
Lemma lower_idem c : lower (lower c) = lower c.
Proof.
  unfold lower, an.
  destruct (Nat.leb 65 (nat_of_ascii c) && Nat.leb (nat_of_ascii c) 90) eqn:E; [|rewrite E; reflexivity].
  apply andb_true_iff in E. destruct E as [E1 E2]. apply Nat.leb_le in E1. apply Nat.leb_le in E2.
  rewrite nat_ascii_embedding by lia.
  replace (Nat.leb 65 (nat_of_ascii c + 32) && Nat.leb (nat_of_ascii c + 32) 90) with false; [reflexivity|].
  symmetry. apply andb_false_iff. right. apply Nat.leb_gt. lia.
Qed.

Lemma map_lower_idem s : map lower (map lower s) = map lower s.
Proof. induction s as [|c r IH]; simpl; [reflexivity|]. rewrite lower_idem, IH. reflexivity. Qed.

Lemma starts_slash_dedup s : starts_slash (dedup_slashes s) = starts_slash s.
Proof.
  induction s as [|c r IH]; [reflexivity|]. cbn [dedup_slashes].
  destruct (ceq c "/") eqn:Ec; cbn [andb].
  - destruct (starts_slash r) eqn:Er.
    + rewrite IH. cbn [starts_slash]. rewrite Ec. reflexivity.
    + cbn [starts_slash]. reflexivity.
  - cbn [starts_slash]. reflexivity.
Qed.

Lemma dedup_slashes_idem s : dedup_slashes (dedup_slashes s) = dedup_slashes s.
Proof.
  induction s as [|c r IH]; [reflexivity|]. cbn [dedup_slashes].
  destruct (ceq c "/" && starts_slash r) eqn:E; [exact IH|].
  cbn [dedup_slashes]. rewrite starts_slash_dedup, E, IH. reflexivity.
Qed.

(* ---------- default-port stripping ---------- *)
Lemma cut_none c : forall s, mem_char c s = false -> cut c s = (s, None).
Proof.
  induction s as [|x r IH]; intros H; [reflexivity|].
  unfold mem_char in H. cbn [existsb] in H. apply orb_false_iff in H. destruct H as [H1 H2].
  cbn [cut]. unfold ceq in *. rewrite Ascii.eqb_sym, H1. unfold mem_char in IH. rewrite (IH H2). reflexivity.
Qed.

Lemma mem_char_rev c s : mem_char c (rev s) = mem_char c s.
Proof.
  unfold mem_char. induction s as [|x r IH]; [reflexivity|].
  cbn [rev existsb]. rewrite existsb_app, IH. cbn [existsb]. rewrite orb_false_r. apply orb_comm.
Qed.

Lemma split_last_colon_none h : mem_char ":" h = false -> split_last_colon h = None.
Proof.
  intros H. unfold split_last_colon. rewrite cut_none; [reflexivity|]. rewrite mem_char_rev. exact H.
Qed.

(* "a host with at most one port": nothing before the last colon contains a colon *)
Definition one_port (host : chars) : bool :=
  match split_last_colon host with Some (h, _) => negb (mem_char ":" h) | None => true end.

Lemma strip_default_port_idem sch host : one_port host = true ->
  strip_default_port sch (strip_default_port sch host) = strip_default_port sch host.
Proof.
  unfold one_port, strip_default_port. destruct (split_last_colon host) as [[h p]|] eqn:E.
  - intros H. apply negb_true_iff in H.
    destruct (nonempty p && all_digits p) eqn:C1; [|rewrite E, C1; reflexivity].
    destruct ((chars_eqb sch (s2l "http") && chars_eqb p (s2l "80")) || (chars_eqb sch (s2l "https") && chars_eqb p (s2l "443"))) eqn:C2.
    + rewrite split_last_colon_none by exact H. reflexivity.
    + rewrite E, C1, C2. reflexivity.
  - intros _. rewrite E. reflexivity.
Qed.

Lemma map_lower_no_colon s : mem_char ":" (map lower s) = mem_char ":" s.
Proof.
  unfold mem_char. induction s as [|c r IH]; [reflexivity|]. cbn [map existsb]. rewrite IH. f_equal.
  unfold lower. destruct (Nat.leb 65 (an c) && Nat.leb (an c) 90) eqn:E; [|reflexivity].
  (* an upper-case letter is not ':' and neither is its lower-case form *)
  apply andb_true_iff in E. destruct E as [E1 E2]. apply Nat.leb_le in E1. apply Nat.leb_le in E2.
  assert (A : ceq ":" c = false).
  { destruct (ceq ":" c) eqn:A; [|reflexivity]. apply ceq_eq in A. subst c. change (an ":") with 58 in E1. lia. }
  rewrite A.
  destruct (ceq ":" (ascii_of_nat (an c + 32))) eqn:B; [|reflexivity].
  apply ceq_eq in B. apply (f_equal nat_of_ascii) in B. unfold an in *.
  rewrite nat_ascii_embedding in B by lia. change (nat_of_ascii ":") with 58 in B. lia.
Qed.

(* normalisation of a parsed URL is idempotent (hosts with at most one port) *)
Theorem normalize_url_idem u : one_port (map lower (u_host u)) = true ->
  normalize_url (normalize_url u) = normalize_url u.
Proof.
  intros H. unfold normalize_url. cbn [u_scheme u_host u_path u_forceq u_query u_frag u_omithost].
  rewrite !map_lower_idem, dedup_slashes_idem.
  assert (L : map lower (strip_default_port (map lower (u_scheme u)) (map lower (u_host u)))
              = strip_default_port (map lower (u_scheme u)) (map lower (u_host u))).
  { unfold strip_default_port. destruct (split_last_colon (map lower (u_host u))) as [[h p]|] eqn:E.
    - destruct (nonempty p && all_digits p); [|apply map_lower_idem].
      destruct ((chars_eqb (map lower (u_scheme u)) (s2l "http") && chars_eqb p (s2l "80")) ||
                (chars_eqb (map lower (u_scheme u)) (s2l "https") && chars_eqb p (s2l "443"))); [|apply map_lower_idem].
      (* h is a prefix of a lower-cased string *)
      unfold split_last_colon in E. destruct (cut ":" (rev (map lower (u_host u)))) as [pp [hr|]] eqn:Ec; [|discriminate].
      inversion E; subst. clear E.
      assert (G : forall s a b, cut ":" s = (a, Some b) -> s = a ++ ":" :: b).
      { induction s as [|x r IH]; intros a b Hc; [discriminate|]. cbn [cut] in Hc.
        destruct (ceq x ":") eqn:Ex.
        - inversion Hc; subst. apply ceq_eq in Ex. subst. reflexivity.
        - destruct (cut ":" r) as [a' b'] eqn:Er. inversion Hc; subst. rewrite (IH a' b eq_refl). reflexivity. }
      apply G in Ec. apply (f_equal (@rev ascii)) in Ec. rewrite rev_involutive in Ec.
      rewrite rev_app_distr in Ec. cbn [rev] in Ec. rewrite <- app_assoc in Ec. cbn [app] in Ec.
      assert (M : forall (a b s : chars), map lower s = a ++ b -> map lower a = a).
      { induction a as [|x a IH]; intros b s Hs; [reflexivity|]. destruct s as [|y s]; [discriminate|].
        cbn [map app] in Hs. inversion Hs; subst. cbn [map]. rewrite lower_idem. f_equal. eapply IH. eassumption. }
      eapply M. exact Ec.
    - apply map_lower_idem. }
  rewrite L. rewrite strip_default_port_idem by exact H. reflexivity.
Qed.

(* the classification flags are a function of the normalised URL, hence of the canonical text's parse *)
Theorem flags_function u u' : normalize_url u = normalize_url u' -> ref_of_url u = ref_of_url u'.
Proof. intros H. unfold ref_of_url. rewrite H. reflexivity. Qed.

Theorem ref_of_url_idem u : one_port (map lower (u_host u)) = true ->
  ref_of_url (r_url (ref_of_url u)) = ref_of_url u.
Proof. intros H. apply flags_function. cbn [ref_of_url r_url]. apply normalize_url_idem. exact H. Qed.

(* ---------- normalizeBase on parsed URLs ---------- *)
(* the record normalizeBase prints (normalize_base = print_url of this, after parsing) *)
Definition nb_rec (cwd : chars) (u0 : url) : url :=
  let u := clean_path_field (set_frag u0 []) in
  if nonempty (u_scheme u) && (is_abs (u_path u) || negb (chars_eqb (u_scheme u) (s2l "file"))) then drop_file_query u
  else mkUrl (s2l "file") (u_host u) (abs_path cwd (u_path u)) (u_rawpath u) false [] [] (u_rawfrag u) false.

Lemma normalize_base_is_nb cwd inp u : parse_or_empty inp = POk u ->
  normalize_base cwd inp = POk (print_url (nb_rec cwd u)).
Proof.
  intros H. unfold normalize_base, nb_rec. rewrite H.
  destruct (nonempty (u_scheme (clean_path_field (set_frag u []))) &&
            (is_abs (u_path (clean_path_field (set_frag u []))) ||
             negb (chars_eqb (u_scheme (clean_path_field (set_frag u []))) (s2l "file")))); reflexivity.
Qed.

Lemma clean_nonempty p : clean p <> [].
Proof.
  unfold clean. destruct p as [|c p]; [discriminate|].
  destruct (clean_segs (is_abs (c :: p)) (split_on "/" (c :: p)) []) as [|s r] eqn:E;
    destruct (is_abs (c :: p)); try discriminate.
  (* relative, non-empty output: the joined segments are not all empty *)
  intros H.
  assert (G : forall rooted segs st, Forall (fun s => s <> []) st -> Forall (fun s => s <> []) (run_segs rooted segs st)).
  { intros rooted. induction segs as [|x xs IH]; intros st Hst; cbn [run_segs]; [exact Hst|].
    destruct (seg_eqb x [] || seg_eqb x dot) eqn:E1; [apply IH; exact Hst|].
    apply orb_false_iff in E1. destruct E1 as [E1 _]. apply chars_eqb_neq in E1.
    destruct (seg_eqb x dotdot).
    - destruct st as [|top st']; [destruct rooted; apply IH; repeat constructor; exact E1|].
      inversion Hst; subst. destruct (seg_eqb top dotdot); apply IH; auto.
    - apply IH. constructor; assumption. }
  rewrite clean_run in E.
  assert (Hall : Forall (fun s => s <> []) (s :: r)).
  { rewrite <- E. apply Forall_rev. apply G. constructor. }
  inversion Hall as [|? ? Hs Hr]; subst.
  destruct r as [|s2 r']; cbn [join_with] in H; [contradiction|].
  destruct s; [contradiction|discriminate].
Qed.

Lemma clean_abs_fix p : is_abs p = true -> clean (clean p) = clean p /\ is_abs (clean p) = true.
Proof. intros H. split; [apply clean_abs_idem|apply clean_abs_is_abs]; exact H. Qed.

Lemma is_abs_app a b : is_abs a = true -> is_abs (a ++ b) = true.
Proof. destruct a; [discriminate|]. intros H. exact H. Qed.

Lemma abs_path_fix cwd p : is_abs cwd = true ->
  clean (abs_path cwd p) = abs_path cwd p /\ is_abs (abs_path cwd p) = true.
Proof.
  intros Hc. unfold abs_path. destruct (is_abs p) eqn:Hp; [apply clean_abs_fix; exact Hp|].
  unfold join2. destruct cwd as [|c cw]; [discriminate|].
  destruct p as [|x p'].
  - apply clean_abs_fix. exact Hc.
  - apply clean_abs_fix. apply is_abs_app. exact Hc.
Qed.

Lemma clean_path_field_fix u : clean (u_path u) = u_path u -> is_abs (u_path u) = true -> clean_path_field u = u.
Proof.
  intros H Ha. unfold clean_path_field. rewrite H.
  destruct (chars_eqb (u_path u) dot) eqn:E.
  - apply chars_eqb_eq in E. rewrite E in Ha. discriminate.
  - destruct u; reflexivity.
Qed.

Lemma dfq_fields u :
  u_scheme (drop_file_query u) = u_scheme u /\ u_path (drop_file_query u) = u_path u
  /\ u_frag (drop_file_query u) = u_frag u.
Proof. unfold drop_file_query. destruct (chars_eqb (u_scheme u) (s2l "file")); repeat split; reflexivity. Qed.

Lemma dfq_idem u : drop_file_query (drop_file_query u) = drop_file_query u.
Proof.
  unfold drop_file_query. destruct (chars_eqb (u_scheme u) (s2l "file")) eqn:E; cbn [u_scheme]; rewrite E; reflexivity.
Qed.

(* the facts both theorems need about the result *)
Lemma nb_rec_props cwd u : is_abs cwd = true ->
  (u_path u = [] \/ is_abs (u_path u) = true \/ u_scheme u = []) ->
  let v := nb_rec cwd u in
  u_frag v = [] /\ u_scheme v <> []
  /\ (u_path v = [] \/ (clean (u_path v) = u_path v /\ is_abs (u_path v) = true))
  /\ nonempty (u_scheme v) && (is_abs (u_path v) || negb (chars_eqb (u_scheme v) (s2l "file"))) = true
  /\ drop_file_query v = v.
Proof.
  intros Hc Hshape v. unfold v, nb_rec.
  set (w := clean_path_field (set_frag u [])).
  assert (Hw : u_frag w = [] /\ u_scheme w = u_scheme u /\
               (u_path w = [] \/ (clean (u_path w) = u_path w /\ is_abs (u_path w) = true) \/ u_scheme u = [])).
  { unfold w, clean_path_field, set_frag, set_path. cbn [u_frag u_scheme u_path].
    split; [reflexivity|]. split; [reflexivity|].
    destruct (chars_eqb (clean (u_path u)) dot) eqn:E; [left; reflexivity|].
    destruct Hshape as [H|[H|H]].
    - rewrite H in E. cbv in E. discriminate.
    - right. left. apply clean_abs_fix. exact H.
    - right. right. exact H. }
  destruct Hw as [W1 [W2 W3]].
  destruct (nonempty (u_scheme w) && (is_abs (u_path w) || negb (chars_eqb (u_scheme w) (s2l "file")))) eqn:C.
  - destruct (dfq_fields w) as [D1 [D2 D3]]. rewrite D1, D2, D3.
    split; [exact W1|]. split.
    { apply andb_true_iff in C. destruct C as [C _]. destruct (u_scheme w); discriminate. }
    split; [|split; [exact C|apply dfq_idem]].
    destruct W3 as [W|[W|W]]; [left; exact W|right; exact W|].
    rewrite W2, W in C. discriminate C.
  - cbn [u_frag u_path u_scheme]. split; [reflexivity|]. split; [discriminate|]. split; [|split].
    + right. apply abs_path_fix. exact Hc.
    + destruct (abs_path_fix cwd (u_path w) Hc) as [_ A]. rewrite A. reflexivity.
    + reflexivity.
Qed.

Theorem nb_rec_idem cwd u : is_abs cwd = true ->
  (u_path u = [] \/ is_abs (u_path u) = true \/ u_scheme u = []) ->
  nb_rec cwd (nb_rec cwd u) = nb_rec cwd u.
Proof.
  intros Hc Hshape.
  destruct (nb_rec_props cwd u Hc Hshape) as [V1 [_ [V2 [V3 V4]]]].
  set (v := nb_rec cwd u) in *.
  assert (Hcl : clean_path_field (set_frag v []) = v).
  { assert (Hs : set_frag v [] = v) by (unfold set_frag; destruct v; cbn in V1; subst; reflexivity).
    rewrite Hs. destruct V2 as [V|[V Va]].
    - unfold clean_path_field. rewrite V. cbn. destruct v; cbn in V; subst; reflexivity.
    - apply clean_path_field_fix; assumption. }
  unfold nb_rec at 1. rewrite Hcl, V3. exact V4.
Qed.

(* what a canonical location is, on the parsed form *)
Theorem nb_rec_canonical cwd u : is_abs cwd = true ->
  (u_path u = [] \/ is_abs (u_path u) = true \/ u_scheme u = []) ->
  let v := nb_rec cwd u in
  u_scheme v <> [] /\ u_frag v = [] /\
  (u_path v = [] \/ (is_abs (u_path v) = true /\ clean (u_path v) = u_path v)).
Proof.
  intros Hc Hshape v.
  destruct (nb_rec_props cwd u Hc Hshape) as [V1 [V0 [V2 _]]].
  split; [exact V0|]. split; [exact V1|].
  destruct V2 as [V|[Va Vb]]; [left; exact V|right; split; assumption].
Qed.

(* a query never survives on a local file (the repaired behaviour, finding F11) *)
Theorem nb_rec_file_no_query cwd u :
  u_scheme (nb_rec cwd u) = s2l "file" -> u_query (nb_rec cwd u) = [] /\ u_forceq (nb_rec cwd u) = false.
Proof.
  unfold nb_rec.
  destruct (nonempty (u_scheme (clean_path_field (set_frag u []))) &&
            (is_abs (u_path (clean_path_field (set_frag u []))) ||
             negb (chars_eqb (u_scheme (clean_path_field (set_frag u []))) (s2l "file")))).
  - unfold drop_file_query.
    destruct (chars_eqb (u_scheme (clean_path_field (set_frag u []))) (s2l "file")) eqn:E; cbn [u_scheme u_query u_forceq].
    + intros _. split; reflexivity.
    + intros H. rewrite H in E. cbv in E. discriminate.
  - intros _. split; reflexivity.
Qed.
