(* Package-level state and the resolution cache as a state machine (C16), interleavings of atomic cache
   operations (C17), and the discipline checks over the tables regenerated from /repo (Gen_Globals.v). *)
From Coq Require Import List String Bool Arith Lia.
From Spec Require Import Base.Json Cache.Gen_Globals.
Import ListNotations.
Local Open Scope string_scope.

(* ---------- discipline of package-level state, from the source ---------- *)
(* a writer entry is "how:function"; these are the only writers the design allows:
   the lazily initialised cache (written once, through sync.Once), the logger set up by package init *)
Definition allowed_writers : list (string * list string) :=
  [("resCache", ["assign:initResolutionCache"; "method:ShallowClone:cacheOrDefault"]);
   ("onceCache", ["method:Do:cacheOrDefault"]);
   ("assets", ["method:ReadFile:jsonschemaDraft04JSONBytes"; "method:ReadFile:v2SchemaJSONBytes"]);
   ("specLogger", ["assign:debugOptions"; "method:Printf:absPath"; "method:Printf:debugLog"; "method:Printf:normalizeBase"; "method:Printf:normalizeURI"]);
   (* values of package-level variables handed out by a function ("returned:function"): an error value, and the two
      constant encodings `true` / `false` of SchemaOrBool (swag.ConcatJSON copies them); any other package-level variable whose
      value is returned to callers - a pointer, map or slice they could write through - breaks the obligation *)
   ("ErrResolveRefNeedsAPointer", ["returned:schemaLoader.resolveRef"]);
   ("jsFalse", ["returned:SchemaOrBool.MarshalJSON"]);
   ("jsTrue", ["returned:SchemaOrBool.MarshalJSON"]);
   (* the package-level loader function read into a local ("aliased:function"); a package-level slice, map or pointer given
      another name, or passed to a function of the package ("passed:callee:function"), breaks the obligation *)
   ("PathLoader", ["aliased:newResolverContext"])].

Definition globals_ok (g : list (string * list string)) : bool :=
  forallb (fun e => match assoc (fst e) allowed_writers with
                    | Some ws => forallb (fun w => mem_str w ws) (snd e)
                    | None => match snd e with [] => true | _ => false end
                    end) g.

(* every exported entry point that hands a caller's cache to the loader goes through cacheOrDefault *)
Definition passing_ok (p : list (string * bool)) : bool := forallb snd p.

(* lock discipline: every read/write of the store lies between a lock and the matching unlock;
   a write needs the exclusive lock; nothing is deferred (no early-return path can keep a lock) *)
Fixpoint well_locked (evs : list string) (held : nat) : bool :=   (* held: 0 none, 1 read lock, 2 write lock *)
  match evs with
  | [] => Nat.eqb held 0
  | e :: r =>
      if String.eqb e "RLock" then Nat.eqb held 0 && well_locked r 1
      else if String.eqb e "Lock" then Nat.eqb held 0 && well_locked r 2
      else if String.eqb e "RUnlock" then Nat.eqb held 1 && well_locked r 0
      else if String.eqb e "Unlock" then Nat.eqb held 2 && well_locked r 0
      else if String.eqb e "read:store" then Nat.leb 1 held && well_locked r held
      else if String.eqb e "write:store" then Nat.eqb held 2 && well_locked r held
      else if String.eqb e "len:store" then well_locked r held   (* capacity hint only; see cache_ok *)
      else false
  end.

(* Get and Set — the only operations used on a cache that goroutines share — are well locked; the unlocked
   len() of ShallowClone is tolerated because ShallowClone is only ever applied to the package-level cache,
   which nothing writes after its one-time initialisation (globals_ok) *)
Definition cache_ok (ms : list (string * list string)) : bool :=
  forallb (fun m => well_locked (snd m) 0) ms
  && forallb (fun m => if mem_str "len:store" (snd m) then String.eqb (fst m) "ShallowClone" else true) ms.

Lemma globals_discipline : globals_ok gen_globals = true.
Proof. vm_compute. reflexivity. Qed.
Lemma cache_passing_discipline : passing_ok gen_cache_passing = true.
Proof. vm_compute. reflexivity. Qed.
Lemma lock_discipline : cache_ok gen_cache_methods = true.
Proof. vm_compute. reflexivity. Qed.

(* ---------- C16: histories of calls ---------- *)
Section History.
Variable doc : Type.
Definition cache := list (string * doc).
Variable builtin : cache.                 (* the two meta-schemas *)
Variable outcome : Type.
(* what one call computes from the cache it works on; everything else it uses (root, options, loader) is in the call *)
Variable call : Type.
Variable run_call : call -> cache -> outcome.
Variable caller_cache : call -> option cache.

Record gstate := { g : option cache }.    (* resCache: None before the sync.Once has run *)
Definition init : gstate := {| g := None |}.

(* cacheOrDefault: initialise once, then hand out the caller's cache or a clone of the package-level one *)
Definition step (s : gstate) (c : call) : gstate * outcome :=
  let s' := match g s with None => {| g := Some builtin |} | Some _ => s end in
  let work := match caller_cache c with
              | Some cc => cc
              | None => match g s' with Some b => b | None => builtin end   (* a clone: same contents *)
              end in
  (s', run_call c work).

Fixpoint run (h : list call) (s : gstate) : gstate * list outcome :=
  match h with
  | [] => (s, [])
  | c :: r => let '(s1, o) := step s c in let '(s2, os) := run r s1 in (s2, o :: os)
  end.

Definition good (s : gstate) : Prop := g s = None \/ g s = Some builtin.

Lemma step_good s c : good s -> good (fst (step s c)).
Proof. intros [H|H]; unfold step, good; rewrite H; cbn; auto. Qed.

Lemma run_cons c r s : fst (run (c :: r) s) = fst (run r (fst (step s c))).
Proof. cbn [run]. destruct (step s c) as [s1 o]. cbn [fst]. destruct (run r s1) as [s2 os]. reflexivity. Qed.

Theorem global_invariant : forall h s, good s -> good (fst (run h s)).
Proof.
  induction h as [|c r IH]; intros s Hs; [exact Hs|].
  rewrite run_cons. apply IH. apply step_good. exact Hs.
Qed.

(* a call made without a caller-supplied cache computes the same whatever came before it *)
Lemma step_outcome s c : good s -> caller_cache c = None -> snd (step s c) = run_call c builtin.
Proof. intros [H|H] Hc; unfold step; rewrite H, Hc; cbn; try rewrite H; reflexivity. Qed.

Theorem history_free : forall h c, caller_cache c = None ->
  snd (step (fst (run h init)) c) = snd (step init c).
Proof.
  intros h c Hc. rewrite (step_outcome init c); [|left; reflexivity|exact Hc].
  apply step_outcome; [|exact Hc]. apply global_invariant. left. reflexivity.
Qed.

(* the built-in meta-schemas are what every later call starts from *)
Theorem builtins_kept : forall h, g (fst (run h init)) = None \/ g (fst (run h init)) = Some builtin.
Proof. intros h. apply (global_invariant h init). left. reflexivity. Qed.
End History.

(* ---------- C17: interleavings of atomic Get / Load / Set on one shared cache ---------- *)
Section Interleave.
Variable doc : Type.
Variable docs : string -> option doc.      (* what the (deterministic) loader serves *)

(* a goroutine: given the documents it has obtained so far, the next URL it needs (None: finished) *)
Definition prog := list (option doc) -> option string.
Record thread := { code : prog; got : list (option doc) }.

Definition shared := list (string * doc).
Definition consistent (c : shared) : Prop := forall u d, assoc u c = Some d -> docs u = Some d.

(* one atomic step of thread t on the shared cache: Get, and on a miss Load then Set *)
Definition tstep (c : shared) (t : thread) : shared * thread :=
  match code t (got t) with
  | None => (c, t)
  | Some u =>
      match assoc u c with
      | Some d => (c, {| code := code t; got := got t ++ [Some d] |})
      | None => match docs u with
                | Some d => ((u, d) :: c, {| code := code t; got := got t ++ [Some d] |})
                | None => (c, {| code := code t; got := got t ++ [None] |})
                end
      end
  end.

(* the same thread running alone against the loader, without any cache *)
Definition solo_step (t : thread) : thread :=
  match code t (got t) with
  | None => t
  | Some u => {| code := code t; got := got t ++ [docs u] |}
  end.

Lemma tstep_consistent c t : consistent c -> consistent (fst (tstep c t)).
Proof.
  intros H. unfold tstep. destruct (code t (got t)) as [u|]; [|exact H].
  destruct (assoc u c) eqn:E; [exact H|]. destruct (docs u) eqn:Ed; [|exact H].
  cbn. intros u' d' H'. cbn in H'. destruct (String.eqb u' u) eqn:Eu.
  - apply String.eqb_eq in Eu. subst u'. inversion H'; subst. exact Ed.
  - apply H. exact H'.
Qed.

(* with a consistent cache a step gives the thread exactly what it would get alone *)
Lemma tstep_solo c t : consistent c -> snd (tstep c t) = solo_step t.
Proof.
  intros H. unfold tstep, solo_step. destruct (code t (got t)) as [u|]; [|reflexivity].
  destruct (assoc u c) eqn:E.
  - rewrite (H u d E). reflexivity.
  - destruct (docs u); reflexivity.
Qed.

(* a schedule is a list of thread indices; threads are a list *)
Fixpoint upd_nth {A} (l : list A) (i : nat) (x : A) : list A :=
  match l, i with
  | [], _ => []
  | _ :: r, O => x :: r
  | y :: r, S k => y :: upd_nth r k x
  end.

Fixpoint run_sched (sched : list nat) (c : shared) (ts : list thread) : shared * list thread :=
  match sched with
  | [] => (c, ts)
  | i :: r => match nth_error ts i with
              | Some t => let '(c', t') := tstep c t in run_sched r c' (upd_nth ts i t')
              | None => run_sched r c ts
              end
  end.

(* the solo execution of thread i for as many steps as the schedule gives it *)
Fixpoint count_occ_nat (l : list nat) (i : nat) : nat :=
  match l with [] => 0 | x :: r => (if Nat.eqb x i then 1 else 0) + count_occ_nat r i end.
Fixpoint iter_solo (n : nat) (t : thread) : thread := match n with O => t | S k => iter_solo k (solo_step t) end.

Lemma nth_upd_same {A} (l : list A) i x t : nth_error l i = Some t -> nth_error (upd_nth l i x) i = Some x.
Proof. revert i. induction l as [|y r IH]; intros [|k] H; cbn in *; try discriminate; [reflexivity|apply IH; exact H]. Qed.
Lemma nth_upd_other {A} (l : list A) i j x : i <> j -> nth_error (upd_nth l i x) j = nth_error l j.
Proof.
  revert i j. induction l as [|y r IH]; intros [|k] [|m] H; cbn; try reflexivity; [contradiction|apply IH; lia].
Qed.

(* every interleaving gives every thread its solo result, and leaves the cache consistent *)
Theorem interleaving_transparent : forall sched c ts,
  consistent c ->
  consistent (fst (run_sched sched c ts)) /\
  forall i t, nth_error ts i = Some t ->
    nth_error (snd (run_sched sched c ts)) i = Some (iter_solo (count_occ_nat sched i) t).
Proof.
  induction sched as [|j r IH]; intros c ts Hc; cbn [run_sched].
  - split; [exact Hc|]. intros i t H. exact H.
  - destruct (nth_error ts j) as [tj|] eqn:Ej.
    + destruct (tstep c tj) as [c' t'] eqn:Et.
      assert (Hc' : consistent c') by (replace c' with (fst (tstep c tj)) by (rewrite Et; reflexivity); apply tstep_consistent; exact Hc).
      assert (Ht' : t' = solo_step tj) by (replace t' with (snd (tstep c tj)) by (rewrite Et; reflexivity); apply tstep_solo; exact Hc).
      destruct (IH c' (upd_nth ts j t') Hc') as [I1 I2]. split; [exact I1|].
      intros i t Hi. cbn [count_occ_nat]. destruct (Nat.eqb j i) eqn:Eji.
      * apply Nat.eqb_eq in Eji. subst i. rewrite Ej in Hi. inversion Hi; subst t.
        rewrite (I2 j t' (nth_upd_same ts j t' tj Ej)). rewrite Ht'. reflexivity.
      * apply Nat.eqb_neq in Eji. rewrite (I2 i t); [reflexivity|]. rewrite nth_upd_other by exact Eji. exact Hi.
    + destruct (IH c ts Hc) as [I1 I2]. split; [exact I1|].
      intros i t Hi. cbn [count_occ_nat]. destruct (Nat.eqb j i) eqn:Eji.
      * apply Nat.eqb_eq in Eji. subst i. rewrite Ej in Hi. discriminate.
      * apply I2. exact Hi.
Qed.
End Interleave.
