(* C04 — Expansion terminates without crashing on every reference graph.
   Model: Expand/Expand.v — the tree walk is a structural recursion (checked by Coq's guard checker,
   so it cannot diverge or get stuck on any tree); following a `$ref` consumes one unit of a fuel
   that counts only the nesting depth of followed references. *)
From Coq Require Import List String Bool Arith.
From Spec Require Import Base.Json Base.Url Codec.Types Codec.Codec Expand.Expand Expand.ExpandFacts.
Import ListNotations.

(* The pigeonhole, for every store, every loader, every option setting, every schema, every state:
   if fuel d runs out, then d pairwise distinct canonical references (outputs of normalizeURI), all
   different from the references already on the parent stack, were nested in one another. *)
Theorem C04_out_of_fuel_needs_distinct_refs :
  forall E docs cwd OP ctx_base live d s parents rroot base j,
  exp E docs cwd OP ctx_base live d s parents rroot base j = OOF ->
  exists ps, List.length ps = d /\ (NoDup parents -> NoDup (parents ++ ps)) /\ Forall canonical_output ps.
Proof. exact exp_oof. Qed.
Print Assumptions C04_out_of_fuel_needs_distinct_refs.

(* Hence expansion never needs more fuel than there are canonical references: whenever all of them lie
   in a finite set U (the references of finitely many documents resolved against finitely many bases),
   fuel |U| + 1 is never exhausted — the result is a value or an error. *)
Theorem C04_terminates :
  forall E docs cwd OP ctx_base live U d s parents rroot base j,
  (forall x, canonical_output x -> In x U) -> NoDup parents -> incl parents U ->
  List.length U < List.length parents + d ->
  exp E docs cwd OP ctx_base live d s parents rroot base j <> OOF.
Proof. exact exp_terminates. Qed.
Print Assumptions C04_terminates.

(* fuel is consumed only by following references: the walk itself passes OutOfFuel on, it never creates it *)
Theorem C04_walk_needs_no_fuel :
  forall E docs cwd OP ctx_base live follow j s parents rroot base,
  walk E docs cwd OP ctx_base live follow j s parents rroot base = OOF -> from_follow follow parents.
Proof. exact walk_oof. Qed.
Print Assumptions C04_walk_needs_no_fuel.
