(* C04 — Expansion terminates without crashing on every reference graph.
   Model: Expand/Expand.v — the tree walk is a structural recursion (checked by Coq's guard checker,
   so it cannot diverge or get stuck on any tree); following a `$ref` consumes one unit of a fuel
   that counts only the nesting depth of followed references. *)
From Coq Require Import List String Bool Arith.
From Spec Require Import Base.Json Base.Url Codec.Types Codec.Gen_Tables Codec.Codec Codec.CodecFacts Expand.Expand Expand.ExpandFacts
  Expand.ExpandSim Expand.ExpandSimCheck Expand.ExpandCycle Expand.ExpandElem Expand.ExpandSpecTerm Expand.ExpandTermG Expand.ExpandComplete Expand.ExpandChain Expand.ExpandSpecSim Expand.ExpandExample.
Import ListNotations.
Local Open Scope string_scope.

(* The pigeonhole, for every store, every loader, every option setting, every schema, every state:
   if fuel d runs out, then d pairwise distinct canonical references (outputs of normalizeURI), all
   different from the references already on the parent stack, were nested in one another. *)
Theorem C04_out_of_fuel_needs_distinct_refs :
  forall E docs cwd OP ctx_base live d s parents rroot base j,
  exp E docs cwd OP ctx_base live d s parents rroot base j = OOF ->
  exists ps, List.length ps = d /\ (NoDup parents -> NoDup (parents ++ ps)) /\ Forall canonical_output ps.
Proof. exact exp_oof. Qed.
Print Assumptions C04_out_of_fuel_needs_distinct_refs.

(* Hence, relative to a finite reference graph (Expand/ExpandTermG.v): the references on the stack when fuel runs out are
   references OF THE GRAPH (canonical forms of `$ref`s held by located schemas reachable from the start), so fuel above the
   number of distinct references of the graph is never exhausted — for every store, state, stack without duplicates,
   resolver root, SkipSchemas/AbsoluteCircularRef setting (strict mode; graph hypotheses decided by the verified checker).
   (A bound in terms of ALL canonical references would say nothing: there are infinitely many.) *)
Theorem C04_terminates_on_the_graph : forall E docs cwd OP ctx_base rid nodes live,
  check_nodes E docs cwd OP ctx_base rid nodes = true ->
  (forall lu ld, live = Some (lu, ld) -> doc_at docs cwd lu = Some ld) ->
  o_cont OP = false ->
  forall d s parents rroot base j,
    NoDup parents -> List.length (refs_of nodes) < d ->
    GN nodes base j -> Inv docs rid s -> Coh cwd rroot base ->
    exp E docs cwd OP ctx_base live d s parents rroot base j <> OOF.
Proof. exact checked_exp_terminates. Qed.
Print Assumptions C04_terminates_on_the_graph.

(* ... and when every reference of the graph is resolvable the expansion then RETURNS A RESULT: neither an error nor a
   step outside the modelled fragment (Expand/ExpandComplete.v) *)
Theorem C04_expansion_returns : forall E docs cwd OP ctx_base rid nodes live,
  check_nodes E docs cwd OP ctx_base rid nodes = true -> check_resolvable E docs cwd OP ctx_base rid nodes = true ->
  (forall lu ld, live = Some (lu, ld) -> doc_at docs cwd lu = Some ld) ->
  o_cont OP = false ->
  forall d s parents rroot base j,
    NoDup parents -> List.length (refs_of nodes) < d ->
    GN nodes base j -> Inv docs rid s -> Coh cwd rroot base ->
    exists s' j', exp E docs cwd OP ctx_base live d s parents rroot base j = Done (s', j').
Proof. exact checked_exp_succeeds. Qed.
Print Assumptions C04_expansion_returns.

(* non-vacuity: the cyclic two-document graph holds 5 references; fuel 6 suffices from any consistent state, any stack *)
Example C04_example : List.length (refs_of ex_nodes) = 5 /\
  forall abs s parents rroot, NoDup parents -> Inv ex_docs "" s -> Coh "/" rroot ex_root_url ->
  exists s' j', exp gen_env ex_docs "/" (mkOpts false false abs) ex_root_url ex_live 6 s parents rroot ex_root_url ex_start = Done (s', j').
Proof.
  split; [vm_compute; reflexivity|]. intros abs s parents rroot Hnd Hs Hc.
  assert (Hck : check_nodes gen_env ex_docs "/" (mkOpts false false abs) ex_root_url "" ex_nodes = true) by (destruct abs; vm_compute; reflexivity).
  assert (Hres : check_resolvable gen_env ex_docs "/" (mkOpts false false abs) ex_root_url "" ex_nodes = true) by (destruct abs; vm_compute; reflexivity).
  assert (Hlive : forall lu ld, ex_live = Some (lu, ld) -> doc_at ex_docs "/" lu = Some ld) by (intros lu ld E; inversion E; subst; vm_compute; reflexivity).
  apply (C04_expansion_returns gen_env ex_docs "/" (mkOpts false false abs) ex_root_url "" ex_nodes ex_live Hck Hres Hlive eq_refl 6 s parents rroot ex_root_url ex_start Hnd).
  - vm_compute. repeat constructor.
  - vm_compute. tauto.
  - exact Hs.
  - exact Hc.
Qed.

(* fuel is consumed only by following references: the walk itself passes OutOfFuel on, it never creates it *)
Theorem C04_walk_needs_no_fuel :
  forall E docs cwd OP ctx_base live follow j s parents rroot base,
  walk E docs cwd OP ctx_base live follow j s parents rroot base = OOF -> from_follow follow parents.
Proof. exact walk_oof. Qed.
Print Assumptions C04_walk_needs_no_fuel.

(* ---------- the whole of ExpandSpec (Expand/ExpandSpecTerm.v, ExpandTermG.v) ---------- *)
(* the `$ref` chains of parameters, responses and path items: a chain that runs out of fuel exhibits as many pairwise
   distinct canonical references as there was fuel (every hop puts one on the stack that was not on it) ... *)
Theorem C04_chain_out_of_fuel_needs_distinct_refs : forall E docs cwd OP live fuel s parents rroot base kind m,
  deref E docs cwd OP live fuel s parents rroot base kind m = OOF ->
  exists ps, List.length ps = fuel /\ (NoDup parents -> NoDup (parents ++ ps)%list) /\ Forall canonical_output ps.
Proof. exact deref_oof. Qed.
Print Assumptions C04_chain_out_of_fuel_needs_distinct_refs.

(* ... which are references of the graph of located elements, so that fuel above their number is never exhausted *)
Theorem C04_chains_terminate_on_the_graph : forall E docs cwd OP live rid,
  (forall lu ld, live = Some (lu, ld) -> doc_at docs cwd lu = Some ld) -> o_cont OP = false ->
  forall GE : string -> string -> list (string * json) -> Prop,
  (forall kind b m, GE kind b m -> get_str "$ref" m <> "" -> remove_key "$ref" m = []) ->
  (forall kind b m b1 tm, GE kind b m -> get_str "$ref" m <> "" ->
     sem_target_k E docs cwd kind (get_str "$ref" m) b = Some (b1, JObj tm) -> GE kind b1 tm /\ merge_over tm [] = tm) ->
  (forall kind b m nref, GE kind b m -> get_str "$ref" m <> "" -> nuri (get_str "$ref" m) b = POk nref ->
     keeps_resolver (get_str "$ref" m) b nref -> nbase cwd (strip_frag nref) = nbase cwd (strip_frag b)) ->
  forall kind U fuel s parents rroot base m,
  (forall x, eholder_ref GE x -> In x U) -> NoDup parents -> List.length U < fuel ->
  GE kind base m -> Inv docs rid s -> Coh cwd rroot base ->
  deref E docs cwd OP live fuel s parents rroot base kind m <> OOF.
Proof. exact deref_terminatesGE. Qed.
Print Assumptions C04_chains_terminate_on_the_graph.

(* the composition over operations, path items and the four sections of a specification consumes no fuel: ExpandSpec can
   only run out of fuel inside a schema expansion or inside a chain *)
Theorem C04_composition_consumes_no_fuel : forall E docs cwd OP ctx_base live follow fuel root_url root s,
  (forall s rr b j, follow s [] rr b j <> OOF) ->
  (forall s rr b kind m, deref E docs cwd OP live fuel s [] rr b kind m <> OOF) ->
  (forall j s k rr b, walk E docs cwd OP ctx_base live follow j s [k] rr b <> OOF) ->
  expand_spec_with E docs cwd OP ctx_base live follow fuel root_url root s <> OOF.
Proof. exact expand_spec_with_not_oof. Qed.
Print Assumptions C04_composition_consumes_no_fuel.

(* ---------- ExpandSpec as a whole terminates with a result (Expand/ExpandChain.v, ExpandSpecSim.v) ---------- *)
(* the chains of a well-formed, resolvable graph of elements return: fuel above the rank of the first hop is enough *)
Theorem C04_chains_return : forall E docs cwd OP live rid,
  (forall lu ld, live = Some (lu, ld) -> doc_at docs cwd lu = Some ld) ->
  forall GE : string -> string -> list (string * json) -> Prop,
  (forall kind b m, GE kind b m -> get_str "$ref" m <> "" -> remove_key "$ref" m = []) ->
  (forall kind b m b1 tm, GE kind b m -> get_str "$ref" m <> "" ->
     sem_target_k E docs cwd kind (get_str "$ref" m) b = Some (b1, JObj tm) -> GE kind b1 tm /\ merge_over tm [] = tm) ->
  (forall kind b m nref, GE kind b m -> get_str "$ref" m <> "" -> nuri (get_str "$ref" m) b = POk nref ->
     keeps_resolver (get_str "$ref" m) b nref -> nbase cwd (strip_frag nref) = nbase cwd (strip_frag b)) ->
  forall MD : string -> Prop, (forall x, chain_ref GE x -> ~ MD x) ->
  forall rk : string -> nat,
  (forall kind b m nref b1 tm nref1, GE kind b m -> get_str "$ref" m <> "" ->
     nuri (get_str "$ref" m) b = POk nref -> sem_target_k E docs cwd kind (get_str "$ref" m) b = Some (b1, JObj tm) ->
     get_str "$ref" tm <> "" -> nuri (get_str "$ref" tm) b1 = POk nref1 -> rk nref1 < rk nref) ->
  (forall kind b m, GE kind b m -> get_str "$ref" m <> "" ->
     exists nref b1 tm br, nuri (get_str "$ref" m) b = POk nref /\
       sem_target_k E docs cwd kind (get_str "$ref" m) b = Some (b1, JObj tm) /\ new_ref (s2l b) = POk br) ->
  forall kind fuel s parents rroot base m,
  GE kind base m -> Inv docs rid s -> Coh cwd rroot base -> MemoIn MD s -> above rk parents base m ->
  (forall nref, get_str "$ref" m <> "" -> nuri (get_str "$ref" m) base = POk nref -> rk nref < fuel) ->
  exists s' m1 rr1 b1, deref E docs cwd OP live fuel s parents rroot base kind m = Done (s', m1, rr1, b1).
Proof. exact deref_succeeds. Qed.
Print Assumptions C04_chains_return.

(* ExpandSpec returns a document on every checked, resolvable graph, from every consistent state (the statement and the
   example are those of C08_expand_spec_no_spurious_error; here: neither OutOfFuel nor an unsupported step) *)
Theorem C04_expand_spec_returns : forall E docs cwd OP ctx_base rid nodes enodes bad0 ranks live,
  (forall lu ld, live = Some (lu, ld) -> doc_at docs cwd lu = Some ld) ->
  o_cont OP = false -> o_skip OP = false ->
  check_nodes E docs cwd OP ctx_base rid nodes = true -> check_enodes E docs cwd enodes nodes = true ->
  check_chains E docs cwd nodes enodes bad0 ranks = true -> check_pis enodes = true ->
  check_resolvable E docs cwd OP ctx_base rid nodes = true -> check_eresolvable E docs cwd enodes = true ->
  forall d root_url m s,
  List.length (refs_of nodes) < d -> forallb (fun kr => Nat.ltb (snd kr) (S d)) ranks = true ->
  check_root ctx_base nodes enodes bad0 m = true ->
  Inv2 E docs cwd rid (GN nodes) bad0 s -> Coh cwd (Some root_url) ctx_base ->
  expand_spec E docs cwd OP ctx_base live d root_url (JObj m) s <> OOF /\
  expand_spec E docs cwd OP ctx_base live d root_url (JObj m) s <> Unsup.
Proof.
  intros E docs cwd OP ctx_base rid nodes enodes bad0 ranks live Hlive Hstrict Hskip Hck Hcke Hckc Hckp Hres Heres d root_url m s Hlen Hranks Hroot Hs Hcoh.
  destruct (checked_spec_total E docs cwd OP ctx_base rid nodes enodes bad0 ranks live Hlive Hstrict Hskip Hck Hcke Hckc Hckp d root_url m s Hres Heres Hlen Hranks Hroot Hs Hcoh) as [s' [out H]].
  rewrite H. split; discriminate.
Qed.
Print Assumptions C04_expand_spec_returns.
