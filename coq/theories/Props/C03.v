(* C03 — Expansion leaves only resolvable cycle cut-points; acyclic specs end $ref-free. *)
From Coq Require Import List String Bool.
From Spec Require Import Base.Json Base.Url Codec.Types Codec.Gen_Tables Codec.Codec Codec.CodecFacts Expand.Expand Expand.ExpandFacts
  Expand.ExpandSim Expand.ExpandSimCheck Expand.ExpandCycle Expand.ExpandElem Expand.ExpandTermG Expand.ExpandChain Expand.ExpandSpecSim Expand.ExpandExample.
Import ListNotations.

(* a schema reference is kept exactly when its canonical form is already on the stack of references being expanded
   (a cycle has just been closed) or in the memo of references found circular earlier ... *)
Theorem C03_kept_means_circular : forall s nref parents s1, is_circular s nref parents = (s1, true) ->
  (mem_str nref (memo s) = true /\ s1 = s) \/ (mem_str nref parents = true /\ s1 = set_memo s (nref :: memo s)).
Proof. exact is_circular_true. Qed.
Print Assumptions C03_kept_means_circular.

(* ... the memo only ever receives references that were on the stack — i.e. references whose expansion had led back to
   themselves — so every kept reference is a node of a reference cycle of the input *)
Theorem C03_memo_holds_cycle_nodes : forall s nref parents s1 b, is_circular s nref parents = (s1, b) ->
  forall x, In x (memo s1) -> In x (memo s) \/ (x = nref /\ mem_str nref parents = true).
Proof. exact is_circular_memo. Qed.
Print Assumptions C03_memo_holds_cycle_nodes.

(* how a kept reference is written: only the `$ref` member of its holder changes *)
Theorem C03_kept_rendering : forall E docs cwd OP ctx_base live follow s parents rroot base m nref s1,
  nuri (get_str "$ref" m) base = POk nref -> is_circular s nref parents = (s1, true) ->
  expand_schema_ref E docs cwd OP ctx_base live follow s parents rroot base m
  = pbind s1 (render_kept OP ctx_base s1 nref) (fun txt => Done (s1, JObj (set_member "$ref" (JStr txt) m))).
Proof. exact esr_kept. Qed.
Print Assumptions C03_kept_rendering.

(* with the absolute-circular-ref option it is the absolute canonical URL *)
Theorem C03_absolute : forall OP ctx_base s nref, o_abs OP = true -> render_kept OP ctx_base s nref = POk nref.
Proof. exact render_kept_absolute. Qed.
Print Assumptions C03_absolute.

(* a reference that is not circular is replaced by the expansion of its target — it cannot remain *)
Theorem C03_non_circular_is_followed : forall E docs cwd OP ctx_base live follow s parents rroot base m nref s1 s2 t rc,
  nuri (get_str "$ref" m) base = POk nref -> is_circular s nref parents = (s1, false) ->
  resolve E docs cwd live s1 rroot (get_str "$ref" m) base "Schema" = Done (s2, t) ->
  transitive s2 rroot base (get_str "$ref" m) = Done rc ->
  expand_schema_ref E docs cwd OP ctx_base live follow s parents rroot base m
  = follow s2 (parents ++ [nref])%list (fst rc) (strip_frag nref) t.
Proof. exact esr_followed. Qed.
Print Assumptions C03_non_circular_is_followed.

(* relative rendering, on strings: resolving the kept text against the root location gives back the canonical target,
   fragment-only when the target is in the root document *)
Example C03_example_rendering :
  let root := s2l "file:///r/root.json" in
  map (fun t => match new_ref (s2l t) with
                | POk r => match denormalize_ref r root [] with
                           | POk r' => (l2s (ref_string r'), match normalize_uri (ref_string r') root with POk x => l2s x | _ => ""%string end)
                           | _ => (""%string, ""%string) end
                | _ => (""%string, ""%string) end)
      ["file:///r/root.json#/definitions/a"; "file:///r/sub/o.json#/definitions/b"; "http://h/x.json#/d"; "file:///q/p.json#/d"]%string
  = [("#/definitions/a", "file:///r/root.json#/definitions/a"); ("sub/o.json#/definitions/b", "file:///r/sub/o.json#/definitions/b");
     ("http://h/x.json#/d", "http://h/x.json#/d"); ("file:///q/p.json#/d", "file:///q/p.json#/d")]%string.
Proof. vm_compute. reflexivity. Qed.

(* ---------- graph level (Expand/ExpandCycle.v) ----------
   The input graph: located schema objects (ExpandSim.v), an edge from an object without reference to each object at one
   of its sub-schema positions and from a reference holder to its target.  [on_cycle nref]: some holder of the canonical
   reference nref has a target from which a holder of nref is reachable.  [out_ok j']: every `$ref` left in j' (at a
   sub-schema position, at any depth) is the rendering of a reference that is on a cycle (or was handed in by the caller
   on the stack / in the memo: bad0).  Proved for every store, state, stack, fuel, AbsoluteCircularRef setting, in strict
   full mode, for graphs satisfying the well-formedness hypotheses of C02 (decided by check_nodes). *)
Theorem C03_kept_refs_lie_on_cycles : forall E docs cwd OP ctx_base rid nodes live bad0,
  check_nodes E docs cwd OP ctx_base rid nodes = true ->
  (forall lu ld, live = Some (lu, ld) -> doc_at docs cwd lu = Some ld) ->
  o_cont OP = false -> o_skip OP = false ->
  forall d s parents rroot base j s' j',
    GN nodes base j -> Inv2 E docs cwd rid (GN nodes) bad0 s -> Coh cwd rroot base -> PInv E docs cwd (GN nodes) bad0 parents (base, j) ->
    exp E docs cwd OP ctx_base live d s parents rroot base j = Done (s', j') ->
    Inv2 E docs cwd rid (GN nodes) bad0 s' /\ okv E docs cwd OP ctx_base rid (GN nodes) bad0 j j'.
Proof. exact checked_graph_cyc. Qed.
Print Assumptions C03_kept_refs_lie_on_cycles.

(* acyclic input => the output holds no `$ref` at any sub-schema position *)
Theorem C03_acyclic_ends_ref_free : forall E docs cwd OP ctx_base rid G bad0,
  (forall nref, ~ on_cycle E docs cwd G nref) -> bad0 = [] ->
  forall j, out_ok E docs cwd OP ctx_base rid G bad0 j -> ref_free j.
Proof. exact acyclic_ref_free. Qed.
Print Assumptions C03_acyclic_ends_ref_free.

(* acyclicity itself is decided by a rank that every edge decreases (the nodes listed in topological order) *)
Theorem C03_ranked_graphs_are_acyclic : forall E docs cwd OP ctx_base rid nodes,
  check_nodes E docs cwd OP ctx_base rid nodes = true -> rank_check E docs cwd nodes = true -> canon_check nodes = true ->
  forall nref, ~ on_cycle E docs cwd (GN nodes) nref.
Proof. exact checked_graph_acyclic. Qed.
Print Assumptions C03_ranked_graphs_are_acyclic.

(* non-vacuity, cyclic graph: the expansion of `a` succeeds and everything it leaves behind is on a cycle *)
Example C03_example_cyclic : forall abs s' j',
  exp gen_env ex_docs "/" (mkOpts false false abs) ex_root_url ex_live 8 ex_s0 [] (Some ex_root_url) ex_root_url ex_start = Done (s', j') ->
  out_ok gen_env ex_docs "/" (mkOpts false false abs) ex_root_url "" (GN ex_nodes) [] j'.
Proof.
  intros abs s' j' H.
  assert (Hck : check_nodes gen_env ex_docs "/" (mkOpts false false abs) ex_root_url "" ex_nodes = true) by (destruct abs; vm_compute; reflexivity).
  assert (Hlive : forall lu ld, ex_live = Some (lu, ld) -> doc_at ex_docs "/" lu = Some ld) by (intros lu ld E; inversion E; subst; vm_compute; reflexivity).
  assert (Hg : GN ex_nodes ex_root_url ex_start) by (vm_compute; tauto).
  assert (Hinv : Inv2 gen_env ex_docs "/" "" (GN ex_nodes) [] ex_s0) by (split; [split; [intros u d E; discriminate|reflexivity]|intros x []]).
  assert (Hcoh : Coh "/" (Some ex_root_url) ex_root_url) by (intros ru E; inversion E; subst; reflexivity).
  assert (HP : PInv gen_env ex_docs "/" (GN ex_nodes) [] [] (ex_root_url, ex_start)) by (intros p []).
  exact (proj2 (C03_kept_refs_lie_on_cycles _ _ _ _ _ _ _ _ _ Hck Hlive eq_refl eq_refl _ _ _ _ _ _ _ _ Hg Hinv Hcoh HP H)).
Qed.
Example C03_example_cyclic_runs : exists s' j',
  exp gen_env ex_docs "/" (mkOpts false false false) ex_root_url ex_live 8 ex_s0 [] (Some ex_root_url) ex_root_url ex_start = Done (s', j').
Proof. vm_compute. eexists. eexists. reflexivity. Qed.

(* non-vacuity, acyclic graph (two documents, four references): the checks hold and the output is reference-free *)
Example C03_example_acyclic : forall s' j',
  exp gen_env ac_docs "/" (mkOpts false false false) ex_root_url ac_live 8 ex_s0 [] (Some ex_root_url) ex_root_url ac_start = Done (s', j') ->
  ref_free j'.
Proof.
  intros s' j' H. set (OP := mkOpts false false false).
  assert (Hck : check_nodes gen_env ac_docs "/" OP ex_root_url "" ac_nodes = true) by (vm_compute; reflexivity).
  assert (Hrk : rank_check gen_env ac_docs "/" ac_nodes = true) by (vm_compute; reflexivity).
  assert (Hcn : canon_check ac_nodes = true) by (vm_compute; reflexivity).
  assert (Hlive : forall lu ld, ac_live = Some (lu, ld) -> doc_at ac_docs "/" lu = Some ld) by (intros lu ld E; inversion E; subst; vm_compute; reflexivity).
  assert (Hg : GN ac_nodes ex_root_url ac_start) by (vm_compute; tauto).
  assert (Hinv : Inv2 gen_env ac_docs "/" "" (GN ac_nodes) [] ex_s0) by (split; [split; [intros u d E; discriminate|reflexivity]|intros x []]).
  assert (Hcoh : Coh "/" (Some ex_root_url) ex_root_url) by (intros ru E; inversion E; subst; reflexivity).
  assert (HP : PInv gen_env ac_docs "/" (GN ac_nodes) [] [] (ex_root_url, ac_start)) by (intros p []).
  pose proof (proj2 (C03_kept_refs_lie_on_cycles _ _ _ _ _ _ _ _ _ Hck Hlive eq_refl eq_refl _ _ _ _ _ _ _ _ Hg Hinv Hcoh HP H)) as Hok.
  eapply C03_acyclic_ends_ref_free; [exact (C03_ranked_graphs_are_acyclic _ _ _ _ _ _ _ Hck Hrk Hcn)|reflexivity|exact Hok].
Qed.
Print Assumptions C03_example_acyclic.
Example C03_example_acyclic_runs : exists s' j',
  exp gen_env ac_docs "/" (mkOpts false false false) ex_root_url ac_live 8 ex_s0 [] (Some ex_root_url) ex_root_url ac_start = Done (s', j').
Proof. vm_compute. eexists. eexists. reflexivity. Qed.

Local Open Scope string_scope.
(* ---------- the whole of ExpandSpec (Expand/ExpandSpecSim.v) ---------- *)
(* Every `$ref` that ExpandSpec leaves at a schema position - in a definition, below a shared parameter or response, below
   the parameters of a path item, below the parameters and responses of an operation - is the rendering of a canonical
   reference that lies on a cycle of the schema graph (or was on the stack its expansion started with: the
   "#/definitions/<name>" entry, which is not a reference of the graph); parameters, responses and path items themselves
   come out as the END of their chains, i.e. without `$ref`.  [spec_rel] walks the output section by section; [okv t t'] says
   "if t is an object, t' satisfies out_ok". *)
Theorem C03_expand_spec_keeps_refs_only_on_cycles : forall E docs cwd OP ctx_base rid nodes enodes bad0 ranks live,
  (forall lu ld, live = Some (lu, ld) -> doc_at docs cwd lu = Some ld) ->
  o_cont OP = false -> o_skip OP = false ->
  check_nodes E docs cwd OP ctx_base rid nodes = true -> check_enodes E docs cwd enodes nodes = true ->
  check_chains E docs cwd nodes enodes bad0 ranks = true -> check_pis enodes = true ->
  forall d root_url m s s' out,
  check_root ctx_base nodes enodes bad0 m = true ->
  Inv2 E docs cwd rid (GN nodes) bad0 s -> Coh cwd (Some root_url) ctx_base ->
  expand_spec E docs cwd OP ctx_base live d root_url (JObj m) s = Done (s', out) ->
  spec_rel E docs cwd ctx_base (fun _ t t' => okv E docs cwd OP ctx_base rid (GN nodes) bad0 t t') m out.
Proof.
  intros E docs cwd OP ctx_base rid nodes enodes bad0 ranks live Hlive Hstrict Hskip Hck Hcke Hckc Hckp d root_url m s s' out Hroot Hs Hcoh H.
  apply (spec_rel_mono E docs cwd (sound_schema E docs cwd OP ctx_base rid nodes bad0) _ (fun b t t' Hq => proj2 Hq)).
  exact (proj2 (checked_spec_sim E docs cwd OP ctx_base rid nodes enodes bad0 ranks live Hlive Hstrict Hskip Hck Hcke Hckc Hckp d (S d) root_url m s s' out Hroot Hs Hcoh H)).
Qed.
Print Assumptions C03_expand_spec_keeps_refs_only_on_cycles.

(* the ends of the chains carry no `$ref` *)
Theorem C03_elements_come_out_without_ref : forall E docs cwd Q kind base m j',
  por_rel E docs cwd Q kind base (JObj m) j' -> exists mo, j' = JObj mo /\ get_str "$ref" mo = "".
Proof.
  intros E docs cwd Q kind base m j' [b1 [m1 [mo [Hch [-> Hout]]]]]. exists mo. split; [reflexivity|].
  assert (Hrm : forall l : list (string * json), assoc "$ref" (remove_key "$ref" l) = None).
  { induction l as [|[k v] r IH]; cbn [remove_key]; [reflexivity|]. destruct (String.eqb "$ref" k) eqn:Ek; [exact IH|]. cbn [assoc]. rewrite Ek. exact IH. }
  unfold por_out in Hout. unfold get_str.
  destruct (assoc "schema" (remove_key "$ref" m1)) as [[| | | | |sm]|]; try (subst mo; rewrite Hrm; reflexivity).
  destruct Hout as [v' [-> _]]. rewrite assoc_set_member_neq by discriminate. rewrite Hrm. reflexivity.
Qed.
Print Assumptions C03_elements_come_out_without_ref.

(* A specification whose schema graph is ACYCLIC (decided by rank_check / canon_check) comes out with no `$ref` at any of
   these positions: every schema of the output is ref_free (provided the initial stack entries are not references of the
   graph, which a boolean test decides) *)
Theorem C03_acyclic_spec_ends_ref_free : forall E docs cwd OP ctx_base rid nodes enodes bad0 ranks live,
  (forall lu ld, live = Some (lu, ld) -> doc_at docs cwd lu = Some ld) ->
  o_cont OP = false -> o_skip OP = false ->
  check_nodes E docs cwd OP ctx_base rid nodes = true -> check_enodes E docs cwd enodes nodes = true ->
  check_chains E docs cwd nodes enodes bad0 ranks = true -> check_pis enodes = true ->
  rank_check E docs cwd nodes = true -> canon_check nodes = true ->
  forallb (fun x => negb (mem_str x bad0)) (refs_of nodes) = true ->
  forall d root_url m s s' out,
  check_root ctx_base nodes enodes bad0 m = true ->
  Inv2 E docs cwd rid (GN nodes) bad0 s -> Coh cwd (Some root_url) ctx_base ->
  expand_spec E docs cwd OP ctx_base live d root_url (JObj m) s = Done (s', out) ->
  spec_rel E docs cwd ctx_base (fun _ t t' => match t with JObj _ => ref_free t' | _ => True end) m out.
Proof.
  intros E docs cwd OP ctx_base rid nodes enodes bad0 ranks live Hlive Hstrict Hskip Hck Hcke Hckc Hckp Hrank Hcanon Hdisj d root_url m s s' out Hroot Hs Hcoh H.
  apply (spec_rel_mono E docs cwd (fun _ t t' => okv E docs cwd OP ctx_base rid (GN nodes) bad0 t t')).
  - intros b t t' Hok. destruct t; auto. cbn [okv] in Hok.
    apply (acyclic_ref_free_from E docs cwd OP ctx_base rid (GN nodes) bad0 (checked_graph_acyclic E docs cwd OP ctx_base rid nodes Hck Hrank Hcanon)); [|exact Hok].
    intros b0 j0 x [Hg [mm0 [-> [Hr Hn]]]] Hin.
    assert (Hx : In x (refs_of nodes)) by (apply holder_ref_refs_of; exists b0, mm0; auto).
    rewrite forallb_forall in Hdisj. pose proof (Hdisj x Hx) as Hd. apply negb_true_iff in Hd. rewrite (In_mem_str _ _ Hin) in Hd. discriminate.
  - exact (C03_expand_spec_keeps_refs_only_on_cycles E docs cwd OP ctx_base rid nodes enodes bad0 ranks live Hlive Hstrict Hskip Hck Hcke Hckc Hckp d root_url m s s' out Hroot Hs Hcoh H).
Qed.
Print Assumptions C03_acyclic_spec_ends_ref_free.

(* non-vacuity: the acyclic two-document specification of ExpandExample.v satisfies every hypothesis, ExpandSpec returns,
   and its result is related to the input by the ref-free relation *)
Example C03_acyclic_spec_example : forall abs,
  exists s' out, expand_spec gen_env sa_docs "/" (mkOpts false false abs) sp_root_url sa_live 12 sp_root_url (JObj sa_members) ex_s0 = Done (s', out)
    /\ spec_rel gen_env sa_docs "/" sp_root_url (fun _ t t' => match t with JObj _ => ref_free t' | _ => True end) sa_members out.
Proof.
  intros abs. set (OP := mkOpts false false abs).
  assert (Hck : check_nodes gen_env sa_docs "/" OP sp_root_url "" sa_nodes = true) by (destruct abs; vm_compute; reflexivity).
  assert (Hcke : check_enodes gen_env sa_docs "/" sa_enodes sa_nodes = true) by (vm_compute; reflexivity).
  assert (Hckc : check_chains gen_env sa_docs "/" sa_nodes sa_enodes sa_bad0 sa_ranks = true) by (vm_compute; reflexivity).
  assert (Hckp : check_pis sa_enodes = true) by (vm_compute; reflexivity).
  assert (Hrank : rank_check gen_env sa_docs "/" sa_nodes = true) by (vm_compute; reflexivity).
  assert (Hcanon : canon_check sa_nodes = true) by (vm_compute; reflexivity).
  assert (Hdisj : forallb (fun x => negb (mem_str x sa_bad0)) (refs_of sa_nodes) = true) by (vm_compute; reflexivity).
  assert (Hroot : check_root sp_root_url sa_nodes sa_enodes sa_bad0 sa_members = true) by (vm_compute; reflexivity).
  assert (Hlive : forall lu ld, sa_live = Some (lu, ld) -> doc_at sa_docs "/" lu = Some ld) by (intros lu ld E; inversion E; subst; vm_compute; reflexivity).
  assert (Hs : Inv2 gen_env sa_docs "/" "" (GN sa_nodes) sa_bad0 ex_s0).
  { split; [split; [intros u d E; discriminate|reflexivity]|intros x Hx; destruct Hx]. }
  assert (Hcoh : Coh "/" (Some sp_root_url) sp_root_url) by (intros ru E; inversion E; subst; reflexivity).
  assert (Hrun : exists s' out, expand_spec gen_env sa_docs "/" OP sp_root_url sa_live 12 sp_root_url (JObj sa_members) ex_s0 = Done (s', out))
    by (destruct abs; vm_compute; eexists; eexists; reflexivity).
  destruct Hrun as [s' [out Hrun]]. exists s', out. split; [exact Hrun|].
  exact (C03_acyclic_spec_ends_ref_free gen_env sa_docs "/" OP sp_root_url "" sa_nodes sa_enodes sa_bad0 sa_ranks sa_live
           Hlive eq_refl eq_refl Hck Hcke Hckc Hckp Hrank Hcanon Hdisj 12 sp_root_url sa_members ex_s0 s' out Hroot Hs Hcoh Hrun).
Qed.
