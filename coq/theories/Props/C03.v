(* C03 — Expansion leaves only resolvable cycle cut-points; acyclic specs end $ref-free. *)
From Coq Require Import List String Bool.
From Spec Require Import Base.Json Base.Url Codec.Types Codec.Codec Expand.Expand Expand.ExpandFacts.
Import ListNotations.

(* a schema reference is kept exactly when its canonical form is already on the stack of references being expanded
   (a cycle has just been closed) or in the memo of references found circular earlier ... *)
Theorem C03_kept_means_circular : forall s nref parents s1, is_circular s nref parents = (s1, true) ->
  (mem_str nref (memo s) = true /\ s1 = s) \/ (mem_str nref parents = true /\ s1 = set_memo s (nref :: memo s)).
Proof. exact is_circular_true. Qed.
Print Assumptions C03_kept_means_circular.

(* ... the memo only ever receives references that were on the stack — i.e. references whose expansion had led back to
   themselves — so every kept reference is a node of a reference cycle of the input *)
Theorem C03_memo_holds_cycle_nodes : forall s nref parents s1 b, is_circular s nref parents = (s1, b) ->
  forall x, In x (memo s1) -> In x (memo s) \/ (x = nref /\ mem_str nref parents = true).
Proof. exact is_circular_memo. Qed.
Print Assumptions C03_memo_holds_cycle_nodes.

(* how a kept reference is written: only the `$ref` member of its holder changes *)
Theorem C03_kept_rendering : forall E docs cwd OP ctx_base live follow s parents rroot base m nref s1,
  nuri (get_str "$ref" m) base = POk nref -> is_circular s nref parents = (s1, true) ->
  expand_schema_ref E docs cwd OP ctx_base live follow s parents rroot base m
  = pbind s1 (render_kept OP ctx_base s1 nref) (fun txt => Done (s1, JObj (set_member "$ref" (JStr txt) m))).
Proof. exact esr_kept. Qed.
Print Assumptions C03_kept_rendering.

(* with the absolute-circular-ref option it is the absolute canonical URL *)
Theorem C03_absolute : forall OP ctx_base s nref, o_abs OP = true -> render_kept OP ctx_base s nref = POk nref.
Proof. exact render_kept_absolute. Qed.
Print Assumptions C03_absolute.

(* a reference that is not circular is replaced by the expansion of its target — it cannot remain *)
Theorem C03_non_circular_is_followed : forall E docs cwd OP ctx_base live follow s parents rroot base m nref s1 s2 t rc,
  nuri (get_str "$ref" m) base = POk nref -> is_circular s nref parents = (s1, false) ->
  resolve E docs cwd live s1 rroot (get_str "$ref" m) base "Schema" = Done (s2, t) ->
  transitive s2 rroot base (get_str "$ref" m) = Done rc ->
  expand_schema_ref E docs cwd OP ctx_base live follow s parents rroot base m
  = follow s2 (parents ++ [nref])%list (fst rc) (strip_frag nref) t.
Proof. exact esr_followed. Qed.
Print Assumptions C03_non_circular_is_followed.

(* relative rendering, on strings: resolving the kept text against the root location gives back the canonical target,
   fragment-only when the target is in the root document *)
Example C03_example_rendering :
  let root := s2l "file:///r/root.json" in
  map (fun t => match new_ref (s2l t) with
                | POk r => match denormalize_ref r root [] with
                           | POk r' => (l2s (ref_string r'), match normalize_uri (ref_string r') root with POk x => l2s x | _ => ""%string end)
                           | _ => (""%string, ""%string) end
                | _ => (""%string, ""%string) end)
      ["file:///r/root.json#/definitions/a"; "file:///r/sub/o.json#/definitions/b"; "http://h/x.json#/d"; "file:///q/p.json#/d"]%string
  = [("#/definitions/a", "file:///r/root.json#/definitions/a"); ("sub/o.json#/definitions/b", "file:///r/sub/o.json#/definitions/b");
     ("http://h/x.json#/d", "http://h/x.json#/d"); ("file:///q/p.json#/d", "file:///q/p.json#/d")]%string.
Proof. vm_compute. reflexivity. Qed.
