(* C03 — Expansion leaves only resolvable cycle cut-points; acyclic specs end $ref-free. *)
From Coq Require Import List String Bool.
From Spec Require Import Base.Json Base.Url Codec.Types Codec.Gen_Tables Codec.Codec Codec.CodecFacts Expand.Expand Expand.ExpandFacts
  Expand.ExpandSim Expand.ExpandSimCheck Expand.ExpandCycle Expand.ExpandExample.
Import ListNotations.

(* a schema reference is kept exactly when its canonical form is already on the stack of references being expanded
   (a cycle has just been closed) or in the memo of references found circular earlier ... *)
Theorem C03_kept_means_circular : forall s nref parents s1, is_circular s nref parents = (s1, true) ->
  (mem_str nref (memo s) = true /\ s1 = s) \/ (mem_str nref parents = true /\ s1 = set_memo s (nref :: memo s)).
Proof. exact is_circular_true. Qed.
Print Assumptions C03_kept_means_circular.

(* ... the memo only ever receives references that were on the stack — i.e. references whose expansion had led back to
   themselves — so every kept reference is a node of a reference cycle of the input *)
Theorem C03_memo_holds_cycle_nodes : forall s nref parents s1 b, is_circular s nref parents = (s1, b) ->
  forall x, In x (memo s1) -> In x (memo s) \/ (x = nref /\ mem_str nref parents = true).
Proof. exact is_circular_memo. Qed.
Print Assumptions C03_memo_holds_cycle_nodes.

(* how a kept reference is written: only the `$ref` member of its holder changes *)
Theorem C03_kept_rendering : forall E docs cwd OP ctx_base live follow s parents rroot base m nref s1,
  nuri (get_str "$ref" m) base = POk nref -> is_circular s nref parents = (s1, true) ->
  expand_schema_ref E docs cwd OP ctx_base live follow s parents rroot base m
  = pbind s1 (render_kept OP ctx_base s1 nref) (fun txt => Done (s1, JObj (set_member "$ref" (JStr txt) m))).
Proof. exact esr_kept. Qed.
Print Assumptions C03_kept_rendering.

(* with the absolute-circular-ref option it is the absolute canonical URL *)
Theorem C03_absolute : forall OP ctx_base s nref, o_abs OP = true -> render_kept OP ctx_base s nref = POk nref.
Proof. exact render_kept_absolute. Qed.
Print Assumptions C03_absolute.

(* a reference that is not circular is replaced by the expansion of its target — it cannot remain *)
Theorem C03_non_circular_is_followed : forall E docs cwd OP ctx_base live follow s parents rroot base m nref s1 s2 t rc,
  nuri (get_str "$ref" m) base = POk nref -> is_circular s nref parents = (s1, false) ->
  resolve E docs cwd live s1 rroot (get_str "$ref" m) base "Schema" = Done (s2, t) ->
  transitive s2 rroot base (get_str "$ref" m) = Done rc ->
  expand_schema_ref E docs cwd OP ctx_base live follow s parents rroot base m
  = follow s2 (parents ++ [nref])%list (fst rc) (strip_frag nref) t.
Proof. exact esr_followed. Qed.
Print Assumptions C03_non_circular_is_followed.

(* relative rendering, on strings: resolving the kept text against the root location gives back the canonical target,
   fragment-only when the target is in the root document *)
Example C03_example_rendering :
  let root := s2l "file:///r/root.json" in
  map (fun t => match new_ref (s2l t) with
                | POk r => match denormalize_ref r root [] with
                           | POk r' => (l2s (ref_string r'), match normalize_uri (ref_string r') root with POk x => l2s x | _ => ""%string end)
                           | _ => (""%string, ""%string) end
                | _ => (""%string, ""%string) end)
      ["file:///r/root.json#/definitions/a"; "file:///r/sub/o.json#/definitions/b"; "http://h/x.json#/d"; "file:///q/p.json#/d"]%string
  = [("#/definitions/a", "file:///r/root.json#/definitions/a"); ("sub/o.json#/definitions/b", "file:///r/sub/o.json#/definitions/b");
     ("http://h/x.json#/d", "http://h/x.json#/d"); ("file:///q/p.json#/d", "file:///q/p.json#/d")]%string.
Proof. vm_compute. reflexivity. Qed.

(* ---------- graph level (Expand/ExpandCycle.v) ----------
   The input graph: located schema objects (ExpandSim.v), an edge from an object without reference to each object at one
   of its sub-schema positions and from a reference holder to its target.  [on_cycle nref]: some holder of the canonical
   reference nref has a target from which a holder of nref is reachable.  [out_ok j']: every `$ref` left in j' (at a
   sub-schema position, at any depth) is the rendering of a reference that is on a cycle (or was handed in by the caller
   on the stack / in the memo: bad0).  Proved for every store, state, stack, fuel, AbsoluteCircularRef setting, in strict
   full mode, for graphs satisfying the well-formedness hypotheses of C02 (decided by check_nodes). *)
Theorem C03_kept_refs_lie_on_cycles : forall E docs cwd OP ctx_base rid nodes live bad0,
  check_nodes E docs cwd OP ctx_base rid nodes = true ->
  (forall lu ld, live = Some (lu, ld) -> doc_at docs cwd lu = Some ld) ->
  o_cont OP = false -> o_skip OP = false ->
  forall d s parents rroot base j s' j',
    GN nodes base j -> Inv2 E docs cwd rid (GN nodes) bad0 s -> Coh cwd rroot base -> PInv E docs cwd (GN nodes) bad0 parents (base, j) ->
    exp E docs cwd OP ctx_base live d s parents rroot base j = Done (s', j') ->
    Inv2 E docs cwd rid (GN nodes) bad0 s' /\ okv E docs cwd OP ctx_base rid (GN nodes) bad0 j j'.
Proof. exact checked_graph_cyc. Qed.
Print Assumptions C03_kept_refs_lie_on_cycles.

(* acyclic input => the output holds no `$ref` at any sub-schema position *)
Theorem C03_acyclic_ends_ref_free : forall E docs cwd OP ctx_base rid G bad0,
  (forall nref, ~ on_cycle E docs cwd G nref) -> bad0 = [] ->
  forall j, out_ok E docs cwd OP ctx_base rid G bad0 j -> ref_free j.
Proof. exact acyclic_ref_free. Qed.
Print Assumptions C03_acyclic_ends_ref_free.

(* acyclicity itself is decided by a rank that every edge decreases (the nodes listed in topological order) *)
Theorem C03_ranked_graphs_are_acyclic : forall E docs cwd OP ctx_base rid nodes,
  check_nodes E docs cwd OP ctx_base rid nodes = true -> rank_check E docs cwd nodes = true -> canon_check nodes = true ->
  forall nref, ~ on_cycle E docs cwd (GN nodes) nref.
Proof. exact checked_graph_acyclic. Qed.
Print Assumptions C03_ranked_graphs_are_acyclic.

(* non-vacuity, cyclic graph: the expansion of `a` succeeds and everything it leaves behind is on a cycle *)
Example C03_example_cyclic : forall abs s' j',
  exp gen_env ex_docs "/" (mkOpts false false abs) ex_root_url ex_live 8 ex_s0 [] (Some ex_root_url) ex_root_url ex_start = Done (s', j') ->
  out_ok gen_env ex_docs "/" (mkOpts false false abs) ex_root_url "" (GN ex_nodes) [] j'.
Proof.
  intros abs s' j' H.
  assert (Hck : check_nodes gen_env ex_docs "/" (mkOpts false false abs) ex_root_url "" ex_nodes = true) by (destruct abs; vm_compute; reflexivity).
  assert (Hlive : forall lu ld, ex_live = Some (lu, ld) -> doc_at ex_docs "/" lu = Some ld) by (intros lu ld E; inversion E; subst; vm_compute; reflexivity).
  assert (Hg : GN ex_nodes ex_root_url ex_start) by (vm_compute; tauto).
  assert (Hinv : Inv2 gen_env ex_docs "/" "" (GN ex_nodes) [] ex_s0) by (split; [split; [intros u d E; discriminate|reflexivity]|intros x []]).
  assert (Hcoh : Coh "/" (Some ex_root_url) ex_root_url) by (intros ru E; inversion E; subst; reflexivity).
  assert (HP : PInv gen_env ex_docs "/" (GN ex_nodes) [] [] (ex_root_url, ex_start)) by (intros p []).
  exact (proj2 (C03_kept_refs_lie_on_cycles _ _ _ _ _ _ _ _ _ Hck Hlive eq_refl eq_refl _ _ _ _ _ _ _ _ Hg Hinv Hcoh HP H)).
Qed.
Example C03_example_cyclic_runs : exists s' j',
  exp gen_env ex_docs "/" (mkOpts false false false) ex_root_url ex_live 8 ex_s0 [] (Some ex_root_url) ex_root_url ex_start = Done (s', j').
Proof. vm_compute. eexists. eexists. reflexivity. Qed.

(* non-vacuity, acyclic graph (two documents, four references): the checks hold and the output is reference-free *)
Example C03_example_acyclic : forall s' j',
  exp gen_env ac_docs "/" (mkOpts false false false) ex_root_url ac_live 8 ex_s0 [] (Some ex_root_url) ex_root_url ac_start = Done (s', j') ->
  ref_free j'.
Proof.
  intros s' j' H. set (OP := mkOpts false false false).
  assert (Hck : check_nodes gen_env ac_docs "/" OP ex_root_url "" ac_nodes = true) by (vm_compute; reflexivity).
  assert (Hrk : rank_check gen_env ac_docs "/" ac_nodes = true) by (vm_compute; reflexivity).
  assert (Hcn : canon_check ac_nodes = true) by (vm_compute; reflexivity).
  assert (Hlive : forall lu ld, ac_live = Some (lu, ld) -> doc_at ac_docs "/" lu = Some ld) by (intros lu ld E; inversion E; subst; vm_compute; reflexivity).
  assert (Hg : GN ac_nodes ex_root_url ac_start) by (vm_compute; tauto).
  assert (Hinv : Inv2 gen_env ac_docs "/" "" (GN ac_nodes) [] ex_s0) by (split; [split; [intros u d E; discriminate|reflexivity]|intros x []]).
  assert (Hcoh : Coh "/" (Some ex_root_url) ex_root_url) by (intros ru E; inversion E; subst; reflexivity).
  assert (HP : PInv gen_env ac_docs "/" (GN ac_nodes) [] [] (ex_root_url, ac_start)) by (intros p []).
  pose proof (proj2 (C03_kept_refs_lie_on_cycles _ _ _ _ _ _ _ _ _ Hck Hlive eq_refl eq_refl _ _ _ _ _ _ _ _ Hg Hinv Hcoh HP H)) as Hok.
  eapply C03_acyclic_ends_ref_free; [exact (C03_ranked_graphs_are_acyclic _ _ _ _ _ _ _ Hck Hrk Hcn)|reflexivity|exact Hok].
Qed.
Print Assumptions C03_example_acyclic.
Example C03_example_acyclic_runs : exists s' j',
  exp gen_env ac_docs "/" (mkOpts false false false) ex_root_url ac_live 8 ex_s0 [] (Some ex_root_url) ex_root_url ac_start = Done (s', j').
Proof. vm_compute. eexists. eexists. reflexivity. Qed.
