(* C15 — Pointer lookups on typed documents agree with their JSON form. *)
From Coq Require Import List String Bool.
From Spec Require Import Base.Json Codec.Types Codec.Gen_Tables Codec.Codec Codec.CodecFacts.
Import ListNotations.
Local Open Scope string_scope.

(* For each kind with a hand-written JSONLookup (tables regenerated from /repo on every run): every member
   name the kind's encoder can emit — struct members of every part it concatenates and the ^x- extensions —
   other than `$ref` (excluded by the property) and `$schema` (known finding F18) is served by a source that
   JSONLookup consults (the Extensions map, a literal case, or GetForToken on the part that holds the field).
   A JSONLookup that forgets a part, or a kind that gains extensions in its encoder only, breaks this theorem
   (as Items did before the repair F14, and Header, in the opposite direction, before F1). *)
Theorem C15_lookup_covers_encoding : forall k, In k lookup_kinds -> forall n, In n (encodable gen_env k) ->
  n <> "$schema" -> n <> "$ref" -> mem_str n (lookup_names gen_env gen_lookup_parts k) = true.
Proof. exact lookup_covers. Qed.
Print Assumptions C15_lookup_covers_encoding.

(* no member name is served by two different sources: what a lookup finds is what the encoder printed under that name *)
Theorem C15_no_shadowing : names_ok gen_env = true.
Proof. exact names_gen. Qed.
Print Assumptions C15_no_shadowing.

(* The full statement, checked on the implementation by the oracle (every pointer into every generated document): *)
Definition C15_statement (lookup_typed : string -> json -> list string -> option json)
                         (ptr_eval : json -> list string -> option json) (in_scope : string -> json -> list string -> bool) : Prop :=
  forall k j v p, norm gen_env false j (TNamed k) = ROk v -> in_scope k v p = true -> lookup_typed k j p = ptr_eval v p.
