(* C18 — A resolution cache is transparent; documents are fetched at most once. *)
From Coq Require Import List String Bool Arith.
From Spec Require Import Base.Json Base.Url Codec.Types Codec.Gen_Tables Codec.Codec Codec.CodecFacts Expand.Expand Expand.ExpandFacts
  Expand.ExpandSim Expand.ExpandSimCheck Expand.ExpandCycle Expand.ExpandElem Expand.ExpandCache Expand.ExpandTermG Expand.ExpandComplete Expand.ExpandExample Expand.ExpandElem Expand.ExpandChain Expand.ExpandSpecSim.
Import ListNotations.
Local Open Scope string_scope.

(* For every store, every supplied cache c0, every schema, every option setting and every fuel: at any
   point of an expansion — at its end, and also at an error — the documents the loader served were
   each requested exactly once (NoDup), none of them was in the supplied cache, every one of them is
   now cached, and nothing was evicted from the supplied cache. *)
Theorem C18_at_most_once_and_never_if_cached :
  forall E docs cwd OP ctx_base live c0 d s parents rroot base j,
  cache_inv docs c0 s ->
  match exp E docs cwd OP ctx_base live d s parents rroot base j with
  | Done (s', _) => cache_inv docs c0 s'
  | Failed sf => cache_inv docs c0 sf
  | _ => True
  end.
Proof. exact exp_inv. Qed.
Print Assumptions C18_at_most_once_and_never_if_cached.

(* the invariant holds of the state an expansion starts in: a cache, an empty log *)
Example C18_initial : forall docs c0, cache_inv docs c0 (mkSt [] c0 [] EmptyString false).
Proof. intros. constructor; cbn; [constructor|intros x []|intros x []|intros x H; exact H]. Qed.

(* one load: a cached document is not requested; a missing one is requested and then cached *)
Theorem C18_load : forall docs cwd c0 s u, cache_inv docs c0 s ->
  match load docs cwd s u with Done (s', _) => cache_inv docs c0 s' | Failed sf => cache_inv docs c0 sf | _ => True end.
Proof. exact load_inv. Qed.
Print Assumptions C18_load.

(* ---------- transparency (Expand/ExpandCache.v) ----------
   "Supplying a resolution cache never changes a result": two runs of the schema expansion on the same located schema, from
   states with the same memo of circular references but ARBITRARY caches consistent with the loader (nothing cached,
   everything pre-loaded, a cache left over from earlier expansions — Inv only says that a cached document is the one
   the loader serves there), with arbitrary coherent resolver roots (the root a resolver holds depends on what was cached),
   return the same JSON and the same memo.  For every store, stack, fuel, SkipSchemas/AbsoluteCircularRef setting, strict
   mode, graph hypotheses as in C02 (decided by check_nodes). *)
Theorem C18_cache_transparent : forall E docs cwd OP ctx_base rid nodes live,
  check_nodes E docs cwd OP ctx_base rid nodes = true ->
  (forall lu ld, live = Some (lu, ld) -> doc_at docs cwd lu = Some ld) ->
  o_cont OP = false ->
  forall d s1 s2 parents rr1 rr2 base j s1' s2' j1 j2,
    GN nodes base j -> Rst docs rid s1 s2 -> Coh cwd rr1 base -> Coh cwd rr2 base ->
    exp E docs cwd OP ctx_base live d s1 parents rr1 base j = Done (s1', j1) ->
    exp E docs cwd OP ctx_base live d s2 parents rr2 base j = Done (s2', j2) ->
    Rst docs rid s1' s2' /\ j1 = j2.
Proof. exact checked_cache_transparent. Qed.
Print Assumptions C18_cache_transparent.

(* non-vacuity on the cyclic two-document graph: an empty cache against a cache pre-loaded with both documents, no resolver
   root against the live root — both runs succeed, hence (by the theorem) with the same result *)
Definition ex_s_preloaded := mkSt [] ex_docs [] "" false.
Example C18_example : forall s1' s2' j1 j2,
  exp gen_env ex_docs "/" (mkOpts false false false) ex_root_url ex_live 8 ex_s0 [] (Some ex_root_url) ex_root_url ex_start = Done (s1', j1) ->
  exp gen_env ex_docs "/" (mkOpts false false false) ex_root_url ex_live 8 ex_s_preloaded [] None ex_root_url ex_start = Done (s2', j2) ->
  j1 = j2.
Proof.
  intros s1' s2' j1 j2 H1 H2. set (OP := mkOpts false false false).
  assert (Hck : check_nodes gen_env ex_docs "/" OP ex_root_url "" ex_nodes = true) by (vm_compute; reflexivity).
  assert (Hlive : forall lu ld, ex_live = Some (lu, ld) -> doc_at ex_docs "/" lu = Some ld) by (intros lu ld E; inversion E; subst; vm_compute; reflexivity).
  assert (Hg : GN ex_nodes ex_root_url ex_start) by (vm_compute; tauto).
  assert (HR : Rst ex_docs "" ex_s0 ex_s_preloaded).
  { split; [split; [intros u d E; discriminate|reflexivity]|split; [split; [intros u d E; exact E|reflexivity]|reflexivity]]. }
  assert (Hc1 : Coh "/" (Some ex_root_url) ex_root_url) by (intros ru E; inversion E; subst; reflexivity).
  assert (Hc2 : Coh "/" None ex_root_url) by (intros ru E; discriminate).
  exact (proj2 (C18_cache_transparent _ _ _ _ _ _ _ _ Hck Hlive eq_refl _ _ _ _ _ _ _ _ _ _ _ _ Hg HR Hc1 Hc2 H1 H2)).
Qed.
Example C18_example_runs : (exists s' j', exp gen_env ex_docs "/" (mkOpts false false false) ex_root_url ex_live 8 ex_s0 [] (Some ex_root_url) ex_root_url ex_start = Done (s', j'))
  /\ (exists s' j', exp gen_env ex_docs "/" (mkOpts false false false) ex_root_url ex_live 8 ex_s_preloaded [] None ex_root_url ex_start = Done (s', j')).
Proof. split; vm_compute; eexists; eexists; reflexivity. Qed.

(* ... and whether the expansion succeeds does not depend on the cache either: on a graph whose references are all
   resolvable both runs return a result, and it is the same one *)
Theorem C18_cache_transparent_total : forall E docs cwd OP ctx_base rid nodes live,
  check_nodes E docs cwd OP ctx_base rid nodes = true -> check_resolvable E docs cwd OP ctx_base rid nodes = true ->
  (forall lu ld, live = Some (lu, ld) -> doc_at docs cwd lu = Some ld) ->
  o_cont OP = false ->
  forall d s1 s2 parents rr1 rr2 base j,
    NoDup parents -> List.length (refs_of nodes) < d ->
    GN nodes base j -> Rst docs rid s1 s2 -> Coh cwd rr1 base -> Coh cwd rr2 base ->
    exists s1' s2' j', exp E docs cwd OP ctx_base live d s1 parents rr1 base j = Done (s1', j')
                    /\ exp E docs cwd OP ctx_base live d s2 parents rr2 base j = Done (s2', j').
Proof.
  intros E docs cwd OP ctx_base rid nodes live Hck Hres Hlive Hstrict d s1 s2 parents rr1 rr2 base j Hnd Hlen Hg HR Hc1 Hc2.
  destruct (checked_exp_succeeds E docs cwd OP ctx_base rid nodes live Hck Hres Hlive Hstrict d s1 parents rr1 base j Hnd Hlen Hg (proj1 HR) Hc1) as [s1' [j1 H1]].
  destruct (checked_exp_succeeds E docs cwd OP ctx_base rid nodes live Hck Hres Hlive Hstrict d s2 parents rr2 base j Hnd Hlen Hg (proj1 (proj2 HR)) Hc2) as [s2' [j2 H2]].
  destruct (checked_cache_transparent E docs cwd OP ctx_base rid nodes live Hck Hlive Hstrict d s1 s2 parents rr1 rr2 base j s1' s2' j1 j2 Hg HR Hc1 Hc2 H1 H2) as [_ Hj].
  subst j2. exists s1', s2', j1. split; assumption.
Qed.
Print Assumptions C18_cache_transparent_total.

(* ---------- the whole of ExpandSpec, up to meaning (Expand/ExpandSpecSim.v) ---------- *)
(* Whatever two caches hold (any two sets of documents of the store: empty, pre-loaded with any subset, left over from earlier
   calls) and whatever the memo of circular references holds (any references on cycles of the schema graph), two runs of
   ExpandSpec on the same specification that both return yield documents that are BOTH related to the input by [spec_rel]:
   the same names in the same order in every section, every definition, parameter, response and path item with the same
   meaning as the input's, hence as each other's.  (Byte-for-byte equality of two runs that both succeed is
   C18_cache_transparent for the schema walk; here the statement covers the four sections, up to meaning.) *)
Theorem C18_expand_spec_means_the_same_with_any_cache : forall E docs cwd OP ctx_base rid nodes enodes bad0 ranks live,
  (forall lu ld, live = Some (lu, ld) -> doc_at docs cwd lu = Some ld) ->
  o_cont OP = false -> o_skip OP = false ->
  check_nodes E docs cwd OP ctx_base rid nodes = true -> check_enodes E docs cwd enodes nodes = true ->
  check_chains E docs cwd nodes enodes bad0 ranks = true -> check_pis enodes = true ->
  forall d1 d2 root_url m s1 s2 s1' s2' out1 out2,
  check_root ctx_base nodes enodes bad0 m = true -> Coh cwd (Some root_url) ctx_base ->
  Inv2 E docs cwd rid (GN nodes) bad0 s1 -> Inv2 E docs cwd rid (GN nodes) bad0 s2 ->
  expand_spec E docs cwd OP ctx_base live d1 root_url (JObj m) s1 = Done (s1', out1) ->
  expand_spec E docs cwd OP ctx_base live d2 root_url (JObj m) s2 = Done (s2', out2) ->
  spec_rel E docs cwd ctx_base (sound_schema E docs cwd OP ctx_base rid nodes bad0) m out1 /\
  spec_rel E docs cwd ctx_base (sound_schema E docs cwd OP ctx_base rid nodes bad0) m out2.
Proof.
  intros E docs cwd OP ctx_base rid nodes enodes bad0 ranks live Hlive Hstrict Hskip Hck Hcke Hckc Hckp d1 d2 root_url m s1 s2 s1' s2' out1 out2 Hroot Hcoh Hs1 Hs2 H1 H2.
  split.
  - exact (proj2 (checked_spec_sim E docs cwd OP ctx_base rid nodes enodes bad0 ranks live Hlive Hstrict Hskip Hck Hcke Hckc Hckp d1 (S d1) root_url m s1 s1' out1 Hroot Hs1 Hcoh H1)).
  - exact (proj2 (checked_spec_sim E docs cwd OP ctx_base rid nodes enodes bad0 ranks live Hlive Hstrict Hskip Hck Hcke Hckc Hckp d2 (S d2) root_url m s2 s2' out2 Hroot Hs2 Hcoh H2)).
Qed.
Print Assumptions C18_expand_spec_means_the_same_with_any_cache.
