(* C18 — A resolution cache is transparent; documents are fetched at most once. *)
From Coq Require Import List String Bool Arith.
From Spec Require Import Base.Json Base.Url Codec.Types Codec.Codec Expand.Expand Expand.ExpandFacts.
Import ListNotations.

(* For every store, every supplied cache c0, every schema, every option setting and every fuel: at any
   point of an expansion — at its end, and also at an error — the documents the loader served were
   each requested exactly once (NoDup), none of them was in the supplied cache, every one of them is
   now cached, and nothing was evicted from the supplied cache. *)
Theorem C18_at_most_once_and_never_if_cached :
  forall E docs cwd OP ctx_base live c0 d s parents rroot base j,
  cache_inv docs c0 s ->
  match exp E docs cwd OP ctx_base live d s parents rroot base j with
  | Done (s', _) => cache_inv docs c0 s'
  | Failed sf => cache_inv docs c0 sf
  | _ => True
  end.
Proof. exact exp_inv. Qed.
Print Assumptions C18_at_most_once_and_never_if_cached.

(* the invariant holds of the state an expansion starts in: a cache, an empty log *)
Example C18_initial : forall docs c0, cache_inv docs c0 (mkSt [] c0 [] EmptyString false).
Proof. intros. constructor; cbn; [constructor|intros x []|intros x []|intros x H; exact H]. Qed.

(* one load: a cached document is not requested; a missing one is requested and then cached *)
Theorem C18_load : forall docs cwd c0 s u, cache_inv docs c0 s ->
  match load docs cwd s u with Done (s', _) => cache_inv docs c0 s' | Failed sf => cache_inv docs c0 sf | _ => True end.
Proof. exact load_inv. Qed.
Print Assumptions C18_load.
