(* C20 — Validation accessors are lossless and the clear operations are exact.
   Statements only; every proof is `exact <lemma of Vals.ValsFacts>`.  The definitions they speak
   about (Gen_Vals.v) are regenerated from /repo's source by the translator on every run. *)
From Coq Require Import List String Bool Arith ZArith Permutation.
From Spec Require Import Base.Json Vals.ValsBase Vals.Gen_Vals Vals.ValsFacts.
Import ListNotations.

(* --- schemas: read . write = id, write . read = id, second write wins (=> nothing else is touched) *)
Theorem C20_schema_set_get : forall s v, Schema_Validations (Schema_SetValidations s v) = v.
Proof. exact schema_set_get. Qed.
Print Assumptions C20_schema_set_get.
Theorem C20_schema_get_set : forall s, Schema_SetValidations s (Schema_Validations s) = s.
Proof. exact schema_get_set. Qed.
Print Assumptions C20_schema_get_set.
Theorem C20_schema_set_set : forall s v v',
  Schema_SetValidations (Schema_SetValidations s v) v' = Schema_SetValidations s v'.
Proof. exact schema_set_set. Qed.
Print Assumptions C20_schema_set_set.
Theorem C20_schema_frame : forall s v,
  Schema_VendorExtensible (Schema_SetValidations s v) = Schema_VendorExtensible s
  /\ Schema_SwaggerSchemaProps (Schema_SetValidations s v) = Schema_SwaggerSchemaProps s
  /\ Schema_ExtraProps (Schema_SetValidations s v) = Schema_ExtraProps s.
Proof. exact schema_set_frame. Qed.
Print Assumptions C20_schema_frame.
Theorem C20_schema_with : forall s v, Schema_WithValidations s v = Schema_SetValidations s v.
Proof. exact schema_with_is_set. Qed.
Print Assumptions C20_schema_with.

(* --- the stand-alone schema validation set *)
Theorem C20_sv_set_get : forall s v, SchemaValidations_Validations (SchemaValidations_SetValidations s v) = v.
Proof. exact sv_set_get. Qed.
Print Assumptions C20_sv_set_get.
Theorem C20_sv_get_set : forall s, SchemaValidations_SetValidations s (SchemaValidations_Validations s) = s.
Proof. exact sv_get_set. Qed.
Print Assumptions C20_sv_get_set.

(* --- parameters, headers, items (simple schemas): exactly the simple-schema part is readable back *)
Theorem C20_common_set_get : forall c v,
  CommonValidations_Validations (CommonValidations_SetValidations c v) = restrict_common v.
Proof. exact cv_set_get. Qed.
Print Assumptions C20_common_set_get.
Theorem C20_common_get_set : forall c, CommonValidations_SetValidations c (CommonValidations_Validations c) = c.
Proof. exact cv_get_set. Qed.
Print Assumptions C20_common_get_set.
Theorem C20_common_set_set : forall c v v',
  CommonValidations_SetValidations (CommonValidations_SetValidations c v) v' = CommonValidations_SetValidations c v'.
Proof. exact cv_set_set. Qed.
Print Assumptions C20_common_set_set.
Theorem C20_parameter : forall p c,
  SchemaValidations_CommonValidations (CommonValidations_Validations (Parameter_CommonValidations (Parameter_WithValidations p c))) = c
  /\ set_Parameter_CommonValidations (Parameter_WithValidations p c) (Parameter_CommonValidations p) = p.
Proof. exact (fun p c => conj (parameter_with_get p c) (parameter_with_frame p c)). Qed.
Print Assumptions C20_parameter.
Theorem C20_header : forall h c,
  SchemaValidations_CommonValidations (CommonValidations_Validations (Header_CommonValidations (Header_WithValidations h c))) = c
  /\ set_Header_CommonValidations (Header_WithValidations h c) (Header_CommonValidations h) = h.
Proof. exact (fun h c => conj (header_with_get h c) (header_with_frame h c)). Qed.
Print Assumptions C20_header.
Theorem C20_items : forall i c,
  SchemaValidations_CommonValidations (CommonValidations_Validations (Items_CommonValidations (Items_WithValidations i c))) = c
  /\ set_Items_CommonValidations (Items_WithValidations i c) (Items_CommonValidations i) = i.
Proof. exact (fun i c => conj (items_with_get i c) (items_with_frame i c)). Qed.
Print Assumptions C20_items.

(* --- clearing one family, for every validation set, every number n of callbacks:
       the family's keywords become zero, every other keyword keeps its value, `has` is false,
       and each callback i < n is told exactly the non-zero keywords of the family with their
       previous values, each once (and nothing else is ever reported: total count). *)
Theorem C20_clear_simple : forall f c n, cv_family f = true ->
  clear_spec_cv f c (fst (clear_cv f c n)) n (snd (clear_cv f c n)).
Proof. exact clear_cv_ok. Qed.
Print Assumptions C20_clear_simple.
Theorem C20_clear_schema : forall f v n, clear_family f = true ->
  clear_spec_sv f v (fst (clear_sv f v n)) n (snd (clear_sv f v n)).
Proof. exact clear_sv_ok. Qed.
Print Assumptions C20_clear_schema.
Theorem C20_clear_commute : forall f g v n m, clear_family f = true -> clear_family g = true -> f <> g ->
  fst (clear_sv f (fst (clear_sv g v n)) m) = fst (clear_sv g (fst (clear_sv f v m)) n).
Proof. exact clear_sv_commute. Qed.
Print Assumptions C20_clear_commute.
Theorem C20_clear_all_orders : forall l v, Permutation l [FNumber; FString; FArray; FObject] ->
  forall k, fam k <> FOther -> is_zero (sv_field (clear_all l v) k) = true.
Proof. exact clear_everything_any_order. Qed.
Print Assumptions C20_clear_all_orders.

(* --- non-vacuity: a set with zero-valued and non-zero validations; clearing `number` with two
       callbacks reports minimum (= 0) and exclusiveMinimum to each, and keeps maxLength. *)
Example C20_example :
  let c := Build_CommonValidations None false (Some (JNum 0%Z 0%Z)) true (Some (JNum 3%Z 0%Z)) None ""%string None None false None None in
  snd (clear_cv FNumber c 2)
  = [(0, "minimum"%string, CVopt (Some (JNum 0%Z 0%Z))); (0, "exclusiveMinimum"%string, CVbool true);
     (1, "minimum"%string, CVopt (Some (JNum 0%Z 0%Z))); (1, "exclusiveMinimum"%string, CVbool true)]
  /\ cv_field (fst (clear_cv FNumber c 2)) KmaxLength = CVopt (Some (JNum 3%Z 0%Z))
  /\ cv_field (fst (clear_cv FNumber c 2)) Kminimum = CVopt None.
Proof. repeat split. Qed.

