(* C09 — Skip-schemas mode expands all but schemas and keeps their $refs valid. *)
From Coq Require Import List String Bool.
From Spec Require Import Base.Json Base.Url Codec.Types Codec.Gen_Tables Codec.Codec Codec.CodecFacts Expand.Expand Expand.ExpandFacts
  Expand.ExpandSim Expand.ExpandSimCheck Expand.ExpandCycle Expand.ExpandExample.
Import ListNotations.
Local Open Scope string_scope.

(* with SkipSchemas every schema keeps its `$ref`: nothing is resolved, followed or loaded for it, the state is
   untouched, and only the text is rewritten — to the rendering, relative to the ROOT document, of the canonical
   target the reference had relative to the document that contained it *)
Theorem C09_schema_refs_kept : forall E docs cwd OP ctx_base live follow, o_skip OP = true ->
  forall s parents rroot base m s' j',
  match assoc "$ref" m with Some (JStr r) => negb (String.eqb r "") | _ => false end = true ->
  get_str "id" m = "" ->
  walk E docs cwd OP ctx_base live follow (JObj m) s parents rroot base = Done (s', j') ->
  s' = s /\ exists nref txt, nuri (get_str "$ref" m) base = POk nref /\ render_rebased ctx_base s nref = POk txt
                             /\ j' = JObj (set_member "$ref" (JStr txt) m).
Proof. exact skip_keeps_ref. Qed.
Print Assumptions C09_schema_refs_kept.

(* the definitions section comes out of a skip-schemas expansion exactly as it went in *)
Theorem C09_definitions_untouched : forall E docs cwd OP ctx_base live follow, o_skip OP = true ->
  forall fuel root_url m s s' m',
  expand_spec_with E docs cwd OP ctx_base live follow fuel root_url (JObj m) s = Done (s', JObj m') ->
  assoc "definitions" m' = assoc "definitions" m.
Proof. exact skip_leaves_definitions. Qed.
Print Assumptions C09_definitions_untouched.

(* skip mode never needs fuel for schemas: a schema with a `$ref` is finished at once *)
Theorem C09_no_follow_for_schema_refs : forall E docs cwd OP ctx_base live follow j s parents rroot base,
  walk E docs cwd OP ctx_base live follow j s parents rroot base = OOF -> from_follow follow parents.
Proof. exact walk_oof. Qed.
Print Assumptions C09_no_follow_for_schema_refs.

(* "The result denotes the same trees as the input": the bisimulation theorem of C02 holds in skip mode as well — every
   schema that comes out of a SkipSchemas walk (its `$ref`s rebased, its sub-schemas walked) is bisimilar, read at the root
   location, to what went in, read in its own document.  Graph hypotheses decided by check_nodes (it checks the rendering
   used by skip mode too). *)
Theorem C09_skip_preserves_meaning : forall E docs cwd OP ctx_base rid nodes live,
  o_skip OP = true ->
  check_nodes E docs cwd OP ctx_base rid nodes = true ->
  (forall lu ld, live = Some (lu, ld) -> doc_at docs cwd lu = Some ld) ->
  o_cont OP = false ->
  forall d s parents rroot base j s' j',
  GN nodes base j -> Inv docs rid s -> Coh cwd rroot base ->
  exp E docs cwd OP ctx_base live d s parents rroot base j = Done (s', j') ->
  Inv docs rid s' /\ bisimilar E docs cwd base j ctx_base j'.
Proof. intros E docs cwd OP ctx_base rid nodes live _. exact (checked_graph_sim E docs cwd OP ctx_base rid nodes live). Qed.
Print Assumptions C09_skip_preserves_meaning.

(* non-vacuity: a schema of the OTHER document of the example graph, walked in skip mode from the root's point of view:
   its fragment-only and ../ references are rewritten relative to the root and still mean the same *)
Definition ex_c : json := match ptr_get ["definitions"; "c"] ex_other with Some j => j | None => JNull end.
Example C09_example : forall s' j',
  exp gen_env ex_docs "/" (mkOpts true false false) ex_root_url ex_live 3 ex_s0 [] None ex_other_url ex_c = Done (s', j') ->
  bisimilar gen_env ex_docs "/" ex_other_url ex_c ex_root_url j'.
Proof.
  intros s' j' H. set (OP := mkOpts true false false).
  assert (Hck : check_nodes gen_env ex_docs "/" OP ex_root_url "" ex_nodes = true) by (vm_compute; reflexivity).
  assert (Hlive : forall lu ld, ex_live = Some (lu, ld) -> doc_at ex_docs "/" lu = Some ld) by (intros lu ld E; inversion E; subst; vm_compute; reflexivity).
  assert (Hg : GN ex_nodes ex_other_url ex_c) by (vm_compute; tauto).
  assert (Hinv : Inv ex_docs "" ex_s0) by (split; [intros u d E; discriminate|reflexivity]).
  assert (Hcoh : Coh "/" None ex_other_url) by (intros ru E; discriminate).
  exact (proj2 (C09_skip_preserves_meaning gen_env ex_docs "/" OP ex_root_url "" ex_nodes ex_live eq_refl Hck Hlive eq_refl _ _ _ _ _ _ _ _ Hg Hinv Hcoh H)).
Qed.
Example C09_example_runs :
  exists s', exp gen_env ex_docs "/" (mkOpts true false false) ex_root_url ex_live 3 ex_s0 [] None ex_other_url ex_c
  = Done (s', JObj [("allOf", JArr [JObj [("$ref", JStr "#/definitions/a")]; JObj [("$ref", JStr "#/definitions/e~0f")]; JObj [("type", JStr "string")]])]).
Proof. vm_compute. eexists. reflexivity. Qed.
