(* C09 — Skip-schemas mode expands all but schemas and keeps their $refs valid. *)
From Coq Require Import List String Bool.
From Spec Require Import Base.Json Base.Url Codec.Types Codec.Gen_Tables Codec.Codec Codec.CodecFacts Expand.Expand Expand.ExpandFacts
  Expand.ExpandSim Expand.ExpandSimCheck Expand.ExpandCycle Expand.ExpandExample Expand.ExpandElem Expand.ExpandChain Expand.ExpandSpecSim.
Import ListNotations.
Local Open Scope string_scope.

(* with SkipSchemas every schema keeps its `$ref`: nothing is resolved, followed or loaded for it, the state is
   untouched, and only the text is rewritten — to the rendering, relative to the ROOT document, of the canonical
   target the reference had relative to the document that contained it *)
Theorem C09_schema_refs_kept : forall E docs cwd OP ctx_base live follow, o_skip OP = true ->
  forall s parents rroot base m s' j',
  match assoc "$ref" m with Some (JStr r) => negb (String.eqb r "") | _ => false end = true ->
  get_str "id" m = "" ->
  walk E docs cwd OP ctx_base live follow (JObj m) s parents rroot base = Done (s', j') ->
  s' = s /\ exists nref txt, nuri (get_str "$ref" m) base = POk nref /\ render_rebased ctx_base s nref = POk txt
                             /\ j' = JObj (set_member "$ref" (JStr txt) m).
Proof. exact skip_keeps_ref. Qed.
Print Assumptions C09_schema_refs_kept.

(* the definitions section comes out of a skip-schemas expansion exactly as it went in *)
Theorem C09_definitions_untouched : forall E docs cwd OP ctx_base live follow, o_skip OP = true ->
  forall fuel root_url m s s' m',
  expand_spec_with E docs cwd OP ctx_base live follow fuel root_url (JObj m) s = Done (s', JObj m') ->
  assoc "definitions" m' = assoc "definitions" m.
Proof. exact skip_leaves_definitions. Qed.
Print Assumptions C09_definitions_untouched.

(* skip mode never needs fuel for schemas: a schema with a `$ref` is finished at once *)
Theorem C09_no_follow_for_schema_refs : forall E docs cwd OP ctx_base live follow j s parents rroot base,
  walk E docs cwd OP ctx_base live follow j s parents rroot base = OOF -> from_follow follow parents.
Proof. exact walk_oof. Qed.
Print Assumptions C09_no_follow_for_schema_refs.

(* "The result denotes the same trees as the input": the bisimulation theorem of C02 holds in skip mode as well — every
   schema that comes out of a SkipSchemas walk (its `$ref`s rebased, its sub-schemas walked) is bisimilar, read at the root
   location, to what went in, read in its own document.  Graph hypotheses decided by check_nodes (it checks the rendering
   used by skip mode too). *)
Theorem C09_skip_preserves_meaning : forall E docs cwd OP ctx_base rid nodes live,
  o_skip OP = true ->
  check_nodes E docs cwd OP ctx_base rid nodes = true ->
  (forall lu ld, live = Some (lu, ld) -> doc_at docs cwd lu = Some ld) ->
  o_cont OP = false ->
  forall d s parents rroot base j s' j',
  GN nodes base j -> Inv docs rid s -> Coh cwd rroot base ->
  exp E docs cwd OP ctx_base live d s parents rroot base j = Done (s', j') ->
  Inv docs rid s' /\ bisimilar E docs cwd base j ctx_base j'.
Proof. intros E docs cwd OP ctx_base rid nodes live _. exact (checked_graph_sim E docs cwd OP ctx_base rid nodes live). Qed.
Print Assumptions C09_skip_preserves_meaning.

(* non-vacuity: a schema of the OTHER document of the example graph, walked in skip mode from the root's point of view:
   its fragment-only and ../ references are rewritten relative to the root and still mean the same *)
Definition ex_c : json := match ptr_get ["definitions"; "c"] ex_other with Some j => j | None => JNull end.
Example C09_example : forall s' j',
  exp gen_env ex_docs "/" (mkOpts true false false) ex_root_url ex_live 3 ex_s0 [] None ex_other_url ex_c = Done (s', j') ->
  bisimilar gen_env ex_docs "/" ex_other_url ex_c ex_root_url j'.
Proof.
  intros s' j' H. set (OP := mkOpts true false false).
  assert (Hck : check_nodes gen_env ex_docs "/" OP ex_root_url "" ex_nodes = true) by (vm_compute; reflexivity).
  assert (Hlive : forall lu ld, ex_live = Some (lu, ld) -> doc_at ex_docs "/" lu = Some ld) by (intros lu ld E; inversion E; subst; vm_compute; reflexivity).
  assert (Hg : GN ex_nodes ex_other_url ex_c) by (vm_compute; tauto).
  assert (Hinv : Inv ex_docs "" ex_s0) by (split; [intros u d E; discriminate|reflexivity]).
  assert (Hcoh : Coh "/" None ex_other_url) by (intros ru E; discriminate).
  exact (proj2 (C09_skip_preserves_meaning gen_env ex_docs "/" OP ex_root_url "" ex_nodes ex_live eq_refl Hck Hlive eq_refl _ _ _ _ _ _ _ _ Hg Hinv Hcoh H)).
Qed.
Example C09_example_runs :
  exists s', exp gen_env ex_docs "/" (mkOpts true false false) ex_root_url ex_live 3 ex_s0 [] None ex_other_url ex_c
  = Done (s', JObj [("allOf", JArr [JObj [("$ref", JStr "#/definitions/a")]; JObj [("$ref", JStr "#/definitions/e~0f")]; JObj [("type", JStr "string")]])]).
Proof. vm_compute. eexists. reflexivity. Qed.

(* ---------- the whole of ExpandSpec in skip mode (Expand/ExpandSpecSim.v) ---------- *)
(* "In skip-schemas mode the result denotes the same trees as the input: every parameter, response and path-item reference
   is replaced by its target and every schema reference is kept as a reference that resolves from the root document's
   location to what it resolved to before; definitions are left untouched."  On a checked graph, from every consistent
   state, for every fuel: when ExpandSpec returns, the document is [spec_rel_skip]-related to the input - the definitions
   section is the input's, every shared parameter, shared response and path item is the END of its chain (so carries no
   `$ref`), the parameters and responses of its operations likewise, each schema below them replaced by one that, read at
   the root location, is bisimilar to the input's; names and order kept, vendor extensions untouched.  (The schema walk
   leaves the state exactly as it was in this mode: exp_skip_state.) *)
Local Open Scope string_scope.
Theorem C09_expand_spec_skip_preserves_meaning : forall E docs cwd OP ctx_base rid nodes enodes bad0 ranks live,
  (forall lu ld, live = Some (lu, ld) -> doc_at docs cwd lu = Some ld) ->
  o_cont OP = false -> o_skip OP = true ->
  check_nodes E docs cwd OP ctx_base rid nodes = true -> check_enodes E docs cwd enodes nodes = true ->
  check_chains E docs cwd nodes enodes bad0 ranks = true -> check_pis enodes = true ->
  forall d root_url m s s' out,
  check_root ctx_base nodes enodes bad0 m = true ->
  Inv2 E docs cwd rid (GN nodes) bad0 s -> Coh cwd (Some root_url) ctx_base ->
  expand_spec E docs cwd OP ctx_base live d root_url (JObj m) s = Done (s', out) ->
  Inv2 E docs cwd rid (GN nodes) bad0 s' /\
  spec_rel_skip E docs cwd ctx_base (fun b t t' => bisimilar E docs cwd b t ctx_base t') m out.
Proof.
  intros E docs cwd OP ctx_base rid nodes enodes bad0 ranks live Hlive Hstrict Hskip Hck Hcke Hckc Hckp d root_url m s s' out Hroot Hs Hcoh H.
  exact (checked_spec_sim_skip E docs cwd OP ctx_base rid nodes enodes bad0 ranks live Hlive Hstrict Hck Hcke Hckc Hckp d (S d) root_url m s s' out Hskip Hroot Hs Hcoh H).
Qed.
Print Assumptions C09_expand_spec_skip_preserves_meaning.

Theorem C09_schema_walk_leaves_the_state : forall E docs cwd OP ctx_base live,
  o_skip OP = true ->
  forall G : string -> json -> Prop,
  (forall b m k v x, G b (JObj m) -> has_ref m = false -> In (k, v) m -> child_of x v -> G b x) ->
  (forall b m, G b (JObj m) -> get_str "id" m = "" /\ assoc "$ref" m <> Some (JStr "")) ->
  forall follow j s parents rroot base s' j',
  G base j -> walk E docs cwd OP ctx_base live follow j s parents rroot base = Done (s', j') -> s' = s.
Proof. exact walk_skip_state. Qed.
Print Assumptions C09_schema_walk_leaves_the_state.

(* non-vacuity: the two-document specification of ExpandExample.v in skip mode *)
Example C09_spec_example :
  exists s' out, expand_spec gen_env sp_docs "/" (mkOpts true false false) sp_root_url sp_live 12 sp_root_url (JObj sp_members) ex_s0 = Done (s', out)
    /\ spec_rel_skip gen_env sp_docs "/" sp_root_url (fun b t t' => bisimilar gen_env sp_docs "/" b t sp_root_url t') sp_members out.
Proof.
  set (OP := mkOpts true false false).
  assert (Hck : check_nodes gen_env sp_docs "/" OP sp_root_url "" sp_nodes = true) by (vm_compute; reflexivity).
  assert (Hcke : check_enodes gen_env sp_docs "/" sp_enodes sp_nodes = true) by (vm_compute; reflexivity).
  assert (Hckc : check_chains gen_env sp_docs "/" sp_nodes sp_enodes sp_bad0 sp_ranks = true) by (vm_compute; reflexivity).
  assert (Hckp : check_pis sp_enodes = true) by (vm_compute; reflexivity).
  assert (Hroot : check_root sp_root_url sp_nodes sp_enodes sp_bad0 sp_members = true) by (vm_compute; reflexivity).
  assert (Hlive : forall lu ld, sp_live = Some (lu, ld) -> doc_at sp_docs "/" lu = Some ld) by (intros lu ld E; inversion E; subst; vm_compute; reflexivity).
  assert (Hs : Inv2 gen_env sp_docs "/" "" (GN sp_nodes) sp_bad0 ex_s0).
  { split; [split; [intros u d E; discriminate|reflexivity]|intros x Hx; destruct Hx]. }
  assert (Hcoh : Coh "/" (Some sp_root_url) sp_root_url) by (intros ru E; inversion E; subst; reflexivity).
  assert (Hrun : exists s' out, expand_spec gen_env sp_docs "/" OP sp_root_url sp_live 12 sp_root_url (JObj sp_members) ex_s0 = Done (s', out))
    by (vm_compute; eexists; eexists; reflexivity).
  destruct Hrun as [s' [out Hrun]]. exists s', out. split; [exact Hrun|].
  exact (proj2 (C09_expand_spec_skip_preserves_meaning gen_env sp_docs "/" OP sp_root_url "" sp_nodes sp_enodes sp_bad0 sp_ranks sp_live
                  Hlive eq_refl eq_refl Hck Hcke Hckc Hckp 12 sp_root_url sp_members ex_s0 s' out Hroot Hs Hcoh Hrun)).
Qed.
