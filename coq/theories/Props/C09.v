(* C09 — Skip-schemas mode expands all but schemas and keeps their $refs valid. *)
From Coq Require Import List String Bool.
From Spec Require Import Base.Json Base.Url Codec.Types Codec.Codec Expand.Expand Expand.ExpandFacts.
Import ListNotations.
Local Open Scope string_scope.

(* with SkipSchemas every schema keeps its `$ref`: nothing is resolved, followed or loaded for it, the state is
   untouched, and only the text is rewritten — to the rendering, relative to the ROOT document, of the canonical
   target the reference had relative to the document that contained it *)
Theorem C09_schema_refs_kept : forall E docs cwd OP ctx_base live follow, o_skip OP = true ->
  forall s parents rroot base m s' j',
  match assoc "$ref" m with Some (JStr r) => negb (String.eqb r "") | _ => false end = true ->
  get_str "id" m = "" ->
  walk E docs cwd OP ctx_base live follow (JObj m) s parents rroot base = Done (s', j') ->
  s' = s /\ exists nref txt, nuri (get_str "$ref" m) base = POk nref /\ render_rebased ctx_base s nref = POk txt
                             /\ j' = JObj (set_member "$ref" (JStr txt) m).
Proof. exact skip_keeps_ref. Qed.
Print Assumptions C09_schema_refs_kept.

(* the definitions section comes out of a skip-schemas expansion exactly as it went in *)
Theorem C09_definitions_untouched : forall E docs cwd OP ctx_base live follow, o_skip OP = true ->
  forall fuel root_url m s s' m',
  expand_spec_with E docs cwd OP ctx_base live follow fuel root_url (JObj m) s = Done (s', JObj m') ->
  assoc "definitions" m' = assoc "definitions" m.
Proof. exact skip_leaves_definitions. Qed.
Print Assumptions C09_definitions_untouched.

(* skip mode never needs fuel for schemas: a schema with a `$ref` is finished at once *)
Theorem C09_no_follow_for_schema_refs : forall E docs cwd OP ctx_base live follow j s parents rroot base,
  walk E docs cwd OP ctx_base live follow j s parents rroot base = OOF -> from_follow follow parents.
Proof. exact walk_oof. Qed.
Print Assumptions C09_no_follow_for_schema_refs.
