(* C16 — Calls share no hidden state. *)
From Coq Require Import List String Bool.
From Spec Require Import Base.Json Cache.Gen_Globals Cache.CacheSM.
Import ListNotations.

(* Over the inventory of package-level variables regenerated from /repo on every run: the only functions that assign a
   package-level variable, take its address, index-assign through it or call a method on it are the one-time cache
   initialiser (behind sync.Once), the clone taken by cacheOrDefault, the embedded-file readers and the logger set-up.
   A new package-level map, a direct use of resCache, a memo hoisted to package level all break this theorem. *)
Theorem C16_globals_discipline : globals_ok gen_globals = true.
Proof. exact globals_discipline. Qed.
Print Assumptions C16_globals_discipline.

(* every exported entry point that takes a caller's cache hands it to the loader through cacheOrDefault *)
Theorem C16_cache_passing : passing_ok gen_cache_passing = true.
Proof. exact cache_passing_discipline. Qed.
Print Assumptions C16_cache_passing.

(* under that discipline (the state machine of cacheOrDefault): after ANY history of calls the package-level cache is
   still absent or exactly the built-in one ... *)
Theorem C16_global_invariant : forall doc builtin outcome call (run_call : call -> cache doc -> outcome) caller_cache h,
  g doc (fst (run doc builtin outcome call run_call caller_cache h (init doc))) = None
  \/ g doc (fst (run doc builtin outcome call run_call caller_cache h (init doc))) = Some builtin.
Proof. exact builtins_kept. Qed.
Print Assumptions C16_global_invariant.

(* ... and a call made without a caller-supplied cache computes what it computes as the very first call of a process,
   whatever came before — for every history, of any length *)
Theorem C16_history_free : forall doc builtin outcome call (run_call : call -> cache doc -> outcome) caller_cache h c,
  caller_cache c = None ->
  snd (step doc builtin outcome call run_call caller_cache (fst (run doc builtin outcome call run_call caller_cache h (init doc))) c)
  = snd (step doc builtin outcome call run_call caller_cache (init doc) c).
Proof. exact history_free. Qed.
Print Assumptions C16_history_free.
