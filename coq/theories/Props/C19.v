(* C19 — Round trip and expansion keep a valid Swagger 2.0 document valid.
   [valid_swagger] (Valid/Valid.v) is a hand transcription of schemas/v2/schema.json; it is checked on
   every run against python's jsonschema on the shipped schema (the correspondence of this property). *)
From Coq Require Import List String Bool ZArith.
From Spec Require Import Base.Json Codec.Types Codec.Gen_Tables Codec.Codec Codec.CodecFacts Valid.Valid Valid.ValidFacts.
Import ListNotations.
Local Open Scope string_scope.

(* The full statement (decode/encode half), not proved in general: *)
Definition C19_roundtrip_statement (scope : json -> bool) : Prop :=
  forall j, valid_swagger j = true -> scope j = true ->
    exists j', norm gen_env false j (TNamed "Swagger") = ROk j' /\ valid_swagger j' = true.

(* What decode/encode does to a normal object is to drop members (empty optional ones) — and dropping ANY
   member that is not required keeps every closed-object kind of the meta-schema valid: *)
Theorem C19_dropping_optional_members : forall req member k m,
  mem_str k req = false ->
  obj_of req member (JObj m) = true -> obj_of req member (JObj (remove_key k m)) = true.
Proof. exact obj_of_remove_key. Qed.
Print Assumptions C19_dropping_optional_members.

Theorem C19_info : forall k m, k <> "version" -> k <> "title" ->
  valid_info (JObj m) = true -> valid_info (JObj (remove_key k m)) = true.
Proof. exact valid_info_remove_optional. Qed.
Print Assumptions C19_info.
Theorem C19_tag : forall k m, k <> "name" -> valid_tag (JObj m) = true -> valid_tag (JObj (remove_key k m)) = true.
Proof. exact valid_tag_remove_optional. Qed.
Print Assumptions C19_tag.
Theorem C19_operation : forall k m, k <> "responses" ->
  valid_operation (JObj m) = true -> valid_operation (JObj (remove_key k m)) = true.
Proof. exact valid_operation_remove_optional. Qed.
Print Assumptions C19_operation.

(* Expansion replaces a reference object by the element it designates: the two alternatives of the
   meta-schema's oneOf are exclusive, so a valid element in place of the reference is again exactly one *)
Theorem C19_response_or_reference : forall j, valid_response_value j = valid_response j || valid_json_reference j.
Proof. exact valid_response_value_or. Qed.
Print Assumptions C19_response_or_reference.
Theorem C19_body_excludes_non_body : forall j, valid_body_parameter j = true -> valid_non_body_parameter j = false.
Proof. exact body_excludes_non_body. Qed.
Print Assumptions C19_body_excludes_non_body.

(* Known finding on the current tree (F15): the only members whose removal invalidates are the required
   ones, and decode/encode does remove them when they are empty strings. *)
Example C19_refuted_required_empty :
  let doc := JObj [("swagger", JStr "2.0"); ("info", JObj [("title", JStr ""); ("version", JStr "1")]); ("paths", JObj [])] in
  valid_swagger doc = true /\
  match norm gen_env false doc (TNamed "Swagger") with ROk j' => valid_swagger j' = false | _ => False end.
Proof. vm_compute. split; reflexivity. Qed.

(* and a document without such members stays valid, members re-ordered and empty optional ones dropped *)
Example C19_example :
  let doc := JObj [("paths", JObj [("/a", JObj [("get", JObj [("responses", JObj [("200", JObj [("description", JStr "")])]);
                                                                ("summary", JStr ""); ("tags", JArr [])])])]);
                   ("info", JObj [("version", JStr "1"); ("title", JStr "t"); ("description", JStr "")]); ("swagger", JStr "2.0")] in
  valid_swagger doc = true /\
  match norm gen_env false doc (TNamed "Swagger") with ROk j' => valid_swagger j' = true | _ => False end.
Proof. vm_compute. split; reflexivity. Qed.
