(* C14 — Gob transport preserves the document.
   Model: [norm E true] = decode, travel through encoding/gob, encode (Codec/Codec.v: the transport rules of gob for the
   package's types — zero values are not sent, so a pointer to a zero number arrives nil and an empty array inside an
   interface{} arrives as a nil slice; the custom GobEncode/GobDecode of Swagger, Operation and Ref keep the rest).
   The rules are a model of a library, validated on every run against real gob round trips. *)
From Coq Require Import List String Bool ZArith.
From Spec Require Import Base.Json Codec.Types Codec.Gen_Tables Codec.Codec Codec.CodecFacts Codec.PayloadFacts Codec.TypedFacts.
Import ListNotations.
Local Open Scope string_scope.
Local Open Scope Z_scope.

(* The full statement, on the scope where the unchanged code can satisfy it (no zero-valued pointer validation, no empty
   array inside a free-form payload) — not proved generically: *)
Definition C14_statement (scope : string -> json -> bool) : Prop :=
  forall k j, In k ["Swagger"; "Operation"; "Parameter"; "Schema"; "Response"; "Ref"] -> scope k j = true ->
    norm gen_env true j (TNamed k) = norm gen_env false j (TNamed k).

(* free-form payloads (default, example, enum, examples, extensions, unknown keywords), at any depth, with nulls, empty
   objects and nested mixtures: unchanged by the transport as long as they contain no empty array *)
Theorem C14_payloads : forall j, no_empty_array j = true -> gob_any j = j.
Proof. exact gob_any_id. Qed.
Print Assumptions C14_payloads.

(* a numeric validation survives unless its value is zero *)
Theorem C14_nonzero_validations : forall t m e, Z.eqb m 0 = false -> gob_drops true t (JNum m e) = false.
Proof. exact gob_drops_nonzero. Qed.
Print Assumptions C14_nonzero_validations.

(* absent, empty and non-empty security requirements (including a requirement with an empty scope list), references,
   boolean-or-schema unions, extensions with nested payloads: equal before and after the transport *)
Example C14_example :
  let op := JObj [("security", JArr [JObj [("k", JArr [])]; JObj []]); ("responses", JObj [("200", JObj [("description", JStr "d"); ("schema", JObj [("$ref", JStr "#/definitions/x")])])]);
                  ("x-ext", JObj [("a", JNull); ("b", JObj []); ("c", JArr [JNull; JObj [("d", JNum 0 0)]])])] in
  let docs := [ (op, "Operation"); (JObj [("security", JArr [])], "Operation"); (JObj [("summary", JStr "s")], "Operation");
                (JObj [("additionalProperties", JBool false); ("additionalItems", JObj [("type", JStr "string")]); ("minimum", JNum 5 (-1))], "Schema") ] in
  forallb (fun d => match norm gen_env true (fst d) (TNamed (snd d)), norm gen_env false (fst d) (TNamed (snd d)) with
                    | ROk a, ROk b => json_eqb a b | _, _ => false end) docs = true.
Proof. vm_compute. reflexivity. Qed.

(* Known findings on the current tree (F6): the two lossy shapes the statement promises to preserve *)
Example C14_refuted_zero_validation :
  norm gen_env false (JObj [("minimum", JNum 0 0)]) (TNamed "Schema") = ROk (JObj [("minimum", JNum 0 0)])
  /\ norm gen_env true (JObj [("minimum", JNum 0 0)]) (TNamed "Schema") = ROk (JObj []).
Proof. vm_compute. split; reflexivity. Qed.
Example C14_refuted_empty_array :
  norm gen_env true (JObj [("example", JArr [])]) (TNamed "Schema") = ROk (JObj [("example", JNull)])
  /\ norm gen_env true (JObj [("x-a", JObj [("k", JArr [])])]) (TNamed "Schema") = ROk (JObj [("x-a", JObj [("k", JNull)])]).
Proof. vm_compute. split; reflexivity. Qed.

(* ---------- proved for every input: the scalar, slice and map field types (Codec/TypedFacts.v) ---------- *)
(* a field whose Go type is built from string, bool, float64, int64, interface{} and StringOrArray by slices and
   string-keyed maps (required, enum, consumes, produces, schemes, tags, scopes, examples, ...) is encoded after a gob
   transport exactly as without it - for EVERY JSON value it was decoded from - provided no free-form payload in it holds an
   empty array (the corner gob cannot transmit: F6b) *)
Theorem C14_simple_field_types_survive_gob : forall t, simple_ty t -> forall j, gob_safe t j ->
  norm gen_env true j t = norm gen_env false j t.
Proof. exact simple_gob_id_gen. Qed.
Print Assumptions C14_simple_field_types_survive_gob.
