(* C10 — Single-element expanders agree with spec expansion and never touch the root.
   In the model every entry point is set-up code around the same core function [exp] / [expand_por]; the guarantees
   proved of the core therefore hold for each of them.  Non-modification of the root document and of the caller's
   options cannot be exhibited by a functional model (no aliasing): that half is checked on the implementation by the
   oracle (root and options serialised before and after every call) — partial, DESIGN.md section 9. *)
From Coq Require Import List String Bool Arith.
From Spec Require Import Base.Json Base.Url Codec.Types Codec.Gen_Tables Codec.Codec Codec.CodecFacts Expand.Expand Expand.ExpandFacts
  Expand.ExpandSim Expand.ExpandSimCheck Expand.ExpandCycle Expand.ExpandElem Expand.ExpandTermG Expand.ExpandExample Expand.ExpandChain Expand.ExpandSpecSim.
Import ListNotations.
Local Open Scope string_scope.

(* termination of the schema entry points: the bound of C04 relative to the reference graph *)
Theorem C10_schema_with_base_terminates : forall E docs cwd OP ctx_base nodes live,
  check_nodes E docs cwd OP ctx_base "" nodes = true ->
  (forall lu ld, live = Some (lu, ld) -> doc_at docs cwd lu = Some ld) -> o_cont OP = false ->
  forall d base c0 j,
  (forall u x, assoc u c0 = Some x -> assoc u docs = Some x) -> List.length (refs_of nodes) < d -> GN nodes base j ->
  expand_schema_with_base E docs cwd OP ctx_base live d base c0 j <> OOF.
Proof.
  intros E docs cwd OP ctx_base nodes live Hck Hlive Hstrict d base c0 j Hc0 Hd Hg. unfold expand_schema_with_base.
  apply (checked_exp_terminates E docs cwd OP ctx_base "" nodes live Hck Hlive Hstrict); try assumption.
  - constructor.
  - split; [exact Hc0|reflexivity].
  - intros ru Hru. discriminate.
Qed.
Print Assumptions C10_schema_with_base_terminates.

Theorem C10_schema_with_root_terminates : forall E docs cwd OP ctx_base nodes live,
  check_nodes E docs cwd OP ctx_base "" nodes = true ->
  (forall lu ld, live = Some (lu, ld) -> doc_at docs cwd lu = Some ld) -> o_cont OP = false ->
  forall d pseudo root c0 j,
  assoc pseudo docs = Some root -> (forall u x, assoc u c0 = Some x -> assoc u docs = Some x) ->
  List.length (refs_of nodes) < d -> GN nodes pseudo j ->
  expand_schema_with_root E docs cwd OP ctx_base live d pseudo root c0 j <> OOF.
Proof.
  intros E docs cwd OP ctx_base nodes live Hck Hlive Hstrict d pseudo root c0 j Hroot Hc0 Hd Hg. unfold expand_schema_with_root.
  apply (checked_exp_terminates E docs cwd OP ctx_base "" nodes live Hck Hlive Hstrict); try assumption.
  - constructor.
  - split; [|reflexivity]. unfold state_with_root. cbn [cache]. intros u x. cbn [assoc]. destruct (String.eqb u pseudo) eqn:Eu.
    + apply String.eqb_eq in Eu. subst u. intros Hx. inversion Hx; subst. exact Hroot.
    + apply Hc0.
  - intros ru Hru. discriminate.
Qed.
Print Assumptions C10_schema_with_root_terminates.

(* the supplied root is what `#/...` references of the element are read in: with the root cached under the pseudo
   location, a fragment-only reference resolves to the designated member of that root *)
Theorem C10_local_refs_read_the_supplied_root : forall E docs cwd pseudo root c0 ref kind r,
  new_ref (s2l ref) = POk r -> is_root r || has_fragment_only r = true ->
  pseudo <> ""%string -> nbase cwd (strip_frag pseudo) = POk pseudo ->
  resolve E docs cwd None (state_with_root pseudo root c0) None ref pseudo kind
  = resolve_finish E ref kind (ptr_tokens (u_frag (r_url r))) (state_with_root pseudo root c0) root.
Proof.
  intros E docs cwd pseudo root c0 ref kind r Hr Hl Hne Hn.
  unfold resolve. rewrite Hr. cbn [pbind]. rewrite Hl.
  replace (String.eqb pseudo "") with false by (symmetry; apply String.eqb_neq; exact Hne).
  unfold load. rewrite Hn. cbn [pbind state_with_root cache assoc]. rewrite String.eqb_refl. reflexivity.
Qed.
Print Assumptions C10_local_refs_read_the_supplied_root.

(* the cache discipline of C18 holds for the entry points too *)
Theorem C10_cache_discipline : forall E docs cwd OP live d base c0 j,
  match expand_schema_with_base E docs cwd OP base live d base c0 j with
  | Done (s', _) => cache_inv docs c0 s' | Failed sf => cache_inv docs c0 sf | _ => True end.
Proof.
  intros. unfold expand_schema_with_base. apply exp_inv.
  constructor; cbn; [constructor|intros x []|intros x []|intros x H; exact H].
Qed.
Print Assumptions C10_cache_discipline.

(* ---------- meaning ("the result denotes the same tree as the element does in the context of that root") ----------
   The entry points inherit the meaning theorems of C02, because they ARE the core functions started in a particular state:
   ExpandSchemaWithBasePath = exp from a state whose cache is the caller's, without resolver root; ExpandSchema(root) = the
   same with the root cached under its pseudo location; Expand{Parameter,Response}* = expand_por.  What the set-up must
   guarantee is only that the initial cache is consistent with what the loader serves. *)
Theorem C10_schema_with_base_preserves_meaning : forall E docs cwd OP ctx_base nodes live,
  check_nodes E docs cwd OP ctx_base "" nodes = true ->
  (forall lu ld, live = Some (lu, ld) -> doc_at docs cwd lu = Some ld) ->
  o_cont OP = false ->
  forall d base c0 j s' j',
  (forall u x, assoc u c0 = Some x -> assoc u docs = Some x) ->
  GN nodes base j ->
  expand_schema_with_base E docs cwd OP ctx_base live d base c0 j = Done (s', j') ->
  bisimilar E docs cwd base j ctx_base j'.
Proof.
  intros E docs cwd OP ctx_base nodes live Hck Hlive Hstrict d base c0 j s' j' Hc0 Hg H. unfold expand_schema_with_base in H.
  refine (proj2 (checked_graph_sim E docs cwd OP ctx_base "" nodes live Hck Hlive Hstrict d _ _ _ _ _ _ _ Hg _ _ H)).
  - split; [exact Hc0|reflexivity].
  - intros ru Hru. discriminate.
Qed.
Print Assumptions C10_schema_with_base_preserves_meaning.

Theorem C10_schema_with_root_preserves_meaning : forall E docs cwd OP ctx_base nodes live,
  check_nodes E docs cwd OP ctx_base "" nodes = true ->
  (forall lu ld, live = Some (lu, ld) -> doc_at docs cwd lu = Some ld) ->
  o_cont OP = false ->
  forall d pseudo root c0 j s' j',
  assoc pseudo docs = Some root ->          (* the root is what a request for its pseudo location would be answered with *)
  (forall u x, assoc u c0 = Some x -> assoc u docs = Some x) ->
  GN nodes pseudo j ->
  expand_schema_with_root E docs cwd OP ctx_base live d pseudo root c0 j = Done (s', j') ->
  bisimilar E docs cwd pseudo j ctx_base j'.
Proof.
  intros E docs cwd OP ctx_base nodes live Hck Hlive Hstrict d pseudo root c0 j s' j' Hroot Hc0 Hg H. unfold expand_schema_with_root in H.
  refine (proj2 (checked_graph_sim E docs cwd OP ctx_base "" nodes live Hck Hlive Hstrict d _ _ _ _ _ _ _ Hg _ _ H)).
  - split; [|reflexivity]. unfold state_with_root. cbn [cache]. intros u x. cbn [assoc]. destruct (String.eqb u pseudo) eqn:Eu.
    + apply String.eqb_eq in Eu. subst u. intros Hx. inversion Hx; subst. exact Hroot.
    + apply Hc0.
  - intros ru Hru. discriminate.
Qed.
Print Assumptions C10_schema_with_root_preserves_meaning.

(* ExpandParameter / ExpandResponse against a base location: the element-level theorem of C02 *)
Theorem C10_element_with_base_preserves_meaning : forall E docs cwd OP ctx_base nodes enodes live,
  check_nodes E docs cwd OP ctx_base "" nodes = true -> check_enodes E docs cwd enodes nodes = true ->
  (forall lu ld, live = Some (lu, ld) -> doc_at docs cwd lu = Some ld) -> o_cont OP = false ->
  forall kind d base c0 m s' j' s1 m1 rr1 b1,
  (forall u x, assoc u c0 = Some x -> assoc u docs = Some x) ->
  GEN enodes kind base m ->
  deref E docs cwd OP live (S d) (state_plain c0) [] None base kind m = Done (s1, m1, rr1, b1) -> get_str "$ref" m1 = "" ->
  expand_element_with_base E docs cwd OP ctx_base live d base c0 kind (JObj m) = Done (s', j') ->
  chases_k E docs cwd kind base m b1 m1 /\
  exists mo, j' = JObj mo /\ forall n, rel_por E docs cwd n b1 (remove_key "$ref" m1) ctx_base mo.
Proof.
  intros E docs cwd OP ctx_base nodes enodes live Hck Hcke Hlive Hstrict kind d base c0 m s' j' s1 m1 rr1 b1 Hc0 Hg Hd Hend H.
  unfold expand_element_with_base in H.
  refine (proj2 (checked_por_sim E docs cwd OP ctx_base "" nodes enodes live Hck Hcke Hlive Hstrict kind d (S d) _ _ _ _ _ _ _ _ _ _ Hg _ _ Hd Hend H)).
  - split; [exact Hc0|reflexivity].
  - intros ru Hru. discriminate.
Qed.
Print Assumptions C10_element_with_base_preserves_meaning.

(* non-vacuity: ExpandSchemaWithBasePath on definition `c` of the second document of the example graph, nothing cached *)
Definition ex_c10 : json := match ptr_get ["definitions"; "c"] ex_other with Some j => j | None => JNull end.
Example C10_example : forall s' j',
  expand_schema_with_base gen_env ex_docs "/" (mkOpts false false false) ex_root_url None 8 ex_other_url [] ex_c10 = Done (s', j') ->
  bisimilar gen_env ex_docs "/" ex_other_url ex_c10 ex_root_url j'.
Proof.
  intros s' j' H.
  assert (Hck : check_nodes gen_env ex_docs "/" (mkOpts false false false) ex_root_url "" ex_nodes = true) by (vm_compute; reflexivity).
  refine (C10_schema_with_base_preserves_meaning gen_env ex_docs "/" _ ex_root_url ex_nodes None Hck _ eq_refl 8 ex_other_url [] ex_c10 s' j' _ _ H).
  - intros lu ld E. discriminate.
  - intros u x E. discriminate.
  - vm_compute. tauto.
Qed.
Example C10_example_runs : exists s' j',
  expand_schema_with_base gen_env ex_docs "/" (mkOpts false false false) ex_root_url None 8 ex_other_url [] ex_c10 = Done (s', j').
Proof. vm_compute. eexists. eexists. reflexivity. Qed.

(* ---------- the element entry points without side conditions (Expand/ExpandChain.v, ExpandSpecSim.v) ---------- *)
(* ExpandParameter / ExpandResponse against a base location, and Expand{Parameter,Response}WithRoot against a supplied root:
   on a checked graph (schemas, elements, chains) whatever the call returns is the END of the element's chain, with its schema
   replaced by a [sound_schema] (bisimilar to it when read at the root location; every `$ref` left in it on a cycle) - the
   chain IS followed to its end (no hypothesis about deref any more), from whatever consistent cache the caller supplies *)
Local Open Scope string_scope.
Theorem C10_element_with_base_sound : forall E docs cwd OP ctx_base nodes enodes bad0 ranks live,
  (forall lu ld, live = Some (lu, ld) -> doc_at docs cwd lu = Some ld) -> o_cont OP = false -> o_skip OP = false ->
  check_nodes E docs cwd OP ctx_base "" nodes = true -> check_enodes E docs cwd enodes nodes = true ->
  check_chains E docs cwd nodes enodes bad0 ranks = true ->
  forall kind d base c0 m s' j',
  (forall u x, assoc u c0 = Some x -> assoc u docs = Some x) ->
  GEN enodes kind base m ->
  expand_element_with_base E docs cwd OP ctx_base live d base c0 kind (JObj m) = Done (s', j') ->
  por_rel E docs cwd (sound_schema E docs cwd OP ctx_base "" nodes bad0) kind base (JObj m) j'.
Proof.
  intros E docs cwd OP ctx_base nodes enodes bad0 ranks live Hlive Hstrict Hskip Hck Hcke Hckc kind d base c0 m s' j' Hc0 Hg H.
  unfold expand_element_with_base in H.
  refine (proj2 (checked_por_step E docs cwd OP ctx_base "" nodes enodes bad0 ranks live Hlive Hstrict Hskip Hck Hcke Hckc kind d (S d) _ None base (JObj m) s' j' Hg _ _ H)).
  - split; [split; [exact Hc0|reflexivity]|intros x Hx; destruct Hx].
  - intros ru Hru. discriminate.
Qed.
Print Assumptions C10_element_with_base_sound.

Theorem C10_element_with_root_sound : forall E docs cwd OP ctx_base nodes enodes bad0 ranks live,
  (forall lu ld, live = Some (lu, ld) -> doc_at docs cwd lu = Some ld) -> o_cont OP = false -> o_skip OP = false ->
  check_nodes E docs cwd OP ctx_base "" nodes = true -> check_enodes E docs cwd enodes nodes = true ->
  check_chains E docs cwd nodes enodes bad0 ranks = true ->
  forall kind d pseudo root c0 m s' j',
  assoc pseudo docs = Some root -> (forall u x, assoc u c0 = Some x -> assoc u docs = Some x) ->
  GEN enodes kind pseudo m ->
  expand_element_with_root E docs cwd OP ctx_base live d pseudo root c0 kind (JObj m) = Done (s', j') ->
  por_rel E docs cwd (sound_schema E docs cwd OP ctx_base "" nodes bad0) kind pseudo (JObj m) j'.
Proof.
  intros E docs cwd OP ctx_base nodes enodes bad0 ranks live Hlive Hstrict Hskip Hck Hcke Hckc kind d pseudo root c0 m s' j' Hroot Hc0 Hg H.
  unfold expand_element_with_root in H.
  refine (proj2 (checked_por_step E docs cwd OP ctx_base "" nodes enodes bad0 ranks live Hlive Hstrict Hskip Hck Hcke Hckc kind d (S d) _ (Some pseudo) pseudo (JObj m) s' j' Hg _ _ H)).
  - split; [split; [|reflexivity]|intros x Hx; destruct Hx].
    unfold state_with_root. cbn [cache]. intros u x. cbn [assoc]. destruct (String.eqb u pseudo) eqn:Eu.
    + apply String.eqb_eq in Eu. subst u. intros Hx. inversion Hx; subst. exact Hroot.
    + apply Hc0.
  - intros ru Hru. inversion Hru; subst. reflexivity.
Qed.
Print Assumptions C10_element_with_root_sound.
