(* C10 — Single-element expanders agree with spec expansion and never touch the root.
   In the model every entry point is set-up code around the same core function [exp] / [expand_por]; the guarantees
   proved of the core therefore hold for each of them.  Non-modification of the root document and of the caller's
   options cannot be exhibited by a functional model (no aliasing): that half is checked on the implementation by the
   oracle (root and options serialised before and after every call) — partial, DESIGN.md section 9. *)
From Coq Require Import List String Bool Arith.
From Spec Require Import Base.Json Base.Url Codec.Types Codec.Codec Expand.Expand Expand.ExpandFacts.
Import ListNotations.

(* termination of the schema entry points: the same pigeonhole bound *)
Theorem C10_schema_with_root_terminates : forall E docs cwd OP live U d pseudo root c0 j,
  (forall x, canonical_output x -> In x U) -> List.length U < d ->
  expand_schema_with_root E docs cwd OP pseudo live d pseudo root c0 j <> OOF.
Proof.
  intros E docs cwd OP live U d pseudo root c0 j HU Hd. unfold expand_schema_with_root.
  eapply exp_terminates; [exact HU|constructor|intros x []|cbn; exact Hd].
Qed.
Print Assumptions C10_schema_with_root_terminates.

Theorem C10_schema_with_base_terminates : forall E docs cwd OP live U d base c0 j,
  (forall x, canonical_output x -> In x U) -> List.length U < d ->
  expand_schema_with_base E docs cwd OP base live d base c0 j <> OOF.
Proof.
  intros E docs cwd OP live U d base c0 j HU Hd. unfold expand_schema_with_base.
  eapply exp_terminates; [exact HU|constructor|intros x []|cbn; exact Hd].
Qed.
Print Assumptions C10_schema_with_base_terminates.

(* the supplied root is what `#/...` references of the element are read in: with the root cached under the pseudo
   location, a fragment-only reference resolves to the designated member of that root *)
Theorem C10_local_refs_read_the_supplied_root : forall E docs cwd pseudo root c0 ref kind r,
  new_ref (s2l ref) = POk r -> is_root r || has_fragment_only r = true ->
  pseudo <> ""%string -> nbase cwd (strip_frag pseudo) = POk pseudo ->
  resolve E docs cwd None (state_with_root pseudo root c0) None ref pseudo kind
  = resolve_finish E ref kind (ptr_tokens (u_frag (r_url r))) (state_with_root pseudo root c0) root.
Proof.
  intros E docs cwd pseudo root c0 ref kind r Hr Hl Hne Hn.
  unfold resolve. rewrite Hr. cbn [pbind]. rewrite Hl.
  replace (String.eqb pseudo "") with false by (symmetry; apply String.eqb_neq; exact Hne).
  unfold load. rewrite Hn. cbn [pbind state_with_root cache assoc]. rewrite String.eqb_refl. reflexivity.
Qed.
Print Assumptions C10_local_refs_read_the_supplied_root.

(* the cache discipline of C18 holds for the entry points too *)
Theorem C10_cache_discipline : forall E docs cwd OP live d base c0 j,
  match expand_schema_with_base E docs cwd OP base live d base c0 j with
  | Done (s', _) => cache_inv docs c0 s' | Failed sf => cache_inv docs c0 sf | _ => True end.
Proof.
  intros. unfold expand_schema_with_base. apply exp_inv.
  constructor; cbn; [constructor|intros x []|intros x []|intros x H; exact H].
Qed.
Print Assumptions C10_cache_discipline.
