(* C07 — Decoding is total and its normalisation is idempotent. *)
From Coq Require Import List String Bool ZArith.
Local Open Scope Z_scope.
From Spec Require Import Base.Json Base.JsonRoundTrip Codec.Types Codec.Gen_Tables Codec.Codec Codec.CodecFacts Codec.PayloadFacts Codec.TypedFacts.
Import ListNotations.
Local Open Scope string_scope.

(* Totality of the model is checked by Coq's guard checker: [norm] is a structural recursion on the
   JSON tree, so it returns [ROk], [RErr] or [RUnsup] on every tree, for every kind — there is no
   stuck or diverging case.  (Bytes that are not JSON never reach the package: json.Unmarshal
   validates first.) *)
Theorem C07_total : forall j t, exists r, norm gen_env false j t = r.
Proof. exact (fun j t => ex_intro _ (norm gen_env false j t) eq_refl). Qed.
Print Assumptions C07_total.

(* The full idempotence statement, not yet proved for every kind (DESIGN.md): *)
Definition C07_statement (no_casefold_clash : string -> json -> bool) : Prop :=
  forall k j j1, no_casefold_clash k j = true ->
    norm gen_env false j (TNamed k) = ROk j1 -> norm gen_env false j1 (TNamed k) = ROk j1.

(* Checked by evaluation on the shapes that used to break it (finding F4 and relatives), and on a
   nested document: the second normalisation reproduces the first, member for member. *)
Example C07_fixed_points :
  let docs := [ JObj [("items", JArr [])]; JObj [("items", JNull)];
                JObj [("type", JArr [JStr "string"])]; JObj [("additionalProperties", JStr "x")];
                JObj [("properties", JObj [("b", JObj [("x-order", JNum 1 0)]); ("a", JObj [("x-order", JNum 1 0)])]);
                      ("x-B", JObj [("b", JNum 1 0); ("a", JNull)]); ("$ref", JStr "HTTP://H:80//a#/x")] ] in
  forallb (fun j => match norm gen_env false j (TNamed "Schema") with
                    | ROk j1 => match norm gen_env false j1 (TNamed "Schema") with ROk j2 => json_eqb j1 j2 | _ => false end
                    | _ => false end) docs = true.
Proof. vm_compute. reflexivity. Qed.

(* Known finding on the current tree (F4b): an `items` that is neither an object nor an array decodes to
   an empty union, encodes as null, and disappears at the next round: the first encoding is not a fixed point. *)
Example C07_refuted_items_scalar :
  norm gen_env false (JObj [("items", JBool true)]) (TNamed "Schema") = ROk (JObj [("items", JNull)])
  /\ norm gen_env false (JObj [("items", JNull)]) (TNamed "Schema") = ROk (JObj []).
Proof. vm_compute. split; reflexivity. Qed.

(* ---------- proved for every input: the free-form positions (Codec/PayloadFacts.v) ---------- *)
(* default, example, the entries of enum, the values of vendor extensions, unknown keywords of a schema, the examples of a
   response are free-form payloads: whatever JSON value stands there (any size, any nesting, duplicate member names
   included), its encoding is a fixed point - decoding and encoding it once more reproduces it *)
Theorem C07_payload_is_a_fixed_point : forall j v, norm gen_env false j TAny = ROk v -> norm gen_env false v TAny = ROk v.
Proof. exact (payload_fixed_point gen_env). Qed.
Print Assumptions C07_payload_is_a_fixed_point.

Theorem C07_payload_normalisation_is_idempotent : forall j, norm_any (norm_any j) = norm_any j.
Proof. exact norm_any_idem. Qed.
Print Assumptions C07_payload_normalisation_is_idempotent.

(* the vendor extensions of an object (members whose lower-cased name starts with x-, values as payloads, sorted by name)
   are read back from an encoding exactly as they were written *)
Theorem C07_extensions_are_a_fixed_point : forall m, ext_members (ext_members m) = ext_members m.
Proof. exact ext_members_idem. Qed.
Print Assumptions C07_extensions_are_a_fixed_point.

(* non-vacuity: a payload with duplicate names, unsorted members and nesting is changed by the first pass, not by the second *)
Example C07_payload_example :
  let j := JObj [("b", JNum 1 0); ("a", JArr [JObj [("z", JNull); ("y", JBool true); ("z", JStr "last")]]); ("b", JStr "wins")] in
  norm gen_env false j TAny = ROk (JObj [("a", JArr [JObj [("y", JBool true); ("z", JStr "last")]]); ("b", JStr "wins")])
  /\ norm_any j <> j.
Proof. split; [vm_compute; reflexivity|vm_compute; discriminate]. Qed.

(* ---------- proved for every input: the union kinds and the container field types (Codec/TypedFacts.v) ---------- *)
(* `type` (a string or a list of strings): whatever JSON value is given - a string, a list with blank or null entries, a
   list of one, an empty list, null - the encoding is a fixed point (in particular `[""]` is written `""` and `""` stays) *)
Theorem C07_string_or_array_is_a_fixed_point : forall G j v,
  norm gen_env G j (TNamed "StringOrArray") = ROk v -> norm gen_env G v (TNamed "StringOrArray") = ROk v.
Proof. exact soa_idem_gen. Qed.
Print Assumptions C07_string_or_array_is_a_fixed_point.

(* additionalProperties / additionalItems given as anything but an object; dependencies given as a list of names *)
Theorem C07_schema_or_bool_is_a_fixed_point : forall G j v, (forall m, j <> JObj m) ->
  norm gen_env G j (TNamed "SchemaOrBool") = ROk v -> norm gen_env G v (TNamed "SchemaOrBool") = ROk v.
Proof. exact sob_idem_gen. Qed.
Print Assumptions C07_schema_or_bool_is_a_fixed_point.
Theorem C07_schema_or_string_array_is_a_fixed_point : forall G j v, (forall m, j <> JObj m) ->
  norm gen_env G j (TNamed "SchemaOrStringArray") = ROk v -> norm gen_env G v (TNamed "SchemaOrStringArray") = ROk v.
Proof. exact sosa_idem_gen. Qed.
Print Assumptions C07_schema_or_string_array_is_a_fixed_point.

(* every field whose Go type is built from string, bool, float64, int64, interface{} and StringOrArray by slices and
   string-keyed maps (required, enum, consumes, produces, schemes, tags of an operation, scopes, examples, security
   requirements ...): whatever JSON value it is given, decoding and encoding is idempotent *)
Theorem C07_simple_field_types_are_fixed_points : forall t, simple_ty t ->
  forall j v, norm gen_env false j t = ROk v -> norm gen_env false v t = ROk v.
Proof. exact simple_idem_gen. Qed.
Print Assumptions C07_simple_field_types_are_fixed_points.

(* the fields of the tables regenerated from /repo that have such a type (89 of the 201 encoded fields on the pinned tree;
   the statement only says "at least 40", so that adding or removing a field is not a broken obligation) *)
Example C07_simple_fields_of_the_package :
  Nat.leb 40 (List.length (simple_fields gen_env)) = true /\ forall f, In f (simple_fields gen_env) -> simple_ty (f_ty f).
Proof.
  split; [vm_compute; reflexivity|].
  intros f Hf. apply filter_In in Hf. destruct Hf as [_ Hf]. apply andb_true_iff in Hf. apply simple_tyb_sound. exact (proj2 Hf).
Qed.

(* The text level (Base/JsonRoundTrip.v): whatever tree the model writes as text, the tree its reader returns for that text is a fixed
   point - written and read once more it comes back as it is (the numbers are in the one form the writer uses from the first pass
   on).  Unbounded: every tree, any strings and member names, any depth. *)
Theorem C07_text_normalisation_is_idempotent : forall j j',
  parse_json (print_json j) = Some j' -> parse_json (print_json j') = Some j'.
Proof. exact text_normalisation_is_idempotent. Qed.
Print Assumptions C07_text_normalisation_is_idempotent.
Theorem C07_reading_written_text_never_fails : forall j, parse_json (print_json j) <> None.
Proof. intros j. rewrite parse_print. discriminate. Qed.
Print Assumptions C07_reading_written_text_never_fails.
