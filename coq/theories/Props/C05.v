(* C05 — Resolving a reference returns exactly the designated sub-document.
   Model: [resolve] / [resolve_finish] / [ptr_get] of Expand/Expand.v (resolveRef, jsonpointer). *)
From Coq Require Import List String Ascii Bool.
From Spec Require Import Base.Json Base.Url Codec.Types Codec.Codec Expand.Expand Expand.ExpandFacts
  Expand.ExpandSim Expand.ExpandSimCheck Expand.ExpandCycle Expand.ExpandElem Base.UrlText Expand.PointerText.
Import ListNotations.
Local Open Scope string_scope.

(* success means: the pointer designated an OBJECT of the document and the result is its typed decoding —
   never a zero value with a nil error; anything else (no such member, an array/string/number/boolean
   target, an undecodable object) is an error *)
Theorem C05_exactly_the_designated_subdocument : forall E ref kind toks s' data s'' v,
  resolve_finish E ref kind toks s' data = Done (s'', v) ->
  exists res m, res = JObj m /\ (if String.eqb ref "" then Some data else ptr_get toks data) = Some res
                /\ norm E false res (TNamed kind) = ROk v.
Proof. exact resolve_finish_done. Qed.
Print Assumptions C05_exactly_the_designated_subdocument.

(* the document consulted is the one normalizeURI designates for the reference against the base (C12) *)
Theorem C05_document_by_url : forall E docs cwd live s rroot ref base kind r full,
  new_ref (s2l ref) = POk r -> is_root r || has_fragment_only r = false ->
  nuri ref base = POk full ->
  resolve E docs cwd live s rroot ref base kind
  = ebind (load docs cwd s full) (fun sd => resolve_finish E ref kind (ptr_tokens (u_frag (r_url r))) (fst sd) (snd sd)).
Proof. exact resolve_by_url. Qed.
Print Assumptions C05_document_by_url.

(* the three ways of supplying the root cannot matter for a reference with a URI part *)
Theorem C05_root_irrelevant_for_url_refs : forall E docs cwd live s rroot rroot' ref base kind r,
  new_ref (s2l ref) = POk r -> is_root r || has_fragment_only r = false ->
  resolve E docs cwd live s rroot ref base kind = resolve E docs cwd live s rroot' ref base kind.
Proof. exact resolve_root_irrelevant. Qed.
Print Assumptions C05_root_irrelevant_for_url_refs.

(* RFC 6901: ~0/~1 escaping is undone exactly, and an escaped token never contains "/" *)
Theorem C05_token_escapes : forall s, unescape_tok (escape_tok s) = s /\ mem_char "/"%char (escape_tok s) = false.
Proof. exact (fun s => conj (unescape_escape_tok s) (escape_tok_no_slash s)). Qed.
Print Assumptions C05_token_escapes.

(* ---- pointers as texts, unbounded (Expand/PointerText.v) ----
   writing ANY list of tokens as a pointer ("~" as ~0, "/" as ~1, tokens joined by "/") and reading the pointer gives the
   tokens back: whatever characters the tokens hold, however many there are *)
Theorem C05_pointer_text_roundtrip : forall toks, ptr_tokens (ptr_text toks) = map l2s toks.
Proof. exact ptr_tokens_of_text. Qed.
Print Assumptions C05_pointer_text_roundtrip.

(* ... and through the reference text: "#/t1/t2/..." read by url.Parse (as modelled) is a fragment-only reference whose
   fragment evaluates to exactly those tokens, for tokens of letters, digits, - _ . ~ and "/" *)
Theorem C05_fragment_reference_tokens : forall toks, Forall (fun t => forallb tokchar t = true) toks ->
  match parse_url ("#"%char :: ptr_text toks) with
  | POk u => ptr_tokens (u_frag u) = map l2s toks /\ u_path u = [] /\ u_scheme u = [] /\ u_host u = []
  | _ => toks = []
  end.
Proof. exact fragment_reference_tokens. Qed.
Print Assumptions C05_fragment_reference_tokens.

Example C05_pointer_text_example :
  ptr_text [s2l "definitions"; s2l "a/b"; s2l "c~d"; s2l "~1"] = s2l "/definitions/a~1b/c~0d/~01"
  /\ ptr_tokens (s2l "/definitions/a~1b/c~0d/~01") = ["definitions"; "a/b"; "c~d"; "~1"].
Proof. exact pointer_text_example. Qed.

(* resolution is shallow and never runs out of anything: it has no fuel *)
Theorem C05_no_fuel : forall E docs cwd live s rroot ref base kind, resolve E docs cwd live s rroot ref base kind <> OOF.
Proof. exact resolve_not_oof. Qed.
Print Assumptions C05_no_fuel.

(* non-vacuity: names with "/", "~", "%" and a space; a dangling pointer is an error *)
Example C05_example :
  let doc := JObj [("definitions", JObj [("a/b", JObj [("type", JStr "string")]); ("c~d", JObj [("type", JStr "integer")]);
                                         ("e f%", JObj [("properties", JObj [("p", JObj [("$ref", JStr "#/definitions/a~1b")])])])])] in
  ptr_get (ptr_tokens (s2l "/definitions/a~1b")) doc = Some (JObj [("type", JStr "string")])
  /\ ptr_get (ptr_tokens (s2l "/definitions/c~0d")) doc = Some (JObj [("type", JStr "integer")])
  /\ ptr_get (ptr_tokens (s2l "/definitions/e f%/properties/p")) doc = Some (JObj [("$ref", JStr "#/definitions/a~1b")])
  /\ ptr_get (ptr_tokens (s2l "/definitions/nope")) doc = None.
Proof. vm_compute. repeat split. Qed.

(* ---------- document-relative resolution, for every kind and every way of supplying the root (Expand/ExpandElem.v) ----------
   [sem_target_k kind ref base]: the reference text resolved against the base location (normalizeURI), the document the
   loader serves there, the fragment evaluated as a JSON pointer, the value read as [kind].  Whatever root document the
   resolver holds (typed root, generic root, none: only the location) and whatever the cache contains, a successful
   resolution returns exactly that — provided the root the resolver holds is the document at the base (Coh), the cache is
   consistent with the loader (Inv), and a fragment-only reference normalises into the base's document. *)
Theorem C05_resolution_is_document_relative : forall E docs cwd live rid,
  (forall lu ld, live = Some (lu, ld) -> doc_at docs cwd lu = Some ld) ->
  forall kind s rroot ref base nref s2 t,
  Inv docs rid s -> Coh cwd rroot base -> nuri ref base = POk nref ->
  (is_local ref = true -> nbase cwd (strip_frag nref) = nbase cwd (strip_frag base)) ->
  resolve E docs cwd live s rroot ref base kind = Done (s2, t) ->
  sem_target_k E docs cwd kind ref base = Some (next_base ref base nref, t) /\ Inv docs rid s2.
Proof. exact resolve_sem_k. Qed.
Print Assumptions C05_resolution_is_document_relative.

(* hence the answer is the same however the root is supplied *)
Theorem C05_same_answer_however_the_root_is_supplied : forall E docs cwd live1 live2 rid,
  (forall lu ld, live1 = Some (lu, ld) -> doc_at docs cwd lu = Some ld) ->
  (forall lu ld, live2 = Some (lu, ld) -> doc_at docs cwd lu = Some ld) ->
  forall kind s1 s2 rroot1 rroot2 ref base nref s1' s2' t1 t2,
  Inv docs rid s1 -> Inv docs rid s2 -> Coh cwd rroot1 base -> Coh cwd rroot2 base -> nuri ref base = POk nref ->
  (is_local ref = true -> nbase cwd (strip_frag nref) = nbase cwd (strip_frag base)) ->
  resolve E docs cwd live1 s1 rroot1 ref base kind = Done (s1', t1) ->
  resolve E docs cwd live2 s2 rroot2 ref base kind = Done (s2', t2) ->
  t1 = t2.
Proof.
  intros E docs cwd live1 live2 rid H1 H2 kind s1 s2 rr1 rr2 ref base nref s1' s2' t1 t2 I1 I2 C1 C2 Hn Hl R1 R2.
  destruct (resolve_sem_k E docs cwd live1 rid H1 kind _ _ _ _ _ _ _ I1 C1 Hn Hl R1) as [T1 _].
  destruct (resolve_sem_k E docs cwd live2 rid H2 kind _ _ _ _ _ _ _ I2 C2 Hn Hl R2) as [T2 _].
  rewrite T1 in T2. inversion T2. reflexivity.
Qed.
Print Assumptions C05_same_answer_however_the_root_is_supplied.
