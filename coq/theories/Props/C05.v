(* C05 — Resolving a reference returns exactly the designated sub-document.
   Model: [resolve] / [resolve_finish] / [ptr_get] of Expand/Expand.v (resolveRef, jsonpointer). *)
From Coq Require Import List String Ascii Bool.
From Spec Require Import Base.Json Base.Url Codec.Types Codec.Codec Expand.Expand Expand.ExpandFacts.
Import ListNotations.
Local Open Scope string_scope.

(* success means: the pointer designated an OBJECT of the document and the result is its typed decoding —
   never a zero value with a nil error; anything else (no such member, an array/string/number/boolean
   target, an undecodable object) is an error *)
Theorem C05_exactly_the_designated_subdocument : forall E ref kind toks s' data s'' v,
  resolve_finish E ref kind toks s' data = Done (s'', v) ->
  exists res m, res = JObj m /\ (if String.eqb ref "" then Some data else ptr_get toks data) = Some res
                /\ norm E false res (TNamed kind) = ROk v.
Proof. exact resolve_finish_done. Qed.
Print Assumptions C05_exactly_the_designated_subdocument.

(* the document consulted is the one normalizeURI designates for the reference against the base (C12) *)
Theorem C05_document_by_url : forall E docs cwd live s rroot ref base kind r full,
  new_ref (s2l ref) = POk r -> is_root r || has_fragment_only r = false ->
  nuri ref base = POk full ->
  resolve E docs cwd live s rroot ref base kind
  = ebind (load docs cwd s full) (fun sd => resolve_finish E ref kind (ptr_tokens (u_frag (r_url r))) (fst sd) (snd sd)).
Proof. exact resolve_by_url. Qed.
Print Assumptions C05_document_by_url.

(* the three ways of supplying the root cannot matter for a reference with a URI part *)
Theorem C05_root_irrelevant_for_url_refs : forall E docs cwd live s rroot rroot' ref base kind r,
  new_ref (s2l ref) = POk r -> is_root r || has_fragment_only r = false ->
  resolve E docs cwd live s rroot ref base kind = resolve E docs cwd live s rroot' ref base kind.
Proof. exact resolve_root_irrelevant. Qed.
Print Assumptions C05_root_irrelevant_for_url_refs.

(* RFC 6901: ~0/~1 escaping is undone exactly, and an escaped token never contains "/" *)
Theorem C05_token_escapes : forall s, unescape_tok (escape_tok s) = s /\ mem_char "/"%char (escape_tok s) = false.
Proof. exact (fun s => conj (unescape_escape_tok s) (escape_tok_no_slash s)). Qed.
Print Assumptions C05_token_escapes.

(* resolution is shallow and never runs out of anything: it has no fuel *)
Theorem C05_no_fuel : forall E docs cwd live s rroot ref base kind, resolve E docs cwd live s rroot ref base kind <> OOF.
Proof. exact resolve_not_oof. Qed.
Print Assumptions C05_no_fuel.

(* non-vacuity: names with "/", "~", "%" and a space; a dangling pointer is an error *)
Example C05_example :
  let doc := JObj [("definitions", JObj [("a/b", JObj [("type", JStr "string")]); ("c~d", JObj [("type", JStr "integer")]);
                                         ("e f%", JObj [("properties", JObj [("p", JObj [("$ref", JStr "#/definitions/a~1b")])])])])] in
  ptr_get (ptr_tokens (s2l "/definitions/a~1b")) doc = Some (JObj [("type", JStr "string")])
  /\ ptr_get (ptr_tokens (s2l "/definitions/c~0d")) doc = Some (JObj [("type", JStr "integer")])
  /\ ptr_get (ptr_tokens (s2l "/definitions/e f%/properties/p")) doc = Some (JObj [("$ref", JStr "#/definitions/a~1b")])
  /\ ptr_get (ptr_tokens (s2l "/definitions/nope")) doc = None.
Proof. vm_compute. repeat split. Qed.
