(* C02 — Expansion preserves the meaning of every element (bisimilar reference graphs).

   Meaning (Expand/ExpandSim.v).  A located schema is (base, j): the JSON value j found in the document at URL base.
   [sem_target ref base] is what a `$ref` text designates there: the text resolved against the URL of the document that
   CONTAINS it (normalizeURI), the document served at that URL, the fragment evaluated as a JSON pointer, the value read as
   a Schema.  [chases] follows references until a proper schema object appears ("$ref replaces its holder").  [sim n]
   compares two located schemas level by level to depth n (sub-schema positions by sim (n-1), everything else by
   equality); [bisimilar] is sim n for every n — equality of the possibly infinite fully dereferenced trees.

   Proved here, unbounded: for every store of documents, state (cache, memo of circular references: i.e. whatever was
   expanded before, in whatever order), parent stack, fuel, SkipSchemas and AbsoluteCircularRef setting, with
   ContinueOnError off: whenever the schema walk succeeds on (base, j) its output, read at the root location, is bisimilar
   to (base, j) — provided the reference graph is well-formed in the sense of the hypotheses G_*, which a decision
   procedure establishes by computation on any finite graph ([C02_checked_graph]).
   Not proved (covered by the correspondence and the oracle only): the chains of parameter / response / path-item
   references (deref) — where the defects F7 and F8 were found and repaired — and the URL-algebra conditions in
   G_same/G_render for ALL urls (they are decided per graph instead). *)
From Coq Require Import List String Bool.
From Spec Require Import Base.Json Base.Url Codec.Types Codec.Gen_Tables Codec.Codec Codec.CodecFacts
  Expand.Expand Expand.ExpandFacts Expand.ExpandSim Expand.ExpandSimCheck Expand.ExpandCycle Expand.ExpandExample.
Import ListNotations.
Local Open Scope string_scope.

(* meaning is well defined: a located schema chases to at most one object *)
Theorem C02_meaning_deterministic : forall E docs cwd b j b1 m1, chases E docs cwd b j b1 m1 ->
  forall b2 m2, chases E docs cwd b j b2 m2 -> b1 = b2 /\ m1 = m2.
Proof. exact chases_fun. Qed.
Print Assumptions C02_meaning_deterministic.

Theorem C02_bisimilar_reflexive : forall E docs cwd n b j, sim E docs cwd n b j b j.
Proof. exact sim_refl. Qed.
Print Assumptions C02_bisimilar_reflexive.

(* "A $ref is always interpreted relative to the document that textually contains it": whatever root document the
   resolver holds and whatever the cache contains, a successful resolveRef returns sem_target — as long as the resolver's
   root and the base are coherent, which transitiveResolver maintains (next theorem) *)
Theorem C02_resolution_is_document_relative : forall E docs cwd live rid,
  (forall lu ld, live = Some (lu, ld) -> doc_at docs cwd lu = Some ld) ->
  forall s rroot ref base nref s2 t,
  Inv docs rid s -> Coh cwd rroot base -> nuri ref base = POk nref ->
  (is_local ref = true -> nbase cwd (strip_frag nref) = nbase cwd (strip_frag base)) ->
  resolve E docs cwd live s rroot ref base "Schema" = Done (s2, t) ->
  sem_target E docs cwd ref base = Some (strip_frag nref, t) /\ Inv docs rid s2.
Proof. exact resolve_sem. Qed.
Print Assumptions C02_resolution_is_document_relative.

Theorem C02_resolver_stays_coherent : forall cwd s rroot base ref nref rc,
  Coh cwd rroot base -> nuri ref base = POk nref ->
  (keeps_resolver ref base nref -> nbase cwd (strip_frag nref) = nbase cwd (strip_frag base)) ->
  transitive s rroot base ref = Done rc -> Coh cwd (fst rc) (strip_frag nref).
Proof. exact transitive_coh. Qed.
Print Assumptions C02_resolver_stays_coherent.

(* the bisimulation theorem, for any invariant set G of located schemas (the reference graph) *)
Theorem C02_schema_expansion_bisimilar : forall E docs cwd OP ctx_base live rid,
  (forall lu ld, live = Some (lu, ld) -> doc_at docs cwd lu = Some ld) ->
  forall G : string -> json -> Prop,
  (forall b m k v x, G b (JObj m) -> has_ref m = false -> In (k, v) m -> child_of x v -> G b x) ->
  (forall b m b' t, G b (JObj m) -> has_ref m = true -> sem_target E docs cwd (get_str "$ref" m) b = Some (b', t) -> G b' t) ->
  (forall b m, G b (JObj m) -> get_str "id" m = "" /\ assoc "$ref" m <> Some (JStr "")) ->
  (forall b m nref, G b (JObj m) -> has_ref m = true -> nuri (get_str "$ref" m) b = POk nref ->
     keeps_resolver (get_str "$ref" m) b nref -> nbase cwd (strip_frag nref) = nbase cwd (strip_frag b)) ->
  (forall b m nref s txt, G b (JObj m) -> has_ref m = true -> nuri (get_str "$ref" m) b = POk nref -> rootid s = rid ->
     (render_kept OP ctx_base s nref = POk txt \/ render_rebased ctx_base s nref = POk txt) ->
     sem_target E docs cwd txt ctx_base = sem_target E docs cwd (get_str "$ref" m) b) ->
  o_cont OP = false ->
  forall d s parents rroot base j s' j',
  G base j -> Inv docs rid s -> Coh cwd rroot base ->
  exp E docs cwd OP ctx_base live d s parents rroot base j = Done (s', j') ->
  Inv docs rid s' /\ bisimilar E docs cwd base j ctx_base j'.
Proof. exact exp_sim. Qed.
Print Assumptions C02_schema_expansion_bisimilar.

(* ... and with the graph hypotheses decided by computation on a finite list of nodes *)
Theorem C02_checked_graph : forall E docs cwd OP ctx_base rid nodes live,
  check_nodes E docs cwd OP ctx_base rid nodes = true ->
  (forall lu ld, live = Some (lu, ld) -> doc_at docs cwd lu = Some ld) ->
  o_cont OP = false ->
  forall d s parents rroot base j s' j',
  GN nodes base j -> Inv docs rid s -> Coh cwd rroot base ->
  exp E docs cwd OP ctx_base live d s parents rroot base j = Done (s', j') ->
  Inv docs rid s' /\ bisimilar E docs cwd base j ctx_base j'.
Proof. exact checked_graph_sim. Qed.
Print Assumptions C02_checked_graph.

(* ---------- the premises are satisfiable (the graph is in Expand/ExpandExample.v): two documents in different
   directories, a self cycle, a cycle across the documents, a back reference into the root by relative URL, a pointer
   token that needs ~0 ---------- *)
Example C02_example_premises : forall abs,
  let OP := mkOpts false false abs in
  List.length ex_nodes = 11
  /\ check_nodes gen_env ex_docs "/" OP ex_root_url "" ex_nodes = true
  /\ (forall lu ld, ex_live = Some (lu, ld) -> doc_at ex_docs "/" lu = Some ld)
  /\ GN ex_nodes ex_root_url ex_start /\ Inv ex_docs "" ex_s0 /\ Coh "/" (Some ex_root_url) ex_root_url
  /\ exists s' j', exp gen_env ex_docs "/" OP ex_root_url ex_live 8 ex_s0 ["#/definitions/a"] (Some ex_root_url) ex_root_url ex_start = Done (s', j').
Proof.
  intros abs OP. split; [vm_compute; reflexivity|]. split; [destruct abs; vm_compute; reflexivity|].
  split; [intros lu ld H; inversion H; subst; vm_compute; reflexivity|].
  split; [vm_compute; tauto|]. split; [split; [intros u d H; discriminate|reflexivity]|].
  split; [intros ru H; inversion H; subst; reflexivity|].
  destruct abs; vm_compute; eexists; eexists; reflexivity.
Qed.

(* hence, on this graph, the expansion of definition `a` — which keeps cut-points on both cycles — means what `a` meant *)
Example C02_example_conclusion : forall abs s' j',
  exp gen_env ex_docs "/" (mkOpts false false abs) ex_root_url ex_live 8 ex_s0 ["#/definitions/a"] (Some ex_root_url) ex_root_url ex_start = Done (s', j') ->
  bisimilar gen_env ex_docs "/" ex_root_url ex_start ex_root_url j'.
Proof.
  intros abs s' j' H. destruct (C02_example_premises abs) as [_ [Hck [Hlive [Hg [Hinv [Hcoh _]]]]]].
  exact (proj2 (C02_checked_graph _ _ _ _ _ _ _ _ Hck Hlive eq_refl _ _ _ _ _ _ _ _ Hg Hinv Hcoh H)).
Qed.
Print Assumptions C02_example_conclusion.

(* ---------- beyond the schema walk ---------- *)
(* parameters, responses and path items as well: their `$ref` chains (deref) are NOT covered by the theorems above; they
   are tied by the differential run and judged by the oracle.  The witness of the repaired defect F7 (a chain whose
   second hop is fragment-only was resolved in the document of the first resolver) as an evaluation of the model: *)
Definition f7_root := pj
 "{""swagger"":""2.0"",""info"":{""title"":""doc0"",""version"":""1""},
   ""parameters"":{""p0"":{""in"":""query"",""name"":""q28"",""type"":""string""},""p1"":{""$ref"":""#/parameters/p0""}},
   ""paths"":{""/y"":{""$ref"":""../q/x.json#/paths/~1z0""}}}".
Definition f7_other := pj
 "{""swagger"":""2.0"",""info"":{""title"":""doc2"",""version"":""1""},
   ""parameters"":{""p0"":{""in"":""header"",""name"":""other"",""type"":""integer""}},
   ""paths"":{""/z0"":{""post"":{""parameters"":[{""$ref"":""../r/root.json#/parameters/p1""}],""responses"":{""200"":{""description"":""d""}}}}}}".
Definition f7_docs := [("file:///r/root.json", f7_root); ("file:///q/x.json", f7_other)].
Definition f7_out : option json :=
  match norm gen_env false f7_root (TNamed "Swagger") with
  | ROk nd => match expand_spec gen_env f7_docs "/" (mkOpts false false false) "file:///r/root.json" (Some ("file:///r/root.json", nd)) 12 "file:///r/root.json" nd ex_s0 with
              | Done (_, out) => ptr_get ["paths"; "/y"; "post"; "parameters"; "0"; "name"] out
              | _ => None
              end
  | _ => None
  end.
(* the parameter of /y is root.json#/parameters/p1 -> root.json#/parameters/p0, named "q28" (before the repair the
   expansion delivered the p0 of the OTHER document, named "other") *)
Example C02_parameter_chain_second_hop : f7_out = Some (JStr "q28").
Proof. vm_compute. reflexivity. Qed.
