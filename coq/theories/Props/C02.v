(* C02 — Expansion preserves the meaning of every element (bisimilar reference graphs).

   Meaning (Expand/ExpandSim.v).  A located schema is (base, j): the JSON value j found in the document at URL base.
   [sem_target ref base] is what a `$ref` text designates there: the text resolved against the URL of the document that
   CONTAINS it (normalizeURI), the document served at that URL, the fragment evaluated as a JSON pointer, the value read as
   a Schema.  [chases] follows references until a proper schema object appears ("$ref replaces its holder").  [sim n]
   compares two located schemas level by level to depth n (sub-schema positions by sim (n-1), everything else by
   equality); [bisimilar] is sim n for every n — equality of the possibly infinite fully dereferenced trees.

   Proved here, unbounded: for every store of documents, state (cache, memo of circular references: i.e. whatever was
   expanded before, in whatever order), parent stack, fuel, SkipSchemas and AbsoluteCircularRef setting, with
   ContinueOnError off: whenever the schema walk succeeds on (base, j) its output, read at the root location, is bisimilar
   to (base, j) — provided the reference graph is well-formed in the sense of the hypotheses G_*, which a decision
   procedure establishes by computation on any finite graph ([C02_checked_graph]).
   Also proved (Expand/ExpandElem.v): the `$ref` chains of parameters / responses / path items (deref) are followed in the
   document each hop lands in, and an expanded parameter / response has the members of the end of its chain with a
   bisimilar schema — whenever the chain is followed to its end (a chain cut as circular denotes nothing).
   Also proved (Expand/ExpandChain.v, ExpandSpecSim.v): the chains of a well-formed graph of elements ARE followed to their
   end, and the whole of ExpandSpec — lists of parameters, maps of responses, operations, path items, the four sections,
   with the state threaded from call to call — returns the input document in which every definition, shared parameter,
   shared response and path item is replaced by an element with the same meaning, and nothing else is changed
   ([C02_expand_spec_preserves_meaning], with a non-vacuity example on a two-document specification).
   Not proved (covered by the correspondence and the oracle only): the URL-algebra conditions in G_same/G_render for ALL
   urls (they are decided per graph), ContinueOnError mode, graphs outside the hypotheses (ids, siblings of `$ref`). *)
From Coq Require Import List String Bool.
From Spec Require Import Base.Json Base.Url Codec.Types Codec.Gen_Tables Codec.Codec Codec.CodecFacts
  Expand.Expand Expand.ExpandFacts Expand.ExpandSim Expand.ExpandSimCheck Expand.ExpandCycle Expand.ExpandElem Expand.ExpandChain Expand.ExpandSpecSim Expand.ExpandExample.
Import ListNotations.
Local Open Scope string_scope.

(* meaning is well defined: a located schema chases to at most one object *)
Theorem C02_meaning_deterministic : forall E docs cwd b j b1 m1, chases E docs cwd b j b1 m1 ->
  forall b2 m2, chases E docs cwd b j b2 m2 -> b1 = b2 /\ m1 = m2.
Proof. exact chases_fun. Qed.
Print Assumptions C02_meaning_deterministic.

Theorem C02_bisimilar_reflexive : forall E docs cwd n b j, sim E docs cwd n b j b j.
Proof. exact sim_refl. Qed.
Print Assumptions C02_bisimilar_reflexive.

(* "A $ref is always interpreted relative to the document that textually contains it": whatever root document the
   resolver holds and whatever the cache contains, a successful resolveRef returns sem_target — as long as the resolver's
   root and the base are coherent, which transitiveResolver maintains (next theorem) *)
Theorem C02_resolution_is_document_relative : forall E docs cwd live rid,
  (forall lu ld, live = Some (lu, ld) -> doc_at docs cwd lu = Some ld) ->
  forall s rroot ref base nref s2 t,
  Inv docs rid s -> Coh cwd rroot base -> nuri ref base = POk nref ->
  (is_local ref = true -> nbase cwd (strip_frag nref) = nbase cwd (strip_frag base)) ->
  resolve E docs cwd live s rroot ref base "Schema" = Done (s2, t) ->
  sem_target E docs cwd ref base = Some (strip_frag nref, t) /\ Inv docs rid s2.
Proof. exact resolve_sem. Qed.
Print Assumptions C02_resolution_is_document_relative.

Theorem C02_resolver_stays_coherent : forall cwd s rroot base ref nref rc,
  Coh cwd rroot base -> nuri ref base = POk nref ->
  (keeps_resolver ref base nref -> nbase cwd (strip_frag nref) = nbase cwd (strip_frag base)) ->
  transitive s rroot base ref = Done rc -> Coh cwd (fst rc) (strip_frag nref).
Proof. exact transitive_coh. Qed.
Print Assumptions C02_resolver_stays_coherent.

(* the bisimulation theorem, for any invariant set G of located schemas (the reference graph) *)
Theorem C02_schema_expansion_bisimilar : forall E docs cwd OP ctx_base live rid,
  (forall lu ld, live = Some (lu, ld) -> doc_at docs cwd lu = Some ld) ->
  forall G : string -> json -> Prop,
  (forall b m k v x, G b (JObj m) -> has_ref m = false -> In (k, v) m -> child_of x v -> G b x) ->
  (forall b m b' t, G b (JObj m) -> has_ref m = true -> sem_target E docs cwd (get_str "$ref" m) b = Some (b', t) -> G b' t) ->
  (forall b m, G b (JObj m) -> get_str "id" m = "" /\ assoc "$ref" m <> Some (JStr "")) ->
  (forall b m nref, G b (JObj m) -> has_ref m = true -> nuri (get_str "$ref" m) b = POk nref ->
     keeps_resolver (get_str "$ref" m) b nref -> nbase cwd (strip_frag nref) = nbase cwd (strip_frag b)) ->
  (forall b m nref s txt, G b (JObj m) -> has_ref m = true -> nuri (get_str "$ref" m) b = POk nref -> rootid s = rid ->
     (render_kept OP ctx_base s nref = POk txt \/ render_rebased ctx_base s nref = POk txt) ->
     sem_target E docs cwd txt ctx_base = sem_target E docs cwd (get_str "$ref" m) b) ->
  o_cont OP = false ->
  forall d s parents rroot base j s' j',
  G base j -> Inv docs rid s -> Coh cwd rroot base ->
  exp E docs cwd OP ctx_base live d s parents rroot base j = Done (s', j') ->
  Inv docs rid s' /\ bisimilar E docs cwd base j ctx_base j'.
Proof. exact exp_sim. Qed.
Print Assumptions C02_schema_expansion_bisimilar.

(* ... and with the graph hypotheses decided by computation on a finite list of nodes *)
Theorem C02_checked_graph : forall E docs cwd OP ctx_base rid nodes live,
  check_nodes E docs cwd OP ctx_base rid nodes = true ->
  (forall lu ld, live = Some (lu, ld) -> doc_at docs cwd lu = Some ld) ->
  o_cont OP = false ->
  forall d s parents rroot base j s' j',
  GN nodes base j -> Inv docs rid s -> Coh cwd rroot base ->
  exp E docs cwd OP ctx_base live d s parents rroot base j = Done (s', j') ->
  Inv docs rid s' /\ bisimilar E docs cwd base j ctx_base j'.
Proof. exact checked_graph_sim. Qed.
Print Assumptions C02_checked_graph.

(* ---------- the premises are satisfiable (the graph is in Expand/ExpandExample.v): two documents in different
   directories, a self cycle, a cycle across the documents, a back reference into the root by relative URL, a pointer
   token that needs ~0 ---------- *)
Example C02_example_premises : forall abs,
  let OP := mkOpts false false abs in
  List.length ex_nodes = 11
  /\ check_nodes gen_env ex_docs "/" OP ex_root_url "" ex_nodes = true
  /\ (forall lu ld, ex_live = Some (lu, ld) -> doc_at ex_docs "/" lu = Some ld)
  /\ GN ex_nodes ex_root_url ex_start /\ Inv ex_docs "" ex_s0 /\ Coh "/" (Some ex_root_url) ex_root_url
  /\ exists s' j', exp gen_env ex_docs "/" OP ex_root_url ex_live 8 ex_s0 ["#/definitions/a"] (Some ex_root_url) ex_root_url ex_start = Done (s', j').
Proof.
  intros abs OP. split; [vm_compute; reflexivity|]. split; [destruct abs; vm_compute; reflexivity|].
  split; [intros lu ld H; inversion H; subst; vm_compute; reflexivity|].
  split; [vm_compute; tauto|]. split; [split; [intros u d H; discriminate|reflexivity]|].
  split; [intros ru H; inversion H; subst; reflexivity|].
  destruct abs; vm_compute; eexists; eexists; reflexivity.
Qed.

(* hence, on this graph, the expansion of definition `a` — which keeps cut-points on both cycles — means what `a` meant *)
Example C02_example_conclusion : forall abs s' j',
  exp gen_env ex_docs "/" (mkOpts false false abs) ex_root_url ex_live 8 ex_s0 ["#/definitions/a"] (Some ex_root_url) ex_root_url ex_start = Done (s', j') ->
  bisimilar gen_env ex_docs "/" ex_root_url ex_start ex_root_url j'.
Proof.
  intros abs s' j' H. destruct (C02_example_premises abs) as [_ [Hck [Hlive [Hg [Hinv [Hcoh _]]]]]].
  exact (proj2 (C02_checked_graph _ _ _ _ _ _ _ _ Hck Hlive eq_refl _ _ _ _ _ _ _ _ Hg Hinv Hcoh H)).
Qed.
Print Assumptions C02_example_conclusion.

(* ---------- parameters and responses: `$ref` chains (Expand/ExpandElem.v) ---------- *)
(* deref follows a chain of parameter / response / path-item references hop by hop IN THE DOCUMENT EACH HOP LANDS IN: when it
   reaches the end of the chain (it is not cut as circular), the holder, the base and the resolver root it returns are
   those of the end of the chain as the semantics [chases_k] defines it, and resolver and base are coherent again.  (The
   defect F7 — the first resolver kept for the whole chain — made exactly this statement false; it is repaired.) *)
Theorem C02_chain_followed_in_the_right_document : forall E docs cwd OP live rid,
  (forall lu ld, live = Some (lu, ld) -> doc_at docs cwd lu = Some ld) -> o_cont OP = false ->
  forall GE : string -> string -> list (string * json) -> Prop,
  (forall kind b m, GE kind b m -> get_str "$ref" m <> "" -> remove_key "$ref" m = []) ->
  (forall kind b m b1 tm, GE kind b m -> get_str "$ref" m <> "" ->
     sem_target_k E docs cwd kind (get_str "$ref" m) b = Some (b1, JObj tm) -> GE kind b1 tm /\ merge_over tm [] = tm) ->
  (forall kind b m nref, GE kind b m -> get_str "$ref" m <> "" -> nuri (get_str "$ref" m) b = POk nref ->
     keeps_resolver (get_str "$ref" m) b nref -> nbase cwd (strip_frag nref) = nbase cwd (strip_frag b)) ->
  forall kind fuel s parents rroot base m s' m1 rr1 b1,
  GE kind base m -> Inv docs rid s -> Coh cwd rroot base ->
  deref E docs cwd OP live fuel s parents rroot base kind m = Done (s', m1, rr1, b1) -> get_str "$ref" m1 = "" ->
  Inv docs rid s' /\ Coh cwd rr1 b1 /\ chases_k E docs cwd kind base m b1 m1 /\ GE kind b1 m1.
Proof. exact deref_sem. Qed.
Print Assumptions C02_chain_followed_in_the_right_document.

(* an expanded parameter / response has the members of the end of its chain, its schema bisimilar (read at the root
   location) to the schema found there; graph hypotheses decided by the two checkers *)
Theorem C02_parameters_and_responses : forall E docs cwd OP ctx_base rid nodes enodes live,
  check_nodes E docs cwd OP ctx_base rid nodes = true -> check_enodes E docs cwd enodes nodes = true ->
  (forall lu ld, live = Some (lu, ld) -> doc_at docs cwd lu = Some ld) -> o_cont OP = false ->
  forall kind d fuel s rroot base m s' j' s1 m1 rr1 b1,
  GEN enodes kind base m -> Inv docs rid s -> Coh cwd rroot base ->
  deref E docs cwd OP live fuel s [] rroot base kind m = Done (s1, m1, rr1, b1) -> get_str "$ref" m1 = "" ->
  expand_por E docs cwd OP live (exp E docs cwd OP ctx_base live d) fuel s rroot base kind (JObj m) = Done (s', j') ->
  Inv docs rid s' /\ chases_k E docs cwd kind base m b1 m1 /\
  exists mo, j' = JObj mo /\ forall n, rel_por E docs cwd n b1 (remove_key "$ref" m1) ctx_base mo.
Proof. exact checked_por_sim. Qed.
Print Assumptions C02_parameters_and_responses.

(* non-vacuity: the cross-document chain of ExpandExample.v (x.json -> root.json#/parameters/p1 -> #/parameters/p0, a
   body parameter with a recursive schema) *)
Example C02_example_chain : forall s' j',
  expand_por gen_env el_docs "/" (mkOpts false false false) el_live (exp gen_env el_docs "/" (mkOpts false false false) el_root_url el_live 6)
             6 ex_s0 (Some el_other_url) el_other_url "Parameter" (JObj el_holder) = Done (s', j') ->
  chases_k gen_env el_docs "/" "Parameter" el_other_url el_holder el_root_url el_p0
  /\ exists mo, j' = JObj mo /\ forall n, rel_por gen_env el_docs "/" n el_root_url el_p0 el_root_url mo.
Proof.
  intros s' j' H. set (OP := mkOpts false false false).
  assert (Hck : check_nodes gen_env el_docs "/" OP el_root_url "" el_nodes = true) by (vm_compute; reflexivity).
  assert (Hcke : check_enodes gen_env el_docs "/" el_enodes el_nodes = true) by (vm_compute; reflexivity).
  assert (Hlive : forall lu ld, el_live = Some (lu, ld) -> doc_at el_docs "/" lu = Some ld) by (intros lu ld E; inversion E; subst; vm_compute; reflexivity).
  assert (Hg : GEN el_enodes "Parameter" el_other_url el_holder) by (left; reflexivity).
  assert (Hinv : Inv el_docs "" ex_s0) by (split; [intros u d E; discriminate|reflexivity]).
  assert (Hcoh : Coh "/" (Some el_other_url) el_other_url) by (intros ru E; inversion E; subst; reflexivity).
  assert (Hd : exists s1, deref gen_env el_docs "/" OP el_live 6 ex_s0 [] (Some el_other_url) el_other_url "Parameter" el_holder
                          = Done (s1, el_p0, Some el_root_url, el_root_url)) by (vm_compute; eexists; reflexivity).
  destruct Hd as [s1 Hd].
  destruct (C02_parameters_and_responses _ _ _ _ _ _ _ _ _ Hck Hcke Hlive eq_refl _ _ _ _ _ _ _ _ _ _ _ _ _ Hg Hinv Hcoh Hd eq_refl H) as [_ [Hch Hmo]].
  split; [exact Hch|exact Hmo].
Qed.
Example C02_example_chain_runs : exists s' j',
  expand_por gen_env el_docs "/" (mkOpts false false false) el_live (exp gen_env el_docs "/" (mkOpts false false false) el_root_url el_live 6)
             6 ex_s0 (Some el_other_url) el_other_url "Parameter" (JObj el_holder) = Done (s', j').
Proof. vm_compute. eexists. eexists. reflexivity. Qed.

(* ---------- the whole of ExpandSpec ---------- *)
(* chains of a well-formed graph of located elements are followed to their end: neither the memo of circular references
   (which only ever holds references of the schema graph: [MD]) nor the stack of the chain itself (the rank decreases) cuts
   them, and they leave the memo as it was *)
Theorem C02_chains_are_followed_to_their_end : forall E docs cwd OP live rid,
  (forall lu ld, live = Some (lu, ld) -> doc_at docs cwd lu = Some ld) -> o_cont OP = false ->
  forall GE : string -> string -> list (string * json) -> Prop,
  (forall kind b m, GE kind b m -> get_str "$ref" m <> "" -> remove_key "$ref" m = []) ->
  (forall kind b m b1 tm, GE kind b m -> get_str "$ref" m <> "" ->
     sem_target_k E docs cwd kind (get_str "$ref" m) b = Some (b1, JObj tm) -> GE kind b1 tm /\ merge_over tm [] = tm) ->
  (forall kind b m nref, GE kind b m -> get_str "$ref" m <> "" -> nuri (get_str "$ref" m) b = POk nref ->
     keeps_resolver (get_str "$ref" m) b nref -> nbase cwd (strip_frag nref) = nbase cwd (strip_frag b)) ->
  forall MD : string -> Prop, (forall x, chain_ref GE x -> ~ MD x) ->
  forall rk : string -> nat,
  (forall kind b m nref b1 tm nref1, GE kind b m -> get_str "$ref" m <> "" ->
     nuri (get_str "$ref" m) b = POk nref -> sem_target_k E docs cwd kind (get_str "$ref" m) b = Some (b1, JObj tm) ->
     get_str "$ref" tm <> "" -> nuri (get_str "$ref" tm) b1 = POk nref1 -> rk nref1 < rk nref) ->
  forall kind fuel s parents rroot base m s' m1 rr1 b1,
  GE kind base m -> Inv docs rid s -> Coh cwd rroot base -> MemoIn MD s -> above rk parents base m ->
  deref E docs cwd OP live fuel s parents rroot base kind m = Done (s', m1, rr1, b1) ->
  get_str "$ref" m1 = "" /\ memo s' = memo s.
Proof. exact deref_ends. Qed.
Print Assumptions C02_chains_are_followed_to_their_end.

(* ExpandSpec (the function the differential run executes: Expand.expand_spec) on a graph whose hypotheses the verified
   checkers decide: the schema graph (check_nodes), the graph of located elements (check_enodes), the chains (check_chains:
   fresh and ranked), the path items (check_pis) and the root document (check_root).  For every store, every state that
   satisfies the invariant (cache within the store, memo within the cycles of the schema graph: whatever was expanded
   before), every fuel, AbsoluteCircularRef on or off, strict mode, schemas not skipped: when ExpandSpec returns, what it
   returns is [spec_rel]-related to the input: section by section, entry by entry, the same names in the same order, each
   definition a [sound_schema] for the input's (bisimilar to it, and every `$ref` left in it the rendering of a reference on
   a cycle: the C03 half), each parameter / response the end of its chain with a sound schema, each path
   item the end of its chain with its parameters and operations replaced likewise, vendor extensions and everything else
   untouched; and the invariant holds again. *)
Theorem C02_expand_spec_preserves_meaning : forall E docs cwd OP ctx_base rid nodes enodes bad0 ranks live,
  (forall lu ld, live = Some (lu, ld) -> doc_at docs cwd lu = Some ld) ->
  o_cont OP = false -> o_skip OP = false ->
  check_nodes E docs cwd OP ctx_base rid nodes = true ->
  check_enodes E docs cwd enodes nodes = true ->
  check_chains E docs cwd nodes enodes bad0 ranks = true ->
  check_pis enodes = true ->
  forall d root_url m s s' out,
  check_root ctx_base nodes enodes bad0 m = true ->
  Inv2 E docs cwd rid (GN nodes) bad0 s -> Coh cwd (Some root_url) ctx_base ->
  expand_spec E docs cwd OP ctx_base live d root_url (JObj m) s = Done (s', out) ->
  Inv2 E docs cwd rid (GN nodes) bad0 s' /\ spec_rel E docs cwd ctx_base (sound_schema E docs cwd OP ctx_base rid nodes bad0) m out.
Proof.
  intros E docs cwd OP ctx_base rid nodes enodes bad0 ranks live Hlive Hstrict Hskip Hck Hcke Hckc Hckp d root_url m s s' out Hroot Hs Hcoh H.
  exact (checked_spec_sim E docs cwd OP ctx_base rid nodes enodes bad0 ranks live Hlive Hstrict Hskip Hck Hcke Hckc Hckp d (S d) root_url m s s' out Hroot Hs Hcoh H).
Qed.
Print Assumptions C02_expand_spec_preserves_meaning.

(* non-vacuity: the two-document specification of ExpandExample.v (recursive definition, shared parameter that is a chain
   of three hops across the documents, shared response, a path item with its own parameters and an operation, a path item
   imported from the other document, a vendor extension among the responses): the five checkers answer true, ExpandSpec
   returns from the initial state, and its result is related to the input *)
Example C02_spec_example : forall abs,
  exists s' out, expand_spec gen_env sp_docs "/" (mkOpts false false abs) sp_root_url sp_live 12 sp_root_url (JObj sp_members) ex_s0 = Done (s', out)
                 /\ spec_rel gen_env sp_docs "/" sp_root_url (sound_schema gen_env sp_docs "/" (mkOpts false false abs) sp_root_url "" sp_nodes sp_bad0) sp_members out.
Proof.
  intros abs. set (OP := mkOpts false false abs).
  assert (Hck : check_nodes gen_env sp_docs "/" OP sp_root_url "" sp_nodes = true) by (destruct abs; vm_compute; reflexivity).
  assert (Hcke : check_enodes gen_env sp_docs "/" sp_enodes sp_nodes = true) by (vm_compute; reflexivity).
  assert (Hckc : check_chains gen_env sp_docs "/" sp_nodes sp_enodes sp_bad0 sp_ranks = true) by (vm_compute; reflexivity).
  assert (Hckp : check_pis sp_enodes = true) by (vm_compute; reflexivity).
  assert (Hroot : check_root sp_root_url sp_nodes sp_enodes sp_bad0 sp_members = true) by (vm_compute; reflexivity).
  assert (Hlive : forall lu ld, sp_live = Some (lu, ld) -> doc_at sp_docs "/" lu = Some ld) by (intros lu ld E; inversion E; subst; vm_compute; reflexivity).
  assert (Hs : Inv2 gen_env sp_docs "/" "" (GN sp_nodes) sp_bad0 ex_s0).
  { split; [split; [intros u d E; discriminate|reflexivity]|intros x Hx; destruct Hx]. }
  assert (Hcoh : Coh "/" (Some sp_root_url) sp_root_url) by (intros ru E; inversion E; subst; reflexivity).
  assert (Hrun : exists s' out, expand_spec gen_env sp_docs "/" OP sp_root_url sp_live 12 sp_root_url (JObj sp_members) ex_s0 = Done (s', out))
    by (destruct abs; vm_compute; eexists; eexists; reflexivity).
  destruct Hrun as [s' [out Hrun]]. exists s', out. split; [exact Hrun|].
  exact (proj2 (C02_expand_spec_preserves_meaning gen_env sp_docs "/" OP sp_root_url "" sp_nodes sp_enodes sp_bad0 sp_ranks sp_live
                  Hlive eq_refl eq_refl Hck Hcke Hckc Hckp 12 sp_root_url sp_members ex_s0 s' out Hroot Hs Hcoh Hrun)).
Qed.

(* the witness of the repaired defect F7 through the whole of ExpandSpec, as an evaluation of the model: *)
Definition f7_root := pj
 "{""swagger"":""2.0"",""info"":{""title"":""doc0"",""version"":""1""},
   ""parameters"":{""p0"":{""in"":""query"",""name"":""q28"",""type"":""string""},""p1"":{""$ref"":""#/parameters/p0""}},
   ""paths"":{""/y"":{""$ref"":""../q/x.json#/paths/~1z0""}}}".
Definition f7_other := pj
 "{""swagger"":""2.0"",""info"":{""title"":""doc2"",""version"":""1""},
   ""parameters"":{""p0"":{""in"":""header"",""name"":""other"",""type"":""integer""}},
   ""paths"":{""/z0"":{""post"":{""parameters"":[{""$ref"":""../r/root.json#/parameters/p1""}],""responses"":{""200"":{""description"":""d""}}}}}}".
Definition f7_docs := [("file:///r/root.json", f7_root); ("file:///q/x.json", f7_other)].
Definition f7_out : option json :=
  match norm gen_env false f7_root (TNamed "Swagger") with
  | ROk nd => match expand_spec gen_env f7_docs "/" (mkOpts false false false) "file:///r/root.json" (Some ("file:///r/root.json", nd)) 12 "file:///r/root.json" nd ex_s0 with
              | Done (_, out) => ptr_get ["paths"; "/y"; "post"; "parameters"; "0"; "name"] out
              | _ => None
              end
  | _ => None
  end.
(* the parameter of /y is root.json#/parameters/p1 -> root.json#/parameters/p0, named "q28" (before the repair the
   expansion delivered the p0 of the OTHER document, named "other") *)
Example C02_parameter_chain_second_hop : f7_out = Some (JStr "q28").
Proof. vm_compute. reflexivity. Qed.
