(* C12 — $ref targets are located as RFC 3986 reference resolution prescribes.
   Go side: path.Join(path.Dir(base), path.Clean(ref)) as normalizeURI computes it (Base/Url.v);
   RFC side: merge + remove_dot_segments written from the RFC text (Base/Rfc3986.v). *)
From Coq Require Import List String Ascii Bool Arith.
From Spec Require Import Base.Json Base.Url Base.Rfc3986 Base.UrlFacts Base.UrlText Base.PathText Base.JoinClean Base.UriText.
Import ListNotations.
Local Open Scope char_scope.

(* On segment lists, for every base directory [bs] and every reference path [rs] in scope (no empty
   segment, last segment a proper name; any number of "." and ".." anywhere else, climbing above
   the root included): RFC 3986 5.2.4 and Go's Clean compute the same path, with no trailing slash. *)
Theorem C12_segments : forall segs st,
  Forall proper st -> Forall (fun s => s <> []) segs -> segs <> [] -> proper (last segs []) ->
  rds_segs segs st = (clean_segs true segs st, false).
Proof. exact rds_segs_is_clean. Qed.
Print Assumptions C12_segments.

(* The string-level functions (the ones run against the implementation) coincide with the segment
   machines and with each other: proved by evaluation for every base directory of <= 2 segments over
   {a, %20x} and every reference of <= 3 segments over {a, b.c, ., ..} followed by a file name —
   relative (joined onto the base's directory) and root-relative. The bound is part of the statement. *)
Theorem C12_strings_bounded : forall bs rs f,
  In bs (lists_upto 2 proper_alpha) -> In rs (lists_upto 3 seg_alpha) -> In f file_alpha ->
  link_case bs rs f = true.
Proof. exact link_bounded. Qed.
Print Assumptions C12_strings_bounded.

(* ---- the same on TEXTS, unbounded (Base/PathText.v) ----
   [flat segs] is the text "/s1/s2/.../sn"; [okseg]: a segment is non-empty and holds no "/" (anything else, escapes included). *)

(* RFC 3986 5.2.4 as written in the RFC (input buffer / output buffer over characters) and Go's path.Clean (over characters)
   return the same text for every absolute path whose last segment is a proper name - any number of segments, "." and ".."
   anywhere before the last, climbing above the root included *)
Theorem C12_dot_removal_on_text : forall segs, Forall okseg segs -> segs <> [] -> proper (last segs []) ->
  remove_dot_segments (flat segs) = clean (flat segs).
Proof. exact rfc_dot_removal_is_clean_on_text. Qed.
Print Assumptions C12_dot_removal_on_text.

(* the path normalizeURI computes for a relative reference - path.Join(path.Dir(base), ref) - is the RFC's merge (5.2.3)
   followed by remove_dot_segments (5.2.4): for every canonical base path "/b1/.../bn/file" and every relative reference
   "r1/.../rm" with non-empty segments ending in a proper name *)
Theorem C12_join_is_merge_on_text : forall bs file rs,
  Forall okseg bs -> Forall proper bs -> okseg file ->
  Forall okseg rs -> rs <> [] -> proper (last rs []) ->
  join2 (dir (flat (bs ++ [file]))) (join_with "/" rs) = remove_dot_segments (merge true (flat (bs ++ [file])) (join_with "/" rs)).
Proof. exact go_join_is_rfc_merge. Qed.
Print Assumptions C12_join_is_merge_on_text.

Example C12_text_example :
  let bs := [s2l "r"; s2l "a%20b"] in let file := s2l "root.json" in
  let rs := [dotdot; dotdot; dotdot; s2l "x"; dot; s2l "other.json"] in
  Forall okseg bs /\ Forall proper bs /\ okseg file /\ Forall okseg rs /\ proper (last rs [])
  /\ join2 (dir (flat (bs ++ [file]))) (join_with "/" rs) = s2l "/x/other.json".
Proof. exact go_join_example. Qed.

(* normalizeURI cleans the reference before joining it; that changes nothing: Join(dir, Clean(ref)) = Join(dir, ref) *)
Theorem C12_cleaning_first_is_harmless : forall bs rs, Forall okseg bs -> Forall okseg rs -> rs <> [] -> proper (last rs []) ->
  join2 (abs_path_of bs) (clean (join_with "/" rs)) = join2 (abs_path_of bs) (join_with "/" rs).
Proof. exact join_of_cleaned_ref. Qed.
Print Assumptions C12_cleaning_first_is_harmless.

(* THE PROPERTY ON TEXTS, UNBOUNDED.  For every canonical base location without query - scheme://host/b1/.../bn/file,
   file:///b1/.../bn/file, scheme:/b1/.../file - and every relative reference r1/.../rm#fragment, all in characters that
   need no percent escape (letters, digits, - _ . ~; "/" in the fragment), non-empty segments, the last one a proper name,
   "." and ".." anywhere before it, climbing above the root included, any number of segments on both sides:
   the URL normalizeURI returns is, character for character, the one RFC 3986 section 5.2 prescribes (net/url's Parse and
   String as modelled; the RFC side is Base/Rfc3986.v, written from the RFC's text). *)
Theorem C12_normalize_uri_is_rfc_on_text : forall sch h om bs file rs f,
  wf_plain (mkUrl sch h (flat (bs ++ [file])) [] false [] [] [] om) = true ->
  Forall plainseg bs -> Forall proper bs -> plainseg file ->
  Forall plainseg rs -> rs <> [] -> proper (last rs []) -> forallb pchar f = true ->
  normalize_uri (print_url (mkUrl [] [] (join_with "/" rs) [] false [] f [] false))
                (print_url (mkUrl sch h (flat (bs ++ [file])) [] false [] [] [] om))
  = rfc_resolve_str (print_url (mkUrl [] [] (join_with "/" rs) [] false [] f [] false))
                    (print_url (mkUrl sch h (flat (bs ++ [file])) [] false [] [] [] om)).
Proof. exact normalize_uri_is_rfc_on_text. Qed.
Print Assumptions C12_normalize_uri_is_rfc_on_text.

(* the hypotheses are met, and the texts are what one expects *)
Example C12_uri_text_example :
  let bs := [s2l "r"; s2l "a"] in let file := s2l "root.json" in
  let rs := [dotdot; s2l "b"; dot; dotdot; dotdot; dotdot; s2l "c.json"] in let f := s2l "/definitions/x" in
  let b := mkUrl (s2l "file") [] (flat (bs ++ [file])) [] false [] [] [] false in
  wf_plain b = true /\ Forall plainseg bs /\ Forall proper bs /\ plainseg file /\ Forall plainseg rs /\ proper (last rs [])
  /\ forallb pchar f = true
  /\ print_url b = s2l "file:///r/a/root.json"
  /\ print_url (mkUrl [] [] (join_with "/" rs) [] false [] f [] false) = s2l "../b/./../../../c.json#/definitions/x"
  /\ normalize_uri (s2l "../b/./../../../c.json#/definitions/x") (s2l "file:///r/a/root.json") = POk (s2l "file:///c.json#/definitions/x").
Proof. exact uri_text_example. Qed.

(* percent-escapes: printing then reading a path or fragment gives it back *)
Theorem C12_escape_roundtrip : forall m s, unesc (escape m s) = Some s.
Proof. exact unesc_escape. Qed.
Print Assumptions C12_escape_roundtrip.

(* non-vacuity / end to end on strings: the URL handed to the loader is the RFC resolution *)
Example C12_example :
  map (fun r => normalize_uri (s2l r) (s2l "file:///r/a/root.json"))
      ["../b/./c.json#/definitions/x"; "/z/../y.json"; "#/definitions/t"; ""; "http://o/x.json#/y"; "%20x/../../../../g"]%string
  = map (fun r => rfc_resolve_str (s2l r) (s2l "file:///r/a/root.json"))
      ["../b/./c.json#/definitions/x"; "/z/../y.json"; "#/definitions/t"; ""; "http://o/x.json#/y"; "%20x/../../../../g"]%string.
Proof. vm_compute. reflexivity. Qed.

(* the one in-scope difference known on the unchanged tree (finding F12): an escape decoding to "/" *)
Example C12_refuted_escaped_slash :
  normalize_uri (s2l "a%2Fb.json") (s2l "file:///r/root.json") = POk (s2l "file:///r/a/b.json")
  /\ rfc_resolve_str (s2l "a%2Fb.json") (s2l "file:///r/root.json") = POk (s2l "file:///r/a%2Fb.json").
Proof. vm_compute. split; reflexivity. Qed.
