(* C13 — Reference values canonicalise idempotently and survive JSON and gob.
   Model: Base/Url.v (jsonreference.New = url.Parse + NormalizeURL + flags; String = URL.String). *)
From Coq Require Import List String Ascii Bool Arith.
From Spec Require Import Base.Json Base.JsonRoundTrip Base.Url Base.UrlFacts Base.UrlText Codec.Types Codec.Codec Codec.RefFacts.
Import ListNotations.
Local Open Scope char_scope.

(* canonicalisation (lower-case scheme and host, default port and duplicate slashes removed, raw
   forms dropped) is idempotent on every parsed URL whose authority is a host with at most one port *)
Theorem C13_idempotent : forall u, one_port (map lower (u_host u)) = true ->
  normalize_url (normalize_url u) = normalize_url u.
Proof. exact normalize_url_idem. Qed.
Print Assumptions C13_idempotent.

(* the five flags, IsCanonical and IsRoot are functions of the canonical URL *)
Theorem C13_flags : forall u u', normalize_url u = normalize_url u' -> ref_of_url u = ref_of_url u'.
Proof. exact flags_function. Qed.
Print Assumptions C13_flags.

Theorem C13_reference_idempotent : forall u, one_port (map lower (u_host u)) = true ->
  ref_of_url (r_url (ref_of_url u)) = ref_of_url u.
Proof. exact ref_of_url_idem. Qed.
Print Assumptions C13_reference_idempotent.

(* escapes are normalised consistently: what is printed for a path/fragment reads back as the same text *)
Theorem C13_escape_roundtrip : forall m s, unesc (escape m s) = Some s.
Proof. exact unesc_escape. Qed.
Print Assumptions C13_escape_roundtrip.

(* ---- on TEXTS, unbounded (Base/UrlText.v) ----
   [wf_plain] is the class of URLs whose components need no percent escape: letters, digits, - _ . ~ everywhere, "/" in
   paths and fragments (so every JSON pointer without a "%"), "=" "&" "/" in queries; scheme://host/path, //host/path,
   scheme:/path, scheme:///path, absolute and relative paths, with or without query and fragment; any length. *)

(* printing a plain URL and parsing the print gives the URL back, field for field (net/url's Parse and String as modelled) *)
Theorem C13_parse_print : forall u, wf_plain u = true -> parse_url (print_url u) = POk u.
Proof. exact parse_print_plain. Qed.
Print Assumptions C13_parse_print.

(* "a reference prints to a string that parses back to an equal reference": whatever the spelling the reference was read
   from (scheme and host in any case, default port, duplicate slashes), if its canonical form is plain then the canonical
   text parses back to the very same reference - URL, the five flags and all *)
Theorem C13_text_roundtrip : forall s u, parse_url s = POk u ->
  one_port (map lower (u_host u)) = true -> wf_plain (normalize_url u) = true ->
  new_ref s = POk (ref_of_url u) /\ new_ref (ref_string (ref_of_url u)) = POk (ref_of_url u).
Proof. exact text_canonicalisation_idempotent. Qed.
Print Assumptions C13_text_roundtrip.

(* "its classification ... is a function of that canonical text": two references with the same canonical text are equal,
   flags included *)
Theorem C13_flags_function_of_text : forall u1 u2,
  one_port (map lower (u_host u1)) = true -> wf_plain (normalize_url u1) = true ->
  one_port (map lower (u_host u2)) = true -> wf_plain (normalize_url u2) = true ->
  ref_string (ref_of_url u1) = ref_string (ref_of_url u2) -> ref_of_url u1 = ref_of_url u2.
Proof. exact flags_function_of_text. Qed.
Print Assumptions C13_flags_function_of_text.

(* "its JSON and gob encodings decode to an equal reference": in the codec model (G = false: JSON; G = true: through gob),
   the object {"$ref": canonical text} decodes and re-encodes to itself, as a Ref and as the Refable part of any kind;
   "an empty reference encodes as an empty object" *)
Theorem C13_codec_roundtrip : forall E G u k, k = "Ref"%string \/ k = "Refable"%string ->
  one_port (map lower (u_host u)) = true -> wf_plain (normalize_url u) = true ->
  norm E G (ref_obj (ref_string (ref_of_url u))) (TNamed k) = ROk (ref_obj (ref_string (ref_of_url u))).
Proof. exact ref_codec_roundtrip. Qed.
Print Assumptions C13_codec_roundtrip.

Theorem C13_codec_unset : forall E G k, k = "Ref"%string \/ k = "Refable"%string ->
  norm E G (JObj []) (TNamed k) = ROk (JObj []).
Proof. exact ref_codec_unset. Qed.
Print Assumptions C13_codec_unset.

(* the hypotheses are met by a spelling with an upper-case scheme and host, the default port and duplicate slashes *)
Example C13_text_example :
  match parse_url (s2l "HTTP://Host.Example.COM:80//a//b-c/d.json?x=1&y=2#/definitions/a~1b") with
  | POk u => one_port (map lower (u_host u)) = true /\ wf_plain (normalize_url u) = true
             /\ ref_string (ref_of_url u) = s2l "http://host.example.com/a/b-c/d.json?x=1&y=2#/definitions/a~1b"
  | _ => False
  end.
Proof. exact text_example. Qed.

(* non-vacuity on strings: print . parse is a fixed point after one step, with the flags unchanged *)
Example C13_example :
  match new_ref (s2l "HTTP://Host.Example.COM:80//a//B%7ex#/definitions/a~1b") with
  | POk r => ref_string r = s2l "http://host.example.com/a/B~x#/definitions/a~1b"
             /\ new_ref (ref_string r) = POk r
  | _ => False
  end.
Proof. vm_compute. split; reflexivity. Qed.

(* The text of the encoding.  A reference is written as an object with the one member `$ref` holding its canonical text; whatever
   that text contains - quotes or backslashes in a query or an opaque part, control characters, bytes above 127 - the JSON text the
   model writes for it is read back as that very object (Base/JsonRoundTrip.v): the string escapes are the ones a reader undoes. *)
Theorem C13_reference_text_is_escaped_reversibly : forall s,
  parse_json (print_json (JObj [("$ref"%string, JStr s)])) = Some (JObj [("$ref"%string, JStr s)]).
Proof. intros s. apply parse_print_exact. cbn. tauto. Qed.
Print Assumptions C13_reference_text_is_escaped_reversibly.
Example C13_reference_text_example :
  print_json (JObj [("$ref"%string, JStr "doc.json?filter=""pet""&dir=a\b#/x"%string)]) = "{""$ref"":""doc.json?filter=\""pet\""&dir=a\\b#/x""}"%string.
Proof. vm_compute. reflexivity. Qed.
