(* C13 — Reference values canonicalise idempotently and survive JSON and gob.
   Model: Base/Url.v (jsonreference.New = url.Parse + NormalizeURL + flags; String = URL.String). *)
From Coq Require Import List String Ascii Bool Arith.
From Spec Require Import Base.Json Base.Url Base.UrlFacts.
Import ListNotations.
Local Open Scope char_scope.

(* canonicalisation (lower-case scheme and host, default port and duplicate slashes removed, raw
   forms dropped) is idempotent on every parsed URL whose authority is a host with at most one port *)
Theorem C13_idempotent : forall u, one_port (map lower (u_host u)) = true ->
  normalize_url (normalize_url u) = normalize_url u.
Proof. exact normalize_url_idem. Qed.
Print Assumptions C13_idempotent.

(* the five flags, IsCanonical and IsRoot are functions of the canonical URL *)
Theorem C13_flags : forall u u', normalize_url u = normalize_url u' -> ref_of_url u = ref_of_url u'.
Proof. exact flags_function. Qed.
Print Assumptions C13_flags.

Theorem C13_reference_idempotent : forall u, one_port (map lower (u_host u)) = true ->
  ref_of_url (r_url (ref_of_url u)) = ref_of_url u.
Proof. exact ref_of_url_idem. Qed.
Print Assumptions C13_reference_idempotent.

(* escapes are normalised consistently: what is printed for a path/fragment reads back as the same text *)
Theorem C13_escape_roundtrip : forall m s, unesc (escape m s) = Some s.
Proof. exact unesc_escape. Qed.
Print Assumptions C13_escape_roundtrip.

(* non-vacuity on strings: print . parse is a fixed point after one step, with the flags unchanged *)
Example C13_example :
  match new_ref (s2l "HTTP://Host.Example.COM:80//a//B%7ex#/definitions/a~1b") with
  | POk r => ref_string r = s2l "http://host.example.com/a/B~x#/definitions/a~1b"
             /\ new_ref (ref_string r) = POk r
  | _ => False
  end.
Proof. vm_compute. split; reflexivity. Qed.
