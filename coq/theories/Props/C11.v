(* C11 — The root location may be spelled in any equivalent way.
   Statements about the model of normalizeBase / path.Clean (Base/Url.v); every proof is `exact`. *)
From Coq Require Import List String Ascii Bool Arith.
From Spec Require Import Base.Json Base.Url Base.UrlFacts Base.UrlText.
Import ListNotations.
Local Open Scope char_scope.

(* normalizeBase is "parse, then nb_rec, then print" *)
Theorem C11_shape : forall cwd inp u, parse_or_empty inp = POk u ->
  normalize_base cwd inp = POk (print_url (nb_rec cwd u)).
Proof. exact normalize_base_is_nb. Qed.
Print Assumptions C11_shape.

(* normalising an already canonical location changes nothing (on the parsed form) *)
Theorem C11_idempotent : forall cwd u, is_abs cwd = true ->
  (u_path u = [] \/ is_abs (u_path u) = true \/ u_scheme u = []) ->
  nb_rec cwd (nb_rec cwd u) = nb_rec cwd u.
Proof. exact nb_rec_idem. Qed.
Print Assumptions C11_idempotent.

(* the result is canonical: scheme present, no fragment, absolute cleaned path (or no path at all,
   for a bare `http://host`) *)
Theorem C11_canonical : forall cwd u, is_abs cwd = true ->
  (u_path u = [] \/ is_abs (u_path u) = true \/ u_scheme u = []) ->
  let v := nb_rec cwd u in
  u_scheme v <> [] /\ u_frag v = [] /\
  (u_path v = [] \/ (is_abs (u_path v) = true /\ clean (u_path v) = u_path v)).
Proof. exact nb_rec_canonical. Qed.
Print Assumptions C11_canonical.

(* a query (and a bare trailing "?") never survives on a local file, whichever way it is spelled *)
Theorem C11_file_no_query : forall cwd u,
  u_scheme (nb_rec cwd u) = s2l "file" -> u_query (nb_rec cwd u) = [] /\ u_forceq (nb_rec cwd u) = false.
Proof. exact nb_rec_file_no_query. Qed.
Print Assumptions C11_file_no_query.

(* the same on TEXTS, unbounded (Base/UrlText.v): the location normalizeBase returns is a fixed point of normalizeBase,
   character for character, whenever it needs no percent escape (letters, digits, - _ . ~ and "/" - any depth, any length) *)
Theorem C11_idempotent_on_text : forall cwd inp u, is_abs cwd = true -> parse_or_empty inp = POk u ->
  (u_path u = [] \/ is_abs (u_path u) = true \/ u_scheme u = []) ->
  wf_plain (nb_rec cwd u) = true ->
  exists t, normalize_base cwd inp = POk t /\ normalize_base cwd t = POk t.
Proof. exact normalize_base_text_idempotent. Qed.
Print Assumptions C11_idempotent_on_text.

Example C11_text_example :
  let cwd := s2l "/w/d" in
  match parse_or_empty (s2l "FILE:/r/./a/x/../root.json#/definitions/x") with
  | POk u => (u_path u = [] \/ is_abs (u_path u) = true \/ u_scheme u = []) /\ wf_plain (nb_rec cwd u) = true
             /\ print_url (nb_rec cwd u) = s2l "file:///r/a/root.json"
  | _ => False
  end.
Proof. exact normalize_base_text_example. Qed.

(* cleaning an absolute path is idempotent and keeps it absolute (strings) *)
Theorem C11_clean_idempotent : forall p, is_abs p = true -> clean (clean p) = clean p /\ is_abs (clean p) = true.
Proof. exact clean_abs_fix. Qed.
Print Assumptions C11_clean_idempotent.

(* the equivalent spellings of a path: a "." segment, an empty segment (doubled slash) or a
   "x/.." detour inserted at ANY position, under any prefix already processed, change nothing *)
Theorem C11_spelling_dot : forall rooted a b st,
  clean_segs rooted (a ++ dot :: b) st = clean_segs rooted (a ++ b) st.
Proof. exact insert_dot. Qed.
Print Assumptions C11_spelling_dot.
Theorem C11_spelling_double_slash : forall rooted a b st,
  clean_segs rooted (a ++ [] :: b) st = clean_segs rooted (a ++ b) st.
Proof. exact insert_empty. Qed.
Print Assumptions C11_spelling_double_slash.
Theorem C11_spelling_updown : forall rooted x a b st, proper x ->
  clean_segs rooted (a ++ x :: dotdot :: b) st = clean_segs rooted (a ++ b) st.
Proof. exact insert_updown. Qed.
Print Assumptions C11_spelling_updown.

(* non-vacuity, end to end on strings: five spellings of one location, one canonical URL *)
Example C11_example :
  let cwd := s2l "/w/d" in
  map (normalize_base cwd)
      [s2l "file:///r/a/root.json"; s2l "FILE:/r/./a/x/../root.json#/definitions/x"; s2l "/r//a/root.json";
       s2l "../../r/a/root.json"; s2l "/r/a/root.json?q=1"; s2l "file:///r/a/root.json?q=1"; s2l "file:/r/a/root.json?"]
  = repeat (POk (s2l "file:///r/a/root.json")) 7.
Proof. vm_compute. reflexivity. Qed.
