(* C06 — Encoding is well-formed, collision-free and deterministic. *)
From Coq Require Import List String Bool ZArith Permutation Sorted.
Local Open Scope Z_scope.
From Spec Require Import Base.Json Codec.Types Codec.Gen_Tables Codec.Codec Codec.CodecFacts.
Import ListNotations.
Local Open Scope string_scope.

(* Whatever order Go iterates a map in (the input list is any permutation of the map's entries), the
   encoder emits the same member sequence: keys sorted bytewise ... *)
Theorem C06_map_order_deterministic : forall l l', NoDup (map fst l) -> Permutation l l' ->
  sort_members l = sort_members l'.
Proof. exact sort_members_deterministic. Qed.
Print Assumptions C06_map_order_deterministic.

Theorem C06_map_sorted : forall l, NoDup (map fst l) ->
  StronglySorted mlt (sort_members l) /\ (forall x, In x (sort_members l) <-> In x l).
Proof. exact sort_members_sorted. Qed.
Print Assumptions C06_map_sorted.

(* ... and schema properties ordered by x-order (as Extensions.GetInt reads it: integers, numeric strings,
   floats truncated) and then by name: a sorted permutation, the same for every iteration order,
   ties, strings and non-integers included *)
Theorem C06_properties_ordered : forall l, NoDup (map fst l) ->
  Permutation l (order_items l) /\ StronglySorted (fun a b => item_less a b = true) (order_items l).
Proof. exact order_items_sorted. Qed.
Print Assumptions C06_properties_ordered.

Theorem C06_properties_deterministic : forall l l', NoDup (map fst l) -> Permutation l l' ->
  order_items l = order_items l'.
Proof. exact order_items_deterministic. Qed.
Print Assumptions C06_properties_deterministic.

(* the parts a kind concatenates never emit the same member name twice, and no struct field can be
   mistaken for (or collide with) a vendor extension — over the tables regenerated from /repo *)
Theorem C06_no_collision : names_ok gen_env = true.
Proof. exact names_gen. Qed.
Print Assumptions C06_no_collision.

(* non-vacuity: ties (1 and 1, 1 and 1.5, "1"), a non-integer string and an absent x-order *)
Example C06_example :
  map fst (order_items [("d", JObj [("x-order", JStr "x")]); ("b", JObj [("x-order", JNum 1 0)]); ("e", JObj []);
                        ("a", JObj [("x-order", JNum 15 (-1))]); ("c", JObj [("x-order", JStr "1")]); ("z", JObj [("x-order", JNum 0 0)])])
  = ["z"; "a"; "b"; "c"; "d"; "e"].
Proof. vm_compute. reflexivity. Qed.
