(* C06 — Encoding is well-formed, collision-free and deterministic. *)
From Coq Require Import List String Ascii Bool ZArith Permutation Sorted.
Local Open Scope Z_scope.
From Spec Require Import Base.Json Base.JsonText Base.JsonTree Base.JsonRoundTrip Codec.Types Codec.Gen_Tables Codec.Codec Codec.CodecFacts Codec.PayloadFacts.
Import ListNotations.
Local Open Scope string_scope.

(* Whatever order Go iterates a map in (the input list is any permutation of the map's entries), the
   encoder emits the same member sequence: keys sorted bytewise ... *)
Theorem C06_map_order_deterministic : forall l l', NoDup (map fst l) -> Permutation l l' ->
  sort_members l = sort_members l'.
Proof. exact sort_members_deterministic. Qed.
Print Assumptions C06_map_order_deterministic.

Theorem C06_map_sorted : forall l, NoDup (map fst l) ->
  StronglySorted mlt (sort_members l) /\ (forall x, In x (sort_members l) <-> In x l).
Proof. exact sort_members_sorted. Qed.
Print Assumptions C06_map_sorted.

(* ... and schema properties ordered by x-order (as Extensions.GetInt reads it: integers, numeric strings,
   floats truncated) and then by name: a sorted permutation, the same for every iteration order,
   ties, strings and non-integers included *)
Theorem C06_properties_ordered : forall l, NoDup (map fst l) ->
  Permutation l (order_items l) /\ StronglySorted (fun a b => item_less a b = true) (order_items l).
Proof. exact order_items_sorted. Qed.
Print Assumptions C06_properties_ordered.

Theorem C06_properties_deterministic : forall l l', NoDup (map fst l) -> Permutation l l' ->
  order_items l = order_items l'.
Proof. exact order_items_deterministic. Qed.
Print Assumptions C06_properties_deterministic.

(* the parts a kind concatenates never emit the same member name twice, and no struct field can be
   mistaken for (or collide with) a vendor extension — over the tables regenerated from /repo *)
Theorem C06_no_collision : names_ok gen_env = true.
Proof. exact names_gen. Qed.
Print Assumptions C06_no_collision.

(* non-vacuity: ties (1 and 1, 1 and 1.5, "1"), a non-integer string and an absent x-order *)
Example C06_example :
  map fst (order_items [("d", JObj [("x-order", JStr "x")]); ("b", JObj [("x-order", JNum 1 0)]); ("e", JObj []);
                        ("a", JObj [("x-order", JNum 15 (-1))]); ("c", JObj [("x-order", JStr "1")]); ("z", JObj [("x-order", JNum 0 0)])])
  = ["z"; "a"; "b"; "c"; "d"; "e"].
Proof. vm_compute. reflexivity. Qed.

(* ---------- free-form payloads, for every JSON value (Codec/PayloadFacts.v) ---------- *)
(* whatever JSON value stands at a free-form position (default, example, enum entries, extension values, unknown keywords),
   duplicates included, what the codec emits for it has, at every level of nesting, member names in strictly increasing
   order - hence no two members with one name - and it is a function of the value alone (a structural recursion) *)
Theorem C06_emitted_payloads_are_sorted_at_every_level : forall j, payload_nf (norm_any j).
Proof. exact norm_any_is_nf. Qed.
Print Assumptions C06_emitted_payloads_are_sorted_at_every_level.
Theorem C06_emitted_payloads_have_no_duplicate_names : forall j, nodup_names (norm_any j).
Proof. intros j. apply payload_nf_nodup. apply norm_any_is_nf. Qed.
Print Assumptions C06_emitted_payloads_have_no_duplicate_names.
(* every map is emitted sorted, whatever it holds (the NoDup premise of C06_map_sorted is not needed for sortedness) *)
Theorem C06_maps_are_emitted_sorted : forall l, StronglySorted mlt (sort_members l).
Proof. exact sort_members_is_sorted. Qed.
Print Assumptions C06_maps_are_emitted_sorted.

(* The text level.  The model's encodings are JSON trees; they leave the model as text through [print_json] and documents enter it
   through [parse_json] (Base/Json.v: the reader and the writer of the extracted model).  Whatever the tree - any member names, any
   strings: quotes, backslashes, control characters, bytes above 127 - the text written for it is read back as that very tree, the
   numbers in the one form the writer uses for them: every member name and every string is escaped in a way the reader undoes, no
   member is lost, merged or reordered, and the text is a complete JSON value (nothing is left over).  Unbounded: no limit on depth,
   width or length. *)
Theorem C06_emitted_text_reads_back_as_the_value : forall j, parse_json (print_json j) = Some (canon j).
Proof. exact parse_print. Qed.
Print Assumptions C06_emitted_text_reads_back_as_the_value.
Theorem C06_emitted_text_reads_back_exactly : forall j, nums_normal j -> parse_json (print_json j) = Some j.
Proof. exact parse_print_exact. Qed.
Print Assumptions C06_emitted_text_reads_back_exactly.
(* the same for one string, with anything after it: the closing quote found by the reader is the one the writer wrote *)
Theorem C06_every_string_is_escaped_reversibly : forall s rest,
  p_str (S (List.length (esc_chars (s2l s) ++ """"%char :: rest)%list)) (esc_chars (s2l s) ++ """"%char :: rest)%list [] = Some (s, rest).
Proof. exact quoted_string_reads_back. Qed.
Print Assumptions C06_every_string_is_escaped_reversibly.
Example C06_text_example :
  let j := JObj [("a\""b", JArr [JNum 100 0; JNum (-15) (-1); JStr "x\y"; JNull]); ("", JObj []); ("k", JBool true)] in
  parse_json (print_json j) = Some (canon j) /\ print_json j = "{""a\\\""b"":[1e2,-15e-1,""x\\y"",null],"""":{},""k"":true}".
Proof. exact parse_print_example. Qed.

(* The rendering a response takes when it carries a `$ref` (an alternative struct in Response.MarshalJSON, transcribed by hand and
   tied by the differential run) names every member of the response properties regenerated from the source: nothing a decoded
   response holds is without a place in the text (the defect F29 was a member - headers - declared there and never filled). *)
Theorem C06_reference_rendering_of_a_response_names_every_member :
  forallb (fun f => existsb (fun g => String.eqb (f_json g) (f_json f) && String.eqb (f_go g) (f_go f)) response_ref_fields)
          (fields_of gen_env "ResponseProps") = true
  /\ List.length response_ref_fields = List.length (fields_of gen_env "ResponseProps").
Proof. vm_compute. split; reflexivity. Qed.
Print Assumptions C06_reference_rendering_of_a_response_names_every_member.

(* ... and that transcription is tied to the source: the translator regenerates, for every MarshalJSON that encodes a literal of an
   anonymous struct type, the members the type declares and the members the literal fills.  Every declared member is filled (F29
   breaks exactly this), and the hand-written alternative renderings of Response and SecurityScheme declare the regenerated members,
   in the regenerated order. *)
Theorem C06_alternative_renderings_fill_every_member_they_declare :
  forallb (fun e => forallb (fun d => mem_str (fst d) (snd (snd e))) (fst (snd e))) gen_inline_structs = true.
Proof. vm_compute. reflexivity. Qed.
Print Assumptions C06_alternative_renderings_fill_every_member_they_declare.
Theorem C06_alternative_renderings_are_the_transcribed_ones :
  assoc "Response" gen_inline_structs <> None /\ assoc "SecurityScheme" gen_inline_structs <> None /\
  (forall d f, assoc "Response" gen_inline_structs = Some (d, f) -> d = map (fun g => (f_go g, f_json g)) response_ref_fields) /\
  (forall d f, assoc "SecurityScheme" gen_inline_structs = Some (d, f) -> d = map (fun g => (f_go g, f_json g)) secscheme_plain_fields).
Proof.
  split; [vm_compute; discriminate|]. split; [vm_compute; discriminate|].
  split; intros d f H; vm_compute in H; inversion H; reflexivity.
Qed.
Print Assumptions C06_alternative_renderings_are_the_transcribed_ones.
