(* C08 — Expansion never fails silently: bad $refs become errors or stay in place. *)
From Coq Require Import List String Bool.
From Spec Require Import Base.Json Base.Url Codec.Types Codec.Codec Expand.Expand Expand.ExpandFacts
  Expand.ExpandSim Expand.ExpandSimCheck Expand.ExpandCycle Expand.ExpandElem Expand.ExpandTermG Expand.ExpandComplete
  Expand.ExpandChain Expand.ExpandSpecSim Codec.Gen_Tables Codec.CodecFacts Expand.ExpandExample.
Import ListNotations.

(* strict mode: a schema reference that cannot be resolved — missing document, missing pointer target, a target
   that is a string, number, boolean or array — is an error of the reference's expansion, whatever the loader refuses *)
Theorem C08_strict : forall E docs cwd OP ctx_base live follow s parents rroot base m nref s1 sf,
  o_cont OP = false ->
  nuri (get_str "$ref" m) base = POk nref -> is_circular s nref parents = (s1, false) ->
  resolve E docs cwd live s1 rroot (get_str "$ref" m) base "Schema" = Failed sf ->
  expand_schema_ref E docs cwd OP ctx_base live follow s parents rroot base m = Failed sf.
Proof. exact esr_strict. Qed.
Print Assumptions C08_strict.

(* continue mode: no error, and the reference stays verbatim where it was (document or pointer missing) *)
Theorem C08_continue_verbatim : forall E docs cwd OP ctx_base live follow s parents rroot base m nref s1 sf,
  o_cont OP = true ->
  nuri (get_str "$ref" m) base = POk nref -> is_circular s nref parents = (s1, false) ->
  resolve E docs cwd live s1 rroot (get_str "$ref" m) base "Schema" = Failed sf -> dfail sf = false ->
  expand_schema_ref E docs cwd OP ctx_base live follow s parents rroot base m = Done (sf, JObj m).
Proof. exact esr_continue_verbatim. Qed.
Print Assumptions C08_continue_verbatim.

(* the traversal neither invents nor swallows errors: an error of the generic folds comes from one of the
   children they were applied to ... *)
Theorem C08_errors_come_from_children : forall W m s out sf, fold_members W m s out = Failed sf ->
  exists k v x s', In (k, v) m /\ child_of x v /\ W x s' = Failed sf.
Proof. exact fold_members_failed. Qed.
Print Assumptions C08_errors_come_from_children.

(* ... and an error of a reference's expansion comes from the follow of its target, from its resolution in strict
   mode, or from a URL that cannot be normalised *)
Theorem C08_error_origin : forall E docs cwd OP ctx_base live follow s parents rroot base m sf,
  expand_schema_ref E docs cwd OP ctx_base live follow s parents rroot base m = Failed sf ->
  (exists s' ps rr b t, follow s' ps rr b t = Failed sf)
  \/ (exists s1, resolve E docs cwd live s1 rroot (get_str "$ref" m) base "Schema" = Failed sf /\ o_cont OP = false)
  \/ nuri (get_str "$ref" m) base = PErr
  \/ (exists s1 nref, render_kept OP ctx_base s1 nref = PErr)
  \/ (exists s2, transitive s2 rroot base (get_str "$ref" m) = Failed sf).
Proof. exact esr_failed_origin. Qed.
Print Assumptions C08_error_origin.

(* ... and likewise when the target is found but is a string, number, boolean or array (or does not decode): the reference
   stays verbatim.  (On the pinned tree the holder became the empty schema - defect F22, repaired by the fix commit 2784181;
   the statement below was then `... = Done (_, JObj [])` under the name C08_refuted_illtyped_target.) *)
Theorem C08_continue_verbatim_illtyped : forall E docs cwd OP ctx_base live follow s parents rroot base m nref s1 sf,
  o_cont OP = true ->
  nuri (get_str "$ref" m) base = POk nref -> is_circular s nref parents = (s1, false) ->
  resolve E docs cwd live s1 rroot (get_str "$ref" m) base "Schema" = Failed sf -> dfail sf = true ->
  expand_schema_ref E docs cwd OP ctx_base live follow s parents rroot base m = Done (set_dfail sf false, JObj m).
Proof. exact esr_continue_illtyped. Qed.
Print Assumptions C08_continue_verbatim_illtyped.

(* ---------- no spurious error (Expand/ExpandComplete.v) ----------
   "... and returns no error when every $ref it has to follow is resolvable": on a graph in which every reference parses,
   normalises, designates an object of a served document that decodes, and renders, the schema expansion with fuel above
   the number of references of the graph returns a RESULT — from every state with a cache consistent with the loader,
   every stack without duplicates, every coherent resolver root, SkipSchemas/AbsoluteCircularRef on or off. *)
Theorem C08_no_spurious_error : forall E docs cwd OP ctx_base rid nodes live,
  check_nodes E docs cwd OP ctx_base rid nodes = true -> check_resolvable E docs cwd OP ctx_base rid nodes = true ->
  (forall lu ld, live = Some (lu, ld) -> doc_at docs cwd lu = Some ld) ->
  o_cont OP = false ->
  forall d s parents rroot base j,
    NoDup parents -> List.length (refs_of nodes) < d ->
    GN nodes base j -> Inv docs rid s -> Coh cwd rroot base ->
    exists s' j', exp E docs cwd OP ctx_base live d s parents rroot base j = Done (s', j').
Proof. exact checked_exp_succeeds. Qed.
Print Assumptions C08_no_spurious_error.

(* ---------- the whole of ExpandSpec (Expand/ExpandChain.v, ExpandSpecSim.v) ---------- *)
(* "... and returns no error when every $ref it has to follow is resolvable": on a checked graph in which every schema
   reference (check_resolvable) and every hop of every parameter / response / path-item chain (check_eresolvable)
   designates an object, ExpandSpec RETURNS A DOCUMENT - not an error, not an exhausted fuel, not a step outside the modelled
   fragment - from every consistent state (whatever the cache and the memo hold), for every fuel above the number of
   references of the schema graph and the length of the chains, with AbsoluteCircularRef on or off. *)
Local Open Scope string_scope.
Theorem C08_expand_spec_no_spurious_error : forall E docs cwd OP ctx_base rid nodes enodes bad0 ranks live,
  (forall lu ld, live = Some (lu, ld) -> doc_at docs cwd lu = Some ld) ->
  o_cont OP = false -> o_skip OP = false ->
  check_nodes E docs cwd OP ctx_base rid nodes = true -> check_enodes E docs cwd enodes nodes = true ->
  check_chains E docs cwd nodes enodes bad0 ranks = true -> check_pis enodes = true ->
  check_resolvable E docs cwd OP ctx_base rid nodes = true -> check_eresolvable E docs cwd enodes = true ->
  forall d root_url m s,
  List.length (refs_of nodes) < d -> forallb (fun kr => Nat.ltb (snd kr) (S d)) ranks = true ->
  check_root ctx_base nodes enodes bad0 m = true ->
  Inv2 E docs cwd rid (GN nodes) bad0 s -> Coh cwd (Some root_url) ctx_base ->
  exists s' out, expand_spec E docs cwd OP ctx_base live d root_url (JObj m) s = Done (s', out).
Proof.
  intros E docs cwd OP ctx_base rid nodes enodes bad0 ranks live Hlive Hstrict Hskip Hck Hcke Hckc Hckp Hres Heres d root_url m s Hlen Hranks Hroot Hs Hcoh.
  exact (checked_spec_total E docs cwd OP ctx_base rid nodes enodes bad0 ranks live Hlive Hstrict Hskip Hck Hcke Hckc Hckp d root_url m s Hres Heres Hlen Hranks Hroot Hs Hcoh).
Qed.
Print Assumptions C08_expand_spec_no_spurious_error.

(* non-vacuity: the two-document specification of ExpandExample.v - every hypothesis is decided true by computation; the
   theorem then gives the result for EVERY consistent state and both settings of AbsoluteCircularRef *)
Example C08_spec_example : forall abs s, Inv2 gen_env sp_docs "/" "" (GN sp_nodes) sp_bad0 s ->
  exists s' out, expand_spec gen_env sp_docs "/" (mkOpts false false abs) sp_root_url sp_live 12 sp_root_url (JObj sp_members) s = Done (s', out).
Proof.
  intros abs s Hs. set (OP := mkOpts false false abs).
  assert (Hck : check_nodes gen_env sp_docs "/" OP sp_root_url "" sp_nodes = true) by (destruct abs; vm_compute; reflexivity).
  assert (Hres : check_resolvable gen_env sp_docs "/" OP sp_root_url "" sp_nodes = true) by (destruct abs; vm_compute; reflexivity).
  assert (Hlive : forall lu ld, sp_live = Some (lu, ld) -> doc_at sp_docs "/" lu = Some ld) by (intros lu ld E; inversion E; subst; vm_compute; reflexivity).
  assert (Hcoh : Coh "/" (Some sp_root_url) sp_root_url) by (intros ru E; inversion E; subst; reflexivity).
  assert (Hcke : check_enodes gen_env sp_docs "/" sp_enodes sp_nodes = true) by (vm_compute; reflexivity).
  assert (Hckc : check_chains gen_env sp_docs "/" sp_nodes sp_enodes sp_bad0 sp_ranks = true) by (vm_compute; reflexivity).
  assert (Hckp : check_pis sp_enodes = true) by (vm_compute; reflexivity).
  assert (Heres : check_eresolvable gen_env sp_docs "/" sp_enodes = true) by (vm_compute; reflexivity).
  assert (Hlen : List.length (refs_of sp_nodes) < 12) by (vm_compute; repeat constructor).
  assert (Hranks : forallb (fun kr => Nat.ltb (snd kr) 13) sp_ranks = true) by (vm_compute; reflexivity).
  assert (Hroot : check_root sp_root_url sp_nodes sp_enodes sp_bad0 sp_members = true) by (vm_compute; reflexivity).
  exact (C08_expand_spec_no_spurious_error gen_env sp_docs "/" OP sp_root_url "" sp_nodes sp_enodes sp_bad0 sp_ranks sp_live Hlive eq_refl eq_refl
           Hck Hcke Hckc Hckp Hres Heres 12 sp_root_url sp_members s Hlen Hranks Hroot Hs Hcoh).
Qed.
