(* C08 — Expansion never fails silently: bad $refs become errors or stay in place. *)
From Coq Require Import List String Bool.
From Spec Require Import Base.Json Base.Url Codec.Types Codec.Codec Expand.Expand Expand.ExpandFacts
  Expand.ExpandSim Expand.ExpandSimCheck Expand.ExpandCycle Expand.ExpandElem Expand.ExpandTermG Expand.ExpandComplete.
Import ListNotations.

(* strict mode: a schema reference that cannot be resolved — missing document, missing pointer target, a target
   that is a string, number, boolean or array — is an error of the reference's expansion, whatever the loader refuses *)
Theorem C08_strict : forall E docs cwd OP ctx_base live follow s parents rroot base m nref s1 sf,
  o_cont OP = false ->
  nuri (get_str "$ref" m) base = POk nref -> is_circular s nref parents = (s1, false) ->
  resolve E docs cwd live s1 rroot (get_str "$ref" m) base "Schema" = Failed sf ->
  expand_schema_ref E docs cwd OP ctx_base live follow s parents rroot base m = Failed sf.
Proof. exact esr_strict. Qed.
Print Assumptions C08_strict.

(* continue mode: no error, and the reference stays verbatim where it was (document or pointer missing) *)
Theorem C08_continue_verbatim : forall E docs cwd OP ctx_base live follow s parents rroot base m nref s1 sf,
  o_cont OP = true ->
  nuri (get_str "$ref" m) base = POk nref -> is_circular s nref parents = (s1, false) ->
  resolve E docs cwd live s1 rroot (get_str "$ref" m) base "Schema" = Failed sf -> dfail sf = false ->
  expand_schema_ref E docs cwd OP ctx_base live follow s parents rroot base m = Done (sf, JObj m).
Proof. exact esr_continue_verbatim. Qed.
Print Assumptions C08_continue_verbatim.

(* the traversal neither invents nor swallows errors: an error of the generic folds comes from one of the
   children they were applied to ... *)
Theorem C08_errors_come_from_children : forall W m s out sf, fold_members W m s out = Failed sf ->
  exists k v x s', In (k, v) m /\ child_of x v /\ W x s' = Failed sf.
Proof. exact fold_members_failed. Qed.
Print Assumptions C08_errors_come_from_children.

(* ... and an error of a reference's expansion comes from the follow of its target, from its resolution in strict
   mode, or from a URL that cannot be normalised *)
Theorem C08_error_origin : forall E docs cwd OP ctx_base live follow s parents rroot base m sf,
  expand_schema_ref E docs cwd OP ctx_base live follow s parents rroot base m = Failed sf ->
  (exists s' ps rr b t, follow s' ps rr b t = Failed sf)
  \/ (exists s1, resolve E docs cwd live s1 rroot (get_str "$ref" m) base "Schema" = Failed sf /\ o_cont OP = false)
  \/ nuri (get_str "$ref" m) base = PErr
  \/ (exists s1 nref, render_kept OP ctx_base s1 nref = PErr)
  \/ (exists s2, transitive s2 rroot base (get_str "$ref" m) = Failed sf).
Proof. exact esr_failed_origin. Qed.
Print Assumptions C08_error_origin.

(* Known finding on the current tree (F22), as the model transcribes it: in continue mode an ill-typed target does NOT
   leave the reference verbatim — the holder becomes the empty schema *)
Theorem C08_refuted_illtyped_target : forall E docs cwd OP ctx_base live follow s parents rroot base m nref s1 sf,
  o_cont OP = true ->
  nuri (get_str "$ref" m) base = POk nref -> is_circular s nref parents = (s1, false) ->
  resolve E docs cwd live s1 rroot (get_str "$ref" m) base "Schema" = Failed sf -> dfail sf = true ->
  expand_schema_ref E docs cwd OP ctx_base live follow s parents rroot base m = Done (set_dfail sf false, JObj []).
Proof. exact esr_continue_illtyped. Qed.
Print Assumptions C08_refuted_illtyped_target.

(* ---------- no spurious error (Expand/ExpandComplete.v) ----------
   "... and returns no error when every $ref it has to follow is resolvable": on a graph in which every reference parses,
   normalises, designates an object of a served document that decodes, and renders, the schema expansion with fuel above
   the number of references of the graph returns a RESULT — from every state with a cache consistent with the loader,
   every stack without duplicates, every coherent resolver root, SkipSchemas/AbsoluteCircularRef on or off. *)
Theorem C08_no_spurious_error : forall E docs cwd OP ctx_base rid nodes live,
  check_nodes E docs cwd OP ctx_base rid nodes = true -> check_resolvable E docs cwd OP ctx_base rid nodes = true ->
  (forall lu ld, live = Some (lu, ld) -> doc_at docs cwd lu = Some ld) ->
  o_cont OP = false ->
  forall d s parents rroot base j,
    NoDup parents -> List.length (refs_of nodes) < d ->
    GN nodes base j -> Inv docs rid s -> Coh cwd rroot base ->
    exists s' j', exp E docs cwd OP ctx_base live d s parents rroot base j = Done (s', j').
Proof. exact checked_exp_succeeds. Qed.
Print Assumptions C08_no_spurious_error.
