(* C17 — Concurrent use on independent data is race-free with sequential answers.
   What a theorem can carry here is the logical half: with Get/Set atomic (the RWMutex), every interleaving gives every
   goroutine its solo answers.  Atomicity itself — the absence of data races — is a property of Go's memory model; it is
   supported by the lock-discipline obligation below and by the -race stress run of the check (DESIGN.md, partial). *)
From Coq Require Import List String Bool.
From Spec Require Import Base.Json Cache.Gen_Globals Cache.CacheSM.
Import ListNotations.

(* lock discipline of simpleCache, from the source: in Get and Set every access to the store lies between a lock and its
   unlock, writes under the exclusive lock, nothing deferred; the one unlocked len() is in ShallowClone only *)
Theorem C17_lock_discipline : cache_ok gen_cache_methods = true.
Proof. exact lock_discipline. Qed.
Print Assumptions C17_lock_discipline.

(* any number of goroutines, any programs (the next request may depend on everything obtained so far), any schedule:
   sharing one cache that is consistent with what the loader serves, each goroutine obtains exactly the documents it
   obtains running alone, and the cache stays consistent *)
Theorem C17_shared_cache_transparent : forall doc (docs : string -> option doc) sched c ts,
  consistent doc docs c ->
  consistent doc docs (fst (run_sched doc docs sched c ts)) /\
  forall i t, nth_error ts i = Some t ->
    nth_error (snd (run_sched doc docs sched c ts)) i = Some (iter_solo doc docs (count_occ_nat sched i) t).
Proof. exact interleaving_transparent. Qed.
Print Assumptions C17_shared_cache_transparent.

(* no package-level state is written by the entry points (so goroutines on distinct data share nothing writable) *)
Theorem C17_no_shared_writable_state : globals_ok gen_globals = true.
Proof. exact globals_discipline. Qed.
Print Assumptions C17_no_shared_writable_state.
